// Deterministic probes that need the live twins or a dedicated subprocess:
// empty command names inside a packet, inline commands ended by a bare LF,
// memory per distinct command name.
package c16

import (
	"bytes"
	"fmt"
	"net"
	"os"
	"strconv"
	"strings"
	"sync"
	"sync/atomic"
	"syscall"
	"testing"
	"time"

	"github.com/tidwall/tile38/verif/harness/ev"
	"github.com/tidwall/tile38/verif/harness/t38"
)

const emptyCommandID = "empty-command-drops-packet"

// rawExchange writes `first` in one segment, gives the server up to `settle`
// to answer `expectFirst` RESP replies (never a verdict), writes `final`
// (which ends in QUIT) and returns every byte received until EOF together with
// the number of replies that had arrived before `final` was sent.
func rawExchange(addr string, first []byte, expectFirst int, settle time.Duration, final []byte) (raw []byte, before int, problem string) {
	rc, err := dialRaw(addr)
	if err != nil {
		return nil, 0, "harness:dial: " + err.Error()
	}
	defer rc.c.Close()
	if _, err := rc.c.Write(first); err != nil {
		return nil, 0, "closed:write: " + err.Error()
	}
	deadline := time.Now().Add(settle)
	for time.Now().Before(deadline) {
		rc.mu.Lock()
		b := append([]byte(nil), rc.buf...)
		rc.mu.Unlock()
		vs, _ := t38.ParseAll(b)
		before = len(vs)
		if before >= expectFirst {
			break
		}
		time.Sleep(5 * time.Millisecond)
	}
	if _, err := rc.c.Write(final); err != nil {
		return nil, before, "closed:write of the final segment: " + err.Error()
	}
	if _, p := rc.awaitEOF(); p != "" {
		rc.mu.Lock()
		raw = append([]byte(nil), rc.buf...)
		rc.mu.Unlock()
		return raw, before, p
	}
	rc.mu.Lock()
	raw = append([]byte(nil), rc.buf...)
	rc.mu.Unlock()
	return raw, before, ""
}

func TestC16_LiveProbes(t *testing.T) {
	twins(t)
	c := ev.New("C16", "live-probes", "exploration")
	t.Cleanup(c.Flush)
	c.Rule("deterministic inputs on the in-process server. (1) " + emptyCommandID + ": `PING a`, an empty command name (`*1 $0`, `*2 $0 $1 x`, or `\"\"` on a telnet line) and `PING b` in ONE segment, then `PING zz` + QUIT in a second one: all bytes until EOF must be exactly five RESP replies: a, an error, b, zz, +OK (RESP and JSON output). (2) " + inlineLFID + ": `PING\\n` / `GET k i\\n` on one connection while `ping\\n` on a second connection is answered: the reply must arrive without a later CRLF (2 s, confirmed by the reply being released by a following CRLF).")
	finalSeg := append(encRESP([]string{"PING", "zz"}), encRESP([]string{"QUIT"})...)
	// (1) empty command names
	for _, v := range []struct {
		name  string
		empty []byte
		json  bool
	}{
		{"resp *1 $0", []byte("*1\r\n$0\r\n\r\n"), false},
		{"resp *2 $0 $1", []byte("*2\r\n$0\r\n\r\n$1\r\nx\r\n"), false},
		{"telnet \"\"", []byte("\"\"\r\n"), false},
		{"resp *1 $0, JSON output", []byte("*1\r\n$0\r\n\r\n"), true},
	} {
		c.Case()
		var first []byte
		n := 3
		if v.json {
			first = append(first, encRESP([]string{"OUTPUT", "json"})...)
			n = 4
		}
		first = append(first, encRESP([]string{"PING", "a"})...)
		first = append(first, v.empty...)
		first = append(first, encRESP([]string{"PING", "b"})...)
		raw, before, p := rawExchange(twinB.Addr, first, n, 2*time.Second, finalSeg)
		if strings.HasPrefix(p, "harness:") {
			t.Fatalf("%s", p)
		}
		vals, perr := t38.ParseAll(raw)
		problem := ""
		off := n - 3
		switch {
		case p != "":
			problem = p
		case perr != nil:
			problem = fmt.Sprintf("the reply stream is not RESP: %v", perr)
		case len(vals) != n+1 && !(v.json && len(vals) == n+1):
			problem = fmt.Sprintf("%d replies for %d commands", len(vals), n+2)
		}
		wantLen := n + 2 // + PING zz + QUIT(+OK in RESP mode)
		if v.json {
			wantLen = n + 1 // QUIT is not answered in JSON mode (impl-mirrored)
		}
		if problem == "" || strings.HasSuffix(problem, "commands") {
			problem = ""
			switch {
			case len(vals) != wantLen:
				problem = fmt.Sprintf("%d replies, expected %d", len(vals), wantLen)
			case !strings.Contains(vals[off].String(), "a") || !strings.Contains(vals[off+2].String(), "b") || !strings.Contains(vals[off+3].String(), "zz"):
				problem = "replies out of order"
			case !v.json && !vals[off+1].IsErr():
				problem = "the empty command name was not answered with an error: " + vals[off+1].String()
			case v.json && !strings.Contains(vals[off+1].Str, `"ok":false`):
				problem = "the empty command name was not answered with an error: " + vals[off+1].String()
			}
		}
		if problem != "" {
			what := fmt.Sprintf("%s between `PING a` and `PING b` in one segment (%d replies had arrived before the next segment): %s; received %s", v.name, before, problem, clip(strconv.QuoteToASCII(string(raw)), 300))
			if ev.KnownActive(emptyCommandID) {
				c.Known(emptyCommandID, what)
			} else {
				c.Violation(emptyCommandID, what, map[string]any{"first_segment": string(first), "final_segment": string(finalSeg)})
				t.Errorf("VIOLATION-CANDIDATE key=%s: %s", emptyCommandID, what)
			}
			c.Label("probe-reproduces:" + emptyCommandID)
			break
		}
		c.Label("probe-ok:" + emptyCommandID)
		c.NonTrivial("empty:" + v.name)
	}
	// (2) inline commands ended by a bare LF whose first letter is G, P or O
	prepTwin(ctlB, nil)
	for _, line := range []string{"PING\n", "GET k i\n", "OUTPUT\n"} {
		c.Case()
		rc, err := dialRaw(twinB.Addr)
		if err != nil {
			t.Fatalf("harness: %v", err)
		}
		ctrl, err := dialRaw(twinB.Addr)
		if err != nil {
			t.Fatalf("harness: %v", err)
		}
		rc.c.Write([]byte(line))
		ctrl.c.Write([]byte("ping\n"))
		kinds := []replyKind{rkRESP, rkRESP, rkRESP}
		old := hangBudget
		hangBudget = 2 * time.Second
		ctrlProblem := ctrl.await(kinds, 1)
		lineProblem := rc.await(kinds, 1)
		hangBudget = old
		switch {
		case ctrlProblem != "":
			c.Inconclusive("inline-LF probe: the control `ping\\n` was not answered within 2 s (%s); machine too busy", ctrlProblem)
		case lineProblem == "":
			c.Label("probe-ok:" + inlineLFID)
			c.NonTrivial("inline-lf:" + line)
		default:
			// released by a CRLF?
			rc.c.Write([]byte("\r\n"))
			released := rc.await(kinds, 1) == ""
			what := fmt.Sprintf("%q sent alone got no reply within 2 s while `ping\\n` on a second connection was answered at once; released by a following CRLF: %v. readNextCommand's HTTP sniffing (first byte G, P or O) waits for a CRLF-terminated line before it lets the telnet framer see the LF-terminated command", line, released)
			if ev.KnownActive(inlineLFID) {
				c.Known(inlineLFID, what)
			} else {
				c.Violation(inlineLFID, what, map[string]any{"line": line})
				t.Errorf("VIOLATION-CANDIDATE key=%s: %s", inlineLFID, what)
			}
			c.Label("probe-reproduces:" + inlineLFID)
		}
		rc.c.Close()
		ctrl.c.Close()
		if t.Failed() || c == nil {
			break
		}
		if lineProblem != "" {
			break // one sighting is enough, each costs 2 s
		}
	}
}

// ---- memory per distinct command name ---------------------------------------------------

const metricsLabelID = "metrics-label-per-command-name"

func rssBytes(pid int) int64 {
	b, err := os.ReadFile(fmt.Sprintf("/proc/%d/statm", pid))
	if err != nil {
		return -1
	}
	f := strings.Fields(string(b))
	if len(f) < 2 {
		return -1
	}
	pages, _ := strconv.ParseInt(f[1], 10, 64)
	return pages * int64(os.Getpagesize())
}

// floodNames sends n distinct unknown command names pipelined and reads all
// replies; it returns the number of reply lines.
func floodNames(addr string, n int, name func(i int) []string) (int, error) {
	c, err := net.DialTimeout("tcp", addr, 5*time.Second)
	if err != nil {
		return 0, err
	}
	defer c.Close()
	done := make(chan int, 1)
	go func() {
		buf := make([]byte, 1<<16)
		lines := 0
		for lines < n {
			c.SetReadDeadline(time.Now().Add(60 * time.Second))
			k, err := c.Read(buf)
			lines += bytes.Count(buf[:k], []byte("\n"))
			if err != nil {
				break
			}
		}
		done <- lines
	}()
	var b []byte
	for i := 0; i < n; i++ {
		b = append(b, encRESP(name(i))...)
		if len(b) > 60000 || i == n-1 {
			c.SetWriteDeadline(time.Now().Add(60 * time.Second))
			if _, err := c.Write(b); err != nil {
				return 0, err
			}
			b = b[:0]
		}
	}
	return <-done, nil
}

func TestC16_MemoryPerName(t *testing.T) {
	c := ev.New("C16", "memory-per-name", "exploration")
	t.Cleanup(c.Flush)
	const n = 100000
	const boundMB = 100
	c.Rule(fmt.Sprintf("subprocess server: %d distinct unknown command names (one-word, mixed case, some with arguments) pipelined on one connection, then `CONFIG SET requirepass` and another %d distinct names from an UNAUTHENTICATED connection; resident set size from /proc/<pid>/statm after a server-side GC before and after each phase. Bound: each phase may grow the process by at most %d MB (the repaired code grows by ~0; one prometheus label per name cost ~7 KB each = ~700 MB per phase). Every name must be answered with an error.", n, n, boundMB))
	g := newGuard(t, c)
	defer g.stop()
	m := pidRE.FindStringSubmatch(g.p.Stderr.String())
	if m == nil {
		t.Fatalf("harness: no PID in the server banner")
	}
	pid, _ := strconv.Atoi(m[1])
	settle := func() int64 {
		g.ctl.Do("GC")
		time.Sleep(50 * time.Millisecond)
		return rssBytes(pid)
	}
	phases := []struct {
		name  string
		setup func()
		mk    func(i int) []string
	}{
		{"unknown names on an open server", func() {}, func(i int) []string {
			switch i % 4 {
			case 0:
				return []string{fmt.Sprintf("xq%06d", i)}
			case 1:
				return []string{fmt.Sprintf("Xq%06dZ", i), "arg"}
			case 2:
				return []string{fmt.Sprintf("k%06d:%s", i, strings.Repeat("n", i%40))}
			default:
				return []string{fmt.Sprintf("%06dset", i), "k1", "a"}
			}
		}},
		{"unknown names from an unauthenticated connection (requirepass set)", func() {
			g.ctl.Do("CONFIG", "SET", "requirepass", "pw")
			g.ctl.Do("AUTH", "pw")
			g.readonly = true // the bystander is not authenticated: no write step
		}, func(i int) []string { return []string{fmt.Sprintf("una%06d", i)} }},
	}
	httpNames := ev.Pick(15000, 30000)
	for pi, ph := range phases {
		c.Case()
		ph.setup()
		before := settle()
		n := n
		if pi == 1 {
			n = ev.Pick(50000, 100000)
		}
		lines, err := floodNames(g.p.Addr, n, ph.mk)
		if lines < n {
			// a dying process keeps its sockets for a moment
			for i := 0; i < 100 && g.p.Alive() && !panicLineRE.MatchString(g.p.Stderr.String()); i++ {
				time.Sleep(50 * time.Millisecond)
			}
		}
		if err != nil || !g.p.Alive() || panicLineRE.MatchString(g.p.Stderr.String()) {
			vd := g.diagnose("bystander-disconnected: flood: " + fmt.Sprint(err))
			what := fmt.Sprintf("%s: the server did not survive %d distinct command names (%d answered, 4 GB address-space limit): %s at %s", ph.name, n, lines, vd.panicLine, vd.frame)
			c.Violation(metricsLabelID, what, map[string]any{"phase": ph.name, "names": n})
			t.Errorf("VIOLATION-CANDIDATE key=%s: %s", metricsLabelID, what)
			return
		}
		after := settle()
		grow := (after - before) >> 20
		c.Note("%s: %d names, %d reply lines, RSS %d MB -> %d MB", ph.name, n, lines, before>>20, after>>20)
		c.Label("phase:" + ph.name)
		if lines < n {
			what := fmt.Sprintf("%s: %d reply lines for %d commands", ph.name, lines, n)
			c.Violation("reply-count:flood", what, map[string]any{"phase": ph.name})
			t.Errorf("VIOLATION-CANDIDATE key=reply-count:flood: %s", what)
		}
		if before < 0 || after < 0 {
			c.Inconclusive("cannot read /proc/%d/statm", pid)
			continue
		}
		if grow > boundMB {
			what := fmt.Sprintf("%s: %d distinct command names grew the resident set from %d MB to %d MB (+%d MB, bound %d MB): state is kept per command NAME sent by the client (prometheus label in handleInputCommand) and never freed", ph.name, n, before>>20, after>>20, grow, boundMB)
			if ev.KnownActive(metricsLabelID) {
				c.Known(metricsLabelID, what)
			} else {
				c.Violation(metricsLabelID, what, map[string]any{"phase": ph.name, "names": n, "rss_before": before, "rss_after": after})
				t.Errorf("VIOLATION-CANDIDATE key=%s: %s", metricsLabelID, what)
			}
			return
		}
		c.NonTrivial(ph.name)
	}
	// phase 3: requirepass is set; HTTP requests GET /<new word> with a wrong Authorization header
	{
		c.Case()
		name := "refused HTTP requests (wrong Authorization) for distinct command names"
		before := settle()
		var wg sync.WaitGroup
		var answered int64
		for w := 0; w < 8; w++ {
			wg.Add(1)
			go func(w int) {
				defer wg.Done()
				buf := make([]byte, 4096)
				for i := w; i < httpNames; i += 8 {
					cn, err := net.DialTimeout("tcp", g.p.Addr, 5*time.Second)
					if err != nil {
						return
					}
					cn.SetDeadline(time.Now().Add(20 * time.Second))
					fmt.Fprintf(cn, "GET /hw%06d+x HTTP/1.1\r\nHost: x\r\nAuthorization: wrong\r\n\r\n", i)
					if n, _ := cn.Read(buf); n > 0 && strings.HasPrefix(string(buf[:n]), "HTTP/1.1 ") {
						atomic.AddInt64(&answered, 1)
					}
					cn.Close()
				}
			}(w)
		}
		wg.Wait()
		after := settle()
		grow := (after - before) >> 20
		c.Note("%s: %d requests, %d answered, RSS %d MB -> %d MB", name, httpNames, answered, before>>20, after>>20)
		c.Label("phase:" + name)
		switch {
		case !g.p.Alive():
			vd := g.diagnose("bystander-disconnected: HTTP flood")
			what := fmt.Sprintf("%s: the server did not survive %d requests: %s at %s", name, httpNames, vd.panicLine, vd.frame)
			c.Violation(metricsLabelID, what, map[string]any{"phase": name})
			t.Errorf("VIOLATION-CANDIDATE key=%s: %s", metricsLabelID, what)
		case int(answered) < httpNames*99/100:
			c.Inconclusive("%s: only %d of %d HTTP requests were answered (port exhaustion or load)", name, answered, httpNames)
		case before >= 0 && after >= 0 && grow > boundMB:
			what := fmt.Sprintf("%s: %d requests grew the resident set from %d MB to %d MB (+%d MB, bound %d MB): a metrics label per refused command name", name, httpNames, before>>20, after>>20, grow, boundMB)
			if ev.KnownActive(metricsLabelID) {
				c.Known(metricsLabelID, what)
			} else {
				c.Violation(metricsLabelID, what, map[string]any{"phase": name, "rss_before": before, "rss_after": after})
				t.Errorf("VIOLATION-CANDIDATE key=%s: %s", metricsLabelID, what)
			}
		default:
			c.NonTrivial(name)
		}
	}
}

// ---- a connection that stops reading ---------------------------------------------------

const monitorStallID = "monitor-stall-freezes-server"

// stalledKinds: ways to make the server owe a connection more output than its
// socket takes, while that connection never reads.
var stalledKinds = []struct {
	name  string
	quick bool
	start []string // sent by the stalled connection (one reply line is read)
}{
	{"MONITOR", true, []string{"MONITOR"}},
	{"SUBSCRIBE", true, []string{"SUBSCRIBE", "stall"}},
	{"PSUBSCRIBE", false, []string{"PSUBSCRIBE", "st*"}},
	{"NEARBY FENCE", false, []string{"NEARBY", "kstall", "FENCE", "POINT", "33", "-115", "100000"}},
	{"AOF 0", false, []string{"AOF", "0"}},
	{"pipelined GETs of a 60 KB value", true, nil},
}

func TestC16_StalledReader(t *testing.T) {
	c := ev.New("C16", "stalled-reader", "exploration")
	t.Cleanup(c.Flush)
	t.Cleanup(func() { drainExcluded(c) })
	c.Rule("subprocess server; connection M (SO_RCVBUF 4 KB) starts an output stream (MONITOR, SUBSCRIBE, PSUBSCRIBE, NEARBY ... FENCE, AOF 0, or 300 pipelined GETs of a 60 KB value), reads one line and NEVER reads again; connection W then sends 200 x SET kstall id<i> FIELD f <i> STRING <60000 bytes> (+ PUBLISH for the pub/sub kinds), each awaited; a third connection does GET; a healthy second MONITOR that does read must keep receiving lines. Oracle (C16: input on one connection never affects other connections): every one of W's commands is answered within the hang budget, the third connection's GET is answered, the healthy monitor saw W's commands, bystander PING/write/canary/metrics fine, process alive. Quick: MONITOR, SUBSCRIBE, pipelined GETs; thorough: all six. Non-trivial: every kind.")
	g := newGuard(t, c)
	defer g.stop()
	value := strings.Repeat("v", 60000)
	for _, k := range stalledKinds {
		if !k.quick && !ev.Thorough() {
			continue
		}
		c.Case()
		problem := func() string {
			m, err := net.DialTimeout("tcp", g.p.Addr, 5*time.Second)
			if err != nil {
				return "harness: " + err.Error()
			}
			defer m.Close()
			m.(*net.TCPConn).SetReadBuffer(4096)
			if k.start != nil {
				m.Write(encRESP(k.start))
				m.SetReadDeadline(time.Now().Add(10 * time.Second))
				one := make([]byte, 64)
				if n, _ := m.Read(one); n == 0 {
					return k.name + " was not acknowledged"
				}
			}
			healthy, err := t38.Dial(g.p.Addr)
			if err != nil {
				return "harness: " + err.Error()
			}
			defer healthy.Close()
			if v, err := healthy.Do("MONITOR"); err != nil || v.IsErr() {
				return fmt.Sprintf("second MONITOR refused: %v %v", v, err)
			}
			var seen int64
			go func() {
				buf := make([]byte, 1<<16)
				for {
					healthy.C.SetReadDeadline(time.Now().Add(60 * time.Second))
					n, err := healthy.C.Read(buf)
					atomic.AddInt64(&seen, int64(bytes.Count(buf[:n], []byte(" \"SET\" "))+bytes.Count(buf[:n], []byte("\"set\""))+n/60000))
					if err != nil {
						return
					}
				}
			}()
			w, err := t38.Dial(g.p.Addr)
			if err != nil {
				return "harness: " + err.Error()
			}
			defer w.Close()
			if k.start == nil {
				if v, err := w.Do("SET", "kstall", "big", "STRING", value); err != nil || v.IsErr() {
					return fmt.Sprintf("SET big: %v %v", v, err)
				}
				var b []byte
				for i := 0; i < 300; i++ {
					b = append(b, encRESP([]string{"GET", "kstall", "big"})...)
				}
				m.SetWriteDeadline(time.Now().Add(5 * time.Second))
				m.Write(b) // 18 MB of replies owed, none read
			}
			for i := 0; i < 200; i++ {
				w.Send("SET", "kstall", "id"+strconv.Itoa(i), "FIELD", "f", strconv.Itoa(i), "STRING", value)
				if v, err := w.RecvTimeout(hangBudget); err != nil || v.IsErr() {
					return fmt.Sprintf("SET no. %d of 200 on the writer connection: %v %v", i+1, v, err)
				}
				if strings.Contains(k.name, "SUBSCRIBE") {
					w.Send("PUBLISH", "stall", value)
					if _, err := w.RecvTimeout(hangBudget); err != nil {
						return fmt.Sprintf("PUBLISH no. %d of 200 on the writer connection: %v", i+1, err)
					}
				}
			}
			third, err := t38.Dial(g.p.Addr)
			if err != nil {
				return "harness: " + err.Error()
			}
			defer third.Close()
			if v, err := third.Do("GET", "kstall", "id199"); err != nil || v.IsErr() || len(v.Str) != 60000 {
				return fmt.Sprintf("GET on a third connection: %v", err)
			}
			for i := 0; i < 100 && atomic.LoadInt64(&seen) < 150; i++ {
				time.Sleep(20 * time.Millisecond)
			}
			if n := atomic.LoadInt64(&seen); n < 150 {
				return fmt.Sprintf("the healthy second MONITOR saw only about %d of the 200 SETs", n)
			}
			return ""
		}()
		if strings.HasPrefix(problem, "harness:") {
			t.Fatalf("%s", problem)
		}
		vd := g.check()
		c.Label("kind:" + k.name)
		if problem == "" && vd.crashID == "" && vd.bystander == "" && !vd.restart {
			c.NonTrivial(k.name)
			continue
		}
		detail := problem
		if vd.crashID != "" {
			detail += fmt.Sprintf("; process: %s at %s", vd.panicLine, vd.frame)
		}
		if vd.bystander != "" {
			detail += "; " + vd.bystander
		}
		what := fmt.Sprintf("a connection that started %s and never reads again: %s", k.name, detail)
		id := monitorStallID
		if k.name != "MONITOR" {
			id = "stalled-reader-affects-others:" + strings.ToLower(strings.Fields(k.name)[0])
		}
		if ev.KnownActive(id) {
			c.Known(id, what)
		} else {
			c.Violation(id, what, map[string]any{"kind": k.name})
			t.Errorf("VIOLATION-CANDIDATE key=%s: %s", id, what)
		}
		g.restart()
	}
}

// ---- shutdown while AOF clients come and go ------------------------------------------------

const shutdownRaceID = "crash-shutdown-aofconn-map-race"

// TestC16_ShutdownAOFConns is a regression guard, not a sensitivity proof: the
// old code (shutdown goroutine ranging over s.aofconnM without the lock while
// liveAOF adds/removes entries) dies only sometimes.
func TestC16_ShutdownAOFConns(t *testing.T) {
	c := ev.New("C16", "shutdown-aofconns", "exploration")
	t.Cleanup(c.Flush)
	t.Cleanup(func() { drainExcluded(c) })
	rounds := ev.Pick(3, 20)
	c.Rule(fmt.Sprintf("%d rounds: a subprocess server with 8 client goroutines that loop `connect, AOF 0, read a little, disconnect` gets SIGTERM after 100-200 ms; it must exit within 20 s without `fatal error` / `panic` in its output (the shutdown goroutine walks the map of AOF connections that liveAOF changes). Regression guard only: the race fires only sometimes.", rounds))
	g := newGuard(t, c)
	defer g.stop()
	for r := 0; r < rounds; r++ {
		c.Case()
		m := pidRE.FindStringSubmatch(g.p.Stderr.String())
		if m == nil {
			t.Fatalf("harness: no PID in the server banner")
		}
		pid, _ := strconv.Atoi(m[1])
		g.ctl.Do("SET", "k1", "a", "POINT", "1", "2")
		stop := make(chan struct{})
		var wg sync.WaitGroup
		var conns int64
		for w := 0; w < 8; w++ {
			wg.Add(1)
			go func() {
				defer wg.Done()
				buf := make([]byte, 4096)
				for {
					select {
					case <-stop:
						return
					default:
					}
					cn, err := net.DialTimeout("tcp", g.p.Addr, time.Second)
					if err != nil {
						time.Sleep(time.Millisecond)
						continue
					}
					atomic.AddInt64(&conns, 1)
					cn.SetDeadline(time.Now().Add(time.Second))
					cn.Write(encRESP([]string{"AOF", "0"}))
					cn.Read(buf)
					cn.Close()
				}
			}()
		}
		time.Sleep(time.Duration(100+r*5) * time.Millisecond)
		syscall.Kill(pid, syscall.SIGTERM)
		exited := false
		for i := 0; i < 800; i++ {
			if !g.p.Alive() {
				exited = true
				break
			}
			time.Sleep(25 * time.Millisecond)
		}
		close(stop)
		wg.Wait()
		out := g.p.Stderr.String()
		c.LabelN("aof-connections", int(atomic.LoadInt64(&conns)))
		problem := ""
		if loc := panicLineRE.FindStringIndex(out); loc != nil {
			problem = fmt.Sprintf("the server died during shutdown: %s at %s", out[loc[0]:loc[1]], topFrame(out[loc[0]:]))
		} else if !exited {
			problem = "the server did not exit within 20 s of SIGTERM"
		}
		if problem != "" {
			what := fmt.Sprintf("round %d: SIGTERM while 8 clients connect / AOF 0 / disconnect (%d connections so far): %s", r, conns, problem)
			if ev.KnownActive(shutdownRaceID) {
				c.Known(shutdownRaceID, what)
			} else {
				c.Violation(shutdownRaceID, what, map[string]any{"round": r, "output_tail": clip(out[max(0, len(out)-1500):], 1500)})
				t.Errorf("VIOLATION-CANDIDATE key=%s: %s", shutdownRaceID, what)
			}
			break
		}
		c.NonTrivial(fmt.Sprintf("round-%d", r))
		if err := g.restart(); err != nil {
			t.Fatalf("harness: restart: %v", err)
		}
	}
}

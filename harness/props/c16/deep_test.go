// "Megabytes of nesting in one argument": every argument position that reaches
// a recursive parser/validator/evaluator (tidwall/expr, gjson.Valid via
// field.ValueOf, geojson.Parse, sjson, the Lua compiler, encoding/json in the
// script library, the area-expression parser) gets ONE argument of 1-20 MB of
// nested brackets. A Go stack overflow is not recoverable: the whole process
// dies. Oracle: the command is answered, a following PING on the same
// connection is answered, the bystander is fine, the process is alive.
package c16

import (
	"fmt"
	"net"
	"os"
	"strconv"
	"strings"
	"testing"
	"time"

	"github.com/tidwall/tile38/verif/harness/ev"
	"github.com/tidwall/tile38/verif/harness/t38"
)

const deepNestingID = "crash-deep-nesting-argument"

type deepEntry struct {
	name  string
	quick bool
	// id of a separate (new, not yet decided) finding that this entry point
	// reproduces on the current tree ("" = none): reported under that id; once it
	// is listed as known the entry is run once with short waits as its probe
	gate  string
	only  int // run only at this size class (MB), 0 = the tier's sizes
	setup [][]string
	cmd   func(mb int) []string // the command with one huge argument (mb = size class in MB)
	http  func(mb int) []byte   // or a raw HTTP request
}

func rep(s string, n int) string { return strings.Repeat(s, n) }

func nestedArr(depth int) string { return rep("[", depth) + rep("]", depth) }

func deepEntries() []deepEntry {
	seedK := [][]string{{"SET", "k1", "a", "FIELD", "f", "3", "POINT", "33", "-115"}}
	pointWith := func(depth int) string {
		return `{"type":"Point","coordinates":[1,2],"x":` + nestedArr(depth) + `}`
	}
	return []deepEntry{
		{name: "SCAN WHERE ternary chain (tidwall/expr)", quick: true, setup: seedK, cmd: func(mb int) []string {
			return []string{"SCAN", "k1", "WHERE", rep("0?1:", mb*1000000/4) + "1", "IDS"}
		}},
		{name: "SCAN WHERE f == nested brackets (field.ValueOf)", quick: true, setup: seedK, cmd: func(mb int) []string {
			return []string{"SCAN", "k1", "WHERE", "f == " + nestedArr(mb*500000), "IDS"}
		}},
		{name: "SCAN WHERE parentheses just under the expression limit", gate: "hang-where-nested-parens", only: 12, setup: seedK, cmd: func(mb int) []string {
			return []string{"SCAN", "k1", "WHERE", rep("(", 500000) + "1" + rep(")", 500000), "IDS"}
		}},
		{name: "SCAN WHERE unary chain just under the expression limit", setup: seedK, cmd: func(mb int) []string {
			return []string{"SCAN", "k1", "WHERE", rep("!", 1000000) + "1", "IDS"}
		}},
		{name: "SCAN WHERE ternary chain just under the expression limit", setup: seedK, cmd: func(mb int) []string {
			return []string{"SCAN", "k1", "WHERE", rep("0?1:", 260000) + "1", "IDS"}
		}},
		{name: "SCAN WHERE field min max with nested brackets", setup: seedK, cmd: func(mb int) []string {
			return []string{"SCAN", "k1", "WHERE", "f", nestedArr(mb * 500000), "5", "IDS"}
		}},
		{name: "SCAN WHEREIN value nested brackets", setup: seedK, cmd: func(mb int) []string {
			return []string{"SCAN", "k1", "WHEREIN", "f", "1", nestedArr(mb * 500000), "IDS"}
		}},
		{name: "SET FIELD value nested brackets", cmd: func(mb int) []string {
			return []string{"SET", "k1", "n", "FIELD", "f", nestedArr(mb * 500000), "POINT", "1", "2"}
		}},
		{name: "SET FIELD value nested objects", cmd: func(mb int) []string {
			return []string{"SET", "k1", "n", "FIELD", "f", rep(`{"a":`, mb*150000) + "1" + rep("}", mb*150000), "POINT", "1", "2"}
		}},
		{name: "FSET value nested brackets", setup: seedK, cmd: func(mb int) []string {
			return []string{"FSET", "k1", "a", "g", nestedArr(mb * 500000)}
		}},
		{name: "SET OBJECT with a deeply nested member (geojson.Parse)", cmd: func(mb int) []string {
			return []string{"SET", "k1", "o", "OBJECT", pointWith(mb * 500000)}
		}},
		{name: "SET OBJECT nested GeometryCollections", cmd: func(mb int) []string {
			n := mb * 20000
			return []string{"SET", "k1", "o", "OBJECT", rep(`{"type":"GeometryCollection","geometries":[`, n) + rep("]}", n)}
		}},
		{name: "TEST OBJECT with a deeply nested member", cmd: func(mb int) []string {
			return []string{"TEST", "OBJECT", pointWith(mb * 500000), "INTERSECTS", "BOUNDS", "0", "0", "3", "3"}
		}},
		{name: "WITHIN OBJECT with a deeply nested member", setup: seedK, cmd: func(mb int) []string {
			return []string{"WITHIN", "k1", "IDS", "OBJECT", pointWith(mb * 500000)}
		}},
		{name: "INTERSECTS OBJECT with a deeply nested member", setup: seedK, cmd: func(mb int) []string {
			return []string{"INTERSECTS", "k1", "COUNT", "OBJECT", pointWith(mb * 500000)}
		}},
		{name: "SET STRING nested brackets then GET/SCAN in JSON output", cmd: func(mb int) []string {
			return []string{"SET", "k1", "s", "STRING", nestedArr(mb * 500000)}
		}},
		{name: "JSET value nested brackets", setup: seedK, cmd: func(mb int) []string {
			return []string{"JSET", "k1", "j", "v", nestedArr(mb * 500000)}
		}},
		{name: "JSET RAW value nested brackets", setup: seedK, cmd: func(mb int) []string {
			return []string{"JSET", "k1", "j", "v", nestedArr(mb * 500000), "RAW"}
		}},
		{name: "JSET path of a million components", only: 12, setup: seedK, cmd: func(mb int) []string {
			return []string{"JSET", "k1", "j", rep("a.", mb*100000) + "a", "1"}
		}},
		{name: "JSET path of two million components on a document already nested 1.2 million deep", gate: "hang-jset-long-path", only: 20, setup: [][]string{{"JSET", "k1", "j", rep("a.", 1200000) + "a", "1"}}, cmd: func(mb int) []string {
			return []string{"JSET", "k1", "j", rep("a.", mb*100000) + "a", "1"}
		}},
		{name: "SETHOOK WHERE ternary chain", cmd: func(mb int) []string {
			return []string{"SETHOOK", "hdeep", "http://127.0.0.1:9/x", "NEARBY", "k1", "WHERE", rep("0?1:", mb*1000000/4) + "1", "FENCE", "POINT", "33", "-115", "1000"}
		}},
		{name: "SETCHAN WHERE f == nested brackets, then a write on the key", cmd: func(mb int) []string {
			return []string{"SETCHAN", "cdeep", "WITHIN", "k1", "WHERE", "f == " + nestedArr(mb*500000), "FENCE", "BOUNDS", "32", "-116", "34", "-114"}
		}},
		{name: "EVAL passing nested brackets to tile38.call(set ... field)", cmd: func(mb int) []string {
			return []string{"EVAL", "return tile38.call('set', KEYS[1], 'e', 'field', 'f', ARGV[1], 'point', 1, 2)", "1", "k1", nestedArr(mb * 500000)}
		}},
		{name: "EVAL passing an expression to tile38.call(scan ... where)", setup: seedK, cmd: func(mb int) []string {
			return []string{"EVAL", "return tile38.call('scan', KEYS[1], 'where', ARGV[1], 'ids')", "1", "k1", rep("0?1:", mb*1000000/4) + "1"}
		}},
		{name: "EVAL json.decode of nested brackets", cmd: func(mb int) []string {
			return []string{"EVAL", "return json.decode(ARGV[1])", "0", nestedArr(mb * 500000)}
		}},
		{name: "EVAL script text: nested table constructors", gate: "crash-eval-deep-script", only: 12, cmd: func(mb int) []string {
			return []string{"EVAL", "return " + rep("{", mb*100000) + rep("}", mb*100000), "0"}
		}},
		{name: "EVAL script text: nested parentheses", gate: "memory-eval-deep-script", only: 12, cmd: func(mb int) []string {
			return []string{"EVAL", "return " + rep("(", mb*100000) + "1" + rep(")", mb*100000), "0"}
		}},
		{name: "EVAL script text: chain of unary minus", gate: "memory-eval-deep-script", only: 12, cmd: func(mb int) []string {
			return []string{"EVAL", "return " + rep("- ", mb*100000) + "1", "0"}
		}},
		{name: "EVAL script text: nested function definitions", gate: "memory-eval-deep-script", only: 12, cmd: func(mb int) []string {
			return []string{"EVAL", rep("return function() ", mb*20000) + "return 1" + rep(" end", mb*20000), "0"}
		}},
		{name: "WITHIN area expression: 300 000 opening parentheses", only: 12, setup: seedK, cmd: func(mb int) []string {
			a := []string{"WITHIN", "k1", "IDS"}
			for i := 0; i < 300000; i++ {
				a = append(a, "(")
			}
			a = append(a, "BOUNDS", "32", "-116", "34", "-114")
			for i := 0; i < 300000; i++ {
				a = append(a, ")")
			}
			return a
		}},
		{name: "WITHIN area expression: 300 000 NOTs", only: 12, setup: seedK, cmd: func(mb int) []string {
			a := []string{"WITHIN", "k1", "IDS"}
			for i := 0; i < 300000; i++ {
				a = append(a, "NOT")
			}
			return append(a, "BOUNDS", "32", "-116", "34", "-114")
		}},
		{name: "KEYS / SCAN MATCH pattern of nested classes", setup: seedK, cmd: func(mb int) []string {
			return []string{"SCAN", "k1", "MATCH", rep("[", mb*500000) + rep("]", mb*500000), "IDS"}
		}},
		{name: "HTTP POST body: set ... object with a deeply nested member", http: func(mb int) []byte {
			body := "set k1 h object " + pointWith(mb*500000)
			return []byte("POST / HTTP/1.1\r\nHost: x\r\nContent-Length: " + strconv.Itoa(len(body)) + "\r\n\r\n" + body)
		}},
		{name: "HTTP POST body: scan where f == nested brackets", setup: seedK, http: func(mb int) []byte {
			body := "scan k1 where f " + nestedArr(mb*500000) + " 5 ids"
			return []byte("POST / HTTP/1.1\r\nHost: x\r\nContent-Length: " + strconv.Itoa(len(body)) + "\r\n\r\n" + body)
		}},
	}
}

// playDeep returns "" when the command was answered and the connection still
// answers PING; otherwise what was observed.
func (g *guard) playDeep(e deepEntry, mb int, budget time.Duration) string {
	if e.http != nil {
		for _, s := range e.setup {
			g.ctl.Do(s...)
		}
		c, err := net.DialTimeout("tcp", g.p.Addr, 5*time.Second)
		if err != nil {
			return "dial: " + err.Error()
		}
		defer c.Close()
		c.SetDeadline(time.Now().Add(budget))
		if _, err := c.Write(e.http(mb)); err != nil {
			return "write: " + err.Error()
		}
		buf := make([]byte, 4096)
		n, err := c.Read(buf)
		if n == 0 {
			return fmt.Sprintf("no HTTP reply: %v", err)
		}
		if !strings.HasPrefix(string(buf[:n]), "HTTP/1.1 ") {
			return "not an HTTP reply: " + clip(strconv.QuoteToASCII(string(buf[:n])), 80)
		}
		return ""
	}
	c, err := t38.Dial(g.p.Addr)
	if err != nil {
		return "dial: " + err.Error()
	}
	defer c.Close()
	for _, s := range e.setup {
		if _, err := c.Do(s...); err != nil {
			return "setup: " + err.Error()
		}
	}
	cmd := e.cmd(mb)
	g.last = fuzzInput{Kind: "cmds", Cmds: [][]string{{cmd[0], fmt.Sprintf("... %s, %d arguments, largest %d bytes", e.name, len(cmd), maxLen(cmd))}}}
	c.C.SetWriteDeadline(time.Now().Add(budget))
	if err := c.SendRaw(t38.EncodeCmd(cmd...)); err != nil {
		return "write: " + err.Error()
	}
	if _, err := c.RecvTimeout(budget); err != nil {
		return "no reply to the command: " + err.Error()
	}
	// a write on the key evaluates hooks/channels that were just stored
	if n0 := strings.ToLower(cmd[0]); n0 == "sethook" || n0 == "setchan" {
		if _, err := c.Do("SET", "k1", "w", "FIELD", "f", "1", "POINT", "33", "-115"); err != nil {
			return "no reply to the write after the hook: " + err.Error()
		}
	}
	if strings.HasPrefix(e.name, "SET STRING") {
		for _, follow := range [][]string{{"OUTPUT", "json"}, {"GET", "k1", "s"}, {"SCAN", "k1"}, {"JGET", "k1", "s", "0.0.0"}, {"OUTPUT", "resp"}} {
			if _, err := c.Do(follow...); err != nil {
				return "no reply to " + strings.Join(follow, " ") + ": " + err.Error()
			}
		}
	}
	v, err := c.Do("PING")
	if err != nil || !v.Equal(t38.Simple("PONG")) {
		return fmt.Sprintf("PING after the command: %v %v", v, err)
	}
	return ""
}

func maxLen(a []string) int {
	m := 0
	for _, x := range a {
		if len(x) > m {
			m = len(x)
		}
	}
	return m
}

func TestC16_DeepNesting(t *testing.T) {
	c := ev.New("C16", "deep-nesting", "exploration")
	t.Cleanup(c.Flush)
	t.Cleanup(func() { drainExcluded(c) })
	entries := deepEntries()
	c.Rule(fmt.Sprintf("probe family %q: %d entry points that hand ONE argument of 1-20 MB of nested brackets/terms to a recursive parser, validator or evaluator (WHERE expressions, WHERE/WHEREIN/FIELD/FSET values, GeoJSON OBJECT members in SET/TEST/WITHIN/INTERSECTS, STRING values read back in JSON mode, JSET values and paths, SETHOOK/SETCHAN filters followed by a write, EVAL arguments passed on to tile38.call and json.decode, the Lua script text itself, area expressions of a million parentheses/NOTs, MATCH patterns, HTTP POST bodies) on a subprocess server (4 GB address-space limit). Oracle: the command is answered, PING on the same connection is answered, bystander PING/write/canary fine, process alive. Quick tier: 2 entry points at 12 MB; thorough: all, at 12 and 20 MB. Non-trivial: every entry; distinct by (entry point, size).", deepNestingID, len(entries)))
	g := newGuard(t, c)
	defer g.stop()
	sizes := []int{12}
	if ev.Thorough() {
		sizes = []int{12, 20}
	}
	reported := map[string]bool{}
	for i, e := range entries {
		if !e.quick && !ev.Thorough() {
			continue
		}
		if only := os.Getenv("C16_DEEP_ONLY"); only != "" && !strings.Contains(e.name, only) {
			continue
		}
		if ev.Thorough() && i%ev.Shards() != ev.Shard()%ev.Shards() && ev.Shards() > 1 {
			continue // the family is split over the shards
		}
		budget := 60 * time.Second
		known := e.gate != "" && ev.KnownActive(e.gate)
		oldBy := bystanderBudget
		if known {
			// the entry is the deterministic probe of a listed finding: short waits
			budget, bystanderBudget = 8*time.Second, 3*time.Second
		}
		esizes := sizes
		if e.only > 0 {
			esizes = []int{e.only}
		}
		for _, mb := range esizes {
			c.Case()
			t0 := time.Now()
			problem := g.playDeep(e, mb, budget)
			vd := g.check()
			bystanderBudget = oldBy
			c.Label("entry:" + e.name)
			c.Note("%s at %d MB: %v", e.name, mb, time.Since(t0).Round(time.Millisecond))
			// the repaired class: stack overflow in gjson / expr / geojson recursion;
			// anything else that dies here is a root cause of its own
			id := deepNestingID
			if vd.crashID != "" && !(strings.Contains(vd.panicLine, "stack overflow") && (strings.Contains(vd.stack, "tidwall/gjson") || strings.Contains(vd.stack, "tidwall/expr") || strings.Contains(vd.stack, "tidwall/geojson"))) {
				id = vd.crashID
			}
			if e.gate != "" {
				id = e.gate
			}
			switch {
			case vd.crashID != "":
				what := fmt.Sprintf("%s with one argument of about %d MB: the server process died (%s) at %s", e.name, mb, vd.panicLine, vd.frame)
				if !reported[id+e.name] {
					reported[id+e.name] = true
					if ev.KnownActive(id) {
						c.Known(id, what)
					} else {
						c.Violation(id, what, map[string]any{"entry": e.name, "mb": mb, "panic": vd.panicLine, "frame": vd.frame, "stack": vd.stack})
						t.Errorf("VIOLATION-CANDIDATE key=%s: %s", id, what)
					}
				}
				c.Label("process-died:" + e.name)
				if err := g.restart(); err != nil {
					t.Fatalf("harness: restart: %v", err)
				}
			case vd.restart:
				g.restart()
			case vd.bystander != "":
				c.Violation("bystander-affected", e.name+": "+vd.bystander, map[string]any{"entry": e.name, "mb": mb})
				t.Errorf("VIOLATION-CANDIDATE key=bystander-affected: %s: %s", e.name, vd.bystander)
				g.restart()
			case problem != "" && known:
				c.Known(e.gate, e.name+": "+problem)
				g.restart()
			case problem != "":
				c.Violation("deep-argument-unanswered", e.name+": "+problem, map[string]any{"entry": e.name, "mb": mb})
				t.Errorf("VIOLATION-CANDIDATE key=deep-argument-unanswered: %s: %s", e.name, problem)
				g.restart()
			default:
				c.NonTrivial(fmt.Sprintf("%s|%d", e.name, mb))
			}
			if vd.crashID != "" {
				break
			}
		}
	}
}

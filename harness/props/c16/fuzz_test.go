// In-package fuzzing of the reader with arbitrary bytes: no panic, and the
// parse must not depend on the segmentation even for malformed input.
package c16

import (
	"encoding/hex"
	"fmt"
	"sort"
	"strings"
	"testing"

	"github.com/tidwall/tile38/verif/harness/ev"
	"pgregory.net/rapid"
)

// checkArbitrary is the shared oracle of TestC16_SegArbitrary and
// FuzzReadMessages. It returns (panic frame, description of a cut dependence).
func checkArbitrary(b []byte, cutSets [][]int) (panicRes *parseResult, diff string, badCuts []int) {
	ref := readAll([][]byte{b})
	if ref.Panic != "" {
		return &ref, "", nil
	}
	// an OPTIONS pre-flight is answered once per read while it stays at the head of
	// the buffer (it is never consumed); only its written bytes depend on the reads
	ignoreWritten := strings.Contains(string(b), "OPTIONS ")
	for _, cuts := range cutSets {
		got := readAll(cutBytes(b, cuts))
		if got.Panic != "" {
			return &got, "", cuts
		}
		if ignoreWritten {
			got.Written = ref.Written
		}
		if d := diffResults(ref, got); d != "" {
			return nil, d, cuts
		}
	}
	return nil, "", nil
}

func TestC16_SegArbitrary(t *testing.T) {
	c := ev.New("C16", "seg-arbitrary", "exploration")
	t.Cleanup(c.Flush)
	t.Cleanup(func() { drainExcluded(c) })
	c.Rule("the byte streams of the containment check (mutated valid streams, token soup, random bytes) fed to PipelineReader.ReadMessages in-package: the reader must not panic (netServe has no recover, a panic is a dead process) and messages/error must be the same uncut, byte-at-a-time (<= 2 KB) and under 3 random k-way cuts. Written bytes are compared unless the stream contains an OPTIONS pre-flight. Panics are collected per top frame and reported once per root cause at the end (the search continues). Non-trivial: the stream is malformed (parse error or a mutation applied) and yields at least one message; distinct by (mutations, error text, number of messages capped at 8).")
	crashes := map[string]fuzzInput{}
	t.Cleanup(func() {
		ids := make([]string, 0, len(crashes))
		for id := range crashes {
			ids = append(ids, id)
		}
		sort.Strings(ids)
		for _, id := range ids {
			in := crashes[id]
			what := fmt.Sprintf("PipelineReader.ReadMessages panicked (%s) at %s on %s; netServe has no recover, so the same bytes kill the server process", in.Panic, in.Frame, in.Text)
			if ev.KnownActive(id) {
				c.Known(id, what)
			} else {
				c.Violation(id, what, in)
				t.Errorf("VIOLATION-CANDIDATE key=%s: %s", id, what)
			}
		}
	})
	ev.Rapid("seg-arbitrary", ev.Pick(15000, 150000))
	rapid.Check(t, func(rt *rapid.T) {
		b, muts := drawFuzzBytes(rt)
		if len(b) == 0 {
			return
		}
		var cutSets [][]int
		if len(b) <= 2048 {
			all := make([]int, 0, len(b))
			for p := 1; p < len(b); p++ {
				all = append(all, p)
			}
			cutSets = append(cutSets, all)
		}
		for i := 0; i < 3; i++ {
			cutSets = append(cutSets, drawCuts(rt, len(b), 6, nil))
		}
		c.Case()
		pres, diff, cuts := checkArbitrary(b, cutSets)
		in := bytesInput(b, cuts, muts)
		if pres != nil {
			id := crashID(pres.Frame)
			in.Frame, in.Panic = pres.Frame, pres.Panic
			if old, ok := crashes[id]; !ok || in.size() < old.size() {
				crashes[id] = in
			}
			if ev.KnownActive(id) {
				c.Excluded(id)
			}
			c.Label("reader-panic:" + id)
			return
		}
		if diff != "" {
			c.Fail(rt, "cut-changes-parse:arbitrary", fmt.Sprintf("%s cut at %v: uncut vs cut: %s", in.Text, clipInts(cuts), diff), in)
		}
		for _, m := range muts {
			c.Label("mut:" + strings.SplitN(m, ":", 2)[0])
		}
		ref := readAll([][]byte{b})
		if ref.Err != "" {
			c.Label("parse-error")
		}
		if len(ref.Msgs) > 0 && (ref.Err != "" || len(muts) > 0) {
			nm := len(ref.Msgs)
			if nm > 8 {
				nm = 8
			}
			c.NonTrivial(fmt.Sprintf("%v|%s|%d", muts, ref.Err, nm))
			if c.WantSample() {
				c.Sample(map[string]any{"input": in.Text, "mutations": muts, "error": ref.Err, "messages": len(ref.Msgs)})
			}
		}
	})
}

func clipInts(a []int) []int {
	if len(a) > 20 {
		return a[:20]
	}
	return a
}

// FuzzReadMessages is the native fuzz target for the in-package reader
// (`go test -tags verif -run '^$' -fuzz FuzzReadMessages ./props/c16`). In a
// normal run only the seed corpus is executed.
func FuzzReadMessages(f *testing.F) {
	seeds := []string{
		"*1\r\n$4\r\nPING\r\n", "PING\r\n", "$4 PING\r\n", "GET /ping HTTP/1.1\r\n\r\n",
		"POST / HTTP/1.1\r\nContent-Length: 4\r\n\r\nPING", "*3\r\n$3\r\nSET\r\n$1\r\nk\r\n", "SET k a 'x y' \"z\\n\"\r\n",
		"*1\r\n$-2\r\n", "$9223372036854775807 x\r\n", "*1\r\n$9223372036854775807\r\n", "*-1\r\n", "$-5 x\r\n",
		"GET / HTTP/1.1\r\nUpgrade: websocket\r\nSec-WebSocket-Version: 13\r\nSec-WebSocket-Key: k\r\n\r\n",
	}
	for _, s := range seeds {
		f.Add([]byte(s), uint16(3))
	}
	f.Fuzz(func(t *testing.T, b []byte, cut uint16) {
		if len(b) == 0 {
			return
		}
		var sets [][]int
		if len(b) > 1 {
			sets = append(sets, []int{1 + int(cut)%(len(b)-1)})
		}
		if len(b) <= 512 {
			all := make([]int, 0, len(b))
			for p := 1; p < len(b); p++ {
				all = append(all, p)
			}
			sets = append(sets, all)
		}
		pres, diff, cuts := checkArbitrary(b, sets)
		if pres != nil {
			id := crashID(pres.Frame)
			if ev.KnownActive(id) {
				t.Skip("known finding " + id)
			}
			t.Fatalf("reader panicked (%s) at %s [%s] on %s", pres.Panic, pres.Frame, id, hex.EncodeToString(b))
		}
		if diff != "" {
			t.Fatalf("parse depends on segmentation %v: %s on %s", cuts, diff, hex.EncodeToString(b))
		}
	})
}

// Stream model for C16: a command stream is a list of elements, each encoded
// in one of the wire protocols the server sniffs (RESP, telnet line, native
// "$n line", HTTP GET/POST, WebSocket upgrade, OPTIONS pre-flight). The
// generator knows, independently of the parser, which messages the stream must
// yield; that is the ground truth for the uncut run.
package c16

import (
	"crypto/sha1"
	"encoding/base64"
	"fmt"
	"strconv"
	"strings"

	"github.com/tidwall/tile38/verif/harness/ev"
	"github.com/tidwall/tile38/verif/harness/gen"
	"pgregory.net/rapid"
)

// connection / output type numbers of internal/server (Type iota).
const (
	tNull = iota
	tRESP
	tTelnet
	tNative
	tHTTP
	tWebSocket
	tJSON
)

// Elem is one element of a stream.
type Elem struct {
	Proto string   `json:"proto"` // resp, telnet, native, http-get, http-post, ws, options, resp-empty, telnet-empty
	Args  []string `json:"args,omitempty"`
	// HTTP details
	BodyFrom int    `json:"body_from,omitempty"` // http-post: number of leading args carried in the URL path
	Sep      string `json:"sep,omitempty"`       // "+" or "%20"
	Auth     string `json:"auth,omitempty"`
	AccEnc   string `json:"accenc,omitempty"`
	WSKey    string `json:"wskey,omitempty"`
	LFOnly   bool   `json:"lf_only,omitempty"` // telnet line terminated by a bare LF
	// "bad": a malformed frame (Raw) that must end the connection with the
	// protocol error Err; "trail": bytes sent after it (never looked at)
	Raw string `json:"raw,omitempty"`
	Err string `json:"err,omitempty"`
}

// Msg is the observable part of a parsed server.Message.
type Msg struct {
	Args       []string
	ConnType   int
	OutputType int
	Auth       string
	AccEnc     string
	Strict     bool
}

func (m Msg) key() string {
	return fmt.Sprintf("%q|%d|%d|%q|%q|%v", m.Args, m.ConnType, m.OutputType, m.Auth, m.AccEnc, m.Strict)
}

func (m Msg) same(o Msg) bool {
	if m.ConnType != o.ConnType || m.OutputType != o.OutputType || m.Auth != o.Auth || m.AccEnc != o.AccEnc || m.Strict != o.Strict || len(m.Args) != len(o.Args) {
		return false
	}
	for i := range m.Args {
		if m.Args[i] != o.Args[i] {
			return false
		}
	}
	return true
}

func (m Msg) short() string {
	s := fmt.Sprintf("%q", m.Args)
	if len(s) > 200 {
		s = s[:200] + fmt.Sprintf("...(%d bytes)", len(s))
	}
	return fmt.Sprintf("{%s conn=%d out=%d auth=%q ae=%q}", s, m.ConnType, m.OutputType, m.Auth, m.AccEnc)
}

// ---- encoders -----------------------------------------------------------------

func encRESP(args []string) []byte {
	var b []byte
	b = append(b, '*')
	b = strconv.AppendInt(b, int64(len(args)), 10)
	b = append(b, '\r', '\n')
	for _, a := range args {
		b = append(b, '$')
		b = strconv.AppendInt(b, int64(len(a)), 10)
		b = append(b, '\r', '\n')
		b = append(b, a...)
		b = append(b, '\r', '\n')
	}
	return b
}

// telnetBare says whether the argument can be written without quotes.
func telnetBare(a string) bool {
	if a == "" {
		return false
	}
	for i := 0; i < len(a); i++ {
		switch a[i] {
		case ' ', '"', '\'', '\\', '\n', '\r', '\t':
			return false
		}
	}
	return true
}

func telnetQuote(a string) string {
	var b strings.Builder
	b.WriteByte('"')
	for i := 0; i < len(a); i++ {
		switch c := a[i]; c {
		case '"':
			b.WriteString(`\"`)
		case '\\':
			b.WriteString(`\\`)
		case '\n':
			b.WriteString(`\n`)
		case '\r':
			b.WriteString(`\r`)
		case '\t':
			b.WriteString(`\t`)
		default:
			b.WriteByte(c)
		}
	}
	b.WriteByte('"')
	return b.String()
}

// telnetOK: the command name must be a bare word that is not taken for another
// protocol, and the line must not look like an HTTP request line.
func telnetOK(args []string) bool {
	if len(args) > 0 && args[0] == "" {
		return true // written as "" : an empty command name
	}
	if len(args) == 0 || !telnetBare(args[0]) || args[0][0] == '*' || args[0][0] == '$' {
		return false
	}
	last := args[len(args)-1]
	if len(args) > 1 && len(last) == 8 && strings.HasPrefix(last, "HTTP/") {
		return false
	}
	return true
}

func encTelnet(args []string, lfOnly bool) []byte {
	parts := make([]string, len(args))
	for i, a := range args {
		if telnetBare(a) {
			parts[i] = a
		} else {
			parts[i] = telnetQuote(a)
		}
	}
	if lfOnly {
		return []byte(strings.Join(parts, " ") + "\n")
	}
	return []byte(strings.Join(parts, " ") + "\r\n")
}

// nativeOK: the native line protocol splits on spaces and has no quoting; a
// token starting with '{' swallows the rest of the line.
func nativeOK(args []string) bool {
	if len(args) == 0 {
		return false
	}
	for i, a := range args {
		if a == "" {
			return false
		}
		lastJSON := i == len(args)-1 && a[0] == '{'
		if a[0] == '{' && !lastJSON {
			return false
		}
		if a[0] == '"' {
			return false
		}
		if strings.ContainsAny(a, " ") && !lastJSON {
			return false
		}
	}
	return true
}

func encNative(args []string) []byte {
	line := strings.Join(args, " ")
	return []byte("$" + strconv.Itoa(len(line)) + " " + line + "\r\n")
}

const hexdig = "0123456789ABCDEF"

func urlEsc(a string) string {
	var b strings.Builder
	for i := 0; i < len(a); i++ {
		c := a[i]
		if c >= 'a' && c <= 'z' || c >= 'A' && c <= 'Z' || c >= '0' && c <= '9' || c == '-' || c == '_' || c == '.' {
			b.WriteByte(c)
		} else {
			b.WriteByte('%')
			b.WriteByte(hexdig[c>>4])
			b.WriteByte(hexdig[c&15])
		}
	}
	return b.String()
}

func wsAccept(key string) string {
	sum := sha1.Sum([]byte(key + "258EAFA5-E914-47DA-95CA-C5AB0DC85B11"))
	return base64.StdEncoding.EncodeToString(sum[:])
}

const corsHead = "HTTP/1.1 204 No Content\r\n" +
	"Connection: close\r\n" +
	"Access-Control-Allow-Origin: *\r\n" +
	"Access-Control-Allow-Headers: *, Authorization\r\n" +
	"Access-Control-Allow-Methods: POST, GET, OPTIONS\r\n\r\n"

func wsHead(key string) string {
	return "HTTP/1.1 101 Switching Protocols\r\nUpgrade: websocket\r\nConnection: Upgrade\r\nSec-WebSocket-Accept: " + wsAccept(key) + "\r\n\r\n"
}

func (e Elem) httpPath(args []string) string {
	sep := e.Sep
	if sep == "" {
		sep = "+"
	}
	ps := make([]string, len(args))
	for i, a := range args {
		ps[i] = urlEsc(a)
	}
	return strings.Join(ps, sep)
}

// Bytes encodes the element.
func (e Elem) Bytes() []byte {
	switch e.Proto {
	case "resp":
		return encRESP(e.Args)
	case "resp-empty":
		return []byte("*0\r\n")
	case "telnet":
		return encTelnet(e.Args, e.LFOnly)
	case "telnet-empty":
		return []byte("\r\n")
	case "native":
		return encNative(e.Args)
	case "bad", "trail":
		return []byte(e.Raw)
	case "http-get", "ws", "http-post", "options":
		var b strings.Builder
		hdr := func() {
			b.WriteString("Host: localhost\r\n")
			if e.Auth != "" {
				b.WriteString("Authorization:  " + e.Auth + " \r\n")
			}
			if e.AccEnc != "" {
				b.WriteString("accept-encoding: " + e.AccEnc + "\r\n")
			}
		}
		switch e.Proto {
		case "http-get":
			b.WriteString("GET /" + e.httpPath(e.Args) + " HTTP/1.1\r\n")
			hdr()
			b.WriteString("\r\n")
		case "ws":
			b.WriteString("GET /" + e.httpPath(e.Args) + " HTTP/1.1\r\n")
			hdr()
			b.WriteString("Upgrade: WebSocket\r\nConnection: Upgrade\r\nSec-WebSocket-Version: 13\r\nSec-WebSocket-Key: " + e.WSKey + "\r\n\r\n")
		case "options":
			b.WriteString("OPTIONS /" + e.httpPath(e.Args) + " HTTP/1.1\r\n")
			hdr()
			b.WriteString("Access-Control-Request-Method: POST\r\n\r\n")
		case "http-post":
			// the leading BodyFrom args travel in the URL, the rest in the body; the
			// server concatenates path and body, so the joining space goes first in
			// the body.
			path := e.httpPath(e.Args[:e.BodyFrom])
			body := strings.Join(e.Args[e.BodyFrom:], " ")
			if e.BodyFrom > 0 {
				body = " " + body
			}
			b.WriteString("POST /" + path + " HTTP/1.1\r\n")
			hdr()
			b.WriteString("Content-Length: " + strconv.Itoa(len(body)) + "\r\n\r\n")
			b.WriteString(body)
		}
		return []byte(b.String())
	}
	panic("unknown proto " + e.Proto)
}

// Expect returns the message the element must parse to (nil for none) and the
// bytes the reader must write to its writer while parsing it.
func (e Elem) Expect() (*Msg, string) {
	switch e.Proto {
	case "resp", "telnet":
		return &Msg{Args: e.Args, ConnType: tRESP, OutputType: tRESP}, ""
	case "native":
		return &Msg{Args: e.Args, ConnType: tNative, OutputType: tJSON}, ""
	case "http-get", "http-post":
		return &Msg{Args: e.Args, ConnType: tHTTP, OutputType: tJSON, Auth: e.Auth, AccEnc: e.AccEnc}, ""
	case "ws":
		return &Msg{Args: e.Args, ConnType: tWebSocket, OutputType: tJSON, Auth: e.Auth, AccEnc: e.AccEnc}, wsHead(e.WSKey)
	case "options":
		return nil, corsHead
	}
	return nil, ""
}

// Stream is a list of elements.
type Stream struct {
	Elems []Elem `json:"elems"`
}

// Encode returns the bytes and the start offset of every element (plus the
// total length as the last entry).
func (s Stream) Encode() ([]byte, []int) {
	var b []byte
	offs := make([]int, 0, len(s.Elems)+1)
	for _, e := range s.Elems {
		offs = append(offs, len(b))
		b = append(b, e.Bytes()...)
	}
	offs = append(offs, len(b))
	return b, offs
}

// ExpectErr is the protocol error that ends the stream ("" = none).
func (s Stream) ExpectErr() string {
	for _, e := range s.Elems {
		if e.Proto == "bad" {
			return e.Err
		}
	}
	return ""
}

func (s Stream) Expect() ([]Msg, string) {
	var ms []Msg
	var w strings.Builder
	for _, e := range s.Elems {
		if e.Proto == "bad" {
			break // the connection ends here
		}
		m, wr := e.Expect()
		if m != nil {
			ms = append(ms, *m)
		}
		w.WriteString(wr)
	}
	return ms, w.String()
}

func (s Stream) protos() string {
	seen := map[string]bool{}
	var out []string
	for _, e := range s.Elems {
		if !seen[e.Proto] {
			seen[e.Proto] = true
			out = append(out, e.Proto)
		}
	}
	return strings.Join(out, ",")
}

// ---- generators -----------------------------------------------------------------

// bigValue draws a payload that crosses the server's 64 KiB read buffer.
func bigValue(t *rapid.T, maxKB int) string {
	n := rapid.IntRange(60000, maxKB*1024).Draw(t, "biglen")
	switch rapid.IntRange(0, 3).Draw(t, "bigat") {
	case 0:
		n = 65535 + rapid.IntRange(-40, 40).Draw(t, "bigdelta")
	case 1:
		n = 2*65535 + rapid.IntRange(-40, 40).Draw(t, "bigdelta2")
	}
	ch := rapid.SampledFrom([]string{"x", "ab", "0123456789"}).Draw(t, "bigch")
	return strings.Repeat(ch, n/len(ch)+1)[:n]
}

type streamOpts struct {
	maxCmds      int
	bigKB        int  // 0 = no big values
	http         bool // allow http/ws elements anywhere (in-package parser only)
	options      bool // allow a trailing OPTIONS pre-flight
	binary       bool // allow binary-unsafe bytes in RESP args
	noFlush      bool // never emit FLUSHDB
	noTTL        bool // never emit TTL (time dependent reply)
	protos       []string
	maxBytes     int // stop adding elements beyond this size (0 = unlimited)
	noEmpties    bool
	noEmptyNames bool
}

func drawArgs(t *rapid.T, ns gen.Names, o streamOpts) []string {
	for {
		switch rapid.IntRange(0, 21).Draw(t, "argkind") {
		case 20:
			// an empty command name (answered like an unknown command), alone or with arguments
			if o.noEmptyNames {
				continue
			}
			return rapid.SampledFrom([][]string{{""}, {"", "x"}, {"", ""}}).Draw(t, "emptyname")
		case 21:
			// empty arguments
			return rapid.SampledFrom([][]string{{"ECHO", ""}, {"PING", ""}, {"SET", ns.Keys[0], ns.IDs[0], "STRING", ""}, {"GET", ns.Keys[0], ""}, {"GET", "", ""}}).Draw(t, "emptyarg")
		case 0:
			return []string{"PING"}
		case 1:
			return []string{"ECHO", gen.TextName(t, "echo", true)}
		case 2:
			if o.binary {
				bs := rapid.SliceOfN(rapid.Byte(), 0, 24).Draw(t, "binarg")
				return []string{"ECHO", string(bs)}
			}
			return []string{"PING", "p" + strconv.Itoa(rapid.IntRange(0, 999).Draw(t, "pn"))}
		case 3:
			if o.bigKB > 0 && rapid.IntRange(0, 3).Draw(t, "big?") == 0 {
				return []string{"SET", rapid.SampledFrom(ns.Keys).Draw(t, "bk"), rapid.SampledFrom(ns.IDs).Draw(t, "bi"), "STRING", bigValue(t, o.bigKB)}
			}
			return []string{"GET", rapid.SampledFrom(ns.Keys).Draw(t, "gk"), rapid.SampledFrom(ns.IDs).Draw(t, "gi")}
		default:
			a := gen.KeyspaceCmd(t, ns)
			if o.noFlush && strings.EqualFold(a[0], "FLUSHDB") {
				continue
			}
			if o.noTTL && strings.EqualFold(a[0], "TTL") {
				continue
			}
			return a
		}
	}
}

func has(xs []string, x string) bool {
	for _, y := range xs {
		if x == y {
			return true
		}
	}
	return false
}

var tokenAlphabet = []rune("abcdefXYZ0123456789=+/")

// drawElem draws one element in a protocol that can carry args exactly.
func drawElem(t *rapid.T, ns gen.Names, o streamOpts) Elem {
	args := drawArgs(t, ns, o)
	var cands []string
	for _, p := range o.protos {
		switch p {
		case "resp":
			cands = append(cands, "resp", "resp")
		case "telnet":
			if telnetOK(args) {
				cands = append(cands, "telnet", "telnet")
			}
		case "native":
			if nativeOK(args) {
				cands = append(cands, "native", "native")
			}
		case "http":
			if nativeOK(args) {
				cands = append(cands, "http-get", "http-post", "ws")
			}
		}
	}
	if len(cands) == 0 {
		cands = []string{"resp"}
		if !has(o.protos, "resp") {
			// protocol cannot carry these args: fall back to a plain marker
			args = []string{"PING"}
			cands = nil
			for _, p := range o.protos {
				switch p {
				case "telnet", "native":
					cands = append(cands, p)
				case "http":
					cands = append(cands, "http-get", "http-post", "ws")
				}
			}
		}
	}
	if !o.noEmpties && rapid.IntRange(0, 24).Draw(t, "empty?") == 0 {
		if has(o.protos, "resp") && rapid.Bool().Draw(t, "emptyresp") {
			return Elem{Proto: "resp-empty"}
		}
		if has(o.protos, "telnet") {
			return Elem{Proto: "telnet-empty"}
		}
	}
	e := Elem{Proto: rapid.SampledFrom(cands).Draw(t, "proto"), Args: args}
	switch e.Proto {
	case "telnet":
		// a bare-LF line is only taken when no later CRLF could be mistaken for the
		// end of an HTTP request line, i.e. never for commands starting with G/P/O
		if rapid.IntRange(0, 5).Draw(t, "lf?") == 0 {
			gpo := args[0] != "" && (args[0][0] == 'G' || args[0][0] == 'P' || args[0][0] == 'O')
			if gpo && ev.KnownActive(inlineLFID) {
				inlineLFExcluded++ // kept CRLF-terminated
			} else {
				e.LFOnly = true
			}
		}
	case "http-get", "http-post", "ws":
		e.Sep = rapid.SampledFrom([]string{"+", "%20"}).Draw(t, "sep")
		if rapid.IntRange(0, 2).Draw(t, "auth?") == 0 {
			e.Auth = string(rapid.SliceOfN(rapid.SampledFrom(tokenAlphabet), 1, 12).Draw(t, "auth"))
		}
		if rapid.IntRange(0, 2).Draw(t, "ae?") == 0 {
			e.AccEnc = rapid.SampledFrom([]string{"gzip", "gzip, deflate", "identity"}).Draw(t, "ae")
		}
		if e.Proto == "ws" {
			e.WSKey = string(rapid.SliceOfN(rapid.SampledFrom(tokenAlphabet), 8, 24).Draw(t, "wskey"))
		}
		if e.Proto == "http-post" {
			e.BodyFrom = rapid.IntRange(0, len(args)-1).Draw(t, "bodyfrom")
			// body args are not URL-decoded; the last (JSON) arg may hold spaces only there
		}
	}
	return e
}

func drawStream(t *rapid.T, o streamOpts) Stream {
	ns := gen.DrawNames(t)
	n := rapid.IntRange(1, o.maxCmds).Draw(t, "ncmds")
	var s Stream
	size := 0
	for i := 0; i < n; i++ {
		e := drawElem(t, ns, o)
		l := len(e.Bytes())
		if o.maxBytes > 0 && size+l > o.maxBytes {
			if len(s.Elems) == 0 {
				s.Elems = append(s.Elems, Elem{Proto: "resp", Args: []string{"PING"}})
			}
			break
		}
		size += l
		s.Elems = append(s.Elems, e)
	}
	if o.bigKB > 0 {
		// at least one value that crosses the 64 KiB read buffer, in any encoding
		nb := rapid.IntRange(1, 2).Draw(t, "nbig")
		for i := 0; i < nb; i++ {
			args := []string{"SET", rapid.SampledFrom(ns.Keys).Draw(t, "bk2"), rapid.SampledFrom(ns.IDs).Draw(t, "bi2"), "STRING", bigValue(t, o.bigKB)}
			var cands []string
			for _, p := range o.protos {
				switch p {
				case "resp":
					cands = append(cands, "resp")
				case "telnet":
					if telnetOK(args) {
						cands = append(cands, "telnet")
					}
				case "native":
					if nativeOK(args) {
						cands = append(cands, "native")
					}
				case "http":
					if nativeOK(args) {
						cands = append(cands, "http-post")
					}
				}
			}
			if len(cands) == 0 {
				continue
			}
			e := Elem{Proto: rapid.SampledFrom(cands).Draw(t, "bigproto"), Args: args}
			if e.Proto == "http-post" {
				e.BodyFrom = rapid.IntRange(0, len(args)-1).Draw(t, "bigbodyfrom")
			}
			at := rapid.IntRange(0, len(s.Elems)).Draw(t, "bigat2")
			s.Elems = append(s.Elems[:at], append([]Elem{e}, s.Elems[at:]...)...)
		}
	}
	if o.options && rapid.IntRange(0, 5).Draw(t, "options?") == 0 {
		s.Elems = append(s.Elems, Elem{Proto: "options", Args: []string{"anything"}})
	}
	return s
}

// drawCuts draws k-1 distinct cut positions in (0,n).
func drawCuts(t *rapid.T, n int, maxK int, prefer []int) []int {
	if n < 2 {
		return nil
	}
	k := rapid.IntRange(1, maxK-1).Draw(t, "ncuts")
	if k > n-1 {
		k = n - 1
	}
	set := map[int]bool{}
	var cuts []int
	for i := 0; i < k; i++ {
		var p int
		if len(prefer) > 0 && rapid.IntRange(0, 2).Draw(t, "nearboundary") == 0 {
			p = rapid.SampledFrom(prefer).Draw(t, "bnd") + rapid.IntRange(-3, 3).Draw(t, "bdelta")
		} else {
			p = rapid.IntRange(1, n-1).Draw(t, "cut")
		}
		if p < 1 || p > n-1 || set[p] {
			continue
		}
		set[p] = true
		cuts = append(cuts, p)
	}
	sortInts(cuts)
	return cuts
}

func sortInts(a []int) {
	for i := 1; i < len(a); i++ {
		for j := i; j > 0 && a[j-1] > a[j]; j-- {
			a[j-1], a[j] = a[j], a[j-1]
		}
	}
}

func cutBytes(b []byte, cuts []int) [][]byte {
	var out [][]byte
	prev := 0
	for _, c := range cuts {
		if c <= prev || c >= len(b) {
			continue
		}
		out = append(out, b[prev:c])
		prev = c
	}
	out = append(out, b[prev:])
	return out
}

// region classifies a cut position inside the element that contains it.
func region(b []byte, offs []int, elems []Elem, p int) (idx int, proto, reg string, inside bool) {
	// find element containing byte p (cut is between p-1 and p)
	lo, hi := 0, len(offs)-1
	for lo+1 < hi {
		mid := (lo + hi) / 2
		if offs[mid] <= p {
			lo = mid
		} else {
			hi = mid
		}
	}
	idx = lo
	if idx >= len(elems) {
		idx = len(elems) - 1
	}
	proto = elems[idx].Proto
	start, end := offs[idx], offs[idx+1]
	if p == start {
		return idx, proto, "boundary", false
	}
	rel := p - start
	switch {
	case b[p-1] == '\r' && p < end && b[p] == '\n':
		reg = "between-cr-lf"
	case rel <= 2:
		reg = "first-bytes"
	case end-p <= 2:
		reg = "last-bytes"
	default:
		switch proto {
		case "resp":
			// header line or payload?
			j := p - 1
			for j > start && b[j] != '\n' {
				j--
			}
			if b[j] == '\n' {
				j++
			}
			if b[j] == '$' || b[j] == '*' {
				reg = "length-line"
			} else {
				reg = "payload"
			}
		case "http-get", "http-post", "ws", "options":
			hdrEnd := strings.Index(string(b[start:end]), "\r\n\r\n")
			if hdrEnd >= 0 && rel > hdrEnd+4 {
				reg = "body"
			} else if rel > hdrEnd && hdrEnd >= 0 {
				reg = "header-end"
			} else if first := strings.Index(string(b[start:end]), "\r\n"); rel <= first {
				reg = "request-line"
			} else {
				reg = "headers"
			}
		case "native":
			sp := strings.IndexByte(string(b[start:end]), ' ')
			if rel <= sp {
				reg = "length-prefix"
			} else {
				reg = "payload"
			}
		default:
			reg = "line"
		}
	}
	return idx, proto, reg, true
}

// ---- streams that end in a protocol error -------------------------------------

// inlineLFID: an inline command whose first letter is G, P or O and that ends
// in a bare LF is held back by the HTTP sniffing until some later CRLF arrives.
const inlineLFID = "inline-lf-command-unanswered"

// inlineLFExcluded counts bare-LF terminations the generator gave up because of
// the listed finding; sub-checks move it into their collector.
var inlineLFExcluded int

func drainExcluded(c *ev.Collector) {
	for ; inlineLFExcluded > 0; inlineLFExcluded-- {
		c.Excluded(inlineLFID)
	}
}

// emptyHTTPID: a complete HTTP request WITHOUT a command used to make
// ReadMessages return (nil, errInvalidHTTP), dropping the messages parsed before
// it in the same read (repaired in f2e465a).
const emptyHTTPID = "http-empty-request-drops-earlier-commands"

type badFrame struct {
	raw, err  string
	emptyHTTP bool
}

// usableBadFrames leaves out the shapes of a finding that is listed as known.
func usableBadFrames() ([]badFrame, int) {
	if !ev.KnownActive(emptyHTTPID) {
		return badFrames, 0
	}
	var out []badFrame
	n := 0
	for _, b := range badFrames {
		if b.emptyHTTP {
			n++
			continue
		}
		out = append(out, b)
	}
	return out, n
}

// badFrames: malformed frames; ReadMessages must deliver the messages parsed
// before one of them in the same read and return them together with the error.
var badFrames = []badFrame{
	{"GET / HTTP/1.1\r\n\r\n", "invalid HTTP request", true},
	{"POST / HTTP/1.1\r\nContent-Length: 0\r\n\r\n", "invalid HTTP request", true},
	{"GET /%20 HTTP/1.1\r\nHost: x\r\n\r\n", "invalid HTTP request", true},
	{"GET /+ HTTP/1.1\r\n\r\n", "invalid HTTP request", true},
	{"POST /%20+ HTTP/1.1\r\nContent-Length: 2\r\n\r\n  ", "invalid HTTP request", true},
	{"*1\r\n$x\r\n", "Protocol error: invalid bulk length", false},
	{"*2\r\n$3\r\nGET\r\n$1x\r\n", "Protocol error: invalid bulk length", false},
	{"*x\r\n", "Protocol error: invalid multibulk length", false},
	{"*-3\r\n", "Protocol error: invalid multibulk length", false},
	{"*1\n", "Protocol error: invalid multibulk length", false},
	{"*1\r\n#4\r\n", "Protocol error: expected '$', got '#'", false},
	{"*1\r\n$3\r\nabcXY", "Protocol error: invalid bulk length", false},
	{"*2\r\n$4\r\nECHO\r\n$2\nab\r\n", "Protocol error: invalid bulk length", false},
	{"*1\r\n$-2\r\n", "Protocol error: invalid bulk length", false},
	{"*1\r\n$9223372036854775807\r\n", "Protocol error: invalid bulk length", false},
	{"SET k1 \"unbalanced\r\n", "Protocol error: unbalanced quotes in request", false},
	{"SET k1 a'b c\r\n", "Protocol error: unbalanced quotes in request", false},
	{"DEL 'k1'x a\r\n", "Protocol error: unbalanced quotes in request", false},
	{"$x SET\r\n", "Protocol error: invalid message", false},
	{"$-1 x\r\n", "Protocol error: invalid message", false},
	{"$3 SETXY", "Protocol error: invalid message", false},
	{"$9223372036854775807 x\r\n", "Protocol error: invalid bulk length", false},
	{"GET nopath HTTP/1.1\r\n\r\n", "invalid HTTP request", false},
	{"GET /a b HTTP/1.1\r\n\r\n", "invalid HTTP request", false},
	{"PUT /ping HTTP/1.1\r\n\r\n", "invalid HTTP request", false},
	{"GET /%zz HTTP/1.1\r\n\r\n", "invalid HTTP request", false},
}

var trailers = []string{"", "", "*1\r\n$4\r\nPING\r\n", "PING\r\n", "garbage", "\r\n", "*1\r\n$4\r\nPI"}

// drawErrStream: 1-n valid commands (any of the allowed encodings, writes
// included) followed by ONE malformed frame and optional trailing bytes.
func drawErrStream(t *rapid.T, o streamOpts, maxPrefix int, trail bool) Stream {
	ns := gen.DrawNames(t)
	o.noEmpties = false
	n := rapid.IntRange(1, maxPrefix).Draw(t, "nprefix")
	var s Stream
	for i := 0; i < n; i++ {
		s.Elems = append(s.Elems, drawElem(t, ns, o))
	}
	// at least one write among the valid commands
	if rapid.Bool().Draw(t, "forcewrite") {
		w := Elem{Proto: "resp", Args: []string{"SET", ns.Keys[0], ns.IDs[0], "POINT", "1", "2"}}
		at := rapid.IntRange(0, len(s.Elems)).Draw(t, "writeat")
		s.Elems = append(s.Elems[:at], append([]Elem{w}, s.Elems[at:]...)...)
	}
	frames, _ := usableBadFrames()
	bf := rapid.SampledFrom(frames).Draw(t, "bad")
	s.Elems = append(s.Elems, Elem{Proto: "bad", Raw: bf.raw, Err: bf.err})
	if trail {
		if tr := rapid.SampledFrom(trailers).Draw(t, "trail"); tr != "" {
			s.Elems = append(s.Elems, Elem{Proto: "trail", Raw: tr})
		}
	}
	return s
}

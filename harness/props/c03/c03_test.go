// C03: restart reproduces exactly the acknowledged state (AOF replay
// equivalence). Sub-checks:
//
//	Restart   histories of every data-modifying command kind (keyspace, hooks,
//	          scripts, expirations) over several connections; quiescent
//	          restart (directory snapshot after the last ack, and clean stop)
//	          must give dump(before) == dump(after); the recovered log
//	          replayed through the reference model must give the same
//	          keyspace.
//	LogTable  for every command label of the dispatcher x generated arguments:
//	          if the command changed the visible dataset then the log grew and
//	          a restart reproduces the new dataset (completeness of the
//	          logging table, incl. script-wrapped forms).
//	Crash     one writer pipelines a generated sequence; the directory is
//	          snapshotted (or the subprocess SIGKILLed) at a generated moment;
//	          the recovered state must equal the model after some prefix of
//	          the sequence no shorter than the acknowledgements received.
package c03

import (
	"crypto/sha1"
	"encoding/json"
	"fmt"
	"go/ast"
	"go/parser"
	"go/token"
	"os"
	"path/filepath"
	"sort"
	"strconv"
	"strings"
	"sync"
	"sync/atomic"
	"testing"
	"time"

	"github.com/tidwall/tile38/verif/harness/ev"
	"github.com/tidwall/tile38/verif/harness/gen"
	"github.com/tidwall/tile38/verif/harness/model"
	"github.com/tidwall/tile38/verif/harness/t38"
	"pgregory.net/rapid"
)

// ---------------------------------------------------------------- generators

var hookNames = []string{"h1", "h2", "c1", "c2"}

const hookScript = "return FIELDS.speed ~= nil and FIELDS.speed > tonumber(ARGV[1])"

var hookScriptSha = fmt.Sprintf("%x", sha1.Sum([]byte(hookScript)))

// historyPrelude is issued before every history: the script that hooks refer
// to by digest, and the objects that hooks refer to as their area.
var historyPrelude = [][]string{
	{"SCRIPT", "LOAD", hookScript},
	{"SET", "areas", "z1", "OBJECT", `{"type":"Polygon","coordinates":[[[0,0],[4,0],[4,4],[0,4],[0,0]]]}`},
	{"SET", "areas", "z2", "BOUNDS", "1", "2", "3", "4"},
}

func hookCmd(t *rapid.T) []string {
	name := rapid.SampledFrom(hookNames).Draw(t, "hookname")
	isChan := name[0] == 'c'
	switch rapid.IntRange(0, 5).Draw(t, "hookop") {
	case 0:
		if isChan {
			return []string{"DELCHAN", name}
		}
		return []string{"DELHOOK", name}
	case 1:
		if isChan {
			return []string{"PDELCHAN", name[:1] + "*"}
		}
		return []string{"PDELHOOK", name[:1] + "*"}
	}
	var cmd []string
	if isChan {
		cmd = []string{"SETCHAN", name}
	} else {
		cmd = []string{"SETHOOK", name, "http://127.0.0.1:9/" + name}
	}
	if rapid.Bool().Draw(t, "meta") {
		cmd = append(cmd, "META", "m", rapid.SampledFrom([]string{"v1", "v 2", "{\"a\":1}"}).Draw(t, "metav"))
	}
	if rapid.IntRange(0, 3).Draw(t, "hex") == 0 {
		cmd = append(cmd, "EX", strconv.Itoa(rapid.IntRange(100000, 900000).Draw(t, "hexv")))
	}
	switch rapid.IntRange(0, 5).Draw(t, "fence") {
	case 3:
		// a filter script given as text
		cmd = append(cmd, "NEARBY", "fencekey", "WHEREEVAL", hookScript, "1", "50", "FENCE", "POINT", "10", "10", "500")
	case 4:
		// ... and by the digest of a script loaded before (histories start with SCRIPT LOAD): the log
		// must not depend on what is loaded in the process that reads it
		cmd = append(cmd, "WITHIN", "fencekey", "WHEREEVALSHA", hookScriptSha, "1", "50", "FENCE", "BOUNDS", "1", "2", "3", "4")
	case 5:
		// an area given by reference
		cmd = append(cmd, "WITHIN", "fencekey", "FENCE", "GET", "areas", rapid.SampledFrom([]string{"z1", "z2"}).Draw(t, "area"))
	case 0:
		cmd = append(cmd, "NEARBY", "fencekey", "FENCE", "POINT", "10", "10", strconv.Itoa(rapid.IntRange(1, 999).Draw(t, "r")))
	case 1:
		cmd = append(cmd, "WITHIN", "fencekey", "FENCE", "DETECT", "enter,exit", "BOUNDS", "1", "2", "3", "4")
	default:
		cmd = append(cmd, "INTERSECTS", "fencekey", "MATCH", "a*", "FENCE", "OBJECT", `{"type":"Polygon","coordinates":[[[0,0],[4,0],[4,4],[0,4],[0,0]]]}`)
	}
	return cmd
}

// scriptWrap turns a command into EVAL* "return tile38.call(ARGV[1],...,ARGV[n])" 0 args...
func scriptWrap(evalCmd string, inner []string) []string {
	var b strings.Builder
	b.WriteString("return tile38.call(")
	for i := range inner {
		if i > 0 {
			b.WriteByte(',')
		}
		fmt.Fprintf(&b, "ARGV[%d]", i+1)
	}
	b.WriteString(")")
	return append([]string{evalCmd, b.String(), "0"}, inner...)
}

// scriptMulti builds a script that performs several commands through
// tile38.call and then ends the way tail says: "" (returns normally), "error"
// (raises after the calls), "badcall" (a refused tile38.call after the calls),
// "spin" (never ends: only with a TIMEOUT prefix). Writes made before a failure
// stay applied, so they must survive a restart like any other write.
func scriptMulti(evalCmd string, inners [][]string, tail string) []string {
	var b strings.Builder
	var args []string
	for _, inner := range inners {
		b.WriteString("tile38.call(")
		for i := range inner {
			if i > 0 {
				b.WriteByte(',')
			}
			fmt.Fprintf(&b, "ARGV[%d]", len(args)+i+1)
		}
		b.WriteString(") ")
		args = append(args, inner...)
	}
	switch tail {
	case "error":
		b.WriteString("error('boom')")
	case "badcall":
		b.WriteString("return tile38.call('nosuchcommand', 'x')")
	case "spin":
		b.WriteString("while true do end")
	default:
		b.WriteString("return 1")
	}
	cmd := append([]string{evalCmd, b.String(), "0"}, args...)
	if tail == "spin" {
		cmd = append([]string{"TIMEOUT", "0.05"}, cmd...)
	}
	return cmd
}

func nonEmptyArgs(cmd []string) bool {
	for _, a := range cmd {
		if a == "" {
			return false
		}
	}
	return true
}

// histCmd draws one history command: keyspace command, hook command, or a
// keyspace write wrapped in a script.
func histCmd(t *rapid.T, ns gen.Names) []string {
	switch rapid.IntRange(0, 9).Draw(t, "hkind") {
	case 0:
		return hookCmd(t)
	case 1, 2:
		inner := gen.KeyspaceCmd(t, ns)
		if !nonEmptyArgs(inner) || strings.ToLower(inner[0]) == "jdel" {
			return inner
		}
		ev := rapid.SampledFrom([]string{"EVAL", "EVALNA"}).Draw(t, "evalkind")
		return scriptWrap(ev, inner)
	case 3:
		// several calls in one script, ending normally, in an error, in a refused call or in a timeout
		var inners [][]string
		for i, n := 0, rapid.IntRange(1, 3).Draw(t, "ncalls"); i < n; i++ {
			inner := gen.KeyspaceCmd(t, ns)
			if !nonEmptyArgs(inner) {
				continue
			}
			inners = append(inners, inner)
		}
		if len(inners) == 0 {
			return gen.KeyspaceCmd(t, ns)
		}
		ev := rapid.SampledFrom([]string{"EVAL", "EVAL", "EVALNA"}).Draw(t, "evalkind")
		tail := rapid.SampledFrom([]string{"", "error", "error", "badcall", "spin"}).Draw(t, "tail")
		return scriptMulti(ev, inners, tail)
	}
	return gen.KeyspaceCmd(t, ns)
}

// applyModel applies a history command to the keyspace model (scripts are
// unwrapped; hook commands are ignored by the keyspace model).
func applyModel(db *model.DB, cmd []string) {
	name := strings.ToLower(cmd[0])
	if (name == "eval" || name == "evalna") && len(cmd) > 3 {
		model.Exec(db, cmd[3:])
		return
	}
	model.Exec(db, cmd)
}

// ---------------------------------------------------------------- Restart

type history struct {
	Cmds  [][]string `json:"cmds"`
	Conns []int      `json:"conns"` // which connection issues each command
	TTLs  int        `json:"ttls"`  // number of short-TTL objects set at the start (expire during the history)
	Clean bool       `json:"clean"` // clean stop instead of a directory snapshot
}

func bootDump(dir string) (*t38.Dump, *t38.Srv, error) {
	srv, err := t38.Start(t38.Opts{Dir: dir})
	if err != nil {
		return nil, nil, fmt.Errorf("server does not start on the recovered directory: %v", err)
	}
	d, err := t38.TakeDump(srv.Addr)
	if err != nil {
		srv.StopAsync()
		return nil, nil, err
	}
	return d, srv, nil
}

func runHistory(t ev.Failer, c *ev.Collector, h history) (labels map[string]bool) {
	labels = map[string]bool{}
	srv, err := t38.Start(t38.Opts{})
	if err != nil {
		t.Fatalf("start: %v", err)
	}
	stopped := false
	defer func() {
		if !stopped {
			srv.StopAsync()
		}
	}()
	conns := make([]*t38.Conn, 4)
	for i := range conns {
		conns[i] = srv.MustDial()
		defer conns[i].Close()
	}
	fail := func(key, what string) { c.Fail(t, key, what, h) }
	for _, cmd := range historyPrelude {
		if v := conns[0].MustDo(cmd...); v.IsErr() {
			t.Fatalf("prelude %v: %s", cmd, v)
		}
	}
	for i := 0; i < h.TTLs; i++ {
		conns[0].MustDo("SET", "ttlkey", fmt.Sprintf("e%d", i), "EX", "0.05", "POINT", "1", "1")
	}
	for i, cmd := range h.Cmds {
		v, err := conns[h.Conns[i]%4].Do(cmd...)
		if err != nil {
			fail("c03-harness", fmt.Sprintf("transport error on %s: %v", t38.CmdString(cmd), err))
		}
		n := strings.ToLower(cmd[0])
		if v.IsErr() && (n == "eval" || n == "evalna" || n == "timeout") && strings.Contains(strings.Join(cmd[:4], " "), "tile38.call(ARGV") {
			labels["script-failed-after-calls"] = true
		}
		if !v.IsErr() {
			switch {
			case n == "eval" || n == "evalna":
				labels["script-write"] = true
			case n == "jset" || n == "jdel":
				labels["json-write"] = true
			case strings.Contains(n, "hook") || strings.Contains(n, "chan"):
				labels["hook-command"] = true
			case n == "pdel" || n == "drop" || n == "flushdb" || n == "rename":
				labels["multi-object"] = true
			}
		}
	}
	if h.TTLs > 0 {
		// wait until the sweeper has logged the expirations
		deadline := time.Now().Add(10 * time.Second)
		for {
			v := conns[0].MustDo("SCAN", "ttlkey", "COUNT")
			if v.Int == 0 {
				labels["expiry-del"] = true
				break
			}
			if time.Now().After(deadline) {
				c.Inconclusive("short-TTL objects still present after 10 s")
				return labels
			}
			time.Sleep(20 * time.Millisecond)
		}
	}
	before, err := t38.TakeDump(srv.Addr)
	if err != nil {
		fail("c03-harness", "dump: "+err.Error())
	}
	dir := t38.NewDir("c03r")
	if h.Clean {
		labels["clean-stop"] = true
		for _, cn := range conns {
			cn.Close()
		}
		stopped = true
		if err := srv.Stop(); err != nil {
			fail("clean-stop-error", "Serve returned an error on shutdown: "+err.Error())
		}
	}
	if err := t38.CopyDir(srv.Dir, dir); err != nil {
		t.Fatalf("copy: %v", err)
	}
	defer os.RemoveAll(dir)
	after, R, err := bootDump(dir)
	if err != nil {
		fail("restart-fails", err.Error())
	}
	defer R.StopAsync()
	if diff := before.Diff(after); diff != "" {
		fail("restart-differs", "restart on the same directory serves a different dataset (A=before, B=after): "+diff)
	}
	// the recovered log replayed through the reference model gives the same keyspace
	cmds, _, err := t38.ParseAOF(filepath.Join(dir, "appendonly.aof"))
	if err != nil {
		fail("log-malformed", err.Error())
	}
	db := model.NewDB()
	unsupported := 0
	for _, lc := range cmds {
		n := strings.ToLower(lc.Args[0])
		if strings.Contains(n, "hook") || strings.Contains(n, "chan") {
			if n == "flushdb" {
				continue
			}
			continue
		}
		r := model.Exec(db, lc.Args)
		if r.Unsupported {
			unsupported++
		}
	}
	if unsupported == 0 {
		if diff := db.DiffDump(after); diff != "" {
			fail("log-replay-differs", "the recovered append-only file replayed through the reference model gives a different keyspace than the server serves (A=model, B=server): "+diff)
		}
		labels["log-replayed-through-model"] = true
	}
	return labels
}

// reissueHooks re-issues some SETHOOK/SETCHAN commands of a history later on
// with the same definition but another EX (added, changed or removed): "the
// same hook, only its deadline moved" is a write like any other.
func reissueHooks(t *rapid.T, cmds [][]string) [][]string {
	out := append([][]string{}, cmds...)
	for i, cmd := range cmds {
		n := strings.ToLower(cmd[0])
		if (n != "sethook" && n != "setchan") || rapid.IntRange(0, 2).Draw(t, "reissue?") != 0 {
			continue
		}
		var again []string
		for j := 0; j < len(cmd); j++ {
			if strings.ToLower(cmd[j]) == "ex" && j+1 < len(cmd) {
				j++ // drop EX n
				continue
			}
			again = append(again, cmd[j])
		}
		if ex := rapid.SampledFrom([]string{"", "100000", "777777"}).Draw(t, "newex"); ex != "" {
			k := 2 // after the name (and the endpoint of a hook)
			if n == "sethook" {
				k = 3
			}
			again = append(append(append([]string{}, again[:k]...), "EX", ex), again[k:]...)
		}
		at := rapid.IntRange(i+1, len(out)).Draw(t, "at")
		out = append(out[:at], append([][]string{again}, out[at:]...)...)
	}
	return out
}

func TestC03_Restart(t *testing.T) {
	c := ev.New("C03", "restart", "exploration")
	t.Cleanup(c.Flush)
	c.Rule("histories of 5-60 commands (keyspace commands of every kind, hook/channel commands with META/EX, keyspace writes wrapped in EVAL/EVALNA scripts) issued over 4 connections, optionally with objects that expire during the history; then a quiescent restart — a snapshot of the data directory taken after the last acknowledgement, or a clean stop — must serve dump(before) == dump(after) incl. hooks, channels and has-deadline flags; and the recovered log replayed through the reference model must give the served keyspace. Non-trivial: the history contains at least three of {script write, JSET/JDEL, expiry DEL, hook command, multi-object command}; distinct by command-name sequence.")
	ev.Rapid("restart", ev.Pick(150, 800))
	rapid.Check(t, func(rt *rapid.T) {
		ns := gen.DrawNames(rt)
		g := rapid.Custom(func(t *rapid.T) []string { return histCmd(t, ns) })
		h := history{Cmds: rapid.SliceOfN(g, 5, ev.Pick(40, 80)).Draw(rt, "cmds")}
		h.Cmds = reissueHooks(rt, h.Cmds)
		h.Conns = rapid.SliceOfN(rapid.IntRange(0, 3), len(h.Cmds), len(h.Cmds)).Draw(rt, "conns")
		if rapid.IntRange(0, 3).Draw(rt, "ttl?") == 0 {
			h.TTLs = rapid.IntRange(1, 3).Draw(rt, "ttls")
		}
		h.Clean = rapid.IntRange(0, 9).Draw(rt, "clean?") == 0
		c.Case()
		labels := runHistory(rt, c, h)
		n := 0
		for l := range labels {
			c.Label(l)
			switch l {
			case "script-write", "json-write", "expiry-del", "hook-command", "multi-object":
				n++
			}
		}
		if n >= 3 {
			var b strings.Builder
			for _, cmd := range h.Cmds {
				b.WriteString(strings.ToLower(cmd[0]) + ";")
			}
			c.NonTrivial(b.String())
			if c.WantSample() {
				c.Sample(map[string]any{"cmds": gen.Describe(h.Cmds), "ttl_objects": h.TTLs, "clean_stop": h.Clean})
			}
		}
	})
}

// ---------------------------------------------------------------- LogTable

func repoDir() string {
	if d := os.Getenv("VERIF_REPO"); d != "" {
		return d
	}
	return "/repo"
}

// commandLabels returns the case labels of (*Server).command.
func commandLabels() ([]string, error) {
	fset := token.NewFileSet()
	f, err := parser.ParseFile(fset, filepath.Join(repoDir(), "internal/server/server.go"), nil, 0)
	if err != nil {
		return nil, err
	}
	var out []string
	for _, d := range f.Decls {
		fd, ok := d.(*ast.FuncDecl)
		if !ok || fd.Name.Name != "command" || fd.Recv == nil {
			continue
		}
		ast.Inspect(fd.Body, func(n ast.Node) bool {
			cc, ok := n.(*ast.CaseClause)
			if !ok {
				return true
			}
			for _, e := range cc.List {
				if bl, ok := e.(*ast.BasicLit); ok && bl.Kind == token.STRING {
					s, _ := strconv.Unquote(bl.Value)
					out = append(out, s)
				}
			}
			return true
		})
	}
	sort.Strings(out)
	return out, nil
}

// argsFor draws arguments for a command label; ok=false when the label has no generator.
func argsFor(t *rapid.T, label string) ([]string, bool) {
	ns := gen.SmallNames
	k := func() string { return rapid.SampledFrom(ns.Keys).Draw(t, "k") }
	id := func() string { return rapid.SampledFrom(ns.IDs).Draw(t, "id") }
	keyspace := func(name string) ([]string, bool) {
		for i := 0; i < 200; i++ {
			cmd := gen.KeyspaceCmd(t, ns)
			if strings.ToLower(cmd[0]) == name {
				return cmd, true
			}
		}
		return nil, false
	}
	switch label {
	case "flushdb":
		return []string{"FLUSHDB"}, true
	case "keys":
		return []string{"KEYS", "*"}, true
	case "renamenx":
		return []string{"RENAMENX", k(), k()}, true
	case "exists", "ttl":
		return []string{label, k(), id()}, true
	case "type":
		return []string{"TYPE", k()}, true
	case "aofmd5":
		return []string{"AOFMD5", "0", "0"}, true
	case "set", "fset", "del", "pdel", "drop", "rename", "expire", "persist", "jset", "jdel",
		"get", "fget", "jget", "fexists", "scan":
		return keyspace(label)
	case "sethook", "delhook", "pdelhook", "setchan", "delchan", "pdelchan":
		for i := 0; i < 200; i++ {
			cmd := hookCmd(t)
			if strings.ToLower(cmd[0]) == label {
				return cmd, true
			}
		}
		return nil, false
	case "eval", "evalna", "evalro":
		for i := 0; i < 50; i++ {
			inner := gen.KeyspaceCmd(t, ns)
			if nonEmptyArgs(inner) {
				return scriptWrap(strings.ToUpper(label), inner), true
			}
		}
		return nil, false
	case "hooks", "chans":
		return []string{label, "*"}, true
	case "stats", "bounds":
		return []string{label, k()}, true
	case "server", "info", "healthz", "role", "gc", "aofmd5x":
		return []string{label}, true
	case "nearby":
		return []string{"NEARBY", k(), "POINT", "1", "2", "100000"}, true
	case "within", "intersects":
		return []string{label, k(), "BOUNDS", "-10", "-10", "10", "10"}, true
	case "search":
		return []string{"SEARCH", k()}, true
	case "test":
		return []string{"TEST", "GET", k(), id(), "INTERSECTS", "BOUNDS", "-10", "-10", "10", "10"}, true
	case "output":
		return []string{"OUTPUT"}, true
	case "config get":
		return []string{"CONFIG", "GET", "keepalive"}, true
	case "config set":
		return []string{"CONFIG", "SET", "keepalive", strconv.Itoa(rapid.IntRange(100, 400).Draw(t, "ka"))}, true
	case "config rewrite":
		return []string{"CONFIG", "REWRITE"}, true
	case "script load":
		return []string{"SCRIPT", "LOAD", "return 1"}, true
	case "script exists":
		return []string{"SCRIPT", "EXISTS", "abc"}, true
	case "script flush":
		return []string{"SCRIPT", "FLUSH"}, true
	case "publish":
		return []string{"PUBLISH", "chx", "hello"}, true
	case "client":
		return []string{"CLIENT", "LIST"}, true
	case "readonly":
		return []string{"READONLY", "no"}, true
	case "follow":
		return []string{"FOLLOW", "no", "one"}, true
	case "echo", "ping":
		return []string{label, "x"}, true
	case "aofshrink":
		return []string{"AOFSHRINK"}, true
	}
	return nil, false
}

// enabling returns set-up commands that make cmd likely to take effect: the
// object it addresses exists with a deadline and fields, the JSON path it
// deletes exists, the hook it deletes exists.
func enabling(cmd []string) [][]string {
	inner := cmd
	n := strings.ToLower(cmd[0])
	if (n == "eval" || n == "evalna" || n == "evalro") && len(cmd) > 3 {
		inner = cmd[3:]
		n = strings.ToLower(inner[0])
	}
	var out [][]string
	switch n {
	case "jdel":
		if len(inner) > 3 {
			out = append(out, []string{"DEL", inner[1], inner[2]}, []string{"JSET", inner[1], inner[2], inner[3], "1"})
		}
	case "delhook", "pdelhook":
		out = append(out, []string{"SETHOOK", "h1", "http://127.0.0.1:9/h1", "NEARBY", "fencekey", "FENCE", "POINT", "1", "1", "10"})
	case "delchan", "pdelchan":
		out = append(out, []string{"SETCHAN", "c1", "NEARBY", "fencekey", "FENCE", "POINT", "1", "1", "10"})
	case "fset", "del", "pdel", "expire", "persist", "drop", "rename", "renamenx":
		if len(inner) > 2 {
			id := inner[2]
			if n == "drop" || n == "rename" || n == "renamenx" || n == "pdel" {
				id = "a"
			}
			out = append(out, []string{"SET", inner[1], id, "FIELD", "f", "5", "EX", "100000", "POINT", "1", "2"})
		} else if len(inner) > 1 {
			out = append(out, []string{"SET", inner[1], "a", "POINT", "1", "2"})
		}
	}
	return out
}

type tableCase struct {
	Prelude [][]string `json:"prelude"`
	Cmd     []string   `json:"cmd"`
}

var (
	tblSrv  *t38.Srv
	tblConn *t38.Conn
	tblOnce sync.Once
)

func aofSize(path string) int64 {
	st, err := os.Stat(path)
	if err != nil {
		return -1
	}
	return st.Size()
}

func runTableCase(t ev.Failer, c *ev.Collector, tc tableCase) (changed bool) {
	tblOnce.Do(func() {
		var err error
		tblSrv, err = t38.Start(t38.Opts{})
		if err != nil {
			panic(err)
		}
		tblConn = tblSrv.MustDial()
	})
	conn := tblConn
	fail := func(key, what string) { c.Fail(t, key, what, tc) }
	conn.MustDo("FLUSHDB")
	for _, p := range tc.Prelude {
		conn.MustDo(p...)
	}
	d0, err := t38.TakeDump(tblSrv.Addr)
	if err != nil {
		fail("c03-harness", err.Error())
	}
	sz0 := aofSize(tblSrv.AOFPath())
	v, err := conn.Do(tc.Cmd...)
	if err != nil {
		fail("c03-harness", "transport: "+err.Error())
	}
	if strings.ToLower(tc.Cmd[0]) == "aofshrink" {
		// let the background rewrite finish before looking at the file
		time.Sleep(50 * time.Millisecond)
		for i := 0; i < 200; i++ {
			if _, err := os.Stat(tblSrv.AOFPath() + "-shrink"); os.IsNotExist(err) {
				break
			}
			time.Sleep(10 * time.Millisecond)
		}
		return false
	}
	d1, err := t38.TakeDump(tblSrv.Addr)
	if err != nil {
		fail("c03-harness", err.Error())
	}
	if d0.Canon() == d1.Canon() {
		return false
	}
	name := strings.ToLower(tc.Cmd[0])
	sz1 := aofSize(tblSrv.AOFPath())
	if sz1 <= sz0 {
		fail("write-not-logged:"+name, fmt.Sprintf("%s answered %s and changed the visible dataset (%s) but appendonly.aof did not grow (%d -> %d bytes)", t38.CmdString(tc.Cmd), v, d0.Diff(d1), sz0, sz1))
	}
	dir := t38.NewDir("c03t")
	defer os.RemoveAll(dir)
	if err := t38.CopyDir(tblSrv.Dir, dir); err != nil {
		t.Fatalf("copy: %v", err)
	}
	d2, R, err := bootDump(dir)
	if err != nil {
		fail("restart-fails", err.Error())
	}
	defer R.StopAsync()
	if diff := d1.Diff(d2); diff != "" {
		fail("write-not-recovered:"+name, fmt.Sprintf("after %s (reply %s) a restart does not reproduce the dataset (A=before restart, B=after): %s", t38.CmdString(tc.Cmd), v, diff))
	}
	return true
}

func TestC03_LogTable(t *testing.T) {
	c := ev.New("C03", "logtable", "exploration")
	t.Cleanup(c.Flush)
	labels, err := commandLabels()
	if err != nil || len(labels) < 40 {
		t.Fatalf("cannot enumerate the command table: %v (%d labels)", err, len(labels))
	}
	c.Rule("for every case label of (*Server).command (enumerated from the source at run time) x generated arguments on a generated prepared state: execute; if the visible dataset (dump incl. hooks/channels/deadline flags) changed, then appendonly.aof must have grown and a restart on a snapshot of the directory must reproduce the new dataset. Script-wrapped forms (EVAL/EVALNA/EVALRO of every keyspace command) are part of the table. Non-trivial: the command changed the dataset; distinct by (label, argument shape).")
	var noGen []string
	perLabel := ev.Pick(10, 60)
	for _, label := range labels {
		switch label {
		case "shutdown", "massinsert", "sleep", "monitor", "subscribe", "psubscribe", "aof", "replconf", "slaveof", "evalsha", "evalrosha", "evalnasha", "config", "script", "auth", "timeout", "hello", "quit":
			c.Label("skipped-label:" + label)
			continue
		}
		if _, ok := func() (a []string, ok bool) {
			defer func() { recover() }()
			return nil, true
		}(); !ok {
			continue
		}
		has := true
		ev.Rapid("logtable-"+label, perLabel)
		rapid.Check(t, func(rt *rapid.T) {
			cmd, ok := argsFor(rt, label)
			if !ok {
				has = false
				return
			}
			pg := rapid.Custom(func(t *rapid.T) []string {
				if rapid.IntRange(0, 6).Draw(t, "hookprelude") == 0 {
					return hookCmd(t)
				}
				return gen.KeyspaceCmd(t, gen.SmallNames)
			})
			tc := tableCase{Prelude: rapid.SliceOfN(pg, 0, 12).Draw(rt, "prelude"), Cmd: cmd}
			if rapid.IntRange(0, 9).Draw(rt, "enable") < 7 {
				tc.Prelude = append(tc.Prelude, enabling(cmd)...)
			}
			c.Case()
			if runTableCase(rt, c, tc) {
				c.Label("mutating:" + label)
				c.NonTrivial(label + ":" + shape(cmd))
				if c.WantSample() {
					c.Sample(map[string]any{"label": label, "cmd": cmd, "prelude_len": len(tc.Prelude)})
				}
			} else {
				c.Label("no-change:" + label)
			}
		})
		if !has {
			noGen = append(noGen, label)
		}
	}
	c.Note("command labels: %d; without an argument generator: %v", len(labels), noGen)
	if tblSrv != nil {
		tblSrv.StopAsync()
	}
}

func shape(cmd []string) string {
	var b []string
	for _, a := range cmd[1:] {
		u := strings.ToUpper(a)
		switch u {
		case "NX", "XX", "EX", "FIELD", "POINT", "BOUNDS", "HASH", "OBJECT", "STRING", "ERRON404", "RAW", "STR", "META", "NEARBY", "WITHIN", "INTERSECTS", "SET", "FSET", "DEL", "PDEL", "DROP", "RENAME", "RENAMENX", "FLUSHDB", "EXPIRE", "PERSIST", "JSET", "JDEL":
			b = append(b, u)
		}
	}
	return strings.Join(b, "+")
}

// ---------------------------------------------------------------- Crash

type crashCase struct {
	Cmds    [][]string `json:"cmds"`
	AfterN  int        `json:"after_n"` // take the snapshot / kill after this many acknowledgements were read
	Sigkill bool       `json:"sigkill"`
}

func runCrash(t ev.Failer, c *ev.Collector, cc crashCase) (torn bool) {
	fail := func(key, what string) { c.Fail(t, key, what, cc) }
	var srv *t38.Srv
	var proc *t38.Proc
	var err error
	if cc.Sigkill {
		proc, err = t38.StartProc(t38.Opts{})
		if err != nil {
			t.Fatalf("start proc: %v", err)
		}
		srv = proc.Srv
	} else {
		srv, err = t38.Start(t38.Opts{})
		if err != nil {
			t.Fatalf("start: %v", err)
		}
		defer srv.StopAsync()
	}
	conn := srv.MustDial()
	defer conn.Close()
	var acks atomic.Int64
	done := make(chan struct{})
	go func() {
		defer close(done)
		for range cc.Cmds {
			if _, err := conn.RecvTimeout(20 * time.Second); err != nil {
				return
			}
			acks.Add(1)
		}
	}()
	var buf []byte
	for _, cmd := range cc.Cmds {
		buf = append(buf, t38.EncodeCmd(cmd...)...)
	}
	// send in a few segments so that the crash can fall inside the burst
	go func() {
		for len(buf) > 0 {
			n := 700
			if n > len(buf) {
				n = len(buf)
			}
			if conn.SendRaw(buf[:n]) != nil {
				return
			}
			buf = buf[n:]
		}
	}()
	for acks.Load() < int64(cc.AfterN) {
		select {
		case <-done:
			if acks.Load() < int64(cc.AfterN) {
				c.Inconclusive("connection ended after %d of %d acks", acks.Load(), cc.AfterN)
				if proc != nil {
					proc.Kill()
				}
				return false
			}
		default:
		}
		time.Sleep(50 * time.Microsecond)
	}
	ackedAtCrash := int(acks.Load())
	dir := t38.NewDir("c03c")
	defer os.RemoveAll(dir)
	if cc.Sigkill {
		proc.Kill()
		if err := t38.CopyDir(srv.Dir, dir); err != nil {
			t.Fatalf("copy: %v", err)
		}
	} else {
		if err := t38.CopyDir(srv.Dir, dir); err != nil {
			t.Fatalf("copy: %v", err)
		}
	}
	after, R, err := bootDump(dir)
	if err != nil {
		fail("restart-fails", fmt.Sprintf("after a crash with %d acknowledged commands: %v", ackedAtCrash, err))
	}
	defer R.StopAsync()
	// the recovered state must be the model after some prefix >= ackedAtCrash
	db := model.NewDB()
	for i := 0; i < ackedAtCrash && i < len(cc.Cmds); i++ {
		applyModel(db, cc.Cmds[i])
	}
	match := -1
	var firstDiff string
	for n := ackedAtCrash; n <= len(cc.Cmds); n++ {
		if n > ackedAtCrash {
			applyModel(db, cc.Cmds[n-1])
		}
		d := db.DiffDump(after)
		if d == "" {
			match = n
			break
		}
		if firstDiff == "" {
			firstDiff = d
		}
	}
	if match < 0 {
		fail("crash-recovery-not-a-prefix", fmt.Sprintf("after a crash with %d of %d commands acknowledged the recovered dataset equals no prefix of the submitted sequence of length >= %d (vs. exactly the acknowledged prefix: %s)", ackedAtCrash, len(cc.Cmds), ackedAtCrash, firstDiff))
	}
	return match < len(cc.Cmds)
}

// supportedOnly drops the commands whose shape the reference model does not
// cover at their position in the sequence (e.g. JSET on a non-JSON string).
func supportedOnly(cmds [][]string) [][]string {
	db := model.NewDB()
	var out [][]string
	for _, cmd := range cmds {
		if r := model.Exec(db, cmd); r.Unsupported {
			continue
		}
		out = append(out, cmd)
	}
	return out
}

func TestC03_Crash(t *testing.T) {
	c := ev.New("C03", "crash", "fault_enumeration")
	t.Cleanup(c.Flush)
	c.Rule("one connection pipelines 20-200 keyspace writes (small alphabet) in 700-byte segments; after a generated number of acknowledgements has been read the data directory is snapshotted while the server keeps running (in-process) or the server subprocess is SIGKILLed; the recovered dataset must equal the reference model after some prefix of the submitted sequence whose length is at least the number of acknowledgements read (acknowledged writes present, unacknowledged ones present or absent, never partially applied). Non-trivial: the crash fell inside the burst (recovered prefix shorter than the whole sequence); distinct by (sequence hash, crash position).")
	haveBin := t38.ServerBin() != ""
	ev.Rapid("crash", ev.Pick(100, 600))
	rapid.Check(t, func(rt *rapid.T) {
		g := rapid.Custom(func(t *rapid.T) []string {
			for {
				cmd := gen.KeyspaceCmd(t, gen.SmallNames)
				if model.IsWrite(cmd[0]) {
					return cmd
				}
			}
		})
		cc := crashCase{Cmds: supportedOnly(rapid.SliceOfN(g, 20, 200).Draw(rt, "cmds"))}
		cc.AfterN = rapid.IntRange(0, len(cc.Cmds)).Draw(rt, "after")
		cc.Sigkill = haveBin && rapid.IntRange(0, 3).Draw(rt, "sigkill") == 0
		c.Case()
		if runCrash(rt, c, cc) {
			c.NonTrivial(fmt.Sprintf("%d/%d/%v/%s", cc.AfterN, len(cc.Cmds), cc.Sigkill, strings.Join(cc.Cmds[0], " ")))
			if cc.Sigkill {
				c.Label("sigkill-inside-burst")
			} else {
				c.Label("snapshot-inside-burst")
			}
			if c.WantSample() {
				c.Sample(map[string]any{"commands": len(cc.Cmds), "crash_after_acks": cc.AfterN, "sigkill": cc.Sigkill, "first": gen.Describe(cc.Cmds[:3])})
			}
		}
	})
}

func TestReplay(t *testing.T) {
	doc, ok := ev.ReplayFile()
	if !ok {
		t.Skip("no replay file")
	}
	c := ev.New("C03", "replay", "exploration")
	t.Cleanup(c.Flush)
	c.Case()
	switch {
	case doc.Check == "restart":
		var h history
		if err := json.Unmarshal(doc.Data, &h); err != nil {
			t.Fatal(err)
		}
		runHistory(t, c, h)
	case doc.Check == "logtable":
		var tc tableCase
		if err := json.Unmarshal(doc.Data, &tc); err != nil {
			t.Fatal(err)
		}
		runTableCase(t, c, tc)
	default:
		var cc crashCase
		if err := json.Unmarshal(doc.Data, &cc); err != nil {
			t.Fatal(err)
		}
		runCrash(t, c, cc)
	}
}

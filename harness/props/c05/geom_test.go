package c05

// Independent planar / great-circle arithmetic used by the fence model.
// Nothing in this file calls tile38 or tidwall/geojson. Every fence area is
// described by an affine "frame" (centre + half extents in degrees) in which
// the area is the unit circle, the unit square or the unit diamond; positions
// are only ever generated with a safety margin from the boundary (tested at
// two scales), so the precision of the server's geometry code is never what
// is being tested.

import (
	"math"
	"strconv"
	"strings"
)

const (
	earthR    = 6371000.0
	mPerDeg   = earthR * math.Pi / 180
	shCircle  = 0
	shSquare  = 1
	shDiamond = 2
)

// Area is one fence area as sent to the server.
type Area struct {
	Kind string  `json:"kind"` // point(NEARBY) circle bounds tile hash object
	Lat  float64 `json:"lat,omitempty"`
	Lon  float64 `json:"lon,omitempty"`
	R    float64 `json:"r,omitempty"`  // metres (point/circle)
	HW   float64 `json:"hw,omitempty"` // half width, degrees of longitude (bounds/object)
	HH   float64 `json:"hh,omitempty"` // half height, degrees of latitude (bounds/object)
	TX   int     `json:"tx,omitempty"`
	TY   int     `json:"ty,omitempty"`
	TZ   int     `json:"tz,omitempty"`
	Hash string  `json:"hash,omitempty"`
	// Hav: a disc anywhere on the globe (antimeridian, poles): membership is
	// decided by great-circle distance alone (in: d < 0.9 r, out: d > 1.1 r).
	// Only used with DETECT lists without outside and cross, because a
	// "straight path" has no sound meaning across the antimeridian.
	Hav bool `json:"hav,omitempty"`
}

type frame struct {
	cx, cy, hx, hy float64
	shape          int
	hav            bool
	r              float64
}

// destination: great-circle destination point, longitude normalised to [-180,180].
func destination(lat, lon, d, brg float64) (float64, float64) {
	del := d / earthR
	th := brg * math.Pi / 180
	p1, l1 := lat*math.Pi/180, lon*math.Pi/180
	p2 := math.Asin(math.Sin(p1)*math.Cos(del) + math.Cos(p1)*math.Sin(del)*math.Cos(th))
	l2 := l1 + math.Atan2(math.Sin(th)*math.Sin(del)*math.Cos(p1), math.Cos(del)-math.Sin(p1)*math.Sin(p2))
	lo := math.Mod(l2*180/math.Pi+540, 360) - 180
	return p2 * 180 / math.Pi, lo
}

func ff(f float64) string { return strconv.FormatFloat(f, 'f', -1, 64) }

func round7(f float64) float64 { return math.Round(f*1e7) / 1e7 }

func haversine(lat1, lon1, lat2, lon2 float64) float64 {
	p1, p2 := lat1*math.Pi/180, lat2*math.Pi/180
	dp, dl := p2-p1, (lon2-lon1)*math.Pi/180
	a := math.Sin(dp/2)*math.Sin(dp/2) + math.Cos(p1)*math.Cos(p2)*math.Sin(dl/2)*math.Sin(dl/2)
	return 2 * earthR * math.Asin(math.Min(1, math.Sqrt(a)))
}

// tileBounds: standard slippy-map tile -> lat/lon rectangle.
func tileBounds(x, y, z int) (minLat, minLon, maxLat, maxLon float64) {
	n := math.Exp2(float64(z))
	minLon = float64(x)/n*360 - 180
	maxLon = float64(x+1)/n*360 - 180
	lat := func(yy float64) float64 {
		return math.Atan(math.Sinh(math.Pi*(1-2*yy/n))) * 180 / math.Pi
	}
	maxLat = lat(float64(y))
	minLat = lat(float64(y + 1))
	return
}

func tileOf(lat, lon float64, z int) (x, y int) {
	n := math.Exp2(float64(z))
	x = int(math.Floor((lon + 180) / 360 * n))
	lr := lat * math.Pi / 180
	y = int(math.Floor((1 - math.Log(math.Tan(lr)+1/math.Cos(lr))/math.Pi) / 2 * n))
	return
}

const b32 = "0123456789bcdefghjkmnpqrstuvwxyz"

func geohashEncode(lat, lon float64, n int) string {
	latLo, latHi, lonLo, lonHi := -90.0, 90.0, -180.0, 180.0
	var sb strings.Builder
	even := true
	bit, ch := 0, 0
	for sb.Len() < n {
		if even {
			mid := (lonLo + lonHi) / 2
			if lon >= mid {
				ch = ch<<1 | 1
				lonLo = mid
			} else {
				ch <<= 1
				lonHi = mid
			}
		} else {
			mid := (latLo + latHi) / 2
			if lat >= mid {
				ch = ch<<1 | 1
				latLo = mid
			} else {
				ch <<= 1
				latHi = mid
			}
		}
		even = !even
		bit++
		if bit == 5 {
			sb.WriteByte(b32[ch])
			bit, ch = 0, 0
		}
	}
	return sb.String()
}

func geohashBounds(h string) (minLat, minLon, maxLat, maxLon float64) {
	minLat, maxLat, minLon, maxLon = -90, 90, -180, 180
	even := true
	for i := 0; i < len(h); i++ {
		v := strings.IndexByte(b32, h[i])
		for b := 4; b >= 0; b-- {
			one := v>>uint(b)&1 == 1
			if even {
				mid := (minLon + maxLon) / 2
				if one {
					minLon = mid
				} else {
					maxLon = mid
				}
			} else {
				mid := (minLat + maxLat) / 2
				if one {
					minLat = mid
				} else {
					maxLat = mid
				}
			}
			even = !even
		}
	}
	return
}

func (a Area) frame() frame {
	switch a.Kind {
	case "point", "circle":
		hy := a.R / mPerDeg
		return frame{cx: a.Lon, cy: a.Lat, hx: hy / math.Cos(a.Lat*math.Pi/180), hy: hy, shape: shCircle, hav: a.Hav, r: a.R}
	case "bounds":
		return frame{cx: a.Lon, cy: a.Lat, hx: a.HW, hy: a.HH, shape: shSquare}
	case "object":
		return frame{cx: a.Lon, cy: a.Lat, hx: a.HW, hy: a.HH, shape: shDiamond}
	case "tile":
		mnLat, mnLon, mxLat, mxLon := tileBounds(a.TX, a.TY, a.TZ)
		return frame{cx: (mnLon + mxLon) / 2, cy: (mnLat + mxLat) / 2, hx: (mxLon - mnLon) / 2, hy: (mxLat - mnLat) / 2, shape: shSquare}
	case "hash":
		mnLat, mnLon, mxLat, mxLon := geohashBounds(a.Hash)
		return frame{cx: (mnLon + mxLon) / 2, cy: (mnLat + mxLat) / 2, hx: (mxLon - mnLon) / 2, hy: (mxLat - mnLat) / 2, shape: shSquare}
	}
	panic("bad area kind " + a.Kind)
}

// tokens is the area part of a fence command.
func (a Area) tokens() []string {
	switch a.Kind {
	case "point":
		return []string{"POINT", ff(a.Lat), ff(a.Lon), ff(a.R)}
	case "circle":
		return []string{"CIRCLE", ff(a.Lat), ff(a.Lon), ff(a.R)}
	case "bounds":
		return []string{"BOUNDS", ff(a.Lat - a.HH), ff(a.Lon - a.HW), ff(a.Lat + a.HH), ff(a.Lon + a.HW)}
	case "object":
		p := func(dx, dy float64) string { return "[" + ff(a.Lon+dx) + "," + ff(a.Lat+dy) + "]" }
		return []string{"OBJECT", `{"type":"Polygon","coordinates":[[` + p(a.HW, 0) + "," + p(0, a.HH) + "," + p(-a.HW, 0) + "," + p(0, -a.HH) + "," + p(a.HW, 0) + `]]}`}
	case "tile":
		return []string{"TILE", strconv.Itoa(a.TX), strconv.Itoa(a.TY), strconv.Itoa(a.TZ)}
	case "hash":
		return []string{"HASH", a.Hash}
	}
	panic("bad area kind " + a.Kind)
}

func (f frame) norm(lat, lon float64) (u, v float64) {
	return (lon - f.cx) / f.hx, (lat - f.cy) / f.hy
}

func (f frame) denorm(u, v float64) (lat, lon float64) {
	return f.cy + v*f.hy, f.cx + u*f.hx
}

// gauge is the "radius" of (u,v) in the shape's own norm: the shape is gauge<1.
func gauge(shape int, u, v float64) float64 {
	switch shape {
	case shCircle:
		return math.Hypot(u, v)
	case shSquare:
		return math.Max(math.Abs(u), math.Abs(v))
	default:
		return math.Abs(u) + math.Abs(v)
	}
}

func (f frame) margins() (ptLo, ptHi, segLo, segHi float64) {
	if f.shape == shCircle {
		// the server tests points by haversine but segments against a 64-gon
		// in degree space; allow for both plus the flat-frame distortion.
		return 0.93, 1.07, 0.86, 1.16
	}
	return 0.95, 1.05, 0.9, 1.1
}

// tri is a three-valued answer.
type tri int

const (
	no tri = iota
	yes
	unsure
)

// inside classifies a position against the area, with margin.
func (f frame) inside(lat, lon float64) tri {
	if f.hav {
		switch q := haversine(lat, lon, f.cy, f.cx) / f.r; {
		case q < 0.9:
			return yes
		case q > 1.1:
			return no
		}
		return unsure
	}
	u, v := f.norm(lat, lon)
	g := gauge(f.shape, u, v)
	lo, hi, _, _ := f.margins()
	switch {
	case g < lo:
		return yes
	case g > hi:
		return no
	}
	return unsure
}

// inBBox classifies a position against the area's bounding rectangle.
func (f frame) inBBox(lat, lon float64) tri {
	if f.hav {
		return unsure
	}
	u, v := f.norm(lat, lon)
	g := gauge(shSquare, u, v)
	switch {
	case g < 0.95:
		return yes
	case g > 1.05:
		return no
	}
	return unsure
}

func segHitsUnitCircle(u1, v1, u2, v2 float64) bool {
	du, dv := u2-u1, v2-v1
	l2 := du*du + dv*dv
	t := 0.0
	if l2 > 0 {
		t = -(u1*du + v1*dv) / l2
		t = math.Max(0, math.Min(1, t))
	}
	return math.Hypot(u1+t*du, v1+t*dv) <= 1
}

func segHitsUnitSquare(u1, v1, u2, v2 float64) bool {
	t0, t1 := 0.0, 1.0
	clip := func(p, q float64) bool {
		if p == 0 {
			return q >= 0
		}
		r := q / p
		if p < 0 {
			if r > t1 {
				return false
			}
			if r > t0 {
				t0 = r
			}
		} else {
			if r < t0 {
				return false
			}
			if r < t1 {
				t1 = r
			}
		}
		return true
	}
	du, dv := u2-u1, v2-v1
	return clip(-du, u1+1) && clip(du, 1-u1) && clip(-dv, v1+1) && clip(dv, 1-v1)
}

func segHits(shape int, u1, v1, u2, v2, scale float64) bool {
	u1, v1, u2, v2 = u1/scale, v1/scale, u2/scale, v2/scale
	switch shape {
	case shCircle:
		return segHitsUnitCircle(u1, v1, u2, v2)
	case shSquare:
		return segHitsUnitSquare(u1, v1, u2, v2)
	default:
		return segHitsUnitSquare(u1+v1, u1-v1, u2+v2, u2-v2)
	}
}

// crosses classifies the straight lon/lat segment between two positions
// against the area, with margin.
func (f frame) crosses(lat1, lon1, lat2, lon2 float64) tri {
	if f.hav {
		return no // never decisive: such fences detect neither cross nor outside
	}
	if lat1 == lat2 && lon1 == lon2 {
		return no // a stationary object (both ends are outside with the point margin): no path
	}
	u1, v1 := f.norm(lat1, lon1)
	u2, v2 := f.norm(lat2, lon2)
	_, _, lo, hi := f.margins()
	a := segHits(f.shape, u1, v1, u2, v2, lo)
	b := segHits(f.shape, u1, v1, u2, v2, hi)
	switch {
	case a && b:
		return yes
	case !a && !b:
		return no
	}
	return unsure
}

// boundaryAt is the gauge-1 distance from the centre in direction th.
func boundaryAt(shape int, th float64) float64 {
	c, s := math.Abs(math.Cos(th)), math.Abs(math.Sin(th))
	switch shape {
	case shCircle:
		return 1
	case shSquare:
		return 1 / math.Max(c, s)
	default:
		return 1 / (c + s)
	}
}

package c05

// Fence transition model. in(o) = spatial predicate (own arithmetic, see
// geom_test.go) AND MATCH(id) (model.GlobMatch) AND WHERE(fields). The
// "natural" notification list of a write follows the documentation:
//   in->in  [inside]        out->in [enter inside]    in->out [exit outside]
//   out->out [outside], or [cross outside] when the straight path crosses
// FSET (position unchanged): [inside] / [outside].
// expected = natural list filtered by DETECT (order kept), then by COMMANDS.

import (
	"encoding/json"
	"fmt"
	"sort"
	"strconv"
	"strings"

	"github.com/tidwall/tile38/verif/harness/model"
)

// Where is a field filter of a fence: a closed range or a WHEREIN list.
type Where struct {
	Field string  `json:"field"`
	Lo    float64 `json:"lo"`
	Hi    float64 `json:"hi"`
	In    []int   `json:"in,omitempty"`
}

// FenceSpec is one fence of a case. Obs: "all3" (channel + webhook + live
// connection, only the fence under test), "chan" or "hook".
type FenceSpec struct {
	Key      int      `json:"key"`
	Cmd      string   `json:"cmd"` // nearby within intersects
	Area     Area     `json:"area"`
	Detect   []string `json:"detect,omitempty"`   // nil = no DETECT option
	Commands []string `json:"commands,omitempty"` // nil = no COMMANDS option
	Match    string   `json:"match,omitempty"`
	Where    *Where   `json:"where,omitempty"`
	Obs      string   `json:"obs"`
	// LIMIT n / SPARSE n are search modifiers the fence grammar accepts. For a
	// fence they must not change anything: every notifying write still notifies
	// (the hook's long-lived scan writer merely counts items against the limit).
	Limit  int `json:"limit,omitempty"`
	Sparse int `json:"sparse,omitempty"`
}

type Field struct {
	Name string `json:"n"`
	Val  int    `json:"v"`
}

// Step is one write of the movement script.
type Step struct {
	Op      string  `json:"op"` // set setstr setex fset del pdel drop redef
	Key     int     `json:"key"`
	ID      string  `json:"id,omitempty"`
	Kind    string  `json:"kind,omitempty"` // point pointz rect
	Lat     float64 `json:"lat,omitempty"`
	Lon     float64 `json:"lon,omitempty"`
	Z       float64 `json:"z,omitempty"`
	Fields  []Field `json:"fields,omitempty"`
	Pattern string  `json:"pattern,omitempty"`
	Phase   string  `json:"phase,omitempty"` // "closing" for the sentinel sequence
	// redef: re-definition of fence #Fence (a channel or webhook, never the
	// fence under test) under the same name. Variant: identical (the tokens
	// sent last, verbatim), keyword-case (same definition, keywords and
	// DETECT/COMMANDS lists in the other letter case), match-case (MATCH
	// pattern differs only by letter case), detect, area. Spec is the
	// definition in force from the acknowledgement on.
	// Unchanged: a SET that repeats the object exactly (same geometry; fields
	// either all repeated with their current values or left out, i.e. carried over)
	Unchanged bool       `json:"unchanged,omitempty"`
	Fence     int        `json:"fence,omitempty"`
	Variant   string     `json:"variant,omitempty"`
	Spec      *FenceSpec `json:"spec,omitempty"`
}

// Case is a complete generated case (also the replay format).
type Case struct {
	Fences []FenceSpec `json:"fences"`
	Steps  []Step      `json:"steps"`
	// Pipeline > 1: the writes are sent in bursts of that many commands before
	// their replies are read, so that several writes are pending for a live
	// fence connection at once.
	Pipeline int `json:"pipeline,omitempty"`
	// HookFault: the webhook endpoint answers 500 once per hook, on the second
	// notification of one write (= in the middle of a delivery batch).
	HookFault bool `json:"hook_fault,omitempty"`

	excl map[string]int // generator bookkeeping: shapes left out for known findings
}

var allDetects = []string{"inside", "outside", "enter", "exit", "cross"}

// detectSubset maps 0..31 to a DETECT option; 0 = option absent (the empty
// subset cannot be written in the command grammar).
func detectSubset(i int) []string {
	if i == 0 {
		return nil
	}
	var out []string
	for b, d := range allDetects {
		if i>>uint(b)&1 == 1 {
			out = append(out, d)
		}
	}
	return out
}

func has(list []string, s string) bool {
	for _, x := range list {
		if x == s {
			return true
		}
	}
	return false
}

func (f FenceSpec) detects(d string) bool { return f.Detect == nil || has(f.Detect, d) }
func (f FenceSpec) accepts(c string) bool { return f.Commands == nil || has(f.Commands, c) }

// tokens builds the fence command (without SETCHAN/SETHOOK prefix).
func (f FenceSpec) tokens(key string) []string {
	t := []string{strings.ToUpper(f.Cmd), key}
	if f.Match != "" {
		t = append(t, "MATCH", f.Match)
	}
	if w := f.Where; w != nil {
		if w.In != nil {
			t = append(t, "WHEREIN", w.Field, strconv.Itoa(len(w.In)))
			for _, v := range w.In {
				t = append(t, strconv.Itoa(v))
			}
		} else {
			t = append(t, "WHERE", w.Field, ff(w.Lo), ff(w.Hi))
		}
	}
	if f.Limit > 0 {
		t = append(t, "LIMIT", strconv.Itoa(f.Limit))
	} else if f.Sparse > 0 {
		t = append(t, "SPARSE", strconv.Itoa(f.Sparse))
	}
	t = append(t, "FENCE")
	if f.Detect != nil {
		t = append(t, "DETECT", strings.Join(f.Detect, ","))
	}
	if f.Commands != nil {
		t = append(t, "COMMANDS", strings.Join(f.Commands, ","))
	}
	return append(t, f.Area.tokens()...)
}

// ---- model state -------------------------------------------------------------

type mobj struct {
	spatial  bool
	kind     string
	lat, lon float64 // centre; (0,0) for a string object, which is what the server uses
	z        float64
	fields   map[string]int
}

type mstate struct {
	keys [2]map[string]*mobj
}

func newState() *mstate {
	return &mstate{keys: [2]map[string]*mobj{{}, {}}}
}

func (f FenceSpec) globOK(id string) bool {
	return f.Match == "" || model.GlobMatch(f.Match, id)
}

func (f FenceSpec) whereOK(fields map[string]int) bool {
	w := f.Where
	if w == nil {
		return true
	}
	v := fields[w.Field] // missing = 0
	if w.In != nil {
		for _, x := range w.In {
			if x == v {
				return true
			}
		}
		return false
	}
	return float64(v) >= w.Lo && float64(v) <= w.Hi
}

// xmsg is an expected notification.
type xmsg struct {
	Cmd, Detect, ID string
	Obj             string
	Fields          string
	Optional        bool
	Step            int
}

// sortKey orders messages independently of step numbers and optional flags.
func (m xmsg) sortKey() string {
	return m.Cmd + "|" + m.Detect + "|" + m.ID + "|" + m.Obj + "|" + m.Fields
}

func (m xmsg) String() string {
	s := m.Cmd
	if m.Detect != "" {
		s += "/" + m.Detect
	}
	if m.ID != "" {
		s += " id=" + m.ID
	}
	if m.Obj != "" {
		s += " obj=" + m.Obj
	}
	if m.Fields != "" {
		s += " fields{" + m.Fields + "}"
	}
	if m.Optional {
		s += " (optional)"
	}
	return fmt.Sprintf("%s [step %d]", s, m.Step)
}

func canonFields(fields map[string]int) string {
	var ks []string
	for k, v := range fields {
		if v != 0 {
			ks = append(ks, k)
		}
	}
	sort.Strings(ks)
	var parts []string
	for _, k := range ks {
		parts = append(parts, k+"="+ff(float64(fields[k])))
	}
	return strings.Join(parts, ",")
}

const rectHalf = 0.000001

func canonObj(o *mobj) string {
	switch o.kind {
	case "pointz":
		return "P " + ff(o.lon) + " " + ff(o.lat) + " " + ff(o.z)
	case "rect":
		return "R " + ff(round7(o.lon-rectHalf)) + " " + ff(round7(o.lat-rectHalf)) + " " + ff(round7(o.lon+rectHalf)) + " " + ff(round7(o.lat+rectHalf))
	}
	return "P " + ff(o.lon) + " " + ff(o.lat)
}

// transition describes what a SET/FSET did relative to one fence (labels).
type transition struct {
	Kind     string // new-in new-out in-in in-out out-in out-out cross fset-in fset-out filtered none
	Mirrored string // non-empty when the outcome rests on behaviour the documentation is silent about
	Unsure   bool   // a margin was violated: the case must not be judged
}

// expectWrite returns the natural message list of a SET (old may be nil) or
// FSET (isFset) of object cur with respect to fence f.
func (f FenceSpec) expectWrite(fr frame, id string, old, cur *mobj, isFset bool) (nat []string, tr transition) {
	if !f.globOK(id) {
		return nil, transition{Kind: "filtered"}
	}
	if !cur.spatial {
		return nil, transition{Kind: "none"}
	}
	sNew := fr.inside(cur.lat, cur.lon)
	if sNew == unsure {
		return nil, transition{Unsure: true}
	}
	wNew := f.whereOK(cur.fields)
	m2 := sNew == yes && wNew
	if isFset {
		// the previous position is the current one. An object that fails the
		// fence's WHERE filter is not part of the fenced population: like a SET
		// of such an object (and like an id failing MATCH) the FSET announces
		// nothing (finding fence-fset-ignores-where: the implementation sent
		// "outside"). The previous field values are unknown to the fence, so a
		// filter-passing object is simply inside or outside (impl-mirrored).
		if f.Where != nil {
			tr.Mirrored = "fset-with-where"
		}
		if !wNew {
			tr.Kind = "filtered"
			return nil, tr
		}
		if m2 {
			tr.Kind = "fset-in"
			return []string{"inside"}, tr
		}
		tr.Kind = "fset-out"
		return []string{"outside"}, tr
	}
	sOld, m1 := no, false
	if old != nil && old.spatial {
		sOld = fr.inside(old.lat, old.lon)
		if sOld == unsure {
			return nil, transition{Unsure: true}
		}
		m1 = sOld == yes && f.whereOK(old.fields)
	}
	if f.Where != nil && old != nil && (f.whereOK(old.fields) != wNew || !wNew) {
		tr.Mirrored = "set-with-where-change"
	}
	switch {
	case m1 && m2:
		tr.Kind = "in-in"
		return []string{"inside"}, tr
	case m1 && !m2:
		tr.Kind = "in-out"
		return []string{"exit", "outside"}, tr
	case !m1 && m2:
		tr.Kind = "out-in"
		if old == nil || !old.spatial {
			tr.Kind = "new-in"
		}
		return []string{"enter", "inside"}, tr
	}
	if !wNew {
		// outside the filtered set before and after: nothing is reported
		tr.Kind = "filtered"
		tr.Mirrored = "set-where-false"
		return nil, tr
	}
	if old == nil || !old.spatial {
		// no previous position (new id, or the id held a string): there is no
		// path that could cross the area (finding fence-string-old-position-origin:
		// the implementation drew the path from lat 0 lon 0)
		tr.Kind = "new-out"
		return []string{"outside"}, tr
	}
	if sOld == yes {
		// spatially inside before but filtered out by WHERE: the implementation
		// does not test the path ("nocross")
		tr.Kind = "out-out"
		tr.Mirrored = "nocross"
		return []string{"outside"}, tr
	}
	switch fr.crosses(old.lat, old.lon, cur.lat, cur.lon) {
	case unsure:
		return nil, transition{Unsure: true}
	case yes:
		tr.Kind = "cross"
		return []string{"cross", "outside"}, tr
	}
	tr.Kind = "out-out"
	return []string{"outside"}, tr
}

// filterDetect keeps the natural list's order.
func (f FenceSpec) filterDetect(nat []string) []string {
	var out []string
	for _, d := range nat {
		if f.detects(d) {
			out = append(out, d)
		}
	}
	return out
}

// expectDel: is a del message due for the deletion of obj? live fences see
// every delete of a matching spatial object; hooks/channels are selected by
// "detects outside" or by the object's rectangle meeting the fence rectangle.
// The property requires it when the object was inside; beyond that the
// implementation is mirrored (and optional inside the margin zone).
func (f FenceSpec) expectDel(fr frame, id string, obj *mobj, live bool) (due bool, optional bool) {
	if !f.globOK(id) || !obj.spatial || !f.accepts("del") {
		return false, false
	}
	if live || f.detects("outside") {
		return true, false
	}
	switch fr.inBBox(obj.lat, obj.lon) {
	case yes:
		return true, false
	case no:
		return false, false
	}
	return true, true
}

func (f FenceSpec) expectDrop(live bool) bool {
	if !f.accepts("drop") {
		return false
	}
	return live || f.detects("outside")
}

// ---- actual messages -----------------------------------------------------------

type gmsg struct {
	Cmd, Detect, ID, Hook, Key string
	Obj, Fields                string
	HasGroup, HasTime          bool
	Extra                      []string
	Raw                        string
	Bad                        string
}

func canonGotObj(raw json.RawMessage) string {
	var o struct {
		Type        string          `json:"type"`
		Coordinates json.RawMessage `json:"coordinates"`
	}
	if json.Unmarshal(raw, &o) != nil {
		return "?" + string(raw)
	}
	switch o.Type {
	case "Point":
		var c []float64
		if json.Unmarshal(o.Coordinates, &c) != nil || len(c) < 2 || len(c) > 3 {
			return "?" + string(raw)
		}
		s := "P " + ff(c[0]) + " " + ff(c[1])
		if len(c) == 3 {
			s += " " + ff(c[2])
		}
		return s
	case "Polygon":
		var rings [][][]float64
		if json.Unmarshal(o.Coordinates, &rings) != nil || len(rings) != 1 || len(rings[0]) != 5 {
			return "?" + string(raw)
		}
		r := rings[0]
		minx, miny, maxx, maxy := r[0][0], r[0][1], r[0][0], r[0][1]
		for _, p := range r {
			if len(p) != 2 {
				return "?" + string(raw)
			}
			minx, maxx = min(minx, p[0]), max(maxx, p[0])
			miny, maxy = min(miny, p[1]), max(maxy, p[1])
		}
		corners := map[[2]float64]int{}
		for _, p := range r[:4] {
			if (p[0] != minx && p[0] != maxx) || (p[1] != miny && p[1] != maxy) {
				return "?" + string(raw)
			}
			corners[[2]float64{p[0], p[1]}]++
		}
		if len(corners) != 4 || r[4][0] != r[0][0] || r[4][1] != r[0][1] {
			return "?" + string(raw)
		}
		return "R " + ff(minx) + " " + ff(miny) + " " + ff(maxx) + " " + ff(maxy)
	}
	return "?" + string(raw)
}

func parseMsg(raw string) gmsg {
	g := gmsg{Raw: raw}
	var m map[string]json.RawMessage
	if err := json.Unmarshal([]byte(raw), &m); err != nil {
		g.Bad = "not a JSON object: " + err.Error()
		return g
	}
	str := func(k string) string {
		var s string
		if r, ok := m[k]; ok {
			if json.Unmarshal(r, &s) != nil {
				g.Bad = "member " + k + " is not a string"
			}
		}
		return s
	}
	g.Cmd, g.Detect, g.ID, g.Hook, g.Key = str("command"), str("detect"), str("id"), str("hook"), str("key")
	g.HasGroup = str("group") != ""
	g.HasTime = str("time") != ""
	if r, ok := m["object"]; ok {
		g.Obj = canonGotObj(r)
	}
	if r, ok := m["fields"]; ok {
		var fm map[string]float64
		if json.Unmarshal(r, &fm) != nil {
			g.Bad = "fields is not an object of numbers"
		} else {
			var ks []string
			for k, v := range fm {
				if v != 0 {
					ks = append(ks, k)
				}
			}
			sort.Strings(ks)
			var parts []string
			for _, k := range ks {
				parts = append(parts, k+"="+ff(fm[k]))
			}
			g.Fields = strings.Join(parts, ",")
		}
	}
	for k := range m {
		switch k {
		case "command", "detect", "id", "hook", "key", "group", "time", "object", "fields":
		default:
			g.Extra = append(g.Extra, k)
		}
	}
	sort.Strings(g.Extra)
	return g
}

func (g gmsg) String() string {
	if g.Bad != "" {
		return "BAD(" + g.Bad + ") " + g.Raw
	}
	s := g.Cmd
	if g.Detect != "" {
		s += "/" + g.Detect
	}
	if g.ID != "" {
		s += " id=" + g.ID
	}
	if g.Obj != "" {
		s += " obj=" + g.Obj
	}
	if g.Fields != "" {
		s += " fields{" + g.Fields + "}"
	}
	return s
}

// envelope checks members that do not depend on the transition.
func (g gmsg) envelope(hook, key string) string {
	switch {
	case g.Bad != "":
		return g.Bad
	case g.Hook != hook:
		return fmt.Sprintf("hook member %q, want %q", g.Hook, hook)
	case g.Key != key:
		return fmt.Sprintf("key member %q, want %q", g.Key, key)
	case !g.HasTime:
		return "no time member"
	case len(g.Extra) > 0:
		return "unexpected members " + strings.Join(g.Extra, ",")
	case (g.Cmd == "set" || g.Cmd == "fset") && !g.HasGroup:
		return "no group member"
	}
	return ""
}

func sameMsg(x xmsg, g gmsg) bool {
	return g.Bad == "" && x.Cmd == g.Cmd && x.Detect == g.Detect && x.ID == g.ID && x.Obj == g.Obj && x.Fields == g.Fields
}

type matchResult struct {
	Status string // complete partial mismatch
	Kind   string // missing extra wrong-detect wrong-payload wrong-message
	What   string
	Got    *gmsg // the received message at the point of divergence, if any
	Want   *xmsg // the expected message at the point of divergence, if any
}

// matchStream aligns the received messages with the expected list (optional
// expected entries may be absent).
func matchStream(exp []xmsg, got []gmsg) matchResult {
	// exact alignment first (an optional entry may look exactly like a later
	// mandatory one, so a greedy walk is not enough)
	const (
		bad = iota
		partial
		complete
	)
	memo := map[[2]int]int{}
	var align func(i, j int) int
	align = func(i, j int) int {
		if j == len(got) {
			for ; i < len(exp); i++ {
				if !exp[i].Optional {
					return partial
				}
			}
			return complete
		}
		if i == len(exp) {
			return bad
		}
		k := [2]int{i, j}
		if r, ok := memo[k]; ok {
			return r
		}
		r := bad
		if sameMsg(exp[i], got[j]) {
			r = align(i+1, j+1)
		}
		if exp[i].Optional && r != complete {
			if r2 := align(i+1, j); r2 > r {
				r = r2
			}
		}
		memo[k] = r
		return r
	}
	switch align(0, 0) {
	case complete:
		return matchResult{Status: "complete"}
	case partial:
		for i := len(exp) - 1; i >= 0; i-- {
			if !exp[i].Optional {
				return matchResult{Status: "partial", Kind: "missing", What: fmt.Sprintf("after %d received messages the expected tail up to {%s} did not arrive", len(got), exp[i]), Want: &exp[i]}
			}
		}
	}
	// no alignment exists: describe the first divergence of a greedy walk
	i := 0
	for j := 0; j < len(got); j++ {
		for i < len(exp) && !sameMsg(exp[i], got[j]) && exp[i].Optional {
			i++
		}
		if i == len(exp) {
			return matchResult{Status: "mismatch", Kind: "extra", What: fmt.Sprintf("message #%d {%s} was not expected (all %d expected messages already seen)", j, got[j], len(exp)), Got: &got[j]}
		}
		if !sameMsg(exp[i], got[j]) {
			x, g := exp[i], got[j]
			kind := "wrong-message"
			later := func() bool { // is the received one expected further on? then x is missing
				for k := i + 1; k < len(exp); k++ {
					if sameMsg(exp[k], g) {
						return true
					}
				}
				return false
			}
			arrives := func() bool { // does x arrive later? then g is an extra one
				for k := j + 1; k < len(got); k++ {
					if sameMsg(x, got[k]) {
						return true
					}
				}
				return false
			}
			switch {
			case later():
				kind = "missing"
			case arrives() || (j > 0 && sameMsgG(got[j-1], g)):
				kind = "extra"
			case x.Cmd == g.Cmd && x.ID == g.ID && x.Detect != g.Detect && x.Obj == g.Obj:
				kind = "wrong-detect"
			case x.Cmd == g.Cmd && x.ID == g.ID && x.Detect == g.Detect:
				kind = "wrong-payload"
			}
			return matchResult{Status: "mismatch", Kind: kind, What: fmt.Sprintf("message #%d is {%s}, expected {%s}", j, g, x), Got: &got[j], Want: &exp[i]}
		}
		i++
	}
	for ; i < len(exp); i++ {
		if !exp[i].Optional {
			return matchResult{Status: "partial", Kind: "missing", What: fmt.Sprintf("after %d received messages the expected {%s} did not arrive", len(got), exp[i]), Want: &exp[i]}
		}
	}
	return matchResult{Status: "complete"}
}

func sameMsgG(a, b gmsg) bool {
	return a.Cmd == b.Cmd && a.Detect == b.Detect && a.ID == b.ID && a.Obj == b.Obj && a.Fields == b.Fields
}

var fenceKeywords = map[string]bool{"NEARBY": true, "WITHIN": true, "INTERSECTS": true, "MATCH": true, "WHERE": true,
	"WHEREIN": true, "LIMIT": true, "SPARSE": true, "FENCE": true, "DETECT": true, "COMMANDS": true, "POINT": true,
	"CIRCLE": true, "BOUNDS": true, "OBJECT": true, "TILE": true, "HASH": true}

// flipKeywordCase writes the keywords of a fence command in lower case and
// the DETECT / COMMANDS lists in upper case; operands are left alone. The
// definition means exactly the same.
func flipKeywordCase(tok []string) []string {
	out := make([]string, len(tok))
	for i, t := range tok {
		out[i] = t
		if fenceKeywords[t] {
			out[i] = strings.ToLower(t)
		}
		if i > 0 && (tok[i-1] == "DETECT" || tok[i-1] == "COMMANDS") {
			out[i] = strings.ToUpper(t)
		}
	}
	return out
}

func swapCase(s string) string {
	b := []byte(s)
	for i, c := range b {
		switch {
		case c >= 'a' && c <= 'z':
			b[i] = c - 32
		case c >= 'A' && c <= 'Z':
			b[i] = c + 32
		}
	}
	return string(b)
}

func hasLetter(s string) bool { return swapCase(s) != s }

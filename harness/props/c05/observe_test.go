package c05

// The three observers: a local HTTP endpoint (webhooks), a SUBSCRIBE
// connection (channels) and a live "... FENCE" connection.

import (
	"encoding/json"
	"fmt"
	"io"
	"net"
	"net/http"
	"strings"
	"sync"
	"sync/atomic"
	"time"

	"github.com/tidwall/tile38/verif/harness/t38"
)

// stream is an ordered list of received raw messages, filled by another
// goroutine.
type stream struct {
	mu   sync.Mutex
	msgs []string
	note chan struct{}
	// endpoint fault (webhook streams only): when armed, the endpoint answers
	// 500 exactly once, on the first request that carries the same "time" as
	// the message accepted just before it, i.e. on the second notification of
	// one write and therefore in the middle of a delivery batch
	faultArmed bool
	faultFired bool
	lastTime   string
}

// accept decides about one webhook request: false = answer 500 (not recorded).
func (s *stream) accept(body, tm string) bool {
	s.mu.Lock()
	if s.faultArmed && tm != "" && tm == s.lastTime {
		s.faultArmed, s.faultFired = false, true
		s.mu.Unlock()
		return false
	}
	s.lastTime = tm
	s.msgs = append(s.msgs, body)
	s.mu.Unlock()
	select {
	case s.note <- struct{}{}:
	default:
	}
	return true
}

func (s *stream) fired() bool {
	s.mu.Lock()
	defer s.mu.Unlock()
	return s.faultFired
}

func newStream() *stream { return &stream{note: make(chan struct{}, 1)} }

func (s *stream) push(m string) {
	s.mu.Lock()
	s.msgs = append(s.msgs, m)
	s.mu.Unlock()
	select {
	case s.note <- struct{}{}:
	default:
	}
}

func (s *stream) snapshot() []string {
	s.mu.Lock()
	defer s.mu.Unlock()
	return append([]string(nil), s.msgs...)
}

// wait blocks until something new may have arrived or d elapsed.
func (s *stream) wait(d time.Duration) bool {
	t := time.NewTimer(d)
	defer t.Stop()
	select {
	case <-s.note:
		return true
	case <-t.C:
		return false
	}
}

// ---- webhook receiver -----------------------------------------------------------

type receiver struct {
	mu      sync.Mutex
	streams map[string]*stream
	stray   int
	url     string
	srv     *http.Server
}

func startReceiver() (*receiver, error) {
	ln, err := net.Listen("tcp", "127.0.0.1:0")
	if err != nil {
		return nil, err
	}
	r := &receiver{streams: map[string]*stream{}}
	r.url = fmt.Sprintf("http://%s/recv", ln.Addr().String())
	mux := http.NewServeMux()
	mux.HandleFunc("/recv", func(w http.ResponseWriter, req *http.Request) {
		body, _ := io.ReadAll(req.Body)
		var h struct {
			Hook string `json:"hook"`
			Time string `json:"time"`
		}
		json.Unmarshal(body, &h)
		r.mu.Lock()
		st := r.streams[h.Hook]
		if st == nil {
			r.stray++
		}
		r.mu.Unlock()
		if st != nil && !st.accept(string(body), h.Time) {
			w.WriteHeader(500)
			return
		}
		w.WriteHeader(200)
	})
	r.srv = &http.Server{Handler: mux}
	go r.srv.Serve(ln)
	return r, nil
}

func (r *receiver) register(hook string) *stream {
	st := newStream()
	r.mu.Lock()
	r.streams[hook] = st
	r.mu.Unlock()
	return st
}

func (r *receiver) unregister(hook string) {
	r.mu.Lock()
	delete(r.streams, hook)
	r.mu.Unlock()
}

// ---- live connection --------------------------------------------------------------

type liveObs struct {
	c     *t38.Conn
	st    *stream
	local string
	done  chan struct{}
}

// openLive sends a fence command on a fresh connection, waits for the +OK
// (the fence is registered before that reply is written) and starts reading.
func openLive(addr string, args []string) (*liveObs, error) {
	c, err := t38.Dial(addr)
	if err != nil {
		return nil, err
	}
	v, err := c.Do(args...)
	if err != nil {
		c.Close()
		return nil, err
	}
	if v.Kind != '+' || v.Str != "OK" {
		c.Close()
		return nil, fmt.Errorf("live fence refused: %s", v)
	}
	l := &liveObs{c: c, st: newStream(), local: c.C.LocalAddr().String(), done: make(chan struct{})}
	go func() {
		defer close(l.done)
		for {
			v, err := c.RecvTimeout(time.Hour)
			if err != nil {
				return
			}
			l.st.push(v.Str)
		}
	}()
	return l, nil
}

// close ends the live connection and waits until the server has dropped the
// client, i.e. its fence goroutine has returned (no evaluation of this fence
// can overlap the next case). The server's goroutine can miss the disconnect
// when it happens while it is between finishing a notification and going back
// to sleep (see notes: live-fence-leaks-after-disconnect); it then only
// notices at the next write to the fenced key, so such a write is issued
// while the client stays listed.
func (l *liveObs) close(ctl *t38.Conn, key string) bool {
	l.c.Close()
	<-l.done
	start := time.Now()
	kicked := start
	for {
		v, err := ctl.Do("CLIENT", "LIST")
		if err != nil {
			return false
		}
		if v.Kind == '$' && !strings.Contains(v.Str, "addr="+l.local+" ") {
			return true
		}
		now := time.Now()
		if now.Sub(start) > 20*time.Second {
			return false
		}
		if now.Sub(kicked) > 10*time.Millisecond {
			ctl.Do("SET", key, "wake-up", "STRING", "x")
			leakKicks.Add(1)
			kicked = now
		}
		time.Sleep(200 * time.Microsecond)
	}
}

// leakKicks counts how often a wake-up write was needed.
var leakKicks atomic.Int64

// ---- stall detector ----------------------------------------------------------------

// A heartbeat records the longest scheduling gap seen by this process; a
// webhook resend (duplicate) is only explicable by a >5 s stall of the
// receiver, which is then not a defect of the server.
var maxGapNs atomic.Int64

func startHeartbeat() {
	go func() {
		last := time.Now()
		for {
			time.Sleep(20 * time.Millisecond)
			now := time.Now()
			if g := now.Sub(last).Nanoseconds(); g > maxGapNs.Load() {
				maxGapNs.Store(g)
			}
			last = now
		}
	}()
}

// recvAgainIfStalled: a reply that did not arrive within the hang budget is
// only a finding when this process was running during that time. The
// heartbeat shows whether the whole process (or machine) was frozen; in that
// case the read is repeated once with a fresh budget.
func recvAgainIfStalled(c *t38.Conn, err error, startGap int64) (t38.Value, error, bool) {
	if err != t38.ErrHang {
		return t38.Value{}, err, false
	}
	time.Sleep(100 * time.Millisecond) // let the heartbeat register the gap
	if g := maxGapNs.Load(); g > startGap && g > int64(5*time.Second) {
		v, err2 := c.Recv()
		return v, err2, true
	}
	return t38.Value{}, err, false
}

// C05: fence notifications follow the documented enter/exit/inside/outside/
// cross rules, identically for a webhook, a channel and a live connection,
// whatever other fences exist.
package c05

import (
	"encoding/json"
	"fmt"
	"math"
	"os"
	"sort"
	"strings"
	"testing"
	"time"

	"github.com/tidwall/tile38/verif/harness/ev"
	"github.com/tidwall/tile38/verif/harness/model"
	"github.com/tidwall/tile38/verif/harness/t38"
	"pgregory.net/rapid"
)

var (
	srv     *t38.Srv
	ctl     *t38.Conn // writer / control connection
	recv    *receiver
	caseSeq int
	// after the first failure (rapid is shrinking) waits are shortened
	failedOnce bool
)

func TestMain(m *testing.M) {
	var err error
	srv, err = t38.Start(t38.Opts{})
	if err != nil {
		fmt.Fprintln(os.Stderr, "cannot start server:", err)
		os.Exit(2)
	}
	ctl = srv.MustDial()
	recv, err = startReceiver()
	if err != nil {
		fmt.Fprintln(os.Stderr, "cannot start webhook receiver:", err)
		os.Exit(2)
	}
	startHeartbeat()
	code := m.Run()
	srv.Stop()
	os.Exit(code)
}

func waitBudget() time.Duration {
	if failedOnce {
		return 2 * time.Second
	}
	return 30 * time.Second
}

// ---- findings ---------------------------------------------------------------------

const (
	findFsetWhere   = "fence-fset-ignores-where"
	findStringOrig  = "fence-string-old-position-origin"
	findCircleBox   = "fence-circle-candidate-box"
	findExpireEnter = "fence-expire-persist-emit-enter"
)

// active reports whether a finding is listed as "known": its triggering
// shape is then kept out of the generated cases (and counted), and only the
// deterministic probe reports on it.
func active(id string) bool { return ev.KnownActive(id) }

// ---- generator ------------------------------------------------------------------

type genParams struct {
	maxOthers   int
	minSteps    int
	maxSteps    int
	allowExpiry bool
	long        bool // long-lived fence: the fence under test has no COMMANDS/MATCH/WHERE so that most writes notify
}

var idPool = []string{"a1", "a2", "b1", "b2", "c1", "A1"}

// every MATCH pattern admits the closing sequence's id "a1"
var matchPool = []string{"a*", "*1", "[ab]*", "?1", "a1", "*"}
var pdelPool = []string{"a*", "*1", "*", "b?", "c1"}

func drawSubset(rt *rapid.T, label string, all []string) []string {
	mask := intn(rt, label, 1, 1<<uint(len(all))-1)
	var out []string
	for i, s := range all {
		if mask>>uint(i)&1 == 1 {
			out = append(out, s)
		}
	}
	return out
}

func drawWhere(rt *rapid.T, label string) *Where {
	switch k := pct(rt, label+"-kind"); {
	case k < 50:
		return nil
	case k < 85:
		lo := intn(rt, label+"-lo", -1, 5)
		hi := lo + intn(rt, label+"-span", 1, 6)
		return &Where{Field: "f", Lo: float64(lo) + 0.5, Hi: float64(hi) + 0.5}
	default:
		n := intn(rt, label+"-n", 1, 3)
		var in []int
		for i := 0; i < n; i++ {
			v := intn(rt, label+"-v", 0, 9)
			dup := false
			for _, x := range in {
				dup = dup || x == v
			}
			if !dup {
				in = append(in, v)
			}
		}
		return &Where{Field: "f", In: in}
	}
}

// drawArea builds an area of the given kind around (lat,lon) with a latitude
// half extent of about hy degrees.
func drawArea(rt *rapid.T, label, kind string, lat, lon, hy float64) Area {
	lat, lon = math.Round(lat*1e5)/1e5, math.Round(lon*1e5)/1e5
	switch kind {
	case "point", "circle":
		return Area{Kind: kind, Lat: lat, Lon: lon, R: math.Max(50, math.Round(hy*mPerDeg))}
	case "bounds", "object":
		asp := unif(rt, label+"-aspect", 0.5, 2)
		return Area{Kind: kind, Lat: lat, Lon: lon, HH: math.Max(2e-4, round7(hy)), HW: math.Max(2e-4, round7(hy*asp))}
	case "tile":
		z := intn(rt, label+"-z", 7, 14)
		x, y := tileOf(lat, lon, z)
		return Area{Kind: "tile", TX: x, TY: y, TZ: z}
	default:
		p := intn(rt, label+"-prec", 3, 6)
		return Area{Kind: "hash", Hash: geohashEncode(lat, lon, p)}
	}
}

var areaKinds = []string{"point", "circle", "bounds", "object", "tile", "hash"}

func cmdFor(rt *rapid.T, label, kind string) string {
	if kind == "point" {
		return "nearby"
	}
	return pick(rt, label, []string{"within", "intersects"})
}

type gobj struct {
	spatial  bool
	lat, lon float64
	kind     string
	z        float64
	fields   map[string]int // current non-zero fields
}

func mergeFields(old map[string]int, fs []Field) map[string]int {
	out := map[string]int{}
	for k, v := range old {
		out[k] = v
	}
	for _, f := range fs {
		if f.Val == 0 {
			delete(out, f.Name)
		} else {
			out[f.Name] = f.Val
		}
	}
	return out
}

type generator struct {
	rt     *rapid.T
	edge   bool           // discs at the antimeridian / near a pole: positions by great-circle distance, points only
	excl   map[string]int // shapes left out because they trigger a known finding
	cs     *Case
	cur    []FenceSpec // definitions currently in force (re-definitions change them)
	frames []frame
	objs   [2]map[string]*gobj
	stepNo int
}

func (g *generator) valid(key int, lat, lon float64, old *gobj) bool {
	if (!g.edge && (math.Abs(lat) > 84 || math.Abs(lon) > 179)) || math.Abs(lat) > 89.95 {
		return false
	}
	for i, f := range g.cs.Fences {
		if f.Key != key {
			continue
		}
		s := g.frames[i].inside(lat, lon)
		if s == unsure {
			return false
		}
		if old == nil || !old.spatial || s == yes {
			continue // no previous position: no path
		}
		so := g.frames[i].inside(old.lat, old.lon)
		if so == no && g.frames[i].crosses(old.lat, old.lon, lat, lon) == unsure {
			return false
		}
	}
	return true
}

// candidate computes a position of the given class relative to frame fr.
func candidate(fr frame, class string, th, rho, k, j1, j2 float64, old *gobj) (lat, lon float64) {
	if fr.hav {
		// a disc anywhere on the globe: distance rho*r at bearing th along a great circle
		if class == "cross" {
			rho = 1.2 + 2*k // no path semantics there: simply somewhere outside
		}
		if rho < 0.95 {
			rho = math.Min(rho, 0.85)
		} else {
			rho = math.Max(rho, 1.15)
		}
		lat, lon = destination(fr.cy, fr.cx, rho*fr.r, th*180/math.Pi)
		return round7(lat), round7(lon)
	}
	var u, v float64
	if class == "cross" && old != nil {
		u0, v0 := fr.norm(old.lat, old.lon)
		u, v = -k*u0+j1, -k*v0+j2
	} else {
		b := boundaryAt(fr.shape, th)
		u, v = rho*b*math.Cos(th), rho*b*math.Sin(th)
	}
	lat, lon = fr.denorm(u, v)
	return round7(lat), round7(lon)
}

func (g *generator) drawPosition(key int, old *gobj) (lat, lon float64, ok bool) {
	rt := g.rt
	var sameKey []int
	for i, f := range g.cs.Fences {
		if f.Key == key {
			sameKey = append(sameKey, i)
		}
	}
	for try := 0; try < 8; try++ {
		var fr frame
		if len(sameKey) == 0 {
			fr = g.frames[0]
		} else if key == g.cs.Fences[0].Key && pct(rt, "anchor-main") < 65 {
			fr = g.frames[0]
		} else {
			fr = g.frames[sameKey[intn(rt, "anchor", 0, len(sameKey)-1)]]
		}
		classes := []string{"deep-in", "deep-in", "just-in", "just-out", "just-out", "far"}
		if old != nil && old.spatial {
			classes = append(classes, "cross", "cross", "cross")
		}
		class := pick(rt, "class", classes)
		th := unif(rt, "theta", 0, 2*math.Pi)
		var rho float64
		switch class {
		case "deep-in":
			rho = unif(rt, "rho", 0, 0.55)
		case "just-in":
			rho = unif(rt, "rho", 0.72, 0.9)
		case "just-out":
			rho = unif(rt, "rho", 1.12, 1.5)
		default:
			rho = unif(rt, "rho", 2, 6)
		}
		k := unif(rt, "k", 0.6, 1.6)
		j1 := unif(rt, "j1", -0.25, 0.25)
		j2 := unif(rt, "j2", -0.25, 0.25)
		lat, lon = candidate(fr, class, th, rho, k, j1, j2, old)
		if g.valid(key, lat, lon, old) {
			return lat, lon, true
		}
	}
	return 0, 0, false
}

func (g *generator) add(s Step) {
	if o := g.objs[s.Key][s.ID]; (s.Op == "set" || s.Op == "setex") && o != nil && !o.spatial && active(findStringOrig) {
		// known finding: a geometry SET over a string id draws a path from lat 0
		// lon 0. Left out by construction: the string is deleted first.
		g.excl[findStringOrig]++
		g.add(Step{Op: "del", Key: s.Key, ID: s.ID, Phase: s.Phase})
	}
	g.cs.Steps = append(g.cs.Steps, s)
	objs := g.objs[s.Key]
	var prev map[string]int
	if o := objs[s.ID]; o != nil {
		prev = o.fields
	}
	switch s.Op {
	case "set":
		objs[s.ID] = &gobj{spatial: true, lat: s.Lat, lon: s.Lon, kind: s.Kind, z: s.Z, fields: mergeFields(prev, s.Fields)}
	case "setstr":
		objs[s.ID] = &gobj{fields: mergeFields(prev, s.Fields)}
	case "fset":
		if o := objs[s.ID]; o != nil {
			o.fields = mergeFields(prev, s.Fields)
		}
	case "setex", "del":
		delete(objs, s.ID)
	case "pdel":
		for id := range objs {
			if model.GlobMatch(s.Pattern, id) {
				delete(objs, id)
			}
		}
	case "drop":
		g.objs[s.Key] = map[string]*gobj{}
	}
}

// spec is the definition of fence i currently in force.
func (g *generator) spec(i int) FenceSpec {
	if g.cur != nil {
		return g.cur[i]
	}
	return g.cs.Fences[i]
}

// addFset appends an FSET unless it triggers a known finding: an FSET of an
// object that fails the WHERE filter of a fence on its key.
func (g *generator) addFset(s Step) {
	if o := g.objs[s.Key][s.ID]; o != nil && o.spatial && active(findFsetWhere) {
		nf := mergeFields(o.fields, s.Fields)
		for i := range g.cs.Fences {
			if f := g.spec(i); f.Key == s.Key && f.Where != nil && f.globOK(s.ID) && !f.whereOK(nf) {
				g.excl[findFsetWhere]++
				return
			}
		}
	}
	g.add(s)
}

// redefine appends a re-definition of one of the other fences under its name.
func (g *generator) redefine() {
	rt := g.rt
	if g.cur == nil {
		g.cur = append([]FenceSpec(nil), g.cs.Fences...)
	}
	if len(g.cur) < 2 {
		return
	}
	// prefer a fence whose MATCH pattern has letters (the case-sensitive operand)
	i := intn(rt, "redef-fence", 1, len(g.cur)-1)
	for k := 1; k < len(g.cur); k++ {
		if hasLetter(g.cur[k].Match) && pct(rt, "redef-prefer") < 50 {
			i = k
			break
		}
	}
	old := g.cur[i]
	ns := old
	variant := pick(rt, "redef-variant", []string{"identical", "keyword-case", "match-case", "match-case", "detect", "area"})
	if variant == "match-case" && !hasLetter(old.Match) {
		variant = "detect"
	}
	if g.edge && variant == "area" {
		variant = "detect"
	}
	switch variant {
	case "match-case":
		ns.Match = swapCase(old.Match)
	case "detect":
		ns.Detect = detectSubset(intn(rt, "redef-detect", 0, 31))
		if g.edge {
			ns.Detect = detectSubset(pick(rt, "redef-edetect", []int{1, 4, 5, 8, 9, 12, 13}))
		}
	case "area":
		fr := g.frames[i]
		ok := false
		for try := 0; try < 4 && !ok; try++ {
			clat, clon := fr.denorm(unif(rt, "redef-u", -0.6, 0.6), unif(rt, "redef-v", -0.6, 0.6))
			ns.Area = drawArea(rt, "redef-area", old.Area.Kind, clat, clon, fr.hy*unif(rt, "redef-size", 0.6, 1.6))
			nf := ns.Area.frame()
			ok = true
			for _, o := range g.objs[old.Key] {
				if o.spatial && nf.inside(o.lat, o.lon) == unsure {
					ok = false
				}
			}
		}
		if !ok {
			ns.Area = old.Area
			variant = "detect"
			ns.Detect = detectSubset(intn(rt, "redef-detect", 0, 31))
		}
	}
	g.cur[i] = ns
	g.frames[i] = ns.Area.frame()
	spec := ns
	g.cs.Steps = append(g.cs.Steps, Step{Op: "redef", Key: old.Key, Fence: i, Variant: variant, Spec: &spec})
}

func (g *generator) nextQ() Field {
	g.stepNo++
	return Field{"q", g.stepNo}
}

func genCase(rt *rapid.T, detectIdx int, p genParams) Case {
	cs := Case{}
	g := &generator{rt: rt, cs: &cs, objs: [2]map[string]*gobj{{}, {}}, excl: map[string]int{}}
	cs.excl = g.excl

	// the fence under test
	kind := pick(rt, "main-kind", areaKinds)
	lat := unif(rt, "main-lat", -50, 50)
	lon := unif(rt, "main-lon", -150, 150)
	hy := math.Exp(unif(rt, "main-size", math.Log(0.003), math.Log(0.25)))
	// DETECT lists without outside and cross find the hook only through the
	// rectangle index: a third of those cases put a disc on the antimeridian,
	// near a pole or at high latitude (regression fence-circle-candidate-box)
	if detectIdx != 0 && detectIdx&(2|16) == 0 && !p.long && pct(rt, "edge") < 35 {
		g.edge = true
		kind = pick(rt, "edge-kind", []string{"point", "circle"})
		switch pct(rt, "edge-where") % 3 {
		case 0: // on the antimeridian
			lat = unif(rt, "edge-lat", -70, 70)
			lon = pick(rt, "edge-side", []float64{180, -180}) - unif(rt, "edge-off", -0.3, 0.3)
			if lon > 180 {
				lon -= 360
			} else if lon < -180 {
				lon += 360
			}
		case 1: // near a pole
			lat = pick(rt, "edge-pole", []float64{1, -1}) * unif(rt, "edge-plat", 86, 89.7)
			lon = unif(rt, "edge-plon", -180, 180)
		default: // high latitude
			lat = pick(rt, "edge-pole", []float64{1, -1}) * unif(rt, "edge-hlat", 65, 84)
			lon = unif(rt, "edge-hlon", -179, 179)
		}
		hy = unif(rt, "edge-r", 20000, 150000) / mPerDeg
	}
	main := FenceSpec{Key: 0, Cmd: cmdFor(rt, "main-cmd", kind), Area: drawArea(rt, "main", kind, lat, lon, hy),
		Detect: detectSubset(detectIdx), Obs: "all3"}
	main.Area.Hav = g.edge
	if !p.long {
		if pct(rt, "main-commands") < 60 {
			main.Commands = drawSubset(rt, "main-accept", []string{"set", "fset", "del", "drop"})
		}
		if rapid.Bool().Draw(rt, "main-match") {
			main.Match = pick(rt, "main-glob", matchPool)
		}
		main.Where = drawWhere(rt, "main-where")
	}
	switch m := pct(rt, "main-modifier"); {
	case m < 25:
		main.Limit = intn(rt, "main-limit", 1, 5)
	case m < 33:
		main.Sparse = intn(rt, "main-sparse", 1, 4)
	}
	cs.Fences = append(cs.Fences, main)
	mfr := main.Area.frame()
	g.frames = append(g.frames, mfr)

	// the population of other hooks and channels
	n := intn(rt, "others", 0, p.maxOthers)
	for i := 0; i < n; i++ {
		lb := fmt.Sprintf("o%d", i)
		f := FenceSpec{Obs: "chan"}
		if pct(rt, lb+"-hook") < 20 {
			f.Obs = "hook"
		}
		if pct(rt, lb+"-key") < 22 {
			f.Key = 1
		}
		var u, v float64
		th := unif(rt, lb+"-th", 0, 2*math.Pi)
		switch pl := pct(rt, lb+"-place"); {
		case pl < 50: // overlapping the fence under test
			r := unif(rt, lb+"-r", 0, 1.6)
			u, v = r*math.Cos(th), r*math.Sin(th)
		case pl < 80: // near but disjoint
			r := unif(rt, lb+"-r", 3, 7)
			u, v = r*math.Cos(th), r*math.Sin(th)
		default: // far away
			r := unif(rt, lb+"-r", 40, 80)
			u, v = r*math.Cos(th), r*math.Sin(th)
		}
		clat, clon := mfr.denorm(u, v)
		if math.Abs(clat) > 70 || math.Abs(clon) > 170 {
			clat, clon = mfr.denorm(u/20, v/20)
		}
		k := pick(rt, lb+"-kind", areaKinds)
		if g.edge {
			k = pick(rt, lb+"-ekind", []string{"point", "circle"})
			clat, clon = destination(mfr.cy, mfr.cx, unif(rt, lb+"-ed", 0, 2.5)*mfr.r, unif(rt, lb+"-eb", 0, 360))
		}
		size := mfr.hy * math.Exp(unif(rt, lb+"-size", math.Log(0.3), math.Log(3)))
		f.Cmd = cmdFor(rt, lb+"-cmd", k)
		f.Area = drawArea(rt, lb, k, clat, clon, size)
		if pct(rt, lb+"-det") >= 25 {
			f.Detect = detectSubset(intn(rt, lb+"-mask", 1, 31))
		}
		if g.edge {
			// no path semantics across the antimeridian: neither outside nor cross
			f.Area.Hav = true
			f.Detect = detectSubset(pick(rt, lb+"-emask", []int{1, 4, 5, 8, 9, 12, 13}))
		}
		if pct(rt, lb+"-commands") < 20 {
			f.Commands = drawSubset(rt, lb+"-accept", []string{"set", "fset", "del", "drop"})
		}
		if pct(rt, lb+"-match") < 25 {
			f.Match = pick(rt, lb+"-glob", matchPool)
		}
		if pct(rt, lb+"-wh") < 30 {
			f.Where = drawWhere(rt, lb+"-where")
		}
		if pct(rt, lb+"-lim") < 15 {
			f.Limit = intn(rt, lb+"-limit", 1, 5)
		}
		cs.Fences = append(cs.Fences, f)
		g.frames = append(g.frames, f.Area.frame())
	}

	// the movement script
	nids := intn(rt, "nids", 1, 3)
	ids := append([]string{"a1"}, idPool[1:nids]...)
	if nids > 1 && rapid.Bool().Draw(rt, "swap-ids") {
		ids[len(ids)-1] = idPool[intn(rt, "other-id", 1, len(idPool)-1)]
	}
	steps := intn(rt, "steps", p.minSteps, p.maxSteps)
	// at most one expiry per case (each costs ~0.1 s of waiting), in ~1 of 16 cases
	expiryAt := -1
	if p.allowExpiry && intn(rt, "expiry", 0, 15) == 15 {
		expiryAt = intn(rt, "expiry-at", 0, steps-1)
	}
	for i := 0; i < steps; i++ {
		key := 0
		if pct(rt, "step-key") < 8 {
			key = 1
		}
		if len(cs.Fences) > 1 && pct(rt, "redef") < 7 {
			g.redefine()
		}
		id := pick(rt, "id", ids)
		old := g.objs[key][id]
		if old != nil && pct(rt, "ttl") < 4 {
			// EXPIRE / PERSIST change no position and no field: a fence has nothing to announce
			if active(findExpireEnter) {
				g.excl[findExpireEnter]++
			} else {
				g.add(Step{Op: pick(rt, "ttl-op", []string{"expire", "expire", "persist"}), Key: key, ID: id})
			}
			continue
		}
		if old != nil && old.spatial && pct(rt, "unchanged") < 9 {
			// re-SET of the object exactly as it is: a stationary object must
			// still be announced as inside / outside
			s := Step{Op: "set", Key: key, ID: id, Kind: old.kind, Lat: old.lat, Lon: old.lon, Z: old.z, Unchanged: true}
			if rapid.Bool().Draw(rt, "unchanged-repeat-fields") {
				var names []string
				for n := range old.fields {
					names = append(names, n)
				}
				sort.Strings(names)
				for _, n := range names {
					s.Fields = append(s.Fields, Field{n, old.fields[n]})
				}
			}
			g.add(s)
			continue
		}
		op := pct(rt, "op")
		switch {
		case op < 62 || (op < 80 && (old == nil)):
			lat, lon, ok := g.drawPosition(key, old)
			if !ok {
				continue
			}
			s := Step{Op: "set", Key: key, ID: id, Kind: "point", Lat: lat, Lon: lon}
			switch k := pct(rt, "objkind"); {
			case k < 10:
				s.Kind, s.Z = "pointz", float64(intn(rt, "z", 1, 500))
			case k < 20 && !g.edge:
				s.Kind = "rect"
			}
			if rapid.Bool().Draw(rt, "with-f") {
				s.Fields = append(s.Fields, Field{"f", intn(rt, "f", 0, 9)})
			}
			if intn(rt, "with-g", 0, 9) == 0 {
				s.Fields = append(s.Fields, Field{"g", intn(rt, "g", 0, 3)})
			}
			s.Fields = append(s.Fields, g.nextQ())
			if expiryAt >= 0 && i >= expiryAt {
				s.Op = "setex"
				expiryAt = -1
			}
			g.add(s)
		case op < 80:
			s := Step{Op: "fset", Key: key, ID: id}
			if pct(rt, "fset-f") < 70 {
				s.Fields = append(s.Fields, Field{"f", intn(rt, "f", 0, 9)})
			}
			s.Fields = append(s.Fields, g.nextQ())
			g.addFset(s)
		case op < 87:
			g.add(Step{Op: "del", Key: key, ID: id})
		case op < 91:
			g.add(Step{Op: "pdel", Key: key, Pattern: pick(rt, "pdel", pdelPool)})
		case op < 93:
			g.add(Step{Op: "drop", Key: key})
		default:
			g.add(Step{Op: "setstr", Key: key, ID: id, Fields: []Field{g.nextQ()}})
		}
	}
	g.closing()
	if pct(rt, "pipeline") < 35 {
		cs.Pipeline = pick(rt, "burst", []int{4, 16, 64})
	}
	if !p.long && intn(rt, "hook-fault", 0, 63) == 0 {
		cs.HookFault = true // costs 0.5 s (the hook's retry pause) per faulted hook
	}
	return cs
}

// closing appends the sentinel sequence on id "a1" of the fence under test's
// key: far outside -> across the area -> inside -> FSET -> outside -> DEL ->
// DROP. For every DETECT x COMMANDS combination that can produce a message at
// all it produces one, so the last expected message closes each asynchronous
// stream and everything before it is checked for "no other messages".
func (g *generator) closing() {
	main := g.cs.Fences[0]
	fr := g.frames[0]
	var wf []Field
	if w := main.Where; w != nil {
		v := 0
		if w.In != nil {
			v = w.In[0]
		} else {
			v = int(math.Ceil(w.Lo))
		}
		wf = []Field{{"f", v}}
	} else {
		wf = []Field{{"f", 0}}
	}
	place := func(class string, rho float64) bool {
		old := g.objs[0]["a1"]
		for try := 0; try < 24; try++ {
			th := 0.4 + float64(try)*0.83
			lat, lon := candidate(fr, class, th, rho, 1+0.07*float64(try%5), 0.03*float64(try%7)-0.09, 0.05, old)
			if g.valid(0, lat, lon, old) {
				s := Step{Op: "set", Key: 0, ID: "a1", Kind: "point", Lat: lat, Lon: lon, Phase: "closing"}
				s.Fields = append(append(s.Fields, wf...), g.nextQ())
				g.add(s)
				return true
			}
		}
		return false
	}
	if place("far", 3) {
		place("cross", 0)
	}
	if place("deep-in", 0.3) {
		g.addFset(Step{Op: "fset", Key: 0, ID: "a1", Fields: []Field{g.nextQ()}, Phase: "closing"})
	}
	place("just-out", 1.3)
	if g.objs[0]["a1"] != nil {
		g.add(Step{Op: "del", Key: 0, ID: "a1", Phase: "closing"})
	}
	if place("deep-in", 0.2) {
		g.add(Step{Op: "drop", Key: 0, Phase: "closing"})
	}
}

// ---- execution ---------------------------------------------------------------------

type failer interface {
	Fatalf(format string, args ...any)
	Helper()
}

type caseInfo struct {
	labels   map[string]bool
	kinds    []string // transition kinds of the fence under test, in order
	touched  int      // other fences on the main key that produced at least one expected message
	others   int
	skipped  bool
	expected int
	events   int // writes for which the fence under test had to render a notification
	maxOther int // the same, maximum over the other fences
}

func stepArgs(s Step, key string) [][]string {
	fields := func(a []string) []string {
		for _, f := range s.Fields {
			a = append(a, "FIELD", f.Name, fmt.Sprint(f.Val))
		}
		return a
	}
	switch s.Op {
	case "redef":
		return nil // sent by runCase itself, between bursts
	case "expire":
		return [][]string{{"EXPIRE", key, s.ID, "1000"}}
	case "persist":
		return [][]string{{"PERSIST", key, s.ID}}
	case "set", "setex":
		a := fields([]string{"SET", key, s.ID})
		if s.Op == "setex" {
			a = append(a, "EX", "0.05")
		}
		switch s.Kind {
		case "pointz":
			a = append(a, "POINT", ff(s.Lat), ff(s.Lon), ff(s.Z))
		case "rect":
			a = append(a, "BOUNDS", ff(round7(s.Lat-rectHalf)), ff(round7(s.Lon-rectHalf)), ff(round7(s.Lat+rectHalf)), ff(round7(s.Lon+rectHalf)))
		default:
			a = append(a, "POINT", ff(s.Lat), ff(s.Lon))
		}
		return [][]string{a}
	case "setstr":
		return [][]string{append(fields([]string{"SET", key, s.ID}), "STRING", "parked")}
	case "fset":
		a := []string{"FSET", key, s.ID}
		for _, f := range s.Fields {
			a = append(a, f.Name, fmt.Sprint(f.Val))
		}
		return [][]string{a}
	case "del":
		return [][]string{{"DEL", key, s.ID}}
	case "pdel":
		return [][]string{{"PDEL", key, s.Pattern}}
	case "drop":
		return [][]string{{"DROP", key}}
	}
	panic("bad op " + s.Op)
}

type fenceRun struct {
	spec     FenceSpec
	fr       frame
	key      string
	chanName string
	hookName string
	expHook  []xmsg // expected on channel and webhook
	expLive  []xmsg
	hookSt   *stream
	live     *liveObs
	events   int
	curTok   []string // the definition tokens sent last
	redefs   int
}

func mustOK(v t38.Value, err error, what string) {
	if err != nil {
		panic(fmt.Sprintf("harness: %s: %v", what, err))
	}
	if v.IsErr() {
		panic(fmt.Sprintf("harness: %s refused: %s", what, v))
	}
}

// runCase executes one case against the server and the model.
func runCase(t failer, c *ev.Collector, cs Case) (info caseInfo) {
	t.Helper()
	info.labels = map[string]bool{}
	caseSeq++
	prefix := fmt.Sprintf("c%d", caseSeq)
	keys := [2]string{prefix + ":k0", prefix + ":k1"}
	startGap := maxGapNs.Load()

	fail := func(key, what string) {
		failedOnce = true
		c.Fail(t, key, what, cs)
	}

	v, err := ctl.Do("FLUSHDB")
	mustOK(v, err, "FLUSHDB")

	// --- install fences and observers
	runs := make([]*fenceRun, len(cs.Fences))
	var chans []string
	var sub *t38.Conn
	defer func() {
		if sub != nil {
			sub.Close()
		}
		for _, r := range runs {
			if r == nil {
				continue
			}
			if r.hookSt != nil {
				recv.unregister(r.hookName)
			}
			if r.live != nil {
				if !r.live.close(ctl, r.key) {
					c.Inconclusive("live connection of %s still listed after 20s", prefix)
				}
			}
		}
	}()
	for i, f := range cs.Fences {
		r := &fenceRun{spec: f, fr: f.Area.frame(), key: keys[f.Key]}
		runs[i] = r
		name := fmt.Sprintf("%s:f%d", prefix, i)
		tok := f.tokens(r.key)
		r.curTok = tok
		if f.Obs == "all3" || f.Obs == "chan" {
			r.chanName = name + ":c"
			v, err := ctl.Do(append([]string{"SETCHAN", r.chanName}, tok...)...)
			mustOK(v, err, "SETCHAN "+strings.Join(tok, " "))
			chans = append(chans, r.chanName)
		}
		if f.Obs == "all3" || f.Obs == "hook" {
			r.hookName = name + ":h"
			r.hookSt = recv.register(r.hookName)
			r.hookSt.faultArmed = cs.HookFault
			v, err := ctl.Do(append([]string{"SETHOOK", r.hookName, recv.url}, tok...)...)
			mustOK(v, err, "SETHOOK "+strings.Join(tok, " "))
		}
		if f.Obs == "all3" {
			r.live, err = openLive(srv.Addr, tok)
			if err != nil {
				panic("harness: live fence: " + err.Error())
			}
		}
		if i > 0 {
			info.others++
		}
	}
	closeCh := prefix + ":close"
	sub = srv.MustDial()
	if err := sub.Send(append(append([]string{"SUBSCRIBE"}, chans...), closeCh)...); err != nil {
		panic("harness: subscribe: " + err.Error())
	}
	for i := 0; i <= len(chans); i++ {
		v, err := sub.Recv()
		if err != nil || v.Kind != '*' || len(v.Arr) != 3 || v.Arr[0].Str != "subscribe" {
			panic(fmt.Sprintf("harness: subscribe ack: %v %v", v, err))
		}
	}

	// --- run the script on server and model
	st := newState()
	overString := map[string]bool{} // id|fields of the SETs that replaced a string (for finding keys)
	produced := make([]bool, len(runs))
	addWrite := func(stepNo int, s Step, cmd, id string, old, cur *mobj) {
		for i, r := range runs {
			if r.spec.Key != s.Key {
				continue
			}
			nat, tr := r.spec.expectWrite(r.fr, id, old, cur, cmd == "fset")
			if tr.Unsure {
				info.skipped = true
				return
			}
			if i == 0 {
				info.kinds = append(info.kinds, tr.Kind)
				info.labels["tr:"+tr.Kind] = true
				if tr.Mirrored != "" {
					info.labels["impl-mirrored:"+tr.Mirrored] = true
				}
				if s.Phase == "" {
					info.labels["script-tr:"+tr.Kind] = true
				}
			}
			dets := r.spec.filterDetect(nat)
			if len(dets) > 0 {
				r.events++ // counted by the fence's scan writer even when COMMANDS drops the message afterwards
			}
			if !r.spec.accepts(cmd) {
				continue
			}
			for _, d := range dets {
				m := xmsg{Cmd: cmd, Detect: d, ID: id, Obj: canonObj(cur), Fields: canonFields(cur.fields), Step: stepNo}
				r.expHook = append(r.expHook, m)
				r.expLive = append(r.expLive, m)
				produced[i] = true
			}
		}
	}
	addDel := func(stepNo int, s Step, id string, obj *mobj) {
		for i, r := range runs {
			if r.spec.Key != s.Key {
				continue
			}
			if i == 0 {
				k := "del-out"
				if obj.spatial && r.fr.inside(obj.lat, obj.lon) == yes && r.spec.globOK(id) && r.spec.whereOK(obj.fields) {
					k = "del-in"
				}
				info.kinds = append(info.kinds, k)
				info.labels["tr:"+k] = true
			}
			m := xmsg{Cmd: "del", ID: id, Step: stepNo}
			if due, opt := r.spec.expectDel(r.fr, id, obj, false); due {
				m.Optional = opt
				r.expHook = append(r.expHook, m)
				produced[i] = true
				if opt {
					info.labels["del-in-bbox-margin(optional)"] = true
				}
			}
			if due, _ := r.spec.expectDel(r.fr, id, obj, true); due {
				m.Optional = false
				r.expLive = append(r.expLive, m)
			}
		}
	}
	// replies still owed by the server when the case is left early (runs before
	// the observer clean-up above, which talks on the same connection)
	outstanding := 0
	defer func() {
		for ; outstanding > 0; outstanding-- {
			if _, err := ctl.Recv(); err != nil {
				break
			}
		}
	}()
	batch := max(1, cs.Pipeline)
	sentUpTo := 0
	for n, s := range cs.Steps {
		if info.skipped {
			break
		}
		if n == sentUpTo {
			// send the next burst; a step that waits for an expiry travels alone
			end := n
			for end < len(cs.Steps) && end-n < batch {
				if cs.Steps[end].Op == "setex" || cs.Steps[end].Op == "redef" {
					if end == n {
						end++
					}
					break
				}
				end++
			}
			for k := n; k < end; k++ {
				for _, args := range stepArgs(cs.Steps[k], keys[cs.Steps[k].Key]) {
					if err := ctl.Send(args...); err != nil {
						fail("transport", fmt.Sprintf("step %d %s: %v", k, t38.CmdString(args), err))
					}
					outstanding++
				}
			}
			sentUpTo = end
			if end-n > 1 {
				info.labels["pipelined-burst"] = true
			}
		}
		objs := st.keys[s.Key]
		for _, args := range stepArgs(s, keys[s.Key]) {
			v, err := ctl.Recv()
			outstanding--
			if err != nil {
				var again bool
				if v, err, again = recvAgainIfStalled(ctl, err, startGap); again {
					c.Inconclusive("process frozen %.0fs while waiting for a reply in %s; read repeated", float64(maxGapNs.Load())/1e9, prefix)
				}
			}
			if err != nil {
				fail("transport", fmt.Sprintf("step %d %s: %v", n, t38.CmdString(args), err))
			}
			if v.IsErr() {
				// FSET on a missing id/key is the only refusal the script can run into
				if s.Op == "fset" && objs[s.ID] == nil {
					info.labels["fset-missing-refused"] = true
					continue
				}
				fail("unexpected-error", fmt.Sprintf("step %d %s: %s", n, t38.CmdString(args), v))
			}
		}
		info.labels["op:"+s.Op] = true
		if s.Unchanged {
			info.labels["re-set-unchanged"] = true
			if len(s.Fields) == 0 {
				info.labels["re-set-unchanged:fields-carried-over"] = true
			}
		}
		switch s.Op {
		case "set", "setex", "setstr":
			old := objs[s.ID]
			cur := &mobj{fields: map[string]int{}}
			if old != nil {
				for k, v := range old.fields {
					cur.fields[k] = v
				}
			}
			for _, f := range s.Fields {
				if f.Val == 0 {
					delete(cur.fields, f.Name)
				} else {
					cur.fields[f.Name] = f.Val
				}
			}
			if s.Op != "setstr" {
				cur.spatial, cur.kind, cur.lat, cur.lon, cur.z = true, s.Kind, s.Lat, s.Lon, s.Z
			} else if old != nil && old.spatial {
				info.labels["set-string-over-geometry"] = true
			}
			if old != nil && !old.spatial && cur.spatial {
				info.labels["set-geometry-over-string"] = true
				overString[s.ID+"|"+canonFields(cur.fields)] = true
			}
			objs[s.ID] = cur
			addWrite(n, s, "set", s.ID, old, cur)
			if s.Op == "setex" {
				// wait until the background expiry has deleted it
				deadline := time.Now().Add(20 * time.Second)
				for {
					v, err := ctl.Do("EXISTS", keys[s.Key], s.ID)
					if err != nil {
						fail("transport", "EXISTS: "+err.Error())
					}
					if v.IsErr() || v.Int == 0 {
						break
					}
					if time.Now().After(deadline) {
						c.Inconclusive("object with EX 0.05 still present after 20s")
						info.skipped = true
						break
					}
					time.Sleep(5 * time.Millisecond)
				}
				delete(objs, s.ID)
				info.labels["expiry"] = true
				addDel(n, s, s.ID, cur)
			}
		case "fset":
			old := objs[s.ID]
			if old == nil {
				continue
			}
			cur := &mobj{spatial: old.spatial, kind: old.kind, lat: old.lat, lon: old.lon, z: old.z, fields: map[string]int{}}
			changed := false
			for k, v := range old.fields {
				cur.fields[k] = v
			}
			for _, f := range s.Fields {
				if cur.fields[f.Name] != f.Val {
					changed = true
				}
				if f.Val == 0 {
					delete(cur.fields, f.Name)
				} else {
					cur.fields[f.Name] = f.Val
				}
			}
			objs[s.ID] = cur
			if changed {
				addWrite(n, s, "fset", s.ID, nil, cur)
			}
		case "del":
			if o := objs[s.ID]; o != nil {
				delete(objs, s.ID)
				addDel(n, s, s.ID, o)
			}
		case "pdel":
			var ids []string
			for id := range objs {
				if model.GlobMatch(s.Pattern, id) {
					ids = append(ids, id)
				}
			}
			sort.Strings(ids)
			for _, id := range ids {
				o := objs[id]
				delete(objs, id)
				addDel(n, s, id, o)
			}
		case "redef":
			r := runs[s.Fence]
			if s.Fence == 0 || s.Spec == nil || r.live != nil {
				panic("harness: redef of the fence under test")
			}
			tok := s.Spec.tokens(r.key)
			switch s.Variant {
			case "identical":
				tok = r.curTok
			case "keyword-case":
				tok = flipKeywordCase(tok)
			}
			if r.hookSt != nil {
				// replacing a webhook while its sender goroutine still holds a
				// batch could reorder deliveries: let the stream catch up first
				deadline := time.Now().Add(waitBudget())
				for {
					raw := r.hookSt.snapshot()
					got := make([]gmsg, len(raw))
					for k, m := range raw {
						got[k] = parseMsg(m)
					}
					if matchStream(r.expHook, got).Status != "partial" || time.Now().After(deadline) {
						break
					}
					r.hookSt.wait(time.Until(deadline))
				}
			}
			var replies []t38.Value
			if r.chanName != "" {
				v, err := ctl.Do(append([]string{"SETCHAN", r.chanName}, tok...)...)
				mustOK(v, err, "re-SETCHAN "+strings.Join(tok, " "))
				replies = append(replies, v)
			}
			if r.hookName != "" {
				v, err := ctl.Do(append([]string{"SETHOOK", r.hookName, recv.url}, tok...)...)
				mustOK(v, err, "re-SETHOOK "+strings.Join(tok, " "))
				replies = append(replies, v)
			}
			info.labels["redef:"+s.Variant] = true
			r.redefs++
			if s.Variant == "identical" {
				for _, v := range replies {
					if v.Kind != ':' || v.Int != 0 {
						fail("redef:identical-not-noop", fmt.Sprintf("step %d: re-issuing the identical definition %s of fence #%d answered %s, want 0 (impl-mirrored: unchanged definition)", n, strings.Join(tok, " "), s.Fence, v))
					}
				}
			}
			obs := r.spec.Obs
			r.spec, r.curTok = *s.Spec, tok
			r.spec.Obs = obs
			r.fr = r.spec.Area.frame()
		case "drop":
			if len(objs) > 0 {
				st.keys[s.Key] = map[string]*mobj{}
				for i, r := range runs {
					if r.spec.Key != s.Key {
						continue
					}
					m := xmsg{Cmd: "drop", Step: n}
					if r.spec.expectDrop(false) {
						r.expHook = append(r.expHook, m)
						produced[i] = true
					}
					if r.spec.expectDrop(true) {
						r.expLive = append(r.expLive, m)
					}
					if i == 0 {
						info.kinds = append(info.kinds, "drop")
						info.labels["tr:drop"] = true
					}
				}
			}
		}
	}
	if info.skipped {
		info.labels["skipped:margin-or-budget"] = true
		return info
	}
	for i := 1; i < len(runs); i++ {
		if produced[i] && runs[i].spec.Key == cs.Fences[0].Key {
			info.touched++
		}
		info.maxOther = max(info.maxOther, runs[i].events)
	}
	info.events = runs[0].events

	// --- channels: a PUBLISH sentinel closes the subscription stream exactly
	v, err = ctl.Do("PUBLISH", closeCh, "end-of-"+prefix)
	mustOK(v, err, "PUBLISH")
	gotChan := map[string][]gmsg{}
	for {
		v, err := sub.Recv()
		if err != nil {
			v, err, _ = recvAgainIfStalled(sub, err, startGap)
		}
		if err != nil {
			fail("channel:stream-broken", fmt.Sprintf("subscriber connection: %v", err))
		}
		if v.Kind != '*' || len(v.Arr) != 3 || v.Arr[0].Str != "message" {
			fail("channel:bad-frame", "unexpected frame on the subscriber connection: "+v.String())
		}
		ch, payload := v.Arr[1].Str, v.Arr[2].Str
		if ch == closeCh {
			break
		}
		gotChan[ch] = append(gotChan[ch], parseMsg(payload))
	}
	judge := func(i int, r *fenceRun, obs string, exp []xmsg, got []gmsg, hook string, final bool) bool {
		for j, g := range got {
			if e := g.envelope(hook, r.key); e != "" {
				fail("fence:"+obs+":bad-envelope", fmt.Sprintf("fence #%d %s, %s message #%d: %s; raw %s", i, describeFence(r.spec), obs, j, e, g.Raw))
			}
		}
		res := matchStream(exp, got)
		switch res.Status {
		case "complete":
			return true
		case "partial":
			if !final {
				return false
			}
		}
		if obs == "webhook" {
			// a resend after the endpoint client's 5 s timeout duplicates a
			// message; give the stall detector a moment to register the gap
			time.Sleep(60 * time.Millisecond)
			if g := maxGapNs.Load(); g > startGap && g > int64(2*time.Second) {
				c.Inconclusive("process stalled %.1fs during %s; webhook stream not judged", float64(g)/1e9, prefix)
				return true
			}
		}
		if obs == "webhook" && r.redefs > 0 {
			// a re-defined hook is a new object with a new sender goroutine while
			// the replaced one may still be inside its delivery routine: across a
			// re-definition the server does not keep the delivery order (C10's
			// subject). Accept the same messages in another order.
			sx := append([]xmsg(nil), exp...)
			sg := append([]gmsg(nil), got...)
			sort.SliceStable(sx, func(a, b int) bool { return sx[a].String() < sx[b].String() })
			sort.SliceStable(sg, func(a, b int) bool {
				return xmsg{Cmd: sg[a].Cmd, Detect: sg[a].Detect, ID: sg[a].ID, Obj: sg[a].Obj, Fields: sg[a].Fields}.sortKey() < xmsg{Cmd: sg[b].Cmd, Detect: sg[b].Detect, ID: sg[b].ID, Obj: sg[b].Obj, Fields: sg[b].Fields}.sortKey()
			})
			sort.SliceStable(sx, func(a, b int) bool { return sx[a].sortKey() < sx[b].sortKey() })
			if r2 := matchStream(sx, sg); r2.Status == "complete" {
				info.labels["webhook-reordered-after-re-definition(accepted)"] = true
				return true
			} else if r2.Status == "partial" && !final {
				return false
			}
		}
		key := "fence:" + obs + ":" + res.Kind
		if id := findingOf(r, res, overString); id != "" {
			key = id
		}
		fail(key, fmt.Sprintf("fence #%d %s, observer %s: %s\nexpected: %s\nreceived: %s",
			i, describeFence(r.spec), obs, res.What, listX(exp), listG(got)))
		return false
	}
	for i, r := range runs {
		if r.chanName == "" {
			continue
		}
		judge(i, r, "channel", r.expHook, gotChan[r.chanName], r.chanName, true)
		info.expected += len(r.expHook)
	}

	// --- webhook and live streams: ordered, asynchronous; read until the
	// expected list is complete (its tail is the closing sequence)
	waitStream := func(i int, r *fenceRun, obs string, st *stream, exp []xmsg, hook string) {
		deadline := time.Now().Add(waitBudget())
		extended := false
		parse := func() []gmsg {
			raw := st.snapshot()
			out := make([]gmsg, len(raw))
			for k, m := range raw {
				out[k] = parseMsg(m)
			}
			return out
		}
		closable := false
		for k := len(exp) - 1; k >= 0; k-- {
			if !exp[k].Optional {
				closable = cs.Steps[exp[k].Step].Phase == "closing"
				break
			}
		}
		for {
			got := parse()
			// a duplicate webhook delivery can only come from the 5 s resend
			// timer: not judged when this process was visibly stalled
			if obs == "webhook" && maxGapNs.Load() > startGap && maxGapNs.Load() > int64(2*time.Second) {
				c.Inconclusive("process stalled %.1fs during %s; webhook stream not judged", float64(maxGapNs.Load())/1e9, prefix)
				return
			}
			if time.Now().After(deadline) {
				// the budget may have run out while the whole process was frozen
				time.Sleep(100 * time.Millisecond)
				if g := maxGapNs.Load(); !extended && g > startGap && g > int64(5*time.Second) {
					extended = true
					deadline = time.Now().Add(waitBudget())
					continue
				}
				judge(i, r, obs, exp, parse(), hook, true)
				return
			}
			if judge(i, r, obs, exp, got, hook, false) {
				if !closable {
					// nothing at the tail closes this stream: for the fence under
					// test allow a short grace for strays
					info.labels["unclosed-"+obs+"-stream"] = true
					if i == 0 && st.wait(15*time.Millisecond) {
						continue
					}
				}
				return
			}
			st.wait(time.Until(deadline))
		}
	}
	for i, r := range runs {
		if r.hookSt != nil {
			waitStream(i, r, "webhook", r.hookSt, r.expHook, r.hookName)
			if r.hookSt.fired() {
				info.labels["webhook-endpoint-failed-once-mid-batch"] = true
			}
		}
		if r.live != nil {
			waitStream(i, r, "live", r.live.st, r.expLive, "")
		}
	}
	return info
}

func listX(x []xmsg) string {
	var p []string
	for _, m := range x {
		p = append(p, m.String())
	}
	return "[" + strings.Join(p, "; ") + "]"
}

func listG(g []gmsg) string {
	var p []string
	for _, m := range g {
		p = append(p, m.String())
	}
	return "[" + strings.Join(p, "; ") + "]"
}

func describeFence(f FenceSpec) string {
	return strings.Join(f.tokens(fmt.Sprintf("k%d", f.Key)), " ")
}

// ---- tests -----------------------------------------------------------------------------

const ruleText = "per case one fence under test (NEARBY POINT | WITHIN/INTERSECTS CIRCLE, BOUNDS, OBJECT polygon, TILE, HASH; DETECT subset fixed by the outer loop over all 32 = 31 non-empty subsets + option absent; optional COMMANDS subset of set,fset,del,drop; optional MATCH; optional WHERE range / WHEREIN) installed as SETCHAN + SETHOOK(local HTTP endpoint) + live connection, plus 0..N other channels/hooks (same or other key, overlapping / near / far, random DETECT, COMMANDS, MATCH, WHERE) which are all modelled and checked too. Script: SET (point, point+z, tiny rectangle; FIELD f/g/q) at positions constructed relative to a fence (deep inside, just inside, just outside, far, or mirrored through the centre so the path crosses) and kept >=5-7% away from every boundary of every fence on the key, FSET, DEL, PDEL, DROP, SET STRING, SET EX + wait for expiry; then a closing sequence (far, across, inside, FSET, outside, DEL, inside, DROP). Oracle: own arithmetic for in/out and segment crossing, model.GlobMatch, natural list by transition filtered by DETECT then COMMANDS; every stream compared message by message (command, detect, id, geometry, fields, hook, key) with nothing else allowed; channel stream closed by a PUBLISH sentinel, webhook/live streams by the closing sequence. Non-trivial: the fence under test sees >=3 different transition kinds including a cross, with >=5 other fences of which >=1 on the same key produced messages; distinct by (DETECT subset, COMMANDS, filter kinds, transition sequence)."

func runGenerated(t *testing.T, c *ev.Collector, name string, perSubset int, p genParams) {
	for d := 0; d < 32; d++ {
		d := d
		ev.Rapid(fmt.Sprintf("%s-d%d", name, d), perSubset)
		rapid.Check(t, func(rt *rapid.T) {
			cs := genCase(rt, d, p)
			c.Case()
			info := runCase(rt, c, cs)
			record(c, cs, info)
		})
		if t.Failed() {
			return
		}
	}
}

// findingOf recognises the divergences that belong to a listed finding, so
// that they are reported under its id.
func findingOf(r *fenceRun, res matchResult, overString map[string]bool) string {
	g := res.Got
	switch {
	case g != nil && (g.Cmd == "expire" || g.Cmd == "persist"):
		// a deadline change was announced as a fence event
		return findExpireEnter
	case g != nil && g.Cmd == "set" && overString[g.ID+"|"+g.Fields] && (g.Detect == "cross" || (res.Want != nil && res.Want.Detect == "cross")):
		// the SET replaced a string: a cross (or its absence) can only come from a path drawn from lat 0 lon 0
		return findStringOrig
	case g != nil && g.Cmd == "fset" && g.Detect == "outside" && r.spec.Where != nil && (res.Kind == "extra" || res.Kind == "wrong-message" || res.Kind == "missing"):
		// an FSET of an object that fails the WHERE filter was announced
		return findFsetWhere
	}
	return ""
}

func record(c *ev.Collector, cs Case, info caseInfo) {
	for l := range info.labels {
		c.Label(l)
	}
	for id, n := range cs.excl {
		for ; n > 0; n-- {
			c.Excluded(id)
		}
	}
	main := cs.Fences[0]
	c.Label("detect:" + detectName(main.Detect))
	c.Label("area:" + main.Area.Kind + "/" + main.Cmd)
	if main.Commands != nil {
		c.Label("with-commands")
	}
	if main.Match != "" {
		c.Label("with-match")
	}
	if main.Where != nil {
		c.Label("with-where")
	}
	if main.Area.Hav {
		c.Label("disc-on-antimeridian-or-near-pole")
	}
	if main.Limit > 0 {
		c.Label("with-limit(impl-mirrored:no-effect-on-a-fence)")
		if info.events >= 3*main.Limit {
			c.Label("with-limit-and>=3n-events")
		}
	}
	if main.Sparse > 0 {
		c.Label("with-sparse(impl-mirrored:no-effect-on-a-fence)")
	}
	if info.events >= 100 {
		c.Label("fence-under-test>=100-events")
	}
	if info.events >= 250 {
		c.Label("fence-under-test>=250-events")
	}
	if info.maxOther >= 100 {
		c.Label("other-fence>=100-events")
	}
	c.LabelN("expected-channel-messages", info.expected)
	if info.skipped {
		return
	}
	distinct := map[string]bool{}
	cross := false
	for _, k := range info.kinds {
		if k != "filtered" && k != "none" {
			distinct[k] = true
		}
		cross = cross || k == "cross"
	}
	if len(distinct) >= 3 && cross && info.others >= 5 && info.touched >= 1 {
		filt := fmt.Sprintf("m=%v,w=%v", main.Match != "", main.Where != nil)
		c.NonTrivial(detectName(main.Detect) + "|" + strings.Join(main.Commands, ",") + "|" + filt + "|" + strings.Join(info.kinds, ">"))
		if c.WantSample() {
			c.Sample(map[string]any{"fence": describeFence(main), "others": info.others, "others_with_messages": info.touched,
				"transitions": info.kinds, "steps": len(cs.Steps)})
		}
	}
}

func detectName(d []string) string {
	if d == nil {
		return "(none)"
	}
	return strings.Join(d, "+")
}

func TestC05_Fence(t *testing.T) {
	c := ev.New("C05", "fence", "exploration")
	t.Cleanup(c.Flush)
	c.Rule(ruleText)
	c.Assume("positions keep a 5-7% margin (in the area's own affine frame) from every fence boundary and segments a 10-16% margin, so the server's geometry code is never decisive; behaviour the documentation is silent about (WHERE-filtered fences with FSET / field changes, 'nocross', del for objects outside the area, drop for non-default DETECT, path from a string object) mirrors the implementation and is labelled impl-mirrored")
	p := genParams{maxOthers: ev.Pick(14, 25), minSteps: 5, maxSteps: ev.Pick(18, 25), allowExpiry: true}
	runGenerated(t, c, "fence", ev.Pick(30, 220), p)
}

// TestC05_Matrix: deterministic enumeration of DETECT subset x area kind with
// a fixed script that walks through every transition kind once.
func TestC05_Matrix(t *testing.T) {
	if ev.Shard() != 0 {
		t.Skip("exhaustive enumeration runs on shard 0")
	}
	c := ev.New("C05", "matrix", "exploration")
	t.Cleanup(c.Flush)
	c.Rule("all 32 DETECT choices x 6 area kinds x {no COMMANDS, each single command}: fixed script new-out, cross, out-in, in-in, unchanged re-SET, fset-in, unchanged re-SET without fields, in-out, fset-out, out-out, two unchanged re-SETs outside, new-in(second id), del-in, del-out, in, drop on a lone fence observed three ways; every transition kind occurs in every case, so every case is non-trivial; distinct by (DETECT, area, COMMANDS)")
	c.Exhaustive(true)
	accepts := [][]string{nil, {"set"}, {"fset"}, {"del"}, {"drop"}}
	for d := 0; d < 32; d++ {
		for ki, kind := range areaKinds {
			for _, acc := range accepts {
				cs := matrixCase(d, ki, kind, acc)
				// default detection, no COMMANDS: the endpoint fails once on the
				// second notification of a write (6 cases, 0.5 s retry pause each)
				cs.HookFault = d == 0 && acc == nil
				c.Case()
				info := runCase(t, c, cs)
				for l := range info.labels {
					c.Label(l)
				}
				if info.skipped {
					t.Fatalf("matrix case skipped (margin): %+v", cs.Fences[0])
				}
				c.NonTrivial(fmt.Sprintf("%d|%s|%v", d, kind, acc))
				if d == 5 && acc == nil && c.WantSample() {
					c.Sample(map[string]any{"fence": describeFence(cs.Fences[0]), "transitions": info.kinds})
				}
			}
		}
	}
}

func matrixCase(d, ki int, kind string, acc []string) Case {
	lat, lon := 33.5+float64(ki), -112.2+float64(d)
	cmd := "within"
	if kind == "point" {
		cmd = "nearby"
	} else if (d+ki)%2 == 1 {
		cmd = "intersects"
	}
	var a Area
	switch kind {
	case "point", "circle":
		a = Area{Kind: kind, Lat: lat, Lon: lon, R: 5000}
	case "bounds", "object":
		a = Area{Kind: kind, Lat: lat, Lon: lon, HH: 0.05, HW: 0.08}
	case "tile":
		x, y := tileOf(lat, lon, 10)
		a = Area{Kind: "tile", TX: x, TY: y, TZ: 10}
	default:
		a = Area{Kind: "hash", Hash: geohashEncode(lat, lon, 5)}
	}
	f := FenceSpec{Cmd: cmd, Area: a, Detect: detectSubset(d), Commands: acc, Obs: "all3"}
	fr := a.frame()
	q := 0
	var last Step
	at := func(id string, u, v float64) Step {
		la, lo := fr.denorm(u, v)
		q++
		last = Step{Op: "set", Key: 0, ID: id, Kind: "point", Lat: round7(la), Lon: round7(lo), Fields: []Field{{"q", q}}}
		return last
	}
	fs := func(id string) Step {
		q++
		return Step{Op: "fset", Key: 0, ID: id, Fields: []Field{{"q", q}}}
	}
	// same: the object of the last SET once more, unchanged (q = its current value, or no FIELD at all)
	same := func(carry bool) Step {
		s := last
		s.Unchanged = true
		s.Fields = []Field{{"q", q}}
		if carry {
			s.Fields = nil
		}
		return s
	}
	cs := Case{Fences: []FenceSpec{f}}
	cs.Steps = []Step{
		at("a1", -3, 0.1),   // new-out
		at("a1", 3, -0.1),   // cross
		at("a1", 0.1, 0.2),  // out-in
		at("a1", -0.2, 0.1), // in-in
		same(false),         // exact same command again: inside
		fs("a1"),            // fset-in
		same(true),          // same position, fields carried over, after FSET: inside
		at("a1", 0.3, 2.5),  // in-out
		fs("a1"),            // fset-out
		at("a1", 2.5, 2.5),  // out-out
		same(false),         // stationary outside: outside
		same(true),
		at("a2", 0, 0), // new-in
		{Op: "del", Key: 0, ID: "a2"},
		{Op: "del", Key: 0, ID: "a1"},
		at("a1", 0.1, -0.1),
		{Op: "drop", Key: 0},
	}
	for i := range cs.Steps {
		cs.Steps[i].Phase = "closing"
	}
	return cs
}

// longLivedCase: one object cycles inside / outside / across one area for
// `cycles` rounds (7 writes each: enter, inside move, FSET inside, exit,
// FSET outside, outside move, cross), so that a single long-lived channel,
// webhook and live fence each have to render hundreds of notifications
// (the default item limit of a fence's scan writer is 100; LIMIT n lowers it).
func longLivedCase(kind string, detect []string, limit, cycles int) Case {
	lat, lon := 41.25, -87.5
	cmd := "within"
	if kind == "point" {
		cmd = "nearby"
	}
	var a Area
	switch kind {
	case "point", "circle":
		a = Area{Kind: kind, Lat: lat, Lon: lon, R: 4000}
	case "bounds", "object":
		a = Area{Kind: kind, Lat: lat, Lon: lon, HH: 0.04, HW: 0.06}
	case "tile":
		x, y := tileOf(lat, lon, 10)
		a = Area{Kind: "tile", TX: x, TY: y, TZ: 10}
	default:
		a = Area{Kind: "hash", Hash: geohashEncode(lat, lon, 5)}
	}
	main := FenceSpec{Cmd: cmd, Area: a, Detect: detect, Limit: limit, Obs: "all3"}
	// two more long-lived fences over the same area with other options
	o1 := FenceSpec{Cmd: cmd, Area: a, Detect: []string{"inside"}, Match: "a*", Limit: 3, Obs: "chan"}
	o2 := FenceSpec{Cmd: cmd, Area: a, Detect: []string{"enter", "exit"}, Match: "a1", Obs: "hook"}
	cs := Case{Fences: []FenceSpec{main, o1, o2}}
	fr := a.frame()
	q := 0
	at := func(u, v float64) {
		la, lo := fr.denorm(u, v)
		q++
		cs.Steps = append(cs.Steps, Step{Op: "set", Key: 0, ID: "a1", Kind: "point", Lat: round7(la), Lon: round7(lo),
			Fields: []Field{{"q", q}}, Phase: "closing"})
	}
	fs := func() {
		q++
		cs.Steps = append(cs.Steps, Step{Op: "fset", Key: 0, ID: "a1", Fields: []Field{{"q", q}}, Phase: "closing"})
	}
	// re-definitions of the two other fences under their names while they are in
	// use: identical re-issue and keyword-case spelling (no change), MATCH
	// pattern differing only by letter case (must replace: a* no longer
	// matches id a1 when written A*), and back, another DETECT list, another area
	cur := []FenceSpec{main, o1, o2}
	redef := func(i int, variant string, change func(f *FenceSpec)) {
		ns := cur[i]
		if change != nil {
			change(&ns)
		}
		cur[i] = ns
		spec := ns
		cs.Steps = append(cs.Steps, Step{Op: "redef", Key: 0, Fence: i, Variant: variant, Spec: &spec, Phase: "closing"})
	}
	flipMatch := func(f *FenceSpec) { f.Match = swapCase(f.Match) }
	at(-3, 0.2) // new-out
	for c := 0; c < cycles; c++ {
		switch c {
		case 2:
			redef(1, "identical", nil)
		case 4:
			redef(1, "keyword-case", nil)
			redef(2, "identical", nil)
		case 6:
			redef(1, "match-case", flipMatch) // A*: silent from here on
		case 8:
			redef(2, "match-case", flipMatch) // A1: silent
		case 10:
			redef(1, "match-case", flipMatch) // a* again
		case 12:
			redef(2, "match-case", flipMatch)
			redef(1, "detect", func(f *FenceSpec) { f.Detect = []string{"inside", "outside"} })
		case 14:
			redef(1, "area", func(f *FenceSpec) {
				switch f.Area.Kind {
				case "point", "circle":
					f.Area.R = math.Round(f.Area.R * 1.2)
				case "bounds", "object":
					f.Area.HH, f.Area.HW = round7(f.Area.HH*1.2), round7(f.Area.HW*0.85)
				default:
					f.Detect = []string{"inside", "exit"} // tile / hash areas have no free parameter
				}
			})
		case 16:
			redef(2, "keyword-case", nil)
		}
		j := 0.002 * float64(c%50)
		at(0.1+j, 0.15) // out-in
		at(-0.2, 0.1+j) // in-in
		fs()            // fset-in
		at(0.2+j, 2.6)  // in-out
		fs()            // fset-out
		at(3, 0.3+j)    // out-out, the path stays >= 2 units from the centre: no crossing
		at(-3, -0.2-j)  // straight through the centre region: cross
	}
	cs.Steps = append(cs.Steps, Step{Op: "del", Key: 0, ID: "a1", Phase: "closing"})
	return cs
}

// TestC05_LongLived: fences that stay up for hundreds of notifying writes, and
// fences defined with LIMIT n, must notify for every single write.
func TestC05_LongLived(t *testing.T) {
	c := ev.New("C05", "longlived", "exploration")
	t.Cleanup(c.Flush)
	c.Rule("(a, shard 0) deterministic: one object cycles enter / move inside / FSET / exit / FSET / move outside / cross through one area observed by a channel, a webhook and a live fence (+2 other long-lived fences): 90 cycles = 631 writes for fences without LIMIT and with LIMIT 40 (>= 180 notifying writes through each fence even for DETECT enter,exit; 630 for default detection), 25 cycles for LIMIT 1..5 (>= 50 >= 3n); x DETECT {absent, inside, enter+exit, outside+cross} x area kinds; (b) generated long cases (260..320 random steps, fence under test without COMMANDS/MATCH/WHERE, DETECT containing inside or outside or absent, optional LIMIT/SPARSE). Every stream is compared message by message as in the fence sub-check. Non-trivial: the fence under test had to render >= 100 notifications (or >= 3n with LIMIT n); distinct by (area, DETECT, LIMIT, events).")
	c.Assume("LIMIT n / SPARSE n in a fence definition are accepted by the grammar and documented only for searches; the implementation ignores them for notifications and the statement ('every SET and FSET ... produces exactly the notifications') leaves no room for dropping the n-th: modelled as no effect, labelled impl-mirrored")
	detects := [][]string{nil, {"inside"}, {"enter", "exit"}, {"outside", "cross"}}
	if ev.Shard() == 0 {
		n := 0
		for _, limit := range []int{0, 40, 1, 2, 3, 4, 5} {
			for di, det := range detects {
				cycles := 25
				if limit == 0 || limit == 40 {
					cycles = 90
				}
				kind := areaKinds[n%len(areaKinds)]
				n++
				cs := longLivedCase(kind, det, limit, cycles)
				if n%2 == 0 {
					cs.Pipeline = 64
				}
				c.Case()
				info := runCase(t, c, cs)
				if info.skipped {
					t.Fatalf("long-lived case skipped (margin): %s", describeFence(cs.Fences[0]))
				}
				need := 100
				if limit > 0 {
					need = 3 * limit
				}
				if info.events < need {
					t.Fatalf("long-lived case too short: %d events", info.events)
				}
				for l := range info.labels {
					c.Label(l)
				}
				c.Label(fmt.Sprintf("limit:%d", limit))
				c.Label("detect:" + detectName(det))
				c.LabelN("notifying-writes-through-fence-under-test", info.events)
				c.NonTrivial(fmt.Sprintf("%s|%d|%d|%d", kind, di, limit, info.events))
				if c.WantSample() {
					c.Sample(map[string]any{"fence": describeFence(cs.Fences[0]), "writes": len(cs.Steps), "notifying_writes": info.events})
				}
			}
		}
	}
	// (b) generated long cases
	p := genParams{maxOthers: 4, minSteps: 260, maxSteps: 320, long: true}
	masks := []int{0, 1, 2, 3, 5, 7, 9, 11, 18, 19, 31} // absent, or containing inside (bit 0) / outside (bit 1)
	ev.Rapid("longlived", ev.Pick(6, 40))
	rapid.Check(t, func(rt *rapid.T) {
		cs := genCase(rt, pick(rt, "detect-mask", masks), p)
		c.Case()
		info := runCase(rt, c, cs)
		record(c, cs, info)
		if info.skipped {
			return
		}
		main := cs.Fences[0]
		if info.events >= 100 || (main.Limit > 0 && info.events >= 3*main.Limit) {
			c.NonTrivial(fmt.Sprintf("gen|%s|%s|%d|%d", main.Area.Kind, detectName(main.Detect), main.Limit, info.events))
		}
	})
}

// ---- deterministic probes of listed findings ------------------------------------------

type probeFailer struct{ msg string }

func (r *probeFailer) Fatalf(format string, args ...any) {
	r.msg = fmt.Sprintf(format, args...)
	panic(r)
}
func (r *probeFailer) Helper() {}

// runProbe executes a fixed case; a divergence is reported under the finding
// id: as a known finding when listed "known", as a violation otherwise.
func runProbe(t *testing.T, c *ev.Collector, cs Case, id string) (held bool) {
	pf := &probeFailer{}
	scratch := ev.New("C05", "probe", "exploration") // never flushed
	func() {
		defer func() {
			if r := recover(); r != nil && r != any(pf) {
				panic(r)
			}
		}()
		runCase(pf, scratch, cs)
	}()
	failedOnce = false
	c.Case()
	if pf.msg == "" {
		return true
	}
	if active(id) {
		c.Known(id, pf.msg)
		return false
	}
	c.Violation(id, pf.msg, cs)
	t.Errorf("probe %s: %s", id, pf.msg)
	return false
}

func probeFence(kind string, f FenceSpec) (FenceSpec, frame) {
	lat, lon := 12.5, 77.5
	f.Obs = "all3"
	switch kind {
	case "bounds":
		f.Cmd, f.Area = "within", Area{Kind: "bounds", Lat: lat, Lon: lon, HH: 0.05, HW: 0.05}
	default:
		f.Cmd, f.Area = "nearby", Area{Kind: "point", Lat: lat, Lon: lon, R: 5000}
	}
	return f, f.Area.frame()
}

// TestC05_Regress: fixed inputs of the findings this check has produced.
func TestC05_Regress(t *testing.T) {
	if ev.Shard() != 0 {
		t.Skip("deterministic probes run on shard 0")
	}
	c := ev.New("C05", "regress", "exploration")
	t.Cleanup(c.Flush)
	c.Rule("fixed inputs, three observers each: (fence-fset-ignores-where) an object inside / outside the area that fails the fence's WHERE filter is FSET: nothing may be announced; (fence-string-old-position-origin) an id holding a string is SET to a point such that the line from lat 0 lon 0 runs through the area: only outside, no cross; (fence-expire-persist-emit-enter) EXPIRE and PERSIST of an object inside / outside: nothing may be announced")
	at := func(fr frame, id string, u, v float64, fields ...Field) Step {
		la, lo := fr.denorm(u, v)
		return Step{Op: "set", Key: 0, ID: id, Kind: "point", Lat: round7(la), Lon: round7(lo), Fields: fields, Phase: "closing"}
	}
	// fence-fset-ignores-where
	for _, kind := range []string{"bounds", "circle"} {
		f, fr := probeFence(kind, FenceSpec{Where: &Where{Field: "f", Lo: 0.5, Hi: 1.5}})
		cs := Case{Fences: []FenceSpec{f}, Steps: []Step{
			at(fr, "a1", 0.1, 0.1, Field{"f", 2}), // inside the area, fails WHERE f 0.5 1.5: nothing
			{Op: "fset", Key: 0, ID: "a1", Fields: []Field{{"q", 1}}, Phase: "closing"},
			at(fr, "a2", 3, 3, Field{"f", 2}), // far outside, fails the filter
			{Op: "fset", Key: 0, ID: "a2", Fields: []Field{{"q", 2}}, Phase: "closing"},
			at(fr, "a3", 0.2, 0.1, Field{"f", 1}),                                       // passes: enter inside
			{Op: "fset", Key: 0, ID: "a3", Fields: []Field{{"q", 3}}, Phase: "closing"}, // inside
			{Op: "drop", Key: 0, Phase: "closing"},
		}}
		if !runProbe(t, c, cs, findFsetWhere) {
			break
		}
	}
	// fence-string-old-position-origin: the fence lies on the straight line from
	// lat 0 lon 0 to the new position of an id that held a string
	for _, kind := range []string{"bounds", "circle"} {
		f, _ := probeFence(kind, FenceSpec{})
		far := func(id string, q int) Step {
			return Step{Op: "set", Key: 0, ID: id, Kind: "point", Lat: 25, Lon: 155, Fields: []Field{{"q", q}}, Phase: "closing"}
		}
		cs := Case{Fences: []FenceSpec{f}, Steps: []Step{
			{Op: "setstr", Key: 0, ID: "a1", Phase: "closing"},
			far("a1", 1), // no previous position: outside only, like a brand-new id
			far("a2", 2), // brand-new id: outside
			{Op: "drop", Key: 0, Phase: "closing"},
		}}
		if !runProbe(t, c, cs, findStringOrig) {
			break
		}
	}
	// fence-expire-persist-emit-enter: a deadline is put on / taken off an object inside the area
	for _, kind := range []string{"bounds", "circle"} {
		f, fr := probeFence(kind, FenceSpec{})
		cs := Case{Fences: []FenceSpec{f}, Steps: []Step{
			at(fr, "a1", 0.1, 0.1, Field{"q", 1}), // enter inside
			{Op: "expire", Key: 0, ID: "a1", Phase: "closing"},
			{Op: "persist", Key: 0, ID: "a1", Phase: "closing"},
			at(fr, "a2", 3, 3, Field{"q", 2}), // outside
			{Op: "expire", Key: 0, ID: "a2", Phase: "closing"},
			{Op: "drop", Key: 0, Phase: "closing"},
		}}
		if !runProbe(t, c, cs, findExpireEnter) {
			break
		}
	}
}

// TestC05_CircleEdge: discs over the antimeridian, over a pole and at high
// latitudes, where the rectangle a hook is indexed under (the box of the
// 64-gon drawn in degree space) is not the box of the disc: objects inside
// the disc (by great-circle distance, 15% margin) on the far side must be
// announced to the channel and the webhook exactly as to the live fence.
// Every case is a probe of the finding fence-circle-candidate-box.
func TestC05_CircleEdge(t *testing.T) {
	if ev.Shard() != 0 {
		t.Skip("deterministic enumeration runs on shard 0")
	}
	c := ev.New("C05", "circle-edge", "exploration")
	t.Cleanup(c.Flush)
	c.Rule("deterministic: NEARBY POINT / WITHIN CIRCLE fences with DETECT enter,inside,exit (found only through the hooks' rectangle index) centred at 11 places on the antimeridian, near the poles and at high latitude, radius 20 km and 50..150 km; 8 new objects each are SET inside the disc at 0.85 r in 8 bearings (longitudes normalised, so some lie across the antimeridian / beyond the pole) and then moved 3 r away: enter+inside, then exit, on all three observers. In/out by great-circle distance with a 10% margin. Non-trivial: every case; distinct by (centre, radius, command).")
	type centre struct{ lat, lon, r float64 }
	centres := []centre{{0, 179.9, 50000}, {0, -179.9, 50000}, {45, 179.97, 50000}, {60, -179.95, 20000}, {-30, 179.99, 150000},
		{85, 10, 50000}, {89.5, 0, 100000}, {-88, 100, 150000}, {70, 30, 50000}, {80, -60, 100000}, {75, 179.8, 50000}}
	n := 0
	for _, ce := range centres {
		for _, kind := range []string{"point", "circle"} {
			cmd := "nearby"
			if kind == "circle" {
				cmd = "within"
				if n%2 == 1 {
					cmd = "intersects"
				}
			}
			n++
			f := FenceSpec{Cmd: cmd, Area: Area{Kind: kind, Lat: ce.lat, Lon: ce.lon, R: ce.r, Hav: true},
				Detect: []string{"enter", "inside", "exit"}, Obs: "all3"}
			cs := Case{Fences: []FenceSpec{f}}
			q := 0
			for b := 0; b < 8; b++ {
				id := fmt.Sprintf("a%d", b+1)
				la, lo := destination(ce.lat, ce.lon, 0.85*ce.r, float64(b)*45+7)
				q++
				cs.Steps = append(cs.Steps, Step{Op: "set", Key: 0, ID: id, Kind: "point", Lat: round7(la), Lon: round7(lo), Fields: []Field{{"q", q}}, Phase: "closing"})
				la, lo = destination(ce.lat, ce.lon, 3*ce.r, float64(b)*45+7)
				q++
				cs.Steps = append(cs.Steps, Step{Op: "set", Key: 0, ID: id, Kind: "point", Lat: round7(la), Lon: round7(lo), Fields: []Field{{"q", q}}, Phase: "closing"})
			}
			c.NonTrivial(fmt.Sprintf("%v|%s", ce, cmd))
			if !runProbe(t, c, cs, findCircleBox) {
				return // one report per finding is enough
			}
		}
	}
}

func TestReplay(t *testing.T) {
	doc, ok := ev.ReplayFile()
	if !ok {
		t.Skip("no replay file")
	}
	c := ev.New("C05", "replay", "exploration")
	t.Cleanup(c.Flush)
	var cs Case
	if err := json.Unmarshal(doc.Data, &cs); err != nil {
		t.Fatalf("bad replay data: %v", err)
	}
	if len(cs.Fences) == 0 {
		t.Fatalf("replay without fences")
	}
	c.Case()
	runCase(t, c, cs)
}

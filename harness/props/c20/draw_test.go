package c20

// Uniform draws. rapid's integer and float generators are deliberately biased
// towards small and boundary values (measured: 42% of IntRange(0,99) draws are
// below 10, 75% of Float64Range draws fall into the first decile), which is
// unsuitable for weighted choices, angles and radii. rapid.Bool is fair, so
// uniform values are assembled from one draw of fair bits; shrinking moves
// them towards the lower bound / the first alternative.

import "pgregory.net/rapid"

func bits(rt *rapid.T, label string, n int) uint64 {
	var v uint64
	for _, b := range rapid.SliceOfN(rapid.Bool(), n, n).Draw(rt, label) {
		v <<= 1
		if b {
			v |= 1
		}
	}
	return v
}

// pct is uniform in 0..99.
func pct(rt *rapid.T, label string) int { return int(bits(rt, label, 20) * 100 >> 20) }

// intn is uniform in lo..hi (inclusive).
func intn(rt *rapid.T, label string, lo, hi int) int {
	return lo + int(bits(rt, label, 20)*uint64(hi-lo+1)>>20)
}

// unif is uniform in [lo,hi).
func unif(rt *rapid.T, label string, lo, hi float64) float64 {
	return lo + (hi-lo)*float64(bits(rt, label, 30))/float64(1<<30)
}

func pick[T any](rt *rapid.T, label string, xs []T) T {
	return xs[intn(rt, label, 0, len(xs)-1)]
}

// C20: roaming geofences report exactly the neighbours inside the radius.
package c20

import (
	"encoding/json"
	"fmt"
	"math"
	"os"
	"sort"
	"strconv"
	"strings"
	"testing"
	"time"

	"github.com/tidwall/tile38/verif/harness/ev"
	"github.com/tidwall/tile38/verif/harness/model"
	"github.com/tidwall/tile38/verif/harness/t38"
	"pgregory.net/rapid"
)

var (
	srv        *t38.Srv
	ctl        *t38.Conn
	recv       *receiver
	caseSeq    int
	failedOnce bool
)

// finding id of the defect found by this check (repaired in 3d680b5); a missing
// nearby entry of that shape is keyed with it
const sameIDFinding = "roam-skips-same-id-in-other-collection"
const smallRadiusFinding = "roam-small-radius-misses-neighbours"

// findings listed by the coordinator's code reading; see notes/C20.md
const (
	findStringOrig = "fence-string-old-position-origin"
	findLiveLate   = "live-roam-evaluated-late"
)

func active(id string) bool { return ev.KnownActive(id) }

func TestMain(m *testing.M) {
	var err error
	srv, err = t38.Start(t38.Opts{})
	if err != nil {
		fmt.Fprintln(os.Stderr, "cannot start server:", err)
		os.Exit(2)
	}
	ctl = srv.MustDial()
	recv, err = startReceiver()
	if err != nil {
		fmt.Fprintln(os.Stderr, "cannot start webhook receiver:", err)
		os.Exit(2)
	}
	startHeartbeat()
	code := m.Run()
	srv.Stop()
	os.Exit(code)
}

func waitBudget() time.Duration {
	if failedOnce {
		return 2 * time.Second
	}
	return 30 * time.Second
}

// ---- reference spherical arithmetic (independent of tidwall/geojson) ---------------

const earthR = 6371000.0

func ff(f float64) string { return strconv.FormatFloat(f, 'f', -1, 64) }

// coordScale: coordinates are rounded to 8 decimals (1 mm) for radii of 100 m
// and more, to 12 decimals (0.1 um) for small radii. Set per generated case.
var coordScale = 1e8

func round8(f float64) float64 { return math.Round(f*coordScale) / coordScale }

func haversine(lat1, lon1, lat2, lon2 float64) float64 {
	p1, p2 := lat1*math.Pi/180, lat2*math.Pi/180
	dp, dl := p2-p1, (lon2-lon1)*math.Pi/180
	a := math.Sin(dp/2)*math.Sin(dp/2) + math.Cos(p1)*math.Cos(p2)*math.Sin(dl/2)*math.Sin(dl/2)
	return 2 * earthR * math.Asin(math.Min(1, math.Sqrt(a)))
}

// destination: great-circle destination from (lat,lon) at distance d metres
// and initial bearing brg degrees.
func destination(lat, lon, d, brg float64) (float64, float64) {
	del := d / earthR
	th := brg * math.Pi / 180
	p1, l1 := lat*math.Pi/180, lon*math.Pi/180
	p2 := math.Asin(math.Sin(p1)*math.Cos(del) + math.Cos(p1)*math.Sin(del)*math.Cos(th))
	l2 := l1 + math.Atan2(math.Sin(th)*math.Sin(del)*math.Cos(p1), math.Cos(del)-math.Sin(p1)*math.Sin(p2))
	return p2 * 180 / math.Pi, l2 * 180 / math.Pi
}

// inSearchRect: is (lat2,lon2) inside the lat/lon bounding rectangle of the
// circle of radius r around (lat1,lon1)? (only used for labels)
func inSearchRect(lat1, lon1, lat2, lon2, r float64) bool {
	ar := r / earthR
	dlat := math.Abs(lat2-lat1) * math.Pi / 180
	s := math.Sin(ar) / math.Cos(lat1*math.Pi/180)
	if s >= 1 {
		return dlat <= ar
	}
	dlon := math.Abs(lon2-lon1) * math.Pi / 180
	return dlat <= ar && dlon <= math.Asin(s)
}

// ---- case ------------------------------------------------------------------------

// RStep is one write. Col 0 = the fenced collection ("fleet"), 1 = the other
// collection (the roam target when the case is not SameKey, else unrelated).
type RStep struct {
	Op   string  `json:"op"` // set del drop pdel(all ids) setex(SET .. EX 0.05, then wait for the expiry) redef
	Col  int     `json:"col"`
	ID   string  `json:"id"`
	Lat  float64 `json:"lat,omitempty"`
	Lon  float64 `json:"lon,omitempty"`
	Note string  `json:"note,omitempty"`
	Sync bool    `json:"sync,omitempty"` // barrier probe for the live observer
	// Reset: a SET that repeats the object's exact current position. Alt picks the
	// spelling of the (numerically identical) coordinates: 0 canonical, 1 with
	// trailing zeros, 2 exponent form. Extra adds "field" (FIELD speed n) or "ex"
	// (EX 1000) to the SET.
	// Shape: an extended object (rect = BOUNDS, poly = GeoJSON triangle, line =
	// GeoJSON LineString along the diagonal) with bounding box Box = minlat,
	// minlon, maxlat, maxlon; Lat/Lon hold the centre of that box, which is
	// what every distance of a roaming fence is measured to.
	Shape string    `json:"shape,omitempty"`
	Box   []float64 `json:"box,omitempty"`
	// redef: the roaming channel + webhook are re-defined under their names;
	// Variant identical | radius | pattern | nodwell, N* = definition in force
	// from the acknowledgement on
	Variant  string  `json:"variant,omitempty"`
	NPattern string  `json:"npattern,omitempty"`
	NRadius  float64 `json:"nradius,omitempty"`
	NNoDwell bool    `json:"nnodwell,omitempty"`
	Reset    bool    `json:"reset,omitempty"`
	Alt      int     `json:"alt,omitempty"`
	Extra    string  `json:"extra,omitempty"`
}

// coordText writes f in one of three spellings that parse to the same float64.
func coordText(f float64, alt int) string {
	s := ff(f)
	switch alt {
	case 1:
		if strings.Contains(s, ".") {
			return s + "00"
		}
		return s + ".0"
	case 2:
		return strconv.FormatFloat(f, 'e', -1, 64)
	}
	return s
}

type RoamCase struct {
	SameKey bool    `json:"same_key"`
	Pattern string  `json:"pattern"`
	Radius  float64 `json:"radius"`
	NoDwell bool    `json:"nodwell"`
	Match   string  `json:"match,omitempty"`
	Live    bool    `json:"live"`
	// ExtraLive: further live ROAM fences on the same key (other pattern /
	// radius / NODWELL), each on its own connection and judged against its own
	// reference, independent of the others
	ExtraLive []LiveSpec `json:"extra_live,omitempty"`
	// Pre: the first Pre steps run BEFORE the fence and its observers are
	// created, so the fenced / roam collections already exist at creation time
	Pre   int            `json:"pre,omitempty"`
	excl  map[string]int // generator bookkeeping: shapes left out for known findings
	Steps []RStep        `json:"steps"`
}

func (cs RoamCase) fenceTokens(fleet, other string) []string {
	t := []string{"NEARBY", fleet}
	if cs.Match != "" {
		t = append(t, "MATCH", cs.Match)
	}
	t = append(t, "FENCE")
	if cs.NoDwell {
		t = append(t, "NODWELL")
	}
	rk := other
	if cs.SameKey {
		rk = fleet
	}
	return append(t, "ROAM", rk, cs.Pattern, ff(cs.Radius))
}

// LiveSpec is the definition of an additional live fence of a case.
type LiveSpec struct {
	Pattern string  `json:"pattern"`
	Radius  float64 `json:"radius"`
	NoDwell bool    `json:"nodwell"`
}

type pos struct{ lat, lon float64 }

// entry is one expected nearby/faraway entry (or a del notice).
type entry struct {
	Kind   string // nearby faraway del
	ID     string // the moved (or deleted) object
	Lat    float64
	Lon    float64
	NID    string
	NLat   float64
	NLon   float64
	Meters float64
	Corner bool
}

func (e entry) key() string {
	if e.Kind == "del" {
		return "del " + e.ID
	}
	if e.Kind == "drop" {
		return "drop"
	}
	return fmt.Sprintf("%s %s@%s,%s -> %s@%s,%s", e.Kind, e.ID, ff(e.Lat), ff(e.Lon), e.NID, ff(e.NLat), ff(e.NLon))
}

type rmodel struct {
	cs   RoamCase
	cols [2]map[string]pos
	// sizes of the old / new neighbourhood of the last fenced SET (evidence)
	lastOldN, lastNewN int
	boxes              [2]map[string][]float64 // bounding boxes of the extended objects (evidence)
	strs               [2]map[string]bool      // ids that currently hold a string (no position)
}

// coveringFar counts extended objects of the roam collection whose bounding
// box contains p while their centre lies beyond the radius.
func (m *rmodel) coveringFar(p pos) int {
	rc := 1
	if m.cs.SameKey {
		rc = 0
	}
	n := 0
	for id, b := range m.boxes[rc] {
		c, ok := m.cols[rc][id]
		if ok && p.lat >= b[0] && p.lat <= b[2] && p.lon >= b[1] && p.lon <= b[3] && haversine(p.lat, p.lon, c.lat, c.lon) > m.cs.Radius {
			n++
		}
	}
	return n
}

func globOK(pat, id string) bool {
	if pat == "" {
		return true
	}
	return model.GlobMatch(pat, id)
}

// patternOK: the ROAM pattern is a glob when it contains glob characters,
// otherwise an exact id.
func patternOK(pat, id string) bool {
	if strings.ContainsAny(pat, "*?[") {
		return model.GlobMatch(pat, id)
	}
	return pat == id
}

// neighbours of object (col 0, id) standing at p: the OTHER objects of the
// roam collection that match the pattern and are within the radius.
func (m *rmodel) neighbours(id string, p pos) map[string]float64 {
	rc := 1
	if m.cs.SameKey {
		rc = 0
	}
	out := map[string]float64{}
	for nid, np := range m.cols[rc] {
		if rc == 0 && nid == id {
			continue // the moved object itself
		}
		if !patternOK(m.cs.Pattern, nid) {
			continue
		}
		if d := haversine(p.lat, p.lon, np.lat, np.lon); d <= m.cs.Radius {
			out[nid] = d
		}
	}
	return out
}

// apply executes a step on the model and returns the expected entries.
func (m *rmodel) apply(s RStep) []entry {
	m.lastOldN, m.lastNewN = 0, 0
	if m.boxes[0] == nil {
		m.boxes = [2]map[string][]float64{{}, {}}
	}
	if m.strs[0] == nil {
		m.strs = [2]map[string]bool{{}, {}}
	}
	switch s.Op {
	case "setstr":
		// a string has no position: it is nobody's neighbour and its SET is not announced
		delete(m.cols[s.Col], s.ID)
		delete(m.boxes[s.Col], s.ID)
		m.strs[s.Col][s.ID] = true
		return nil
	case "drop", "pdel":
		hadStr := len(m.strs[s.Col]) > 0
		m.strs[s.Col] = map[string]bool{}
		if s.Op == "drop" && hadStr && len(m.cols[s.Col]) == 0 {
			if s.Col == 0 {
				return []entry{{Kind: "drop"}}
			}
			return nil
		}
	case "del":
		if m.strs[s.Col][s.ID] {
			delete(m.strs[s.Col], s.ID)
			return nil
		}
	default:
		// a geometry SET over a string: no previous position
		delete(m.strs[s.Col], s.ID)
	}
	switch {
	case s.Op == "drop" || s.Op == "pdel":
		m.boxes[s.Col] = map[string][]float64{}
	case s.Shape != "" && len(s.Box) == 4:
		m.boxes[s.Col][s.ID] = s.Box
	default:
		delete(m.boxes[s.Col], s.ID)
	}
	col := m.cols[s.Col]
	switch s.Op {
	case "drop":
		if len(col) == 0 {
			return nil
		}
		m.cols[s.Col] = map[string]pos{}
		if s.Col == 0 {
			return []entry{{Kind: "drop"}}
		}
		return nil
	case "pdel":
		var out []entry
		var ids []string
		for id := range col {
			ids = append(ids, id)
		}
		sort.Strings(ids)
		for _, id := range ids {
			delete(col, id)
			if s.Col == 0 && globOK(m.cs.Match, id) {
				out = append(out, entry{Kind: "del", ID: id})
			}
		}
		return out
	}
	if s.Op == "del" {
		_, ok := col[s.ID]
		delete(col, s.ID)
		if ok && s.Col == 0 && globOK(m.cs.Match, s.ID) {
			return []entry{{Kind: "del", ID: s.ID}}
		}
		return nil
	}
	old, had := col[s.ID]
	np := pos{s.Lat, s.Lon}
	col[s.ID] = np
	if s.Col != 0 || !globOK(m.cs.Match, s.ID) {
		return nil
	}
	nNew := m.neighbours(s.ID, np)
	nOld := map[string]float64{}
	if had {
		nOld = m.neighbours(s.ID, old)
	}
	m.lastOldN, m.lastNewN = len(nOld), len(nNew)
	rc := 1
	if m.cs.SameKey {
		rc = 0
	}
	var out []entry
	mk := func(kind, nid string) entry {
		q := m.cols[rc][nid]
		d := haversine(np.lat, np.lon, q.lat, q.lon)
		return entry{Kind: kind, ID: s.ID, Lat: np.lat, Lon: np.lon, NID: nid, NLat: q.lat, NLon: q.lon, Meters: d,
			Corner: d > m.cs.Radius && inSearchRect(np.lat, np.lon, q.lat, q.lon, m.cs.Radius)}
	}
	for nid := range nNew {
		if _, dwell := nOld[nid]; dwell && m.cs.NoDwell {
			continue
		}
		out = append(out, mk("nearby", nid))
	}
	for nid := range nOld {
		if _, still := nNew[nid]; !still {
			out = append(out, mk("faraway", nid))
		}
	}
	// documented order: nearby entries, then faraway entries, each by distance
	sort.Slice(out, func(i, j int) bool {
		if out[i].Kind != out[j].Kind {
			return out[i].Kind == "nearby"
		}
		if out[i].Meters != out[j].Meters {
			return out[i].Meters < out[j].Meters
		}
		return out[i].NID < out[j].NID
	})
	return out
}

// cornerCount: neighbours (pattern-matching, other) inside the search
// rectangle of the new position but outside the circle.
func (m *rmodel) cornerCount(id string, p pos) int {
	rc := 1
	if m.cs.SameKey {
		rc = 0
	}
	n := 0
	for nid, np := range m.cols[rc] {
		if (rc == 0 && nid == id) || !patternOK(m.cs.Pattern, nid) {
			continue
		}
		if d := haversine(p.lat, p.lon, np.lat, np.lon); d > m.cs.Radius && inSearchRect(p.lat, p.lon, np.lat, np.lon, m.cs.Radius) {
			n++
		}
	}
	return n
}

// ---- generator ------------------------------------------------------------------------

var (
	fleetIDs = []string{"t1", "t2", "t3", "u1", "u2"}
	ratios   = []float64{0.05, 0.3, 0.6, 0.9, 0.999, 1.001, 1.1, 1.2, 1.3, 1.396, 1.45, 2.5}
	bearings = []float64{0, 45, 90, 135, 180, 225, 270, 315}
)

const (
	probeID = "t91" // matches every MATCH pattern used
)

type rgen struct {
	rt      *rapid.T
	cs      *RoamCase
	cols    [2]map[string]pos
	radius  float64 // radius in force (re-definitions change it)
	xradii  []float64 // radii of the additional live fences
	lastOld *pos    // previous position of the object moved last (still relevant to a late live evaluation)
}

// clear: is p at a safe relative distance (|d/r-1| >= 1e-4) from every object
// other than (col,id)?
func (g *rgen) clear(col int, id string, p pos) bool {
	if math.Abs(p.lat) > 80 || math.Abs(p.lon) > 175 {
		return false
	}
	for c := 0; c < 2; c++ {
		for oid, op := range g.cols[c] {
			if c == col && oid == id {
				continue
			}
			d := haversine(p.lat, p.lon, op.lat, op.lon)
			if math.Abs(d/g.radius-1) < 1e-4 {
				return false
			}
			for _, xr := range g.xradii {
				if math.Abs(d/xr-1) < 1e-4 {
					return false
				}
			}
		}
	}
	return true
}

func (g *rgen) add(s RStep) {
	g.cs.Steps = append(g.cs.Steps, s)
	g.lastOld = nil
	if o, ok := g.cols[s.Col][s.ID]; ok {
		g.lastOld = &o
	}
	switch s.Op {
	case "redef":
	case "del", "setex", "setstr":
		delete(g.cols[s.Col], s.ID)
	case "drop", "pdel":
		g.cols[s.Col] = map[string]pos{}
	default:
		g.cols[s.Col][s.ID] = pos{s.Lat, s.Lon}
	}
}

func genRoam(rt *rapid.T, maxSteps int) RoamCase {
	cs := RoamCase{}
	g := &rgen{rt: rt, cs: &cs, cols: [2]map[string]pos{{}, {}}}
	cs.SameKey = pct(rt, "same-key") < 55
	cs.NoDwell = rapid.Bool().Draw(rt, "nodwell")
	cs.Radius = math.Round(math.Exp(unif(rt, "radius", math.Log(200), math.Log(50000))))
	coordScale = 1e8
	smallRadius := pct(rt, "small-radius") < 22
	if smallRadius {
		// centimetres to 200 m: the search rectangle of the candidates has to
		// hold at every scale (regression roam-small-radius-misses-neighbours)
		cs.Radius = math.Round(math.Exp(unif(rt, "radius-small", math.Log(0.05), math.Log(200)))*1000) / 1000
		coordScale = 1e12
	}
	defer func() { coordScale = 1e8 }()
	g.radius = cs.Radius
	cs.Pattern = pick(rt, "pattern", []string{"*", "*", "t*", "t*", "t2", "[tu]1", "u?"})
	if pct(rt, "match") < 25 {
		cs.Match = pick(rt, "glob", []string{"t*", "*1", "*"})
	}
	cs.Live = pct(rt, "live") < 40
	// several live fences on one key: every SET is matched by all their
	// connection goroutines at the same time, each must report its own pairs
	multiLive := cs.Live && (cs.Pattern == "*" || cs.Pattern == "t*") && pct(rt, "multi-live") < 45
	if multiLive {
		for i, n := 0, intn(rt, "extra-lives", 1, 3); i < n; i++ {
			x := LiveSpec{Pattern: pick(rt, "x-pattern", []string{"*", "t*", "t1??", "*"}), NoDwell: rapid.Bool().Draw(rt, "x-nodwell"),
				Radius: math.Round(cs.Radius*pick(rt, "x-radius", []float64{0.6, 0.8, 1, 1.25, 1.6})*1000) / 1000}
			cs.ExtraLive = append(cs.ExtraLive, x)
			g.xradii = append(g.xradii, x.Radius)
		}
	}
	// the other collection deliberately shares ids with the fleet: key2/id is a
	// different object than fleet/id (regression: roam-skips-same-id-in-other-collection)
	otherIDs := []string{"t1", "t2", "u1", "n1", "t7"}
	fleet := fleetIDs
	baseLat := unif(rt, "lat", -70, 70)
	baseLon := unif(rt, "lon", -160, 160)
	strings := !active(findStringOrig) // ids holding a string (then SET to a point) are a known finding's shape
	if strings && pct(rt, "near-origin") < 5 {
		// a scene around lat 0 lon 0, where a path "from the origin" would matter
		baseLat, baseLon = unif(rt, "olat", -0.5, 0.5)*cs.Radius/111195, unif(rt, "olon", -0.5, 0.5)*cs.Radius/111195
	}
	base := pos{round8(baseLat), round8(baseLon)}

	// barrier for the live observer (and closing marker for the webhook
	// stream): SET of a probe object far from everything (no neighbours now or
	// later, so it does not matter when a live fence evaluates it) followed by
	// its DEL, which every observer reports with exactly one "del" message.
	excluded := map[string]int{}
	cs.excl = excluded
	// back-to-back writes: in live cases some barriers are left out, so that two
	// or three writes are pipelined before the live fence is given time to
	// evaluate the first (the shape of the finding live-roam-evaluated-late;
	// left out while that finding is listed as known)
	burstOK := !active(findLiveLate)
	skips := 0
	sync := func(always bool) {
		if !cs.Live && !always {
			return
		}
		if cs.Live && !always {
			if !burstOK {
				excluded[findLiveLate]++
			} else if skips < 2 && pct(rt, "skip-barrier") < 45 {
				skips++
				return
			}
			skips = 0
		}
		for k := 0; k < 16; k++ {
			la, lo := destination(base.lat, base.lon, float64(100+60*(k/4))*g.radius, []float64{90, 270, 0, 180}[k%4])
			p := pos{round8(la), round8(lo)}
			if math.Abs(p.lat) > 80 || math.Abs(p.lon) > 175 {
				continue
			}
			ok := g.lastOld == nil || haversine(p.lat, p.lon, g.lastOld.lat, g.lastOld.lon) > 5*g.radius
			for c := 0; c < 2; c++ {
				for _, op := range g.cols[c] {
					ok = ok && haversine(p.lat, p.lon, op.lat, op.lon) > 5*g.radius
				}
			}
			if ok {
				g.add(RStep{Op: "set", Col: 0, ID: probeID, Lat: p.lat, Lon: p.lon, Note: "barrier probe"})
				g.add(RStep{Op: "del", Col: 0, ID: probeID, Sync: true, Note: "barrier"})
				return
			}
		}
	}
	// place creates/moves (col,id) to a position constructed from an existing object
	place := func(col int, id, op string) bool {
		placed := false
		for try := 0; try < 6 && !placed; try++ {
			// anchor: an existing object (preferably of the roam collection), else the base
			var anchors []pos
			var names []string
			for c := 0; c < 2; c++ {
				var ks []string
				for k := range g.cols[c] {
					if k != probeID && !(c == col && k == id) {
						ks = append(ks, k)
					}
				}
				sort.Strings(ks)
				for _, k := range ks {
					anchors = append(anchors, g.cols[c][k])
					names = append(names, fmt.Sprintf("%d/%s", c, k))
				}
			}
			a, an := base, "base"
			if len(anchors) > 0 {
				k := intn(rt, "anchor", 0, len(anchors)-1)
				a, an = anchors[k], names[k]
			}
			ratio := pick(rt, "ratio", ratios) * (1 + unif(rt, "ratio-jitter", -0.0004, 0.0004))
			brg := pick(rt, "bearing", bearings) + unif(rt, "bearing-jitter", -3, 3)
			if smallRadius && pct(rt, "compass") < 60 {
				brg = pick(rt, "compass-brg", []float64{90, 270, 0, 180}) // due east / west / north / south
			}
			la, lo := destination(a.lat, a.lon, ratio*g.radius, brg)
			p := pos{round8(la), round8(lo)}
			if op == "shape" {
				// an extended object around p: half height from metres to many radii,
				// narrow corridors and wide districts; its centre is the centre of
				// the (rounded) bounding box, computed exactly as the server does
				hh := pick(rt, "shape-size", []float64{0.001, 0.05, 0.5, 1.5, 4, 12}) * g.radius / 111195
				hw := hh * pick(rt, "shape-aspect", []float64{0.2, 1, 5}) / math.Cos(p.lat*math.Pi/180)
				box := []float64{round8(p.lat - hh), round8(p.lon - hw), round8(p.lat + hh), round8(p.lon + hw)}
				if box[0] < -84 || box[2] > 84 || box[1] < -178 || box[3] > 178 {
					continue
				}
				c := pos{(box[0] + box[2]) / 2, (box[1] + box[3]) / 2}
				if g.clear(col, id, c) {
					g.add(RStep{Op: "set", Col: col, ID: id, Lat: c.lat, Lon: c.lon, Shape: pick(rt, "shape", []string{"rect", "poly", "line"}), Box: box,
						Note: fmt.Sprintf("extended object %s d/r=%.4f brg=%.1f half-height %.3g r", an, ratio, brg, hh*111195/g.radius)})
					placed = true
				}
				continue
			}
			if g.clear(col, id, p) {
				g.add(RStep{Op: op, Col: col, ID: id, Lat: p.lat, Lon: p.lon, Note: fmt.Sprintf("%s d/r=%.4f brg=%.1f", an, ratio, brg)})
				placed = true
			}
		}
		return placed
	}
	sceneryIDs := []string{"tz1", "tz2", "zz1", "zz2", "t8", "u8"}
	// redefine: the roaming channel and webhook are issued again under their names
	curPattern, curNoDwell := cs.Pattern, cs.NoDwell
	redefine := func() {
		st := RStep{Op: "redef", Variant: pick(rt, "redef-variant", []string{"identical", "radius", "radius", "pattern", "nodwell"}),
			NPattern: curPattern, NRadius: g.radius, NNoDwell: curNoDwell}
		switch st.Variant {
		case "radius":
			ok := false
			for _, f := range []float64{pick(rt, "redef-factor", []float64{0.5, 0.8, 1.25, 2}), 1.1, 0.9} {
				nr := math.Round(g.radius*f*1000) / 1000
				if nr < 0.05 || nr == g.radius {
					continue
				}
				ok = true
				var all []pos
				for c := 0; c < 2; c++ {
					for _, p := range g.cols[c] {
						all = append(all, p)
					}
				}
				if g.lastOld != nil {
					all = append(all, *g.lastOld)
				}
				for i := range all {
					for j := i + 1; j < len(all); j++ {
						if d := haversine(all[i].lat, all[i].lon, all[j].lat, all[j].lon); math.Abs(d/nr-1) < 1e-4 {
							ok = false
						}
					}
				}
				if ok {
					st.NRadius = nr
					break
				}
			}
			if !ok {
				st.Variant, st.NNoDwell = "nodwell", !curNoDwell
			}
		case "pattern":
			st.NPattern = pick(rt, "redef-pattern", []string{"*", "t*", "t2", "[tu]1", "u?", "T*"})
		case "nodwell":
			st.NNoDwell = !curNoDwell
		}
		curPattern, curNoDwell, g.radius = st.NPattern, st.NNoDwell, st.NRadius
		g.add(st)
	}
	idsOf := func(col int) []string {
		if col == 1 {
			return otherIDs
		}
		return fleet
	}
	rc := 1
	if cs.SameKey {
		rc = 0
	}
	// crowd cases: a large neighbourhood (sizes around plausible thresholds of
	// the implementation) is placed in the roam collection before the fence
	// exists; a mover then hops around inside it, so that many neighbours
	// dwell, enter and leave in one step
	crowd := 0
	var crowdIDs []string
	crowdR := 1.0
	crowdPct := 9
	if multiLive {
		crowdPct = 60 // the live goroutines need a few dozen neighbours each to work on
	}
	if (cs.Pattern == "*" || cs.Pattern == "t*") && pct(rt, "crowd") < crowdPct {
		crowd = pick(rt, "crowd-n", []int{1, 2, 3, 7, 8, 9, 10, 12, 16, 17, 20, 24, 32, 33, 48, 64, 70, 101, 130})
		if multiLive {
			crowd = pick(rt, "crowd-n-live", []int{30, 33, 40, 48, 64, 70})
		}
		crowdR = pick(rt, "crowd-r", []float64{0.7, 1.0, 1.3, 1.7})
		for i := 0; i < crowd; i++ {
			id := fmt.Sprintf("t%d", 100+i) // never the barrier probe's id t91
			for try := 0; try < 5; try++ {
				la, lo := destination(base.lat, base.lon, crowdR*g.radius*math.Sqrt(unif(rt, "crowd-d", 0, 1)), unif(rt, "crowd-b", 0, 360))
				p := pos{round8(la), round8(lo)}
				if g.clear(rc, id, p) {
					g.add(RStep{Op: "set", Col: rc, ID: id, Lat: p.lat, Lon: p.lon, Note: "crowd"})
					crowdIDs = append(crowdIDs, id)
					break
				}
			}
		}
		cs.Pre = len(cs.Steps)
	}
	// hop: a move inside the crowd's disc
	hop := func(col int, id, note string) bool {
		for try := 0; try < 6; try++ {
			la, lo := destination(base.lat, base.lon, math.Min(crowdR, 1.2)*g.radius*math.Sqrt(unif(rt, "hop-d", 0, 1)), unif(rt, "hop-b", 0, 360))
			p := pos{round8(la), round8(lo)}
			if g.clear(col, id, p) {
				g.add(RStep{Op: "set", Col: col, ID: id, Lat: p.lat, Lon: p.lon, Note: note})
				return true
			}
		}
		return false
	}
	// in 60% of the other cases the collections are populated BEFORE the fence exists
	if crowd == 0 && pct(rt, "pre") < 60 {
		n := intn(rt, "pre-n", 2, 5)
		for i := 0; i < n; i++ {
			col := rc
			if pct(rt, "pre-col") < 35 {
				col = 1 - rc
			}
			place(col, pick(rt, "pre-id", idsOf(col)), "set")
		}
		cs.Pre = len(cs.Steps)
	}
	// removal of a whole collection (DROP, PDEL *, DEL of every object down to
	// the last, expiry of the only object) followed by re-population: the fence
	// must keep looking at the collection that exists NOW under that key
	removals := 0
	remove := func() {
		col := rc
		if pct(rt, "rm-col") < 35 {
			col = 1 - rc
		}
		if len(g.cols[col]) == 0 {
			return
		}
		removals++
		switch m := pct(rt, "rm-how"); {
		case m < 40:
			g.add(RStep{Op: "drop", Col: col, Note: "remove collection: DROP"})
			sync(false)
		case m < 65:
			g.add(RStep{Op: "pdel", Col: col, Note: "remove collection: PDEL *"})
			sync(false)
		default:
			var ids []string
			for id := range g.cols[col] {
				if id != probeID {
					ids = append(ids, id)
				}
			}
			sort.Strings(ids)
			for _, id := range ids {
				g.add(RStep{Op: "del", Col: col, ID: id, Note: "remove collection: DEL down to the last object"})
				sync(false)
			}
		}
		if !cs.Live && removals == 1 && pct(rt, "rm-expiry") < 12 {
			// the collection comes back with a single object that then expires
			if place(col, pick(rt, "ex-id", idsOf(col)), "setex") {
				sync(false)
			}
		}
		for i, n := 0, intn(rt, "repop", 1, 3); i < n; i++ {
			if place(col, pick(rt, "repop-id", idsOf(col)), "set") {
				sync(false)
			}
		}
	}
	steps := intn(rt, "steps", 4, maxSteps)
	for i := 0; i < steps; i++ {
		col := 0
		if pct(rt, "col") < 22 {
			col = 1
		}
		ids := fleet
		if col == 1 {
			ids = otherIDs
		}
		id := pick(rt, "id", ids)
		if crowd > 0 {
			switch k := pct(rt, "crowd-step"); {
			case k < 60: // a fleet object hops around inside the crowd
				if hop(0, pick(rt, "hopper", fleet[:2]), fmt.Sprintf("hop in a crowd of %d", crowd)) {
					sync(false)
				}
				continue
			case k < 85 && len(crowdIDs) > 0: // a crowd member moves (a fenced SET when the fence roams its own key)
				if hop(rc, pick(rt, "crowd-member", crowdIDs), "crowd member moves") {
					sync(false)
				}
				continue
			}
		}
		if !cs.Live && pct(rt, "redef") < 6 {
			redefine()
			continue
		}
		if pct(rt, "string") < 4 {
			if strings {
				g.add(RStep{Op: "setstr", Col: col, ID: id, Note: "the id now holds a string"})
				sync(false)
			} else {
				excluded[findStringOrig]++
			}
			continue
		}
		if pct(rt, "scenery") < 9 {
			scol := rc
			if pct(rt, "scenery-col") < 20 {
				scol = 1 - rc
			}
			if place(scol, pick(rt, "scenery-id", sceneryIDs), "shape") {
				sync(false)
			}
			continue
		}
		if pct(rt, "remove") < 9 {
			remove()
			continue
		}
		if pct(rt, "del") < 6 {
			if _, ok := g.cols[col][id]; ok {
				g.add(RStep{Op: "del", Col: col, ID: id})
				sync(false)
			}
			continue
		}
		// re-SET of a fleet object at its exact current coordinates (possibly after
		// a neighbour moved into / out of its radius meanwhile): without NODWELL
		// every matching neighbour inside the radius must be reported again
		if cur, ok := g.cols[0][id]; ok && col == 0 && pct(rt, "reset") < 20 {
			kind := "re-set in place"
			if pct(rt, "reset-after-move") < 55 {
				rc, rids := 1, otherIDs
				if cs.SameKey {
					rc, rids = 0, fleet
				}
				z := pick(rt, "reset-neighbour", rids)
				for try := 0; try < 6 && !(rc == 0 && z == id); try++ {
					ratio := pick(rt, "ratio", ratios) * (1 + unif(rt, "ratio-jitter", -0.0004, 0.0004))
					brg := pick(rt, "bearing", bearings) + unif(rt, "bearing-jitter", -3, 3)
					la, lo := destination(cur.lat, cur.lon, ratio*g.radius, brg)
					p := pos{round8(la), round8(lo)}
					if g.clear(rc, z, p) {
						g.add(RStep{Op: "set", Col: rc, ID: z, Lat: p.lat, Lon: p.lon, Note: fmt.Sprintf("neighbour move before re-set: 0/%s d/r=%.4f brg=%.1f", id, ratio, brg)})
						sync(false)
						kind = "re-set in place after neighbour move"
						break
					}
				}
			}
			g.add(RStep{Op: "set", Col: 0, ID: id, Lat: cur.lat, Lon: cur.lon, Reset: true, Alt: intn(rt, "alt", 0, 2),
				Extra: pick(rt, "extra", []string{"", "", "field", "ex"}), Note: kind})
			sync(false)
			continue
		}
		if place(col, id, "set") {
			sync(false)
		}
	}
	if !cs.Live {
		sync(true) // one guaranteed message at the very end closes the webhook stream
	}
	return cs
}

// ---- received messages -----------------------------------------------------------------

type rgot struct {
	Cmd, Detect, Hook, Key, ID string
	Lat, Lon                   float64
	Kind                       string // nearby faraway "" (none)
	NKey, NID                  string
	NLat, NLon, Meters         float64
	Bad                        string
	Raw                        string
}

// pointOf returns the centre of the bounding box of a Point, LineString or
// Polygon (for a Point the point itself) - the position a roaming fence
// measures distances to.
func pointOf(raw json.RawMessage) (lat, lon float64, ok bool) {
	var o struct {
		Type        string          `json:"type"`
		Coordinates json.RawMessage `json:"coordinates"`
	}
	if json.Unmarshal(raw, &o) != nil {
		return 0, 0, false
	}
	var pts [][]float64
	switch o.Type {
	case "Point":
		var c []float64
		if json.Unmarshal(o.Coordinates, &c) != nil || len(c) != 2 {
			return 0, 0, false
		}
		return c[1], c[0], true
	case "LineString":
		if json.Unmarshal(o.Coordinates, &pts) != nil {
			return 0, 0, false
		}
	case "Polygon":
		var rings [][][]float64
		if json.Unmarshal(o.Coordinates, &rings) != nil {
			return 0, 0, false
		}
		for _, r := range rings {
			pts = append(pts, r...)
		}
	default:
		return 0, 0, false
	}
	if len(pts) == 0 {
		return 0, 0, false
	}
	minx, miny, maxx, maxy := math.Inf(1), math.Inf(1), math.Inf(-1), math.Inf(-1)
	for _, p := range pts {
		if len(p) != 2 {
			return 0, 0, false
		}
		minx, maxx = math.Min(minx, p[0]), math.Max(maxx, p[0])
		miny, maxy = math.Min(miny, p[1]), math.Max(maxy, p[1])
	}
	return (miny + maxy) / 2, (minx + maxx) / 2, true
}

func parseRoam(raw string) rgot {
	g := rgot{Raw: raw}
	var m map[string]json.RawMessage
	if err := json.Unmarshal([]byte(raw), &m); err != nil {
		g.Bad = "not JSON: " + err.Error()
		return g
	}
	str := func(k string) string {
		var s string
		if r, ok := m[k]; ok {
			json.Unmarshal(r, &s)
		}
		return s
	}
	g.Cmd, g.Detect, g.Hook, g.Key, g.ID = str("command"), str("detect"), str("hook"), str("key"), str("id")
	if g.Cmd == "del" || g.Cmd == "drop" {
		return g
	}
	var ok bool
	if g.Lat, g.Lon, ok = pointOf(m["object"]); !ok {
		g.Bad = "object is not a Point / LineString / Polygon"
		return g
	}
	for _, kind := range []string{"nearby", "faraway"} {
		r, has := m[kind]
		if !has {
			continue
		}
		if g.Kind != "" {
			g.Bad = "both nearby and faraway in one message"
			return g
		}
		g.Kind = kind
		var e struct {
			Key    string          `json:"key"`
			ID     string          `json:"id"`
			Object json.RawMessage `json:"object"`
			Meters *float64        `json:"meters"`
		}
		if json.Unmarshal(r, &e) != nil || e.Meters == nil {
			g.Bad = kind + " member malformed"
			return g
		}
		g.NKey, g.NID, g.Meters = e.Key, e.ID, *e.Meters
		if g.NLat, g.NLon, ok = pointOf(e.Object); !ok {
			g.Bad = kind + ".object is not a 2-d Point"
			return g
		}
	}
	return g
}

func (g rgot) key() string {
	if g.Cmd == "del" {
		return "del " + g.ID
	}
	if g.Cmd == "drop" {
		return "drop"
	}
	return fmt.Sprintf("%s %s@%s,%s -> %s@%s,%s", g.Kind, g.ID, ff(g.Lat), ff(g.Lon), g.NID, ff(g.NLat), ff(g.NLon))
}

// ---- execution ---------------------------------------------------------------------------

type failer interface {
	Fatalf(format string, args ...any)
	Helper()
}

type roamInfo struct {
	labels   map[string]int
	nontriv  []string
	steps    int
	entries  int
	cornerNB int
}

func mustOK(v t38.Value, err error, what string) {
	if err != nil {
		panic(fmt.Sprintf("harness: %s: %v", what, err))
	}
	if v.IsErr() {
		panic(fmt.Sprintf("harness: %s refused: %s", what, v))
	}
}

// compareStep checks the messages one observer produced for one step against
// the expected entries. It returns (key, description) of a violation or "".
func compareStep(cs RoamCase, exp []entry, got []rgot, hook, fleet, roamKey string, info *roamInfo) (string, string) {
	want := map[string]entry{}
	for _, e := range exp {
		want[e.key()] = e
	}
	seen := map[string]bool{}
	var gotKeys []string
	for _, g := range got {
		gotKeys = append(gotKeys, g.key())
	}
	var expKeys []string
	for _, e := range exp {
		expKeys = append(expKeys, e.key()+fmt.Sprintf(" (%.3f m)", e.Meters))
	}
	var raws []string
	for _, g := range got {
		raws = append(raws, g.Raw)
	}
	ctx := fmt.Sprintf("\nexpected entries: %v\nreceived: %v\nraw: %s", expKeys, gotKeys, strings.Join(raws, " | "))
	for _, g := range got {
		if g.Bad != "" {
			return "roam:malformed", g.Bad + ": " + g.Raw
		}
		if g.Hook != hook || g.Key != fleet {
			return "roam:envelope", fmt.Sprintf("hook/key %q/%q, want %q/%q: %s", g.Hook, g.Key, hook, fleet, g.Raw)
		}
		if g.Cmd == "del" || g.Cmd == "drop" {
			if _, ok := want[g.key()]; !ok || seen[g.key()] {
				return "roam:unexpected-del", "unexpected message " + g.Raw + ctx
			}
			seen[g.key()] = true
			continue
		}
		if g.Cmd != "set" || g.Detect != "roam" {
			return "roam:envelope", "command/detect is " + g.Cmd + "/" + g.Detect + ": " + g.Raw
		}
		if g.Kind == "" {
			return "roam:empty-message", "roam message without nearby/faraway entry: " + g.Raw + ctx
		}
		e, ok := want[g.key()]
		if !ok {
			// classify: which rule was broken?
			d := haversine(g.Lat, g.Lon, g.NLat, g.NLon)
			kind := "roam:unexpected-" + g.Kind
			switch {
			case g.Kind == "nearby" && d > cs.Radius:
				kind = "roam:nearby-beyond-radius"
			case g.Kind == "nearby" && !patternOK(cs.Pattern, g.NID):
				kind = "roam:nearby-pattern-mismatch"
			case g.Kind == "nearby" && cs.NoDwell:
				kind = "roam:nodwell-repeated"
			case g.Kind == "faraway" && d <= cs.Radius:
				kind = "roam:faraway-inside-radius"
			}
			return kind, fmt.Sprintf("entry {%s} (true distance %.3f m, radius %s) is not expected", g.key(), d, ff(cs.Radius)) + ctx
		}
		if seen[g.key()] {
			return "roam:duplicate-entry", "entry reported twice: " + g.key() + ctx
		}
		seen[g.key()] = true
		if g.NKey != roamKey {
			return "roam:envelope", fmt.Sprintf("%s.key is %q, want %q", g.Kind, g.NKey, roamKey)
		}
		wantM := math.Floor(e.Meters*1000) / 1000
		if math.Abs(g.Meters-wantM) > 1e-3+1e-9*e.Meters {
			return "roam:meters", fmt.Sprintf("entry {%s}: meters %s, true distance %.6f", g.key(), ff(g.Meters), e.Meters) + ctx
		}
	}
	for _, e := range exp {
		if !seen[e.key()] {
			k := "roam:missing-" + e.Kind
			if e.Kind == "nearby" && !cs.SameKey && e.NID == e.ID {
				k = sameIDFinding
			} else if cs.Radius < 5 {
				k = smallRadiusFinding // at metre scale only the candidate rectangle can lose a neighbour
			}
			return k, fmt.Sprintf("expected entry {%s} (%.3f m, radius %s) was not reported", e.key(), e.Meters, ff(cs.Radius)) + ctx
		}
	}
	// order (nearby then faraway, by distance) is not part of the property: label only
	for i := range got {
		if i < len(exp) && got[i].key() != exp[i].key() {
			info.labels["order-differs-from-distance-order"]++
			break
		}
	}
	return "", ""
}

func runRoam(t failer, c *ev.Collector, cs RoamCase) (info roamInfo) {
	t.Helper()
	info.labels = map[string]int{}
	caseSeq++
	prefix := fmt.Sprintf("r%d", caseSeq)
	keys := [2]string{prefix + ":fleet", prefix + ":other"}
	roamKey := keys[1]
	if cs.SameKey {
		roamKey = keys[0]
	}
	fail := func(key, what string) {
		failedOnce = true
		c.Fail(t, key, what, cs)
	}
	startGap := maxGapNs.Load()
	v, err := ctl.Do("FLUSHDB")
	mustOK(v, err, "FLUSHDB")

	m := &rmodel{cs: cs, cols: [2]map[string]pos{{}, {}}}
	buildArgs := func(n int, s RStep) []string {
		switch s.Op {
		case "del":
			return []string{"DEL", keys[s.Col], s.ID}
		case "drop":
			return []string{"DROP", keys[s.Col]}
		case "pdel":
			return []string{"PDEL", keys[s.Col], "*"}
		case "setstr":
			return []string{"SET", keys[s.Col], s.ID, "STRING", "parked"}
		}
		args := []string{"SET", keys[s.Col], s.ID}
		switch {
		case s.Op == "setex":
			args = append(args, "EX", "0.05")
		case s.Extra == "field":
			args = append(args, "FIELD", "speed", strconv.Itoa(n+1))
		case s.Extra == "ex":
			args = append(args, "EX", "1000")
		}
		if s.Shape != "" && len(s.Box) == 4 {
			b := s.Box
			pt := func(lon, lat float64) string { return "[" + ff(lon) + "," + ff(lat) + "]" }
			switch s.Shape {
			case "rect":
				return append(args, "BOUNDS", ff(b[0]), ff(b[1]), ff(b[2]), ff(b[3]))
			case "poly":
				return append(args, "OBJECT", `{"type":"Polygon","coordinates":[[`+pt(b[1], b[0])+","+pt(b[3], b[0])+","+pt(b[1], b[2])+","+pt(b[1], b[0])+`]]}`)
			default:
				return append(args, "OBJECT", `{"type":"LineString","coordinates":[`+pt(b[1], b[0])+","+pt(b[3], b[2])+`]}`)
			}
		}
		return append(args, "POINT", coordText(s.Lat, s.Alt), coordText(s.Lon, s.Alt))
	}
	// steps that run before the fence exists: its collections are there when
	// the hook / channel / live fence is created
	for n := 0; n < cs.Pre && n < len(cs.Steps); n++ {
		v, err := ctl.Do(buildArgs(n, cs.Steps[n])...)
		mustOK(v, err, "pre-population")
		m.apply(cs.Steps[n])
	}
	if cs.Pre > 0 {
		info.labels["fence-created-on-populated-collections"]++
	}

	tok := cs.fenceTokens(keys[0], keys[1])
	chanName, hookName := prefix+":c", prefix+":h"
	v, err = ctl.Do(append([]string{"SETCHAN", chanName}, tok...)...)
	mustOK(v, err, "SETCHAN "+strings.Join(tok, " "))
	hookSt := recv.register(hookName)
	defer recv.unregister(hookName)
	v, err = ctl.Do(append([]string{"SETHOOK", hookName, recv.url}, tok...)...)
	mustOK(v, err, "SETHOOK")
	var live *liveObs
	if cs.Live {
		live, err = openLive(srv.Addr, tok)
		if err != nil {
			panic("harness: live fence: " + err.Error())
		}
		defer func() {
			if !live.close(ctl, keys[0]) {
				c.Inconclusive("live connection of %s still listed after 20s", prefix)
			}
		}()
	}
	// additional live fences on the same key, each with its own reference model
	type liveRun struct {
		obs     *liveObs
		m       *rmodel
		seen    int
		pending [][]entry
		tok     []string
		exp     []entry
	}
	var extras []*liveRun
	for _, x := range cs.ExtraLive {
		xcs := cs
		xcs.Pattern, xcs.Radius, xcs.NoDwell, xcs.Match = x.Pattern, x.Radius, x.NoDwell, ""
		xm := &rmodel{cs: xcs, cols: [2]map[string]pos{{}, {}}}
		for n := 0; n < cs.Pre && n < len(cs.Steps); n++ {
			xm.apply(cs.Steps[n])
		}
		xtok := xcs.fenceTokens(keys[0], keys[1])
		obs, err := openLive(srv.Addr, xtok)
		if err != nil {
			panic("harness: extra live fence: " + err.Error())
		}
		defer func() {
			if !obs.close(ctl, keys[0]) {
				c.Inconclusive("live connection of %s still listed after 20s", prefix)
			}
		}()
		extras = append(extras, &liveRun{obs: obs, m: xm, tok: xtok})
	}
	if len(extras) > 0 {
		info.labels[fmt.Sprintf("live-fences-on-one-key:%d", len(extras)+1)]++
	}
	syncCh := prefix + ":sync"
	sub := srv.MustDial()
	defer sub.Close()
	if err := sub.Send("SUBSCRIBE", chanName, syncCh); err != nil {
		panic("harness: subscribe: " + err.Error())
	}
	for i := 0; i < 2; i++ {
		if v, err := sub.Recv(); err != nil || v.Kind != '*' || len(v.Arr) != 3 || v.Arr[0].Str != "subscribe" {
			panic(fmt.Sprintf("harness: subscribe ack: %v %v", v, err))
		}
	}

	var expAll [][]entry // per step
	var chanAll [][]rgot
	var primary *liveRun // the case's own live fence
	shapes := 0               // extended objects stored so far
	redefined := false        // the fence was re-defined under its name at least once
	removedRoam := false      // the roam collection was removed (and possibly re-created) after the fence was made
	// live cases: the writes between two barriers (and their channel sentinels)
	// travel in one segment
	outstanding := 0
	defer func() {
		for ; outstanding > 0; outstanding-- {
			if _, err := ctl.Recv(); err != nil {
				break
			}
		}
	}()
	sentUpTo, groupSize := 0, 1
	for n, s := range cs.Steps {
		if n < cs.Pre {
			continue
		}
		if live != nil && n >= sentUpTo {
			end := n + 1
			for end < len(cs.Steps) && !cs.Steps[end-1].Sync {
				end++
			}
			groupSize = end - n
			if groupSize > 1 {
				var raw []byte
				for k := n; k < end; k++ {
					raw = append(raw, t38.EncodeCmd(buildArgs(k, cs.Steps[k])...)...)
					raw = append(raw, t38.EncodeCmd("PUBLISH", syncCh, fmt.Sprintf("sync-%d", k))...)
					outstanding += 2
				}
				if err := ctl.SendRaw(raw); err != nil {
					fail("transport", err.Error())
				}
				info.labels["live-writes-pipelined-between-barriers"]++
			}
			sentUpTo = end
		}
		ahead := live != nil && groupSize > 1
		if s.Op == "redef" {
			if live != nil {
				panic("harness: redef in a live case")
			}
			// let the webhook catch up first: replacing a hook while its sender
			// goroutine still holds a batch could reorder deliveries
			want := 0
			for _, g := range chanAll {
				want += len(g)
			}
			deadline := time.Now().Add(waitBudget())
			for len(hookSt.snapshot()) < want && time.Now().Before(deadline) {
				hookSt.wait(time.Until(deadline))
			}
			nc := m.cs
			nc.Pattern, nc.Radius, nc.NoDwell = s.NPattern, s.NRadius, s.NNoDwell
			ntok := nc.fenceTokens(keys[0], keys[1])
			for _, cmd := range [][]string{{"SETCHAN", chanName}, {"SETHOOK", hookName, recv.url}} {
				v, err := ctl.Do(append(cmd, ntok...)...)
				mustOK(v, err, "re-"+cmd[0]+" "+strings.Join(ntok, " "))
				if s.Variant == "identical" && (v.Kind != ':' || v.Int != 0) {
					fail("redef:identical-not-noop", fmt.Sprintf("step %d: re-issuing the identical definition %s answered %s, want 0", n, strings.Join(ntok, " "), v))
				}
			}
			info.labels["redef:"+s.Variant]++
			m.cs, tok = nc, ntok
			redefined = true
			continue
		}
		args := buildArgs(n, s)
		corner := 0
		var v t38.Value
		var err error
		if ahead {
			v, err = ctl.Recv()
			outstanding--
		} else {
			v, err = ctl.Do(args...)
		}
		if err != nil {
			var again bool
			if v, err, again = recvAgainIfStalled(ctl, err, startGap); again {
				c.Inconclusive("process frozen %.0fs while waiting for a reply in %s; read repeated", float64(maxGapNs.Load())/1e9, prefix)
			}
		}
		if err != nil {
			fail("transport", fmt.Sprintf("step %d: %v", n, err))
		}
		if v.IsErr() {
			fail("unexpected-error", fmt.Sprintf("step %d %s: %s", n, t38.CmdString(args), v))
		}
		for _, x := range extras {
			x.exp = x.m.apply(s)
		}
		before := len(m.cols[s.Col])
		overString := (s.Op == "set" || s.Op == "setex") && m.strs[s.Col] != nil && m.strs[s.Col][s.ID]
		if overString {
			info.labels["set-geometry-over-string"]++
		}
		exp := m.apply(s)
		if s.Shape != "" {
			shapes++
			info.labels["extended-object-set:"+s.Shape]++
		}
		if s.Op == "set" && s.Col == 0 && globOK(cs.Match, s.ID) {
			corner = m.cornerCount(s.ID, pos{s.Lat, s.Lon})
		}
		if s.Op == "setex" {
			// wait until the background expiry has deleted the object again
			deadline := time.Now().Add(20 * time.Second)
			for {
				v, err := ctl.Do("EXISTS", keys[s.Col], s.ID)
				if err != nil {
					fail("transport", "EXISTS: "+err.Error())
				}
				if v.IsErr() || v.Int == 0 {
					break
				}
				if time.Now().After(deadline) {
					c.Inconclusive("object with EX 0.05 still present after 20s")
					return info
				}
				time.Sleep(5 * time.Millisecond)
			}
			exp = append(exp, m.apply(RStep{Op: "del", Col: s.Col, ID: s.ID})...)
		}
		if (before > 0 || s.Op == "setex") && len(m.cols[s.Col]) == 0 {
			how := s.Op
			switch s.Op {
			case "del":
				how = "del-of-last-object"
			case "setex":
				how = "expiry-of-only-object"
			}
			role := "fleet"
			if s.Col == 1 {
				role = "other"
			}
			info.labels["collection-removed:"+role+":"+how]++
			if (cs.SameKey && s.Col == 0) || (!cs.SameKey && s.Col == 1) {
				removedRoam = true
			}
		}
		expAll = append(expAll, exp)
		// channel: a PUBLISH sentinel after every step delimits the step's messages exactly
		token := fmt.Sprintf("sync-%d", n)
		if ahead {
			v, err = ctl.Recv()
			outstanding--
		} else {
			v, err = ctl.Do("PUBLISH", syncCh, token)
		}
		mustOK(v, err, "PUBLISH")
		var got []rgot
		for {
			v, err := sub.Recv()
			if err != nil {
				v, err, _ = recvAgainIfStalled(sub, err, startGap)
			}
			if err != nil {
				fail("channel:stream-broken", fmt.Sprintf("subscriber connection: %v", err))
			}
			if v.Kind != '*' || len(v.Arr) != 3 || v.Arr[0].Str != "message" {
				fail("channel:bad-frame", "unexpected frame: "+v.String())
			}
			if v.Arr[1].Str == syncCh {
				if v.Arr[2].Str != token {
					fail("channel:bad-frame", "stray sentinel "+v.Arr[2].Str)
				}
				break
			}
			got = append(got, parseRoam(v.Arr[2].Str))
		}
		chanAll = append(chanAll, got)
		if k, what := compareStep(m.cs, exp, got, chanName, keys[0], roamKey, &info); k != "" {
			if overString && strings.HasPrefix(k, "roam:unexpected-faraway") || overString && k == "roam:faraway-inside-radius" {
				k = findStringOrig // entries measured from lat 0 lon 0, the "position" of the string
			}
			fail(k, fmt.Sprintf("step %d %s (%s), observer channel, fence %s: %s", n, t38.CmdString(args[2:]), s.Note, strings.Join(tok[2:], " "), what))
		}
		// evidence
		if (s.Op == "set" || s.Op == "setex") && s.Col == 0 && s.ID != probeID {
			info.steps++
			info.entries += len(exp)
			nb, fa := 0, 0
			for _, e := range exp {
				if e.Kind == "nearby" {
					nb++
				} else if e.Kind == "faraway" {
					fa++
				}
			}
			if on, nn := m.lastOldN, m.lastNewN; s.Op == "set" {
				for _, th := range []int{8, 9, 16, 17, 32, 33, 64} {
					if on >= th && nn >= th {
						info.labels[fmt.Sprintf("step-with>=%d-neighbours-before-and-after", th)]++
					}
				}
				if on*nn > 64 {
					info.labels["step-with>64-old-x-new-pairs"]++
					if cs.NoDwell {
						info.labels["step-with>64-old-x-new-pairs:nodwell"]++
					}
					if fa > 0 && nb > 0 {
						info.labels["step-with>64-pairs-and-arrivals-and-leavers"]++
					}
				}
			}
			if corner > 0 {
				info.labels["step-with-corner-neighbour"]++
				info.cornerNB += corner
			}
			if nb+fa >= 2 {
				info.labels["step-with>=2-entries"]++
			}
			if nb > 0 {
				info.labels["step-with-nearby"]++
			}
			if fa > 0 {
				info.labels["step-with-faraway"]++
			}
			if len(exp) == 0 {
				info.labels["step-without-message"]++
			}
			if s.Reset {
				info.labels["reset:"+s.Note]++
				info.labels[fmt.Sprintf("reset-spelling-%d", s.Alt)]++
				if s.Extra != "" {
					info.labels["reset-with-"+s.Extra]++
				}
				if nb > 0 {
					info.labels["reset-step-with-nearby"]++
				}
			}
			if redefined && nb+fa > 0 {
				info.labels["step-with-entries-after-a-re-definition"]++
			}
			if shapes > 0 && nb+fa > 0 {
				info.labels["step-with-entries-while-extended-objects-are-stored"]++
			}
			if m.coveringFar(pos{s.Lat, s.Lon}) > 0 {
				info.labels["mover-inside-box-of-extended-object-centred-beyond-radius"]++
				if nb > 0 {
					info.labels["...and-nearby-entries-expected"]++
				}
			}
			if removedRoam && nb+fa > 0 {
				info.labels["step-with-entries-after-roam-collection-was-removed"]++
				if cs.Pre > 0 {
					info.labels["...and-fence-created-on-existing-collection"]++
				}
			}
			if (corner > 0 || nb+fa >= 2 || (s.Reset && nb+fa >= 1) || (redefined && nb+fa >= 1) || (shapes > 0 && nb+fa >= 1) || (removedRoam && cs.Pre > 0 && nb+fa >= 1)) && !s.Sync {
				info.nontriv = append(info.nontriv, fmt.Sprintf("%s|%v|%v|r=%s|%s|c=%d|n=%d|f=%d", cs.Pattern, cs.SameKey, cs.NoDwell, ff(cs.Radius), s.Note, corner, nb, fa))
			}
		}
		// live: evaluated asynchronously against the collection as it is THEN;
		// the barrier probe (exactly one message) tells when the step was evaluated
		if live != nil {
			if primary == nil {
				primary = &liveRun{obs: live, tok: tok}
			}
			primary.m, primary.exp = m, exp
			for li, lv := range append([]*liveRun{primary}, extras...) {
				lv.pending = append(lv.pending, lv.exp)
				if !s.Sync {
					continue
				}
				need := 0
				for _, e := range lv.pending {
					need += len(e)
				}
				deadline := time.Now().Add(waitBudget())
				extended := false
				for {
					raw := lv.obs.st.snapshot()
					if len(raw)-lv.seen >= need {
						break
					}
					if time.Now().After(deadline) {
						// the budget may have run out while the whole process was frozen
						time.Sleep(100 * time.Millisecond)
						if g := maxGapNs.Load(); !extended && g > startGap && g > int64(5*time.Second) {
							extended = true
							deadline = time.Now().Add(waitBudget())
							continue
						}
						break
					}
					lv.obs.st.wait(time.Until(deadline))
				}
				raw := lv.obs.st.snapshot()[lv.seen:]
				take := func(k int) []rgot {
					if k > len(raw) {
						k = len(raw)
					}
					out := make([]rgot, k)
					for i := 0; i < k; i++ {
						out[i] = parseRoam(raw[i])
					}
					raw = raw[k:]
					lv.seen += k
					return out
				}
				for pi, e := range lv.pending {
					got := take(len(e))
					if pi == len(lv.pending)-1 && len(raw) > 0 {
						got = append(got, take(len(raw))...) // extras
					}
					if k, what := compareStep(lv.m.cs, e, got, "", keys[0], roamKey, &info); k != "" {
						key := k + ":live"
						if len(lv.pending) > 3 {
							// more than one write plus its barrier were in flight: the live
							// fence evaluated a write against a later state of the collection
							key = findLiveLate
						}
						fail(key, fmt.Sprintf("step %d, observer live #%d of %d on this key, fence %s: %s", n-len(lv.pending)+1+pi, li, len(extras)+1, strings.Join(lv.tok[2:], " "), what))
					}
				}
				lv.pending = nil
			}
		}
	}
	// webhook: evaluated at write time like the channel; must be the same
	// sequence of messages
	var flatExp []entry
	var flatChan []rgot
	for i := range expAll {
		flatExp = append(flatExp, expAll[i]...)
		flatChan = append(flatChan, chanAll[i]...)
	}
	deadline := time.Now().Add(waitBudget())
	for {
		if len(hookSt.snapshot()) >= len(flatChan) || time.Now().After(deadline) {
			break
		}
		hookSt.wait(time.Until(deadline))
	}
	rawHook := hookSt.snapshot()
	if len(rawHook) != len(flatChan) {
		time.Sleep(60 * time.Millisecond) // let the stall detector register a gap, if there was one
	}
	if maxGapNs.Load() > startGap && maxGapNs.Load() > int64(2*time.Second) {
		c.Inconclusive("process stalled %.1fs; webhook stream of %s not judged", float64(maxGapNs.Load())/1e9, prefix)
	} else {
		// A hook that was re-defined is a new object with a new sender goroutine,
		// while the replaced one may still be inside its delivery routine: across
		// a re-definition the server does not keep the delivery order (observed
		// once in 192 000 cases; delivery order is C10's subject). With
		// re-definitions the two streams are therefore compared as multisets.
		hk := make([]rgot, len(rawHook))
		for i := range rawHook {
			hk[i] = parseRoam(rawHook[i])
			if hk[i].Hook != hookName {
				fail("roam:envelope", "webhook message with hook "+hk[i].Hook)
			}
		}
		ch := append([]rgot(nil), flatChan...)
		if redefined {
			less := func(a []rgot) func(i, j int) bool {
				return func(i, j int) bool {
					if a[i].key() != a[j].key() {
						return a[i].key() < a[j].key()
					}
					return a[i].Meters < a[j].Meters
				}
			}
			sort.SliceStable(hk, less(hk))
			sort.SliceStable(ch, less(ch))
			info.labels["webhook-compared-as-multiset(re-defined)"]++
		}
		for i := 0; i < len(hk) || i < len(ch); i++ {
			switch {
			case i >= len(hk):
				fail("roam:webhook-missing", fmt.Sprintf("webhook received %d messages, channel %d; first missing: %s", len(hk), len(ch), ch[i].Raw))
			case i >= len(ch):
				fail("roam:webhook-extra", fmt.Sprintf("webhook received %d messages, channel %d; first extra: %s", len(hk), len(ch), hk[i].Raw))
			}
			if hk[i].key() != ch[i].key() || hk[i].Meters != ch[i].Meters || hk[i].Cmd != ch[i].Cmd {
				fail("roam:webhook-differs", fmt.Sprintf("message #%d differs: webhook %s / channel %s", i, hk[i].Raw, ch[i].Raw))
			}
		}
	}
	return info
}

// ---- tests -----------------------------------------------------------------------------------

func TestC20_Roam(t *testing.T) {
	c := ev.New("C20", "roam", "exploration")
	t.Cleanup(c.Flush)
	c.Rule("per case one fence NEARBY fleet [MATCH g] FENCE [NODWELL] ROAM key2 pattern meters (key2 = fleet or another collection; pattern *, prefix glob, class glob or exact id; radius 200 m..50 km log-uniform, in 22% of the cases 0.05 m..200 m log-uniform with coordinates to 12 decimals and 60% of the placements due east/west/north/south; anywhere |lat|<=70) installed as channel + webhook (+ live connection with a barrier probe in 40% of the cases; 45% of the live cases with pattern * or t* open 1-3 further live fences with another pattern / radius x0.6..1.6 / NODWELL on the same key, each judged against its own reference, 60% of those with a crowd of 30-70 neighbours); 4..N steps, each SET moves/creates one point object of either collection to a position constructed from an existing object: distance d/r in {0.05,0.3,0.6,0.9,0.999,1.001,1.1,1.2,1.3,1.396,1.45,2.5} (jittered 4e-4) at bearing k*45 deg +-3 (45/135/225/315 with 1<d/r<1.41 = inside the search rectangle but outside the circle), occasionally DEL, and ~20% re-SETs of a fleet object at its exact current coordinates (same text, trailing zeros or exponent spelling; optionally with FIELD or EX), half of them right after a roam-collection object was moved into/out of its radius; in 60% of the cases 2-5 objects are SET before the fence is created (collections exist at creation time); ~9% of the steps remove a whole collection (fleet or the roam collection) by DROP, PDEL * or DEL down to the last object (rarely followed by a single SET EX 0.05 that expires) and re-populate it; 9% of the steps store an extended object (BOUNDS rectangle, Polygon triangle or diagonal LineString; half height 0.001..12 r, aspect 0.2/1/5; ids matching and not matching the pattern) whose box CENTRE sits at a constructed d/r - distances are measured to the centre of an object's bounding box; in non-live cases 6% of the steps re-define the roaming channel and webhook under their names (identical, other radius with all pair margins re-checked, other pattern, NODWELL toggled), the model switching at the acknowledgement; 9% of the cases with pattern * or t* are crowd cases: 1,2,3,7,8,9,10,12,16,17,20,24,32,33,48,64 or 70 neighbours are placed uniformly in a disc of 0.7..1.7 r in the roam collection before the fence exists, then fleet objects hop around inside the disc (many neighbours dwell, enter and leave in one step) and crowd members move; every position keeps |d/r-1|>=1e-4 to every other object. Oracle: own haversine over the model's positions: nearby = other pattern-matching objects of key2 with d(new)<=r (minus, under NODWELL, those with d(old)<=r), faraway = d(old)<=r and d(new)>r, one message per entry, nothing else, meters = floor(d*1000)/1000 within 1e-3+1e-9 d; compared per step (a PUBLISH sentinel after every write delimits the channel stream). Non-trivial: a step whose new position has >=1 pattern-matching neighbour in the corner region or that yields >=2 entries, or a re-SET in place that yields >=1 entry, or a step with >=1 entry after a re-definition or while extended objects are stored, or a step with >=1 entry after the roam collection was removed and re-created under a fence that was created on an existing collection; distinct by (pattern, same/other key, NODWELL, radius, construction, counts).")
	c.Assume("message order within a step (nearby before faraway, by distance) is not part of the property: labelled, not judged; FSET/EXPIRE on a roam fence are out of scope")
	maxSteps := ev.Pick(16, 24)
	ev.Rapid("roam", ev.Pick(2500, 12000))
	rapid.Check(t, func(rt *rapid.T) {
		cs := genRoam(rt, maxSteps)
		c.Case()
		for id, n := range cs.excl {
			for ; n > 0; n-- {
				c.Excluded(id)
			}
		}
		info := runRoam(rt, c, cs)
		for l, n := range info.labels {
			c.LabelN(l, n)
		}
		c.LabelN("fleet-set-steps", info.steps)
		c.LabelN("expected-entries", info.entries)
		c.LabelN("corner-neighbours", info.cornerNB)
		switch {
		case cs.Radius < 0.285:
			c.Label("radius<0.285m")
		case cs.Radius < 5:
			c.Label("radius<5m")
		case cs.Radius < 200:
			c.Label("radius<200m")
		}
		c.Label("pattern:" + cs.Pattern)
		c.Label(fmt.Sprintf("samekey:%v", cs.SameKey))
		c.Label(fmt.Sprintf("nodwell:%v", cs.NoDwell))
		if cs.Live {
			c.Label("with-live-observer")
		}
		if cs.Match != "" {
			c.Label("with-match")
		}
		for _, k := range info.nontriv {
			c.NonTrivial(k)
		}
		if len(info.nontriv) > 0 && c.WantSample() {
			c.Sample(map[string]any{"fence": strings.Join(cs.fenceTokens("fleet", "other"), " "), "steps": len(cs.Steps), "nontrivial_steps": info.nontriv})
		}
	})
}

// TestC20_Regress: deterministic probes of the two repaired defects
// roam-distance-self and roam-skips-same-id-in-other-collection.
func TestC20_Regress(t *testing.T) {
	if ev.Shard() != 0 {
		t.Skip("deterministic probes run on shard 0")
	}
	c := ev.New("C20", "regress", "exploration")
	t.Cleanup(c.Flush)
	c.Rule("fixed inputs: (1) radius 1000 m, a neighbour at 1258 m on the diagonal (bearing 45 deg, inside the search rectangle) must not be reported, one at 900 m must; repeated at 8 latitudes and 4 diagonal bearings; (2) ROAM into another collection with a neighbour that has the same id as the moving object")
	// (1) roam-distance-self
probes:
	for _, lat := range []float64{-60, -33, -5, 0, 12, 33, 52, 70} {
		for _, brg := range []float64{45, 135, 225, 315} {
			for _, same := range []bool{true, false} {
				cs := RoamCase{SameKey: same, Pattern: "*", Radius: 1000}
				nlat, nlon := destination(lat, -115, 1258, brg)
				ilat, ilon := destination(lat, -115, 900, brg+180)
				col := 1
				if same {
					col = 0
				}
				cs.Steps = []RStep{
					{Op: "set", Col: col, ID: "far", Lat: round8(nlat), Lon: round8(nlon), Note: "1258 m diagonal"},
					{Op: "set", Col: col, ID: "near", Lat: round8(ilat), Lon: round8(ilon), Note: "900 m"},
					{Op: "set", Col: 0, ID: "truck", Lat: lat, Lon: -115, Note: "mover"},
				}
				c.Case()
				c.NonTrivial(fmt.Sprintf("%v/%v/%v", lat, brg, same))
				if !runRegress(t, c, cs, "roam-distance-self") {
					break probes // one report per finding is enough
				}
			}
		}
	}
	// (2) same id in the other collection
	cs := RoamCase{SameKey: false, Pattern: "*", Radius: 1000}
	nlat, nlon := destination(33, -115, 300, 90)
	cs.Steps = []RStep{
		{Op: "set", Col: 1, ID: "t1", Lat: round8(nlat), Lon: round8(nlon), Note: "other-collection object with the mover's id, 300 m away"},
		{Op: "set", Col: 0, ID: "t1", Lat: 33, Lon: -115, Note: "mover"},
	}
	c.Case()
	runRegress(t, c, cs, sameIDFinding)
	// (3) fence-string-old-position-origin: an id that held a string is SET to a
	// point far away while another object sits next to lat 0 lon 0
	for _, same := range []bool{true, false} {
		cs := RoamCase{SameKey: same, Pattern: "*", Radius: 5000}
		col := 1
		if same {
			col = 0
		}
		cs.Steps = []RStep{
			{Op: "set", Col: col, ID: "origin", Lat: 0.01, Lon: 0.01, Note: "object near lat 0 lon 0"},
			{Op: "setstr", Col: 0, ID: "s", Note: "string"},
			{Op: "set", Col: 0, ID: "s", Lat: 40, Lon: 40, Note: "geometry over the string: no previous position"},
		}
		c.Case()
		if !runRegress(t, c, cs, findStringOrig) {
			break
		}
	}
	// (4) live-roam-evaluated-late: two SETs 50 m apart in one segment; the first
	// has no neighbour when it is written, so only the second may be announced
	{
		cs := RoamCase{SameKey: true, Pattern: "*", Radius: 1000, Live: true}
		for i := 0; i < 12; i++ {
			lat := 10 + float64(i)
			la, lo := destination(lat, 10, 50, 90)
			cs.Steps = append(cs.Steps,
				RStep{Op: "set", Col: 0, ID: fmt.Sprintf("a%d", i), Lat: lat, Lon: 10, Note: "first of a pipelined pair"},
				RStep{Op: "set", Col: 0, ID: fmt.Sprintf("b%d", i), Lat: round8(la), Lon: round8(lo), Note: "second of a pipelined pair, 50 m away"},
				RStep{Op: "set", Col: 0, ID: probeID, Lat: -40, Lon: -100, Note: "barrier probe"},
				RStep{Op: "del", Col: 0, ID: probeID, Sync: true, Note: "barrier"})
		}
		c.Case()
		runRegress(t, c, cs, findLiveLate)
	}
	// (5) roam-small-radius-misses-neighbours: radius 0.25 m with a neighbour
	// 0.10 m due east (the candidate rectangle collapsed to the centre below
	// ~0.285 m) and radius 1.5176 m with a neighbour 1.5161 m due east at
	// latitude -54.25 (rectangle 0.4% too narrow east-west); channel, webhook
	// and live connection
	coordScale = 1e12
	defer func() { coordScale = 1e8 }()
	for _, p := range []struct{ r, lat, lon, d float64 }{{0.25, 0, 10, 0.10}, {1.5176, -54.25, 10, 1.5161}, {0.25, 47, -122, 0.2}, {3, 60, 25, 2.997}} {
		for _, brg := range []float64{90, 270} {
			cs := RoamCase{SameKey: true, Pattern: "*", Radius: p.r, Live: true}
			la, lo := destination(p.lat, p.lon, p.d, brg)
			barrier := []RStep{{Op: "set", Col: 0, ID: probeID, Lat: -40, Lon: -100, Note: "barrier probe"},
				{Op: "del", Col: 0, ID: probeID, Sync: true, Note: "barrier"}}
			cs.Steps = append(cs.Steps, RStep{Op: "set", Col: 0, ID: "a", Lat: p.lat, Lon: p.lon, Note: "first object"})
			cs.Steps = append(cs.Steps, barrier...)
			cs.Steps = append(cs.Steps, RStep{Op: "set", Col: 0, ID: "b", Lat: round8(la), Lon: round8(lo), Note: fmt.Sprintf("%.4f m from a at bearing %.0f, radius %s", p.d, brg, ff(p.r))})
			cs.Steps = append(cs.Steps, barrier...)
			c.Case()
			c.NonTrivial(fmt.Sprintf("small|%v|%v", p, brg))
			if !runRegress(t, c, cs, smallRadiusFinding) {
				return
			}
		}
	}
}

// regressFailer turns a failure of the fixed input into a Violation / Known
// record under the finding id instead of aborting the test.
type regressFailer struct {
	msg string
}

func (r *regressFailer) Fatalf(format string, args ...any) {
	r.msg = fmt.Sprintf(format, args...)
	panic(r)
}
func (r *regressFailer) Helper() {}

func runRegress(t *testing.T, c *ev.Collector, cs RoamCase, id string) (held bool) {
	rf := &regressFailer{}
	probe := ev.New("C20", "probe", "exploration") // scratch collector: its pending failure is discarded
	func() {
		defer func() {
			if r := recover(); r != nil && r != any(rf) {
				panic(r)
			}
		}()
		runRoam(rf, probe, cs)
	}()
	failedOnce = false
	if rf.msg == "" {
		return true
	}
	if ev.KnownActive(id) {
		c.Known(id, rf.msg)
		return false
	}
	c.Violation(id, rf.msg, cs)
	t.Errorf("probe %s: %s", id, rf.msg)
	return false
}

// TestC20_Crowd: more neighbours than any default item limit of the
// implementation (100): a mover drives into a crowd of 130 pattern-matching
// neighbours (all of them nearby), dwells, and drives away (all of them
// faraway).
func TestC20_Crowd(t *testing.T) {
	if ev.Shard() != 0 {
		t.Skip("deterministic cases run on shard 0")
	}
	c := ev.New("C20", "crowd", "exploration")
	t.Cleanup(c.Flush)
	c.Rule("deterministic: 130 neighbours on a golden-angle spiral within 0.45 r of a centre are stored in the roam collection before the fence exists; a fleet object is SET at the centre (130 nearby), 5 r away (130 faraway), 0.4 r north of the centre (130 nearby), again there (130 nearby, none under NODWELL), away (130 faraway); same / other roam collection x NODWELL on/off, channel + webhook, one case also with a live connection. Every entry and its metres are checked as in the roam sub-check. Non-trivial: every case.")
	const r, lat0, lon0, n = 2000.0, 48.1, 11.5, 130
	for _, same := range []bool{false, true} {
		for _, nodwell := range []bool{false, true} {
			cs := RoamCase{SameKey: same, Pattern: "t*", Radius: r, NoDwell: nodwell, Live: same && !nodwell}
			col := 1
			if same {
				col = 0
			}
			for i := 0; i < n; i++ {
				la, lo := destination(lat0, lon0, 0.45*r*math.Sqrt((float64(i)+0.5)/n), math.Mod(float64(i)*137.508, 360))
				cs.Steps = append(cs.Steps, RStep{Op: "set", Col: col, ID: fmt.Sprintf("t%d", 100+i), Lat: round8(la), Lon: round8(lo), Note: "crowd"})
			}
			cs.Pre = n
			barrier := []RStep{{Op: "set", Col: 0, ID: probeID, Lat: -40, Lon: -100, Note: "barrier probe"},
				{Op: "del", Col: 0, ID: probeID, Sync: true, Note: "barrier"}}
			mv := func(d, brg float64, note string) {
				la, lo := destination(lat0, lon0, d, brg)
				cs.Steps = append(cs.Steps, RStep{Op: "set", Col: 0, ID: "u1", Lat: round8(la), Lon: round8(lo), Note: note})
				cs.Steps = append(cs.Steps, barrier...)
			}
			mv(0, 0, "into the crowd")
			mv(5*r, 90, "away")
			mv(0.4*r, 0, "into the crowd, off centre")
			cs.Steps = append(cs.Steps, RStep{Op: "set", Col: 0, ID: "u1", Lat: cs.Steps[len(cs.Steps)-3].Lat, Lon: cs.Steps[len(cs.Steps)-3].Lon, Reset: true, Note: "re-set in place"})
			cs.Steps = append(cs.Steps, barrier...)
			mv(6*r, 270, "away")
			c.Case()
			info := runRoam(t, c, cs)
			for l, k := range info.labels {
				c.LabelN(l, k)
			}
			c.LabelN("expected-entries", info.entries)
			c.NonTrivial(fmt.Sprintf("crowd|%v|%v", same, nodwell))
		}
	}
}

func TestReplay(t *testing.T) {
	doc, ok := ev.ReplayFile()
	if !ok {
		t.Skip("no replay file")
	}
	c := ev.New("C20", "replay", "exploration")
	t.Cleanup(c.Flush)
	var cs RoamCase
	if err := json.Unmarshal(doc.Data, &cs); err != nil {
		t.Fatalf("bad replay data: %v", err)
	}
	if cs.Radius <= 0 || cs.Pattern == "" {
		t.Fatalf("replay without a fence")
	}
	c.Case()
	runRoam(t, c, cs)
}

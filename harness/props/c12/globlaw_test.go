package c12

import (
	"bufio"
	"bytes"
	"fmt"
	"os"
	"os/exec"
	"path/filepath"
	"regexp"
	"strconv"
	"strings"
	"testing"

	"github.com/tidwall/tile38/verif/harness/ev"
	"github.com/tidwall/tile38/verif/harness/model"
	"github.com/tidwall/tile38/verif/harness/props/c12/globfuzz"
	"pgregory.net/rapid"
)

// lawCase is one pattern with the names it is checked against.
type lawCase struct {
	Pattern bstr   `json:"pattern"`
	Names   []bstr `json:"names"`
}

// lawKey names the root cause of a failed law / matcher comparison.
func lawKey(kind, p string) string {
	if kind == "limits" && globfuzz.PrefixEndsFF(p) {
		return findFF
	}
	if kind == "limits" {
		return "glob-limits-law"
	}
	if !model.GlobValid(p) {
		return "glob-match-mismatch:malformed-pattern"
	}
	return "glob-match-mismatch"
}

// checkLaw evaluates both directions of the limits law and the matcher
// agreement for one pair; it returns (key, what) of the first failure.
func checkLaw(p, s string) (string, string) {
	if d := globfuzz.SelfCheck(p, s); d != "" {
		panic(d)
	}
	for _, desc := range []bool{false, true} {
		if d := globfuzz.Law(p, s, desc); d != "" {
			return lawKey("limits", p), d
		}
	}
	if d := globfuzz.MatchAgrees(p, s); d != "" {
		return lawKey("match", p), d
	}
	return "", ""
}

func runLawCase(t failer, c *ev.Collector, d lawCase) {
	p := string(d.Pattern)
	for _, n := range d.Names {
		if key, what := checkLaw(p, string(n)); key != "" {
			c.Fail(t, key, what, d)
		}
	}
}

func TestC12_GlobLimitsLaw(t *testing.T) {
	c := ev.New("C12", "globlaw", "exploration")
	t.Cleanup(c.Flush)
	c.Rule("in-package: patterns from a grammar (escaped/plain literals over letters, 0x00 0x01 0xfe 0xff, multi-byte runes and the metacharacters; * ? [..] with ranges, negation and escapes; 1-5 elements so the first metacharacter or escape falls on every position including 0; 1 in 12 arbitrary byte strings, possibly malformed) and names built around each pattern (instances, one-byte mutations to +-1/0x00/0xff, extensions, truncations, and the neighbours of the literal prefix at byte value +-1, +0x00, +0xff). Checked per pair: model.GlobMatch(p,s) => s inside glob.Parse(p,desc).Limits as the consumers read them (asc: lo <= s and (s < hi or hi == \"\"); desc: (s <= lo or lo == \"\") and s > hi; both empty = everything), for both directions, and glob.Match(p,s) == model.GlobMatch(p,s). Non-trivial: the name matches and the pattern has a metacharacter or escape in its first two bytes or a literal prefix ending in 0x00/0x01/0xfe/0xff; distinct by (pattern, name).")
	known := ev.KnownActive(findFF)
	nNames := 8
	ev.Rapid("globlaw", ev.Pick(60000, 400000))
	rapid.Check(t, func(rt *rapid.T) {
		p := drawPattern(rt)
		if known && globfuzz.PrefixEndsFF(p.text) {
			c.Excluded(findFF)
			// keep the case but move the prefix end away from 0xff
			return
		}
		names := drawNames(rt, []pat{p}, nNames, true)
		c.Case()
		d := lawCase{Pattern: bstr(p.text), Names: bs(names)}
		valid := model.GlobValid(p.text)
		if !valid {
			c.Label("malformed-pattern(impl-mirrored: matches nothing)")
		}
		if metaEarly(p.text) {
			c.Label("meta-or-escape-in-first-2-bytes")
		}
		if len(p.text) > 0 && isMeta(p.text[0]) {
			c.Label("meta-or-escape-first")
		}
		if edgePrefix(p.text) {
			c.Label("prefix-ends-in-edge-byte")
		}
		matched := 0
		for _, n := range names {
			if key, what := checkLaw(p.text, n); key != "" {
				c.Fail(rt, key, what, d)
			}
			if _, certain := globfuzz.Ref(p.text, n); !certain {
				c.Label("pair-skipped-for-matcher-agreement(star could split a multi-byte character)")
			}
			if model.GlobMatch(p.text, n) {
				matched++
				if metaEarly(p.text) || edgePrefix(p.text) {
					c.NonTrivial(p.text + "\x00" + n)
				}
			}
		}
		c.LabelN("pairs", len(names))
		c.LabelN("pairs-matching", matched)
		if matched > 0 && matched < len(names) {
			c.Label("pattern-separates-its-names")
		}
		if c.WantSample() && matched > 0 && metaEarly(p.text) {
			c.Sample(map[string]any{"pattern": q(p.text), "names": qs(names), "matching": matched})
		}
	})
}

// exhaustive enumeration over a small alphabet ---------------------------------

var exhPatAlpha = []byte{'a', 'b', '*', '?', '[', ']', '^', '-', '\\', 0x00, 0xff}
var exhNameAlpha = []byte{'a', 'b', 0x00, 0xff, '*', '[', '-'}

func enumStrings(alpha []byte, maxLen int, f func(s string)) {
	var rec func(prefix []byte)
	rec = func(prefix []byte) {
		if len(prefix) > 0 {
			f(string(prefix))
		}
		if len(prefix) == maxLen {
			return
		}
		for _, b := range alpha {
			rec(append(prefix, b))
		}
	}
	rec(nil)
}

func TestC12_GlobLimitsExhaustive(t *testing.T) {
	c := ev.New("C12", "globlaw-exhaustive", "exploration")
	t.Cleanup(c.Flush)
	maxPat := ev.Pick(3, 5)
	c.Rule(fmt.Sprintf("in-package, exhaustive: every pattern of length 1..%d over {a b * ? [ ] ^ - \\ 0x00 0xff} (split over the shards by index) against every name of length 0..3 over {a b 0x00 0xff * [ -}: limits law in both directions and matcher agreement. Non-trivial: matching pair whose pattern has a metacharacter/escape in its first two bytes or an edge-byte prefix.", maxPat))
	known := ev.KnownActive(findFF)
	var names []string
	names = append(names, "")
	enumStrings(exhNameAlpha, 3, func(s string) { names = append(names, s) })
	idx := 0
	patterns := 0
	failed := false
	enumStrings(exhPatAlpha, maxPat, func(p string) {
		idx++
		if failed || idx%ev.Shards() != ev.Shard() {
			return
		}
		if known && globfuzz.PrefixEndsFF(p) {
			c.Excluded(findFF)
			return
		}
		patterns++
		early := metaEarly(p) || edgePrefix(p)
		for _, n := range names {
			if key, what := checkLaw(p, n); key != "" {
				c.Violation(key, what, lawCase{Pattern: bstr(p), Names: []bstr{bstr(n)}})
				t.Errorf("VIOLATION-CANDIDATE key=%s: %s", key, what)
				failed = true
				return
			}
			if early && model.GlobMatch(p, n) {
				c.NonTrivial(p + "\x00" + n)
			}
		}
	})
	c.Cases(patterns * len(names))
	c.LabelN("patterns", patterns)
	c.Exhaustive(!failed)
}

// native fuzzing (thorough tier) -------------------------------------------------

var failingInputRE = regexp.MustCompile(`(?m)Failing input written to (\S+)`)

// the two failure messages of the fuzz target both quote the pattern first and the name second
var seedFailureRE = regexp.MustCompile(`(?:limits-law: pattern |match-mismatch: glob\.Match\()("(?:[^"\\]|\\.)*")(?: matches name |, )("(?:[^"\\]|\\.)*")`)

// readCorpusFile decodes a "go test fuzz v1" corpus entry with the argument
// list (string, string, bool).
func readCorpusFile(path string) (p, s string, desc bool, err error) {
	f, err := os.Open(path)
	if err != nil {
		return "", "", false, err
	}
	defer f.Close()
	sc := bufio.NewScanner(f)
	var vals []string
	for sc.Scan() {
		line := strings.TrimSpace(sc.Text())
		if strings.HasPrefix(line, "go test fuzz") || line == "" {
			continue
		}
		vals = append(vals, line)
	}
	if len(vals) != 3 {
		return "", "", false, fmt.Errorf("unexpected corpus entry %q", vals)
	}
	un := func(v string) (string, error) {
		v = strings.TrimSuffix(strings.TrimPrefix(v, "string("), ")")
		return strconv.Unquote(v)
	}
	if p, err = un(vals[0]); err != nil {
		return
	}
	if s, err = un(vals[1]); err != nil {
		return
	}
	desc = strings.Contains(vals[2], "true")
	return
}

func TestC12_FuzzGlobLimits(t *testing.T) {
	if !ev.Thorough() {
		t.Skip("native fuzzing runs in the thorough tier only")
	}
	if ev.Shard()%4 != 0 {
		t.Skip("native fuzzing runs on every fourth shard")
	}
	c := ev.New("C12", "fuzz", "exploration")
	t.Cleanup(c.Flush)
	c.Rule("native coverage-guided fuzzing (go test -fuzz=FuzzGlobLimits, bounded by -fuzztime) of (pattern, name, desc) byte strings against the limits law and the matcher agreement; a crasher is re-evaluated in this process before it is reported. Evaluations = executions reported by the fuzzing engine.")
	harness := filepath.Join(os.Getenv("VERIF_DIR"), "harness")
	if os.Getenv("VERIF_DIR") == "" {
		harness = "/verif/harness"
	}
	fuzzTime := "90s"
	if v := os.Getenv("C12_FUZZTIME"); v != "" {
		fuzzTime = v
	}
	// crashers land in the fuzz package's testdata directory, which is
	// emptied again below; the engine's corpus cache lives under GOCACHE/fuzz.
	pkgDir := filepath.Join(harness, "props", "c12", "globfuzz")
	crashDir := filepath.Join(pkgDir, "testdata", "fuzz", "FuzzGlobLimits")
	args := []string{"test", "-tags", "verif", "-vet=off"}
	if ov := os.Getenv("VERIF_OVERLAY"); ov != "" {
		args = append(args, "-overlay", ov)
	}
	args = append(args, "./props/c12/globfuzz", "-run", "^$", "-fuzz", "^FuzzGlobLimits$",
		"-fuzztime", fuzzTime, "-parallel", "2")
	cmd := exec.Command("go", args...)
	cmd.Dir = harness
	var out bytes.Buffer
	cmd.Stdout, cmd.Stderr = &out, &out
	runErr := cmd.Run()
	text := out.String()
	execs := 0
	for _, m := range regexp.MustCompile(`execs: (\d+)`).FindAllStringSubmatch(text, -1) {
		if n, _ := strconv.Atoi(m[1]); n > execs {
			execs = n
		}
	}
	c.Cases(execs)
	if runErr == nil {
		if execs == 0 {
			c.Inconclusive("fuzzing engine reported no executions: %s", tail(text, 400))
		}
		return
	}
	var p, s string
	if m := failingInputRE.FindStringSubmatch(text); m != nil {
		path := m[1]
		if !filepath.IsAbs(path) {
			path = filepath.Join(pkgDir, path)
		}
		var err error
		p, s, _, err = readCorpusFile(path)
		os.Remove(path)
		os.Remove(crashDir) // only succeeds when empty
		os.Remove(filepath.Dir(crashDir))
		os.Remove(filepath.Dir(filepath.Dir(crashDir)))
		if err != nil {
			c.Inconclusive("cannot decode the failing input %s: %v", path, err)
			return
		}
	} else if m := seedFailureRE.FindStringSubmatch(text); m != nil {
		// a seed corpus entry failed: no file is written, the message carries the pair
		var err1, err2 error
		p, err1 = strconv.Unquote(m[1])
		s, err2 = strconv.Unquote(m[2])
		if err1 != nil || err2 != nil {
			c.Inconclusive("cannot decode the failing seed from %s", tail(text, 400))
			return
		}
	} else {
		c.Inconclusive("go test -fuzz ended with %v without a failing input (engine/budget problem): %s", runErr, tail(text, 600))
		return
	}
	if ev.KnownActive(findFF) && globfuzz.PrefixEndsFF(p) {
		c.Inconclusive("fuzzer reported an excluded shape")
		return
	}
	key, what := checkLaw(p, s)
	if key == "" {
		c.Inconclusive("failing input %s / %s does not reproduce in-process: %s", q(p), q(s), tail(text, 400))
		return
	}
	c.Violation(key, what, lawCase{Pattern: bstr(p), Names: []bstr{bstr(s)}})
	t.Errorf("VIOLATION-CANDIDATE key=%s: %s", key, what)
}

func tail(s string, n int) string {
	if len(s) > n {
		return s[len(s)-n:]
	}
	return s
}

// TestCorpusDecode keeps the decoder of fuzz-engine crasher files honest (it
// is only exercised otherwise when the engine actually finds something).
func TestCorpusDecode(t *testing.T) {
	f := filepath.Join(t.TempDir(), "crasher")
	body := "go test fuzz v1\nstring(\"a\\xff*\")\nstring(\"a\\xffz \\\"q\\\"\")\nbool(true)\n"
	if err := os.WriteFile(f, []byte(body), 0o644); err != nil {
		t.Fatal(err)
	}
	p, s, desc, err := readCorpusFile(f)
	if err != nil || p != "a\xff*" || s != "a\xffz \"q\"" || !desc {
		t.Fatalf("decoded %q %q %v %v", p, s, desc, err)
	}
	m := seedFailureRE.FindStringSubmatch(`fuzz_test.go:35: match-mismatch: glob.Match("a\"*", "a\"b") = false (err <nil>), reference matcher says true`)
	if m == nil || m[1] != `"a\"*"` || m[2] != `"a\"b"` {
		t.Fatalf("seed failure message not recognised: %q", m)
	}
}

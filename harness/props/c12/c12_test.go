// C12: filters mean what they say; range and count shortcuts never change
// results. Black-box differential checks of MATCH / WHERE / WHEREIN / KEYS /
// PDEL / HOOKS / CHANS / PDELHOOK / PDELCHAN against client-side filtering
// with independent reference implementations (model.GlobMatch, model.NormField
// and its order), COUNT == len(IDS), ASC/DESC reversal, plus the in-package law
// between glob matching and the id-range shortcut of internal/glob.
package c12

import (
	"encoding/json"
	"fmt"
	"os"
	"strconv"
	"strings"
	"testing"

	"github.com/tidwall/tile38/verif/harness/ev"
	"github.com/tidwall/tile38/verif/harness/t38"
)

// Finding ids this property knows about.
const (
	findFF        = "glob-limits-0xff"           // suspected, cannot be repaired (glob_test.go pins the limits)
	findLower     = "where-comparand-lowercased" // suspected
	findLeadMeta  = "glob-limits-leading-meta"   // fixed f17b9c0
	findSearchCnt = "search-count-shortcut"      // fixed 941d09b
	findCountLim  = "count-shortcut-ignores-limit" // fixed 5131212
	findNaN       = "nan-field-matches-everything"     // fixed 397446d
	findCurOver   = "count-shortcut-cursor-overflow"   // fixed 75824dd
	findDotted    = "dotted-field-lookup-stops-early"  // fixed 964544a (listed under C01)
	findExprZ     = "where-expr-lacks-z"               // fixed c3b3792
	findExprInf   = "where-expr-nonfinite-field-is-string" // fixed c82202c
	findPadded    = "field-name-padded-unreadable"         // fixed 067660e (listed under C01)
	findShadow    = "field-dotted-name-shadowed"           // fixed cba05d0 (listed under C01)
)

const big = "1000000" // an explicit LIMIT no generated collection reaches (the default limit is 100)

var (
	srv  *t38.Srv
	conn *t38.Conn
)

func TestMain(m *testing.M) {
	var err error
	srv, err = t38.Start(t38.Opts{})
	if err != nil {
		fmt.Fprintln(os.Stderr, "cannot start server:", err)
		os.Exit(2)
	}
	conn = srv.MustDial()
	code := m.Run()
	srv.Stop()
	os.Exit(code)
}

// recycle bounds the size of the append-only file: every 5000 cases the
// server is replaced by a fresh one with an empty data directory.
var caseCount int

func recycle() {
	caseCount++
	if caseCount%5000 != 0 {
		return
	}
	conn.Close()
	dir := srv.Dir
	srv.Stop()
	os.RemoveAll(dir)
	var err error
	srv, err = t38.Start(t38.Opts{})
	if err != nil {
		panic("cannot restart server: " + err.Error())
	}
	conn = srv.MustDial()
}

// bstr is a byte string that survives JSON (replay files, samples): it is
// stored as its Go-quoted ASCII form.
type bstr string

func (b bstr) MarshalJSON() ([]byte, error) {
	return json.Marshal(strconv.QuoteToASCII(string(b)))
}

func (b *bstr) UnmarshalJSON(d []byte) error {
	var q string
	if err := json.Unmarshal(d, &q); err != nil {
		return err
	}
	s, err := strconv.Unquote(q)
	if err != nil {
		return fmt.Errorf("bad quoted string %q: %v", q, err)
	}
	*b = bstr(s)
	return nil
}

func bs(xs []string) []bstr {
	out := make([]bstr, len(xs))
	for i, x := range xs {
		out[i] = bstr(x)
	}
	return out
}

func ss(xs []bstr) []string {
	out := make([]string, len(xs))
	for i, x := range xs {
		out[i] = string(x)
	}
	return out
}

func q(s string) string { return strconv.QuoteToASCII(s) }

func qs(xs []string) string {
	var b strings.Builder
	b.WriteByte('[')
	for i, x := range xs {
		if i > 0 {
			b.WriteByte(' ')
		}
		b.WriteString(q(x))
	}
	b.WriteByte(']')
	return b.String()
}

// harnessErr aborts a case for reasons that are not property violations
// (set-up command refused, transport trouble): the test fails without a
// recorded violation, which the driver reports as a harness problem (exit 2).
type failer interface {
	Fatalf(format string, args ...any)
	Helper()
}

func must(t failer, args ...string) t38.Value {
	t.Helper()
	v, err := conn.Do(args...)
	if err != nil {
		panic(fmt.Sprintf("transport error on %s: %v", t38.CmdString(args), err))
	}
	if v.IsErr() {
		panic(fmt.Sprintf("set-up command refused: %s -> %s", t38.CmdString(args), v.String()))
	}
	return v
}

// reply kinds of the query commands -----------------------------------------

// idsOf parses the RESP reply of an IDS query: [cursor, [id | [id dist] ...]].
func idsOf(v t38.Value) (ids []string, cursor int64, err error) {
	if v.Kind != '*' || len(v.Arr) != 2 || v.Arr[0].Kind != ':' || v.Arr[1].Kind != '*' {
		return nil, 0, fmt.Errorf("not a [cursor, items] reply: %s", v.String())
	}
	for _, e := range v.Arr[1].Arr {
		switch {
		case e.Kind == '$' && !e.Null:
			ids = append(ids, e.Str)
		case e.Kind == '*' && len(e.Arr) >= 1 && e.Arr[0].Kind == '$':
			ids = append(ids, e.Arr[0].Str)
		default:
			return nil, 0, fmt.Errorf("unexpected item %s", e.String())
		}
	}
	return ids, v.Arr[0].Int, nil
}

// query is one search command in parts, so that variants (output, LIMIT,
// CURSOR, DESC, with/without filters) can be assembled from it.
type query struct {
	Cmd     string   `json:"cmd"` // SCAN SEARCH WITHIN INTERSECTS NEARBY
	Key     bstr     `json:"key"`
	Filters [][]bstr `json:"filters,omitempty"` // each: MATCH p | WHERE ... | WHEREIN ...
	Area    []bstr   `json:"area,omitempty"`    // after the output keyword
}

type variant struct {
	Filters bool
	Desc    bool
	Limit   string // "" = none
	Cursor  string // "" = none
	Output  string // IDS or COUNT
}

func (qu query) args(v variant) []string {
	a := []string{qu.Cmd, string(qu.Key)}
	if v.Filters {
		for _, f := range qu.Filters {
			a = append(a, ss(f)...)
		}
	}
	if v.Cursor != "" {
		a = append(a, "CURSOR", v.Cursor)
	}
	if v.Limit != "" {
		a = append(a, "LIMIT", v.Limit)
	}
	if v.Desc {
		a = append(a, "DESC")
	}
	a = append(a, v.Output)
	return append(a, ss(qu.Area)...)
}

func (qu query) ordered() bool { return qu.Cmd == "SCAN" || qu.Cmd == "SEARCH" }

func runIDs(args []string) ([]string, int64, error) {
	v, err := conn.Do(args...)
	if err != nil {
		return nil, 0, fmt.Errorf("transport: %v", err)
	}
	if v.IsErr() {
		return nil, 0, fmt.Errorf("error reply %s", v.String())
	}
	return idsOf(v)
}

func runCount(args []string) (int64, error) {
	v, err := conn.Do(args...)
	if err != nil {
		return 0, fmt.Errorf("transport: %v", err)
	}
	if v.Kind != ':' {
		return 0, fmt.Errorf("COUNT reply is not an integer: %s", v.String())
	}
	return v.Int, nil
}

func reversed(xs []string) []string {
	out := make([]string, len(xs))
	for i, x := range xs {
		out[len(xs)-1-i] = x
	}
	return out
}

func sameSeq(a, b []string) bool {
	if len(a) != len(b) {
		return false
	}
	for i := range a {
		if a[i] != b[i] {
			return false
		}
	}
	return true
}

func head(xs []string, n int) []string {
	if n < len(xs) {
		return xs[:n]
	}
	return xs
}

// mismatch is what a relation check found wrong.
type mismatch struct {
	rel  string // which relation: ids, desc, count, limit-ids, limit-count, cursor-count, parse
	what string
}

// relations checks, for one query and the expected ascending sequence exp of
// its filtered result: IDS == exp; DESC == reverse(exp) (SCAN/SEARCH);
// COUNT == len(exp); LIMIT l IDS == exp[:l] and LIMIT l COUNT == min(l, len);
// CURSOR c COUNT == len(CURSOR c IDS). limit and cursor come from the case.
func relations(qu query, exp []string, limit, cursor int, withDesc bool) *mismatch {
	lim := strconv.Itoa(limit)
	got, cur, err := runIDs(qu.args(variant{Filters: true, Limit: big, Output: "IDS"}))
	if err != nil {
		return &mismatch{"parse", err.Error()}
	}
	if !sameSeq(got, exp) {
		return &mismatch{"ids", fmt.Sprintf("%s returned %s, client-side filtering of the unfiltered reply gives %s",
			t38.CmdString(qu.args(variant{Filters: true, Limit: big, Output: "IDS"})), qs(got), qs(exp))}
	}
	if cur != 0 {
		return &mismatch{"ids", fmt.Sprintf("unlimited query returned cursor %d", cur)}
	}
	n, err := runCount(qu.args(variant{Filters: true, Output: "COUNT"}))
	if err != nil {
		return &mismatch{"parse", err.Error()}
	}
	if int(n) != len(exp) {
		return &mismatch{"count", fmt.Sprintf("%s = %d but the same query returns %d ids %s",
			t38.CmdString(qu.args(variant{Filters: true, Output: "COUNT"})), n, len(exp), qs(exp))}
	}
	if limit > 0 {
		got, _, err = runIDs(qu.args(variant{Filters: true, Limit: lim, Output: "IDS"}))
		if err != nil {
			return &mismatch{"parse", err.Error()}
		}
		if !sameSeq(got, head(exp, limit)) {
			return &mismatch{"limit-ids", fmt.Sprintf("%s returned %s, expected the first %d of %s",
				t38.CmdString(qu.args(variant{Filters: true, Limit: lim, Output: "IDS"})), qs(got), limit, qs(exp))}
		}
		n, err = runCount(qu.args(variant{Filters: true, Limit: lim, Output: "COUNT"}))
		if err != nil {
			return &mismatch{"parse", err.Error()}
		}
		if int(n) != len(head(exp, limit)) {
			return &mismatch{"limit-count", fmt.Sprintf("%s = %d but the same query returns %d ids",
				t38.CmdString(qu.args(variant{Filters: true, Limit: lim, Output: "COUNT"})), n, len(head(exp, limit)))}
		}
	}
	if cursor > 0 {
		cs := strconv.Itoa(cursor)
		got, _, err = runIDs(qu.args(variant{Filters: true, Cursor: cs, Limit: big, Output: "IDS"}))
		if err != nil {
			return &mismatch{"parse", err.Error()}
		}
		n, err = runCount(qu.args(variant{Filters: true, Cursor: cs, Output: "COUNT"}))
		if err != nil {
			return &mismatch{"parse", err.Error()}
		}
		if int(n) != len(got) {
			return &mismatch{"cursor-count", fmt.Sprintf("%s = %d but the same query returns %d ids %s",
				t38.CmdString(qu.args(variant{Filters: true, Cursor: cs, Output: "COUNT"})), n, len(got), qs(got))}
		}
	}
	if withDesc && qu.ordered() {
		got, _, err = runIDs(qu.args(variant{Filters: true, Desc: true, Limit: big, Output: "IDS"}))
		if err != nil {
			return &mismatch{"parse", err.Error()}
		}
		if !sameSeq(got, reversed(exp)) {
			return &mismatch{"desc", fmt.Sprintf("%s returned %s, the reverse of the ascending result is %s",
				t38.CmdString(qu.args(variant{Filters: true, Desc: true, Limit: big, Output: "IDS"})), qs(got), qs(reversed(exp)))}
		}
		n, err = runCount(qu.args(variant{Filters: true, Desc: true, Output: "COUNT"}))
		if err != nil {
			return &mismatch{"parse", err.Error()}
		}
		if int(n) != len(exp) {
			return &mismatch{"count", fmt.Sprintf("%s = %d but the same query returns %d ids",
				t38.CmdString(qu.args(variant{Filters: true, Desc: true, Output: "COUNT"})), n, len(exp))}
		}
		if limit > 0 {
			got, _, err = runIDs(qu.args(variant{Filters: true, Desc: true, Limit: lim, Output: "IDS"}))
			if err != nil {
				return &mismatch{"parse", err.Error()}
			}
			if !sameSeq(got, head(reversed(exp), limit)) {
				return &mismatch{"limit-ids", fmt.Sprintf("%s returned %s, expected the first %d of %s",
					t38.CmdString(qu.args(variant{Filters: true, Desc: true, Limit: lim, Output: "IDS"})), qs(got), limit, qs(reversed(exp)))}
			}
		}
	}
	return nil
}

// unfiltered returns the ascending sequence of the query without filters.
func unfiltered(qu query) ([]string, error) {
	ids, _, err := runIDs(qu.args(variant{Limit: big, Output: "IDS"}))
	return ids, err
}

// probe runs a deterministic check for a listed (or suspected) finding.
// fails returns "" when the behaviour is correct.
func probe(t *testing.T, c *ev.Collector, id string, fails func() string) {
	t.Helper()
	c.Case()
	what := fails()
	if what == "" {
		c.Label("probe-ok:" + id)
		return
	}
	if ev.KnownActive(id) {
		c.Label("probe-known:" + id)
		c.Known(id, what)
		return
	}
	c.Violation(id, what, map[string]any{"probe": id})
	t.Errorf("VIOLATION-CANDIDATE key=%s: %s", id, what)
}

func TestC12_Probes(t *testing.T) {
	c := ev.New("C12", "probes", "exploration")
	t.Cleanup(c.Flush)
	c.Rule("deterministic regression probes, one per finding of this property: the repaired ones (glob-limits-leading-meta, search-count-shortcut, count-shortcut-ignores-limit) must pass, as must nan-field-matches-everything, count-shortcut-cursor-overflow, dotted-field-lookup-stops-early, where-expr-lacks-z, where-expr-nonfinite-field-is-string, field-name-padded-unreadable and field-dotted-name-shadowed (found by code readers, repaired); the suspected ones (glob-limits-0xff, where-comparand-lowercased) are reported under their id, or as KNOWN-FINDING once listed")
	runProbes(t, c)
}

func TestReplay(t *testing.T) {
	doc, ok := ev.ReplayFile()
	if !ok {
		t.Skip("no replay file")
	}
	c := ev.New("C12", "replay", "exploration")
	t.Cleanup(c.Flush)
	c.Case()
	switch doc.Check {
	case "globlaw", "globlaw-exhaustive", "fuzz":
		var d lawCase
		if err := json.Unmarshal(doc.Data, &d); err != nil {
			t.Fatalf("bad replay data: %v", err)
		}
		runLawCase(t, c, d)
	case "match":
		var d matchCase
		if err := json.Unmarshal(doc.Data, &d); err != nil {
			t.Fatalf("bad replay data: %v", err)
		}
		runMatchCase(t, c, d)
	case "names":
		var d namesCase
		if err := json.Unmarshal(doc.Data, &d); err != nil {
			t.Fatalf("bad replay data: %v", err)
		}
		runNamesCase(t, c, d)
	case "where":
		var d whereCase
		if err := json.Unmarshal(doc.Data, &d); err != nil {
			t.Fatalf("bad replay data: %v", err)
		}
		runWhereCase(t, c, d)
	case "count":
		var d countCase
		if err := json.Unmarshal(doc.Data, &d); err != nil {
			t.Fatalf("bad replay data: %v", err)
		}
		runCountCase(t, c, d)
	case "probes":
		runProbes(t, c)
	default:
		t.Fatalf("unknown check %q", doc.Check)
	}
}

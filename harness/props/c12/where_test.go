package c12

import (
	"bytes"
	"encoding/json"
	"fmt"
	"strconv"
	"strings"
	"testing"

	"github.com/tidwall/tile38/verif/harness/ev"
	"github.com/tidwall/tile38/verif/harness/gen"
	"github.com/tidwall/tile38/verif/harness/model"
	"github.com/tidwall/tile38/verif/harness/t38"
	"pgregory.net/rapid"
)

// datasets ---------------------------------------------------------------------

type objSpec struct {
	ID     bstr      `json:"id"`
	Kind   int       `json:"kind"` // 0 string, 1 point, 2 bounds, 3 polygon object, 4 POINT with z, 5 Feature(Point with z), 6 Point geometry with z, 7 MultiPoint with z (reads z = 0)
	Z      string    `json:"z,omitempty"` // third coordinate of kinds 4-7
	Lat    int       `json:"lat"`
	Lon    int       `json:"lon"`
	Size   int       `json:"size"`   // extent of bounds/polygon in degrees
	Fields [][2]bstr `json:"fields"` // name, value text as sent
}

func (o objSpec) setArgs(key string) []string {
	a := []string{"SET", key, string(o.ID)}
	for _, f := range o.Fields {
		a = append(a, "FIELD", string(f[0]), string(f[1]))
	}
	switch o.Kind {
	case 0:
		a = append(a, "STRING", "value of "+string(o.ID))
	case 1:
		a = append(a, "POINT", strconv.Itoa(o.Lat), strconv.Itoa(o.Lon))
	case 2:
		a = append(a, "BOUNDS", strconv.Itoa(o.Lat), strconv.Itoa(o.Lon), strconv.Itoa(o.Lat+o.Size), strconv.Itoa(o.Lon+o.Size))
	case 4:
		a = append(a, "POINT", strconv.Itoa(o.Lat), strconv.Itoa(o.Lon), o.Z)
	case 5:
		a = append(a, "OBJECT", fmt.Sprintf(`{"type":"Feature","geometry":{"type":"Point","coordinates":[%d,%d,%s]},"properties":{"tag":"t"}}`, o.Lon, o.Lat, o.Z))
	case 6:
		a = append(a, "OBJECT", fmt.Sprintf(`{"type":"Point","coordinates":[%d,%d,%s]}`, o.Lon, o.Lat, o.Z))
	case 7:
		a = append(a, "OBJECT", fmt.Sprintf(`{"type":"MultiPoint","coordinates":[[%d,%d,%s]]}`, o.Lon, o.Lat, o.Z))
	default:
		x0, y0, x1, y1 := o.Lon, o.Lat, o.Lon+o.Size, o.Lat+o.Size
		a = append(a, "OBJECT", fmt.Sprintf(`{"type":"Polygon","coordinates":[[[%d,%d],[%d,%d],[%d,%d],[%d,%d],[%d,%d]]]}`,
			x0, y0, x1, y0, x1, y1, x0, y1, x0, y0))
	}
	return a
}

// fieldOf is the reference reading of a field: normalised text, missing = 0.
func (o objSpec) fieldOf(name string) model.FVal {
	// names are stored and looked up without the white space around them
	name = strings.TrimSpace(name)
	// z is the reserved name of the third coordinate of a point (or of a
	// Feature around a point); every other object reads 0
	if name == "z" {
		if o.Kind >= 4 && o.Kind <= 6 {
			if f, err := strconv.ParseFloat(o.Z, 64); err == nil {
				return model.NormField(strconv.FormatFloat(f, 'f', -1, 64))
			}
		}
		return model.ZeroFVal
	}
	// a stored field of exactly this name wins (a zero value is not stored)
	if v, ok := o.plainField(name); ok && !v.IsZero() {
		return v
	}
	// otherwise a dotted name is a path into the JSON document of the field
	// named by the part before the first dot
	if dot := strings.IndexByte(name, '.'); dot != -1 {
		if doc, ok := o.plainField(name[:dot]); ok && doc.Kind == model.KJSON {
			if v, ok := jsonMember(doc.Data, name[dot+1:]); ok {
				return v
			}
		}
	}
	return model.ZeroFVal
}

func (o objSpec) plainField(name string) (model.FVal, bool) {
	v, ok := model.ZeroFVal, false
	for _, f := range o.Fields {
		if strings.TrimSpace(string(f[0])) == name {
			v, ok = model.NormField(string(f[1])), true // the last FIELD clause of a SET wins
		}
	}
	return v, ok
}

// jsonMember follows a path of plain object keys / array indexes (the only
// path syntax the generator uses) through a JSON document.
func jsonMember(doc, path string) (model.FVal, bool) {
	raw := json.RawMessage(doc)
	for _, key := range strings.Split(path, ".") {
		var obj map[string]json.RawMessage
		var arr []json.RawMessage
		switch {
		case json.Unmarshal(raw, &obj) == nil && obj != nil:
			next, ok := obj[key]
			if !ok {
				return model.FVal{}, false
			}
			raw = next
		case json.Unmarshal(raw, &arr) == nil && arr != nil:
			i, err := strconv.Atoi(key)
			if err != nil || i < 0 || i >= len(arr) || strconv.Itoa(i) != key {
				return model.FVal{}, false
			}
			raw = arr[i]
		default:
			return model.FVal{}, false
		}
	}
	return model.NormField(string(raw)), true
}

// field names around the dotted-name lookup: "a" (often a JSON document),
// names that sort right after it and share the prefix, and a JSON-valued field
// whose own name has a dot.
var dottedNames = []string{"a", "a-", "a.b", "a.x", "a/", "j", "j.b"}

// JSON documents for those fields: plain alphanumeric keys, no duplicate keys,
// no string members spelled like numbers' special values.
var dottedDocs = []string{
	`{"x":5,"y":"Blue","b":{"x":7,"y":"q"},"z":[1,2.5,"s"]}`, `{"x":1.0,"b":true}`, `{"x":"5"}`,
	`{"x":null,"y":false}`, `{"x":{"k":1}}`, `{"y":1}`, `[1,2]`, `{"b":{"x":7,"y":"q"}}`,
}

// documents for the field j: most have a member b, which a plain field named
// j.b (holding another value) must shadow
var shadowDocs = []string{`{"b":1}`, `{"b":1}`, `{"b":"Blue","c":2}`, `{"b":{"x":7}}`, `{"c":2}`, `{"b":7}`}

// names a filter may use when the dataset carries the dotted fields
var dottedFilterNames = []string{"a.x", "a.x", "a.b", "a.y", "a.b.x", "a.b.y", "a.z", "a.z.1", "a.0", "a-.x", "a-", "a", "a/", "a.q", "a.x.k", "j.b", "j.b", "j.b", "j.b.x", "j.c", "j"}

var dottedComparands = []string{"5", "7", "1", "1.0", "2.5", "Blue", "blue", "q", "s", "true", "false", "null", `{"x":7,"y":"q"}`, `[1,2.5,"s"]`, `{"k":1}`, "0"}

// dottedName: one of the names around the dotted lookup (a..., j...)
func dottedName(name string) bool {
	name = strings.TrimSpace(name)
	return strings.HasPrefix(name, "a") || strings.HasPrefix(name, "j")
}

func hasDottedFields(objs []objSpec) bool {
	for _, o := range objs {
		for _, f := range o.Fields {
			if dottedName(string(f[0])) {
				return true
			}
		}
	}
	return false
}

// extra field values: upper-case spellings whose meaning changes when folded
// to lower case (the shape of finding where-comparand-lowercased) and a few
// more of every kind.
var extraFieldValues = []string{"NaN", "nan", "+Inf", "-inf", "Infinity", "-Infinity", "10", "1e1", "10.0", "100", "1e2", "1.00", "1e0", "Blue", "blue", "BLUE", `"Blue"`, `{"A":1}`, `{"a":1}`, "TRUE", "Null", "É", "é", "ABC", "abc", "aBd", "5", "5.0", "-1", "[1,2]", "[1, 2]", `"abc"`, "a\xffb"}

func drawFieldValue(t *rapid.T) string {
	if rapid.IntRange(0, 3).Draw(t, "extrafv?") == 0 {
		return rapid.SampledFrom(extraFieldValues).Draw(t, "extrafv")
	}
	return gen.FieldValue(t)
}

// third coordinates, also the pool of comparands for filters on z
var zValues = []string{"0", "1", "50", "51", "100", "-5", "2.5", "49.5", "1000", "50"}

// non-finite values for the numeric fields of the expression class and the
// literals an expression can compare with (JavaScript spellings)
var nonFiniteValues = []string{"+Inf", "-Inf", "inf", "-Infinity", "NaN", "nan"}
var nonFiniteLiterals = []string{"Infinity", "-Infinity", "NaN"}

var numericValues = []string{"0", "1", "2", "3", "-1", "-2", "1.5", "2.5", "-0.5", "1e1", "10", "100", "-3"}

func drawObjects(t *rapid.T, min, max int, spread int) []objSpec {
	n := rapid.IntRange(min, max).Draw(t, "nobjs")
	objs := make([]objSpec, n)
	dotted := rapid.IntRange(0, 3).Draw(t, "dottedfields") == 0
	for i := range objs {
		o := objSpec{ID: bstr(fmt.Sprintf("o%02d", i))}
		o.Kind = rapid.SampledFrom([]int{0, 0, 1, 1, 1, 2, 3, 4, 4, 5, 6, 7}).Draw(t, "kind")
		if o.Kind >= 4 {
			o.Z = rapid.SampledFrom(zValues).Draw(t, "z")
		}
		o.Lat = rapid.IntRange(-spread, spread).Draw(t, "lat")
		o.Lon = rapid.IntRange(-spread, spread).Draw(t, "lon")
		o.Size = rapid.IntRange(0, 6).Draw(t, "size")
		if o.Kind == 3 && o.Size == 0 {
			o.Size = 1
		}
		for _, name := range []string{"f", "g"} {
			if rapid.IntRange(0, 3).Draw(t, "has"+name) != 0 {
				if rapid.IntRange(0, 7).Draw(t, "padstored") == 0 {
					name = padName(t, name) // writers store the name without the padding
				}
				o.Fields = append(o.Fields, [2]bstr{bstr(name), bstr(drawFieldValue(t))})
			}
		}
		if dotted {
			for _, name := range dottedNames {
				if rapid.IntRange(0, 1).Draw(t, "hasdotted") == 0 {
					continue
				}
				if name == "j" || name == "j.b" {
					v := rapid.SampledFrom(shadowDocs).Draw(t, "jdoc")
					if name == "j.b" {
						v = rapid.SampledFrom([]string{"7", "7", "Blue", "1", "0", `{"x":9}`}).Draw(t, "jb")
					}
					o.Fields = append(o.Fields, [2]bstr{bstr(name), bstr(v)})
					continue
				}
				var v string
				switch rapid.IntRange(0, 9).Draw(t, "dottedv") {
				case 0, 1, 2, 3, 4, 5:
					if name == "a.x" || name == "a/" {
						v = rapid.SampledFrom(dottedComparands).Draw(t, "dscalar")
					} else {
						v = rapid.SampledFrom(dottedDocs).Draw(t, "ddoc")
					}
				case 6, 7:
					v = rapid.SampledFrom(dottedDocs).Draw(t, "ddoc")
				default:
					v = rapid.SampledFrom(dottedComparands).Draw(t, "dscalar")
				}
				o.Fields = append(o.Fields, [2]bstr{bstr(name), bstr(v)})
			}
		}
		for _, name := range []string{"n1", "n2"} {
			if rapid.IntRange(0, 2).Draw(t, "has"+name) != 0 {
				v := rapid.SampledFrom(numericValues).Draw(t, "numv")
				if rapid.IntRange(0, 5).Draw(t, "nonfinite") == 0 {
					v = rapid.SampledFrom(nonFiniteValues).Draw(t, "nfv")
				}
				o.Fields = append(o.Fields, [2]bstr{bstr(name), bstr(v)})
			}
		}
		objs[i] = o
	}
	return objs
}

func loadObjects(t failer, key string, objs []objSpec) (hasStr, hasGeo bool) {
	recycle()
	must(t, "FLUSHDB")
	for _, o := range objs {
		must(t, o.setArgs(key)...)
		if o.Kind == 0 {
			hasStr = true
		} else {
			hasGeo = true
		}
	}
	return
}

// filters --------------------------------------------------------------------------

type filtSpec struct {
	Kind  string `json:"kind"` // range | op | in | expr
	Field string `json:"field,omitempty"`
	Min   bstr   `json:"min,omitempty"` // range tokens as sent, "(" prefix = exclusive
	Max   bstr   `json:"max,omitempty"`
	Op    string `json:"op,omitempty"`
	Val   bstr   `json:"val,omitempty"`
	Vals  []bstr `json:"vals,omitempty"`
	Terms []term `json:"terms,omitempty"` // expr: n1 op num joined by Conns
	Conns []string `json:"conns,omitempty"`
}

type term struct {
	Field string `json:"field"`
	Op    string `json:"op"`
	Num   string `json:"num"`
}

var ops = []string{"<", "<=", ">", ">=", "==", "!="}

func (f filtSpec) exprText() string {
	var b strings.Builder
	for i, tm := range f.Terms {
		if i > 0 {
			b.WriteString(" " + f.Conns[i-1] + " ")
		}
		b.WriteString(tm.Field + " " + tm.Op + " " + tm.Num)
	}
	return b.String()
}

func (f filtSpec) args() []bstr {
	switch f.Kind {
	case "range":
		return []bstr{"WHERE", bstr(f.Field), f.Min, f.Max}
	case "op":
		return []bstr{"WHERE", bstr(f.Field), bstr(f.Op), f.Val}
	case "in":
		a := []bstr{"WHEREIN", bstr(f.Field), bstr(strconv.Itoa(len(f.Vals)))}
		return append(a, f.Vals...)
	default:
		return []bstr{"WHERE", bstr(f.exprText())}
	}
}

func cmpOp(op string, a, b model.FVal) bool {
	switch op {
	case "<":
		return a.Less(b)
	case "<=":
		return !b.Less(a)
	case ">":
		return b.Less(a)
	case ">=":
		return !a.Less(b)
	case "==":
		return a.Same(b)
	default:
		return !a.Same(b)
	}
}

func cmpNum(op string, a, b float64) bool {
	switch op {
	case "<":
		return a < b
	case "<=":
		return a <= b
	case ">":
		return a > b
	case ">=":
		return a >= b
	case "==":
		return a == b
	default:
		return a != b
	}
}

func bound(tok string) (v model.FVal, exclusive bool) {
	if strings.HasPrefix(tok, "(") {
		return model.NormField(tok[1:]), true
	}
	return model.NormField(tok), false
}

// pass is the reference meaning of a filter for one object.
func (f filtSpec) pass(o objSpec) bool {
	switch f.Kind {
	case "range":
		v := o.fieldOf(f.Field)
		lo, lox := bound(string(f.Min))
		hi, hix := bound(string(f.Max))
		if lox {
			if !lo.Less(v) {
				return false
			}
		} else if v.Less(lo) {
			return false
		}
		if hix {
			if !v.Less(hi) {
				return false
			}
		} else if hi.Less(v) {
			return false
		}
		return true
	case "op":
		return cmpOp(f.Op, o.fieldOf(f.Field), model.NormField(string(f.Val)))
	case "in":
		v := o.fieldOf(f.Field)
		for _, x := range f.Vals {
			if v.Same(model.NormField(string(x))) {
				return true
			}
		}
		return false
	default:
		// a || b && c  ==  a || (b && c)
		or := false
		and := true
		for i, tm := range f.Terms {
			num, _ := strconv.ParseFloat(tm.Num, 64)
			r := cmpNum(tm.Op, o.fieldOf(tm.Field).Num, num)
			if i > 0 && f.Conns[i-1] == "||" {
				or = or || and
				and = true
			}
			and = and && r
		}
		return or || and
	}
}

// lowerSensitive: folding the comparand to lower case changes its meaning (the
// triggering shape of finding where-comparand-lowercased).
func lowerSensitive(x string) bool {
	a, b := model.NormField(x), model.NormField(strings.ToLower(x))
	return a.Kind != b.Kind || !a.Same(b)
}

func (f filtSpec) lowerShape() bool {
	switch f.Kind {
	case "range":
		return lowerSensitive(strings.TrimPrefix(string(f.Min), "(")) || lowerSensitive(strings.TrimPrefix(string(f.Max), "("))
	case "op":
		return lowerSensitive(string(f.Val))
	}
	return false
}

// crossKind: the filter compares a field value with a comparand of another kind.
func (f filtSpec) crossKind(objs []objSpec) bool {
	var cs []model.FVal
	switch f.Kind {
	case "range":
		a, _ := bound(string(f.Min))
		b, _ := bound(string(f.Max))
		cs = []model.FVal{a, b}
	case "op":
		cs = []model.FVal{model.NormField(string(f.Val))}
	case "in":
		for _, x := range f.Vals {
			cs = append(cs, model.NormField(string(x)))
		}
	default:
		return false
	}
	for _, o := range objs {
		for _, cv := range cs {
			if o.fieldOf(f.Field).Kind != cv.Kind {
				return true
			}
		}
	}
	return false
}

// rangeToken turns a comparand text into a token the three-token WHERE form
// accepts as a bound: a bound starting with a letter other than "inf" would
// switch the parser to expression mode, so strings travel JSON-quoted and
// nan/infinity/true/false/null are lower bounds only in the exclusive "(" form.
func rangeToken(text string, isMin bool) (string, bool) {
	v := model.NormField(text)
	switch v.Kind {
	case model.KString:
		b, err := json.Marshal(v.Data)
		if err != nil || !json.Valid(b) {
			return "", false
		}
		var back string
		if json.Unmarshal(b, &back) != nil || back != v.Data {
			return "", false // invalid UTF-8 does not survive quoting
		}
		return string(b), true
	}
	tok := strings.TrimSpace(text)
	if tok == "" || strings.HasPrefix(tok, "(") {
		return "", false
	}
	for _, o := range ops {
		if tok == o {
			return "", false
		}
	}
	if isMin {
		c := tok[0]
		if (c >= 'a' && c <= 'z' || c >= 'A' && c <= 'Z') && strings.ToLower(tok) != "inf" {
			// nan, infinity, true, false, null: only expressible as an
			// exclusive lower bound, the parenthesis hides the letter
			return "(" + tok, true
		}
	}
	return tok, true
}

// respellings returns texts that denote the same value as text under the
// documented normalisation and order (same kind, neither less than the other)
// but are written differently: number spellings (1 / 1.0 / 1e0 / 1e+00, 10 /
// 1e1, 0 / -0 / 0.0), ASCII case variants and the JSON-quoted form of strings,
// padding, re-spaced JSON containers. Every candidate is verified against the
// reference before it is used.
func respellings(text string) []string {
	v := model.NormField(text)
	var cands []string
	trimmed := strings.TrimSpace(text)
	cands = append(cands, " "+trimmed+" ", trimmed)
	switch v.Kind {
	case model.KNumber:
		if v.Num < 1e15 && v.Num > -1e15 { // finite (false for NaN too)
			f := v.Num
			cands = append(cands,
				strconv.FormatFloat(f, 'f', -1, 64),
				strconv.FormatFloat(f, 'e', -1, 64),
				strconv.FormatFloat(f, 'E', -1, 64),
				strconv.FormatFloat(f, 'f', 2, 64))
			if f == float64(int64(f)) {
				n := int64(f)
				cands = append(cands, strconv.FormatInt(n, 10), strconv.FormatInt(n, 10)+".0", strconv.FormatInt(n, 10)+"e0")
				if n != 0 && n%10 == 0 {
					cands = append(cands, strconv.FormatInt(n/10, 10)+"e1")
				}
				if n == 0 {
					cands = append(cands, "0", "-0", "0.0", "-0.0", "0e0")
				}
			} else {
				cands = append(cands, strconv.FormatFloat(f*10, 'f', -1, 64)+"e-1")
			}
		} else {
			cands = append(cands, "inf", "+Inf", "Infinity", "-inf", "-Infinity", "nan", "NaN")
		}
	case model.KString:
		d := v.Data
		cands = append(cands, strings.ToUpper(d), strings.ToLower(d), swapCase(d))
		if b, err := json.Marshal(d); err == nil {
			cands = append(cands, string(b), string(bytes.ToUpper(b[:1]))+string(b[1:]))
		}
	case model.KJSON:
		cands = append(cands, strings.ReplaceAll(v.Data, ",", " , "), strings.ReplaceAll(v.Data, ":", ": "), v.Data)
	}
	var out []string
	seen := map[string]bool{text: true}
	for _, c := range cands {
		if seen[c] {
			continue
		}
		seen[c] = true
		w := model.NormField(c)
		if w.Kind == v.Kind && w.Same(v) {
			out = append(out, c)
		}
	}
	return out
}

func swapCase(s string) string {
	b := []byte(s)
	for i, c := range b {
		switch {
		case c >= 'a' && c <= 'z' && i%2 == 0:
			b[i] = c - 32
		case c >= 'A' && c <= 'Z':
			b[i] = c + 32
		}
	}
	return string(b)
}

// respell replaces a text by an equal-but-different spelling (when one exists).
func respell(t *rapid.T, text string) string {
	alts := respellings(text)
	if len(alts) == 0 {
		return text
	}
	return alts[rapid.IntRange(0, len(alts)-1).Draw(t, "respell")]
}

// list / clause counts around plausible internal thresholds (small fixed
// arrays, 8, 16, 32, 64, "large").
var thresholdCounts = []int{1, 2, 3, 4, 5, 7, 8, 9, 15, 16, 17, 31, 32, 33, 63, 64, 65, 100, 129}

func drawThresholdCount(t *rapid.T, label string, max int) int {
	n := rapid.SampledFrom(thresholdCounts).Draw(t, label)
	if n > max {
		n = max
	}
	return n
}

// drawValueList builds a WHEREIN list of n values: stored values of the field
// under another spelling, stored values as they are, fresh values of every
// kind, and duplicates.
func drawValueList(t *rapid.T, objs []objSpec, field string, n int) []bstr {
	var vals []bstr
	for len(vals) < n {
		switch rapid.IntRange(0, 9).Draw(t, "lv") {
		case 0, 1, 2, 3:
			vals = append(vals, bstr(respell(t, drawComparand(t, objs, field))))
		case 4, 5:
			vals = append(vals, bstr(drawComparand(t, objs, field)))
		case 6:
			if len(vals) > 0 {
				vals = append(vals, vals[rapid.IntRange(0, len(vals)-1).Draw(t, "ldup")])
				continue
			}
			fallthrough
		case 7:
			vals = append(vals, bstr(respell(t, drawFieldValue(t))))
		default:
			vals = append(vals, bstr(drawFieldValue(t)))
		}
	}
	return vals
}

func drawComparand(t *rapid.T, objs []objSpec, field string) string {
	if field == "z" && rapid.IntRange(0, 9).Draw(t, "zcmp") < 8 {
		return rapid.SampledFrom(zValues).Draw(t, "zcmpv")
	}
	if dottedName(field) && rapid.IntRange(0, 9).Draw(t, "dcmp") < 6 {
		return rapid.SampledFrom(dottedComparands).Draw(t, "dcmpv")
	}
	if len(objs) > 0 && rapid.IntRange(0, 9).Draw(t, "cmpfrom") < 6 {
		o := objs[rapid.IntRange(0, len(objs)-1).Draw(t, "cmpobj")]
		for _, f := range o.Fields {
			if string(f[0]) == field {
				return string(f[1])
			}
		}
	}
	return drawFieldValue(t)
}

// padName surrounds a field name with blanks / tabs: names are stored and
// looked up trimmed.
func padName(t *rapid.T, name string) string {
	pads := []string{" ", "\t", "  ", " \t"}
	switch rapid.IntRange(0, 2).Draw(t, "padside") {
	case 0:
		return rapid.SampledFrom(pads).Draw(t, "padl") + name
	case 1:
		return name + rapid.SampledFrom(pads).Draw(t, "padr")
	}
	return rapid.SampledFrom(pads).Draw(t, "padl") + name + rapid.SampledFrom(pads).Draw(t, "padr")
}

func drawFilter(t *rapid.T, c *ev.Collector, objs []objSpec) filtSpec {
	gateLower := ev.KnownActive(findLower)
	fix := func(x string) string {
		if gateLower && lowerSensitive(x) {
			c.Excluded(findLower)
			return strings.ToLower(x)
		}
		return x
	}
	field := rapid.SampledFrom([]string{"f", "f", "g", "n1", "missing", "z"}).Draw(t, "ffield")
	if hasDottedFields(objs) && rapid.IntRange(0, 3).Draw(t, "dottedfilter") != 0 {
		field = rapid.SampledFrom(dottedFilterNames).Draw(t, "dfield")
	}
	if rapid.IntRange(0, 5).Draw(t, "padname") == 0 {
		field = padName(t, field)
	}
	switch rapid.IntRange(0, 9).Draw(t, "fkind") {
	case 0, 1, 2: // range
		f := filtSpec{Kind: "range", Field: field}
		inf := func(lbl string, lo bool) (string, bool) {
			switch rapid.IntRange(0, 5).Draw(t, lbl) {
			case 0:
				if lo {
					return rapid.SampledFrom([]string{"-inf", "-inf", "-inf", "-Infinity", "+inf", "inf"}).Draw(t, lbl+"s"), true
				}
				return rapid.SampledFrom([]string{"+inf", "inf", "+INF", "+inf", "-inf", "NaN", "nan"}).Draw(t, lbl+"s"), true
			}
			return "", false
		}
		for attempt := 0; ; attempt++ {
			mn, ok1 := inf("mininf", true)
			if !ok1 {
				mn, ok1 = rangeToken(fix(drawComparand(t, objs, field)), true)
			}
			mx, ok2 := inf("maxinf", false)
			if !ok2 {
				mx, ok2 = rangeToken(fix(drawComparand(t, objs, field)), false)
			}
			if ok1 && ok2 {
				if rapid.IntRange(0, 2).Draw(t, "minx") == 0 && !strings.HasPrefix(mn, "(") {
					mn = "(" + mn
				}
				if rapid.IntRange(0, 2).Draw(t, "maxx") == 0 {
					mx = "(" + mx
				}
				f.Min, f.Max = bstr(mn), bstr(mx)
				return f
			}
			if attempt > 20 {
				f.Min, f.Max = "0", "10"
				return f
			}
		}
	case 3, 4, 5, 6: // operator
		v := fix(drawComparand(t, objs, field))
		if rapid.IntRange(0, 2).Draw(t, "oprespell") == 0 {
			v = fix(respell(t, v))
		}
		if v == "" {
			v = "0"
		}
		return filtSpec{Kind: "op", Field: field, Op: rapid.SampledFrom(ops).Draw(t, "op"), Val: bstr(v)}
	case 7, 8: // wherein
		f := filtSpec{Kind: "in", Field: field}
		n := 0
		switch rapid.IntRange(0, 9).Draw(t, "ninclass") {
		case 0:
		case 1, 2, 3:
			n = rapid.IntRange(1, 3).Draw(t, "nin")
		default:
			n = drawThresholdCount(t, "ninthr", 200)
		}
		f.Vals = drawValueList(t, objs, field, n)
		return f
	default: // expression over the numeric fields
		n := rapid.IntRange(1, 3).Draw(t, "nterms")
		f := filtSpec{Kind: "expr"}
		for i := 0; i < n; i++ {
			f.Terms = append(f.Terms, term{
				Field: rapid.SampledFrom([]string{"n1", "n2", "nmissing", "z", "z"}).Draw(t, "tfield"),
				Op:    rapid.SampledFrom(ops).Draw(t, "top"),
				Num:   rapid.SampledFrom(numericValues).Draw(t, "tnum"),
			})
			if rapid.IntRange(0, 7).Draw(t, "tnonfinite") == 0 {
				f.Terms[i].Num = rapid.SampledFrom(nonFiniteLiterals).Draw(t, "tnf")
			} else if f.Terms[i].Field == "z" {
				f.Terms[i].Num = rapid.SampledFrom(zValues).Draw(t, "tznum")
			}
			if i > 0 {
				f.Conns = append(f.Conns, rapid.SampledFrom([]string{"&&", "||"}).Draw(t, "conn"))
			}
		}
		return f
	}
}

// WHERE / WHEREIN ----------------------------------------------------------------------

type whereCase struct {
	Objs    []objSpec  `json:"objs"`
	Base    string     `json:"base"`
	Filters []filtSpec `json:"filters"`
	Limit   int        `json:"limit"`
	Cursor  int        `json:"cursor"`
}

func baseQuery(cmd string) query {
	switch cmd {
	case "WITHIN", "INTERSECTS":
		return query{Cmd: cmd, Key: "k", Area: []bstr{"BOUNDS", "-90", "-180", "90", "180"}}
	case "NEARBY":
		return query{Cmd: cmd, Key: "k", Area: []bstr{"POINT", "0", "0"}}
	}
	return query{Cmd: cmd, Key: "k"}
}

func runWhereCase(t failer, c *ev.Collector, d whereCase) (labels []string, nontrivial bool) {
	hasStr, hasGeo := loadObjects(t, "k", d.Objs)
	byID := map[string]objSpec{}
	for _, o := range d.Objs {
		byID[string(o.ID)] = o
	}
	qu := baseQuery(d.Base)
	lower := false
	for _, f := range d.Filters {
		qu.Filters = append(qu.Filters, f.args())
		lower = lower || f.lowerShape()
	}
	key := func(rel string) string {
		if lower && rel != "parse" {
			return findLower
		}
		kinds := ""
		for _, f := range d.Filters {
			kinds += f.Kind + "+"
		}
		return "where-mismatch:" + strings.TrimSuffix(kinds, "+") + ":" + rel
	}
	u, err := unfiltered(qu)
	if err != nil {
		c.Fail(t, key("parse"), err.Error(), d)
	}
	exp := filterSeq(u, func(id string) bool {
		o, ok := byID[id]
		if !ok {
			return false
		}
		for _, f := range d.Filters {
			if !f.pass(o) {
				return false
			}
		}
		return true
	})
	if m := relations(qu, exp, d.Limit, d.Cursor, true); m != nil {
		c.Fail(t, key(m.rel), m.what+" [filters "+t38.CmdString(flatten(qu.Filters))+"]", d)
	}
	cross := false
	for _, f := range d.Filters {
		labels = append(labels, "filter:"+f.Kind)
		if f.Kind == "in" {
			labels = append(labels, "wherein-len:"+bucket(len(f.Vals)))
			if f.respelledHit(d.Objs) {
				labels = append(labels, "wherein-equal-but-differently-spelled-value")
			}
		}
		if f.Kind == "range" {
			if strings.HasPrefix(string(f.Min), "(") || strings.HasPrefix(string(f.Max), "(") {
				labels = append(labels, "range-exclusive-bound")
			}
			if strings.Contains(strings.ToLower(string(f.Min)+string(f.Max)), "inf") {
				labels = append(labels, "range-infinite-bound")
			}
		}
		if f.Kind == "op" {
			labels = append(labels, "op:"+f.Op)
		}
		if dottedName(f.Field) && f.Kind != "expr" {
			labels = append(labels, "filter-on-dotted-or-prefix-sharing-name:"+strings.TrimSpace(f.Field))
			if f.shadowed(d.Objs) {
				labels = append(labels, "exact-name-field-shadows-json-member")
			}
		}
		if f.Kind != "expr" && strings.TrimSpace(f.Field) != f.Field {
			labels = append(labels, "filter-name-padded:"+f.Kind)
		}
		if f.usesNonFinite(d.Objs) {
			labels = append(labels, "nan-or-inf-compared:"+f.Kind)
		}
		if strings.TrimSpace(f.Field) == "z" {
			labels = append(labels, "filter-on-z:"+f.Kind)
		}
		if f.Kind == "expr" && f.exprNonFinite(d.Objs) {
			labels = append(labels, "expression-meets-nan-or-inf")
		}
		for _, tm := range f.Terms {
			if tm.Field == "z" {
				labels = append(labels, "filter-on-z:expr")
				break
			}
		}
		if strings.TrimSpace(f.Field) == "missing" {
			labels = append(labels, "filter-on-missing-field")
		}
		if f.crossKind(d.Objs) {
			cross = true
		}
		if f.lowerShape() {
			labels = append(labels, "comparand-changes-under-lowercasing")
		}
	}
	if cross {
		labels = append(labels, "compares-two-kinds")
	}
	labels = append(labels, "where-clauses:"+bucket(len(d.Filters)))
	labels = append(labels, "base:"+d.Base)
	sep := len(exp) > 0 && len(exp) < len(u)
	if sep {
		labels = append(labels, "filter-separates")
	}
	if hasStr && hasGeo {
		labels = append(labels, "mixed-strings-and-geometries")
	}
	nontrivial = sep && cross && hasStr && hasGeo
	return labels, nontrivial
}

func flatten(fs [][]bstr) []string {
	var out []string
	for _, f := range fs {
		out = append(out, ss(f)...)
	}
	return out
}

func TestC12_Where(t *testing.T) {
	c := ev.New("C12", "where", "exploration")
	t.Cleanup(c.Flush)
	c.Rule("server level: 3-25 objects (strings, points, bounds, polygons, and objects with a third coordinate: POINT lat lon z, Feature around a 3-coordinate Point, 3-coordinate Point geometry, MultiPoint with z (reads 0); filters on the reserved name z in range, operator, WHEREIN and quoted-expression form read that coordinate, 0 for every other object) with fields f,g holding values of every kind (numbers incl. NaN and +-Inf in several spellings, also as comparands of every filter form (as lower bound in the exclusive (nan form), strings of both cases, true/false/null, JSON containers, quoted strings, padded text) or missing, n1,n2 numeric or missing; in 1 of 4 datasets also fields named a, a-, a.b, a.x, a/ (JSON documents and scalars) with filters on a.x, a.b, a.b.x, a.z.1, a-.x, ... read as member of the JSON field a, else the field literally named so; base query SCAN/SEARCH/WITHIN/INTERSECTS (whole world)/NEARBY; 1-3 filters (1 in 8 cases: a clause count from the same threshold set up to 33, extra clauses mostly repeating an earlier one in another spelling) out of WHERE f min max (numbers, +-inf, '(' exclusive bounds, JSON-quoted strings, JSON containers), WHERE f op v for the six operators, WHEREIN f n v.. (n = 0..3, or n drawn from {1-5,7-9,15-17,31-33,63-65,100,129}: stored values under an equal-but-different spelling - 1/1.0/1e0/1e+00, 10/1e1, 0/-0/0.0, ASCII case variants, JSON-quoted strings, padding, re-spaced JSON - stored values as they are, fresh values of every kind, duplicates), WHERE \"n1 op num (&&,||) ..\" (numeric expression class, evaluated by a small evaluator with && binding tighter). Oracle: filtered IDS == [id in the unfiltered reply : every filter holds under model.NormField / Less with missing = 0]; DESC == reverse; COUNT == len(IDS); LIMIT prefix/min; CURSOR c COUNT == len(CURSOR c IDS). Comparands are drawn mostly from the stored values so equality and boundary cases occur. Non-trivial: the filters keep some but not all items, some comparison is between two different kinds, and the collection mixes strings and geometries; distinct by (filters, field values).")
	c.Assume("expression-mode WHERE follows JavaScript semantics for numeric comparisons (every comparison with NaN is false except !=; Infinity / -Infinity / NaN literals) and && / || precedence (tidwall/expr); only that numeric class is generated")
	c.Note("NaN has a fixed place in the reference order (before every other number, equal only to NaN); WHERE on properties.* is not generated")
	ev.Rapid("where", ev.Pick(5000, 50000))
	rapid.Check(t, func(rt *rapid.T) {
		objs := drawObjects(rt, 3, 25, 8)
		d := whereCase{Objs: objs, Base: rapid.SampledFrom([]string{"SCAN", "SCAN", "SEARCH", "WITHIN", "INTERSECTS", "NEARBY"}).Draw(rt, "base")}
		nf := rapid.SampledFrom([]int{1, 1, 1, 1, 2, 2, 3, 0}).Draw(rt, "nfilters")
		if nf == 0 {
			nf = drawThresholdCount(rt, "nfiltersthr", 33)
		}
		for i := 0; i < nf; i++ {
			if i >= 2 && rapid.IntRange(0, 9).Draw(rt, "repeatfilter") < 6 {
				// a conjunction of many independent filters is almost always
				// empty: most extra clauses repeat an earlier one, with its
				// values spelled differently
				f := d.Filters[rapid.IntRange(0, len(d.Filters)-1).Draw(rt, "whichfilter")]
				switch f.Kind {
				case "in":
					g := f
					g.Vals = nil
					for _, v := range f.Vals {
						g.Vals = append(g.Vals, bstr(respell(rt, string(v))))
					}
					f = g
				case "op":
					if !ev.KnownActive(findLower) || !lowerSensitive(respell(rt, string(f.Val))) {
						f.Val = bstr(respell(rt, string(f.Val)))
					}
				}
				d.Filters = append(d.Filters, f)
				continue
			}
			d.Filters = append(d.Filters, drawFilter(rt, c, objs))
		}
		d.Limit = rapid.IntRange(0, len(objs)+1).Draw(rt, "limit")
		d.Cursor = rapid.IntRange(0, 4).Draw(rt, "cursor")
		c.Case()
		labels, nt := runWhereCase(rt, c, d)
		for _, l := range labels {
			c.Label(l)
		}
		if nt {
			var b strings.Builder
			for _, f := range d.Filters {
				b.WriteString(t38.CmdString(ss(f.args())) + ";")
			}
			for _, o := range objs {
				fmt.Fprintf(&b, "%d:%v;", o.Kind, o.Fields)
			}
			c.NonTrivial(d.Base + b.String())
			if c.WantSample() {
				c.Sample(map[string]any{"base": d.Base, "filters": t38.CmdString(flatten(baseFilters(d))), "objects": len(objs), "labels": labels})
			}
		}
	})
}

func baseFilters(d whereCase) [][]bstr {
	var out [][]bstr
	for _, f := range d.Filters {
		out = append(out, f.args())
	}
	return out
}

// COUNT == len(IDS) ----------------------------------------------------------------

type countCase struct {
	Objs   []objSpec `json:"objs"`
	Q      query     `json:"query"`
	Limit  int       `json:"limit"`  // 0 = none
	Cursor int       `json:"cursor"` // 0 = none
	Desc   bool      `json:"desc"`
	// cursors / limits near 2^31, 2^32, 2^63 and 2^64-1 (override the ints)
	BigCursor string `json:"big_cursor,omitempty"`
	BigLimit  string `json:"big_limit,omitempty"`
}

var bigNumbers = []string{"2147483647", "2147483648", "4294967295", "4294967296", "4294967297",
	"9223372036854775807", "9223372036854775808", "18446744073709550616", "18446744073709551614", "18446744073709551615"}

func (d countCase) args(output string) []string {
	v := variant{Filters: true, Desc: d.Desc, Output: output}
	if d.Limit > 0 {
		v.Limit = strconv.Itoa(d.Limit)
	}
	if d.Cursor > 0 {
		v.Cursor = strconv.Itoa(d.Cursor)
	}
	if d.BigLimit != "" {
		v.Limit = d.BigLimit
	}
	if d.BigCursor != "" {
		v.Cursor = d.BigCursor
	}
	return d.Q.args(v)
}

func runCountCase(t failer, c *ev.Collector, d countCase) (labels []string, nontrivial bool) {
	hasStr, hasGeo := loadObjects(t, "k", d.Objs)
	key := "count-vs-ids:" + strings.ToLower(d.Q.Cmd)
	ids, _, err := runIDs(d.args("IDS"))
	if err != nil {
		c.Fail(t, key+":parse", t38.CmdString(d.args("IDS"))+": "+err.Error(), d)
	}
	n, err := runCount(d.args("COUNT"))
	if err != nil {
		c.Fail(t, key+":parse", t38.CmdString(d.args("COUNT"))+": "+err.Error(), d)
	}
	if int(n) != len(ids) {
		c.Fail(t, key, fmt.Sprintf("%s = %d but %s returns %d ids %s", t38.CmdString(d.args("COUNT")), n, t38.CmdString(d.args("IDS")), len(ids), qs(ids)), d)
	}
	labels = append(labels, "cmd:"+d.Q.Cmd)
	shortcut := d.Q.ordered() && (len(d.Q.Filters) == 0 || (len(d.Q.Filters) == 1 && len(d.Q.Filters[0]) == 2 && d.Q.Filters[0][1] == "*"))
	if shortcut {
		labels = append(labels, "count-shortcut-eligible")
	}
	if len(d.Q.Filters) > 0 {
		labels = append(labels, "with-filter")
	}
	if d.Limit > 0 {
		labels = append(labels, "with-limit")
		if len(ids) == d.Limit {
			labels = append(labels, "limit-reached")
		}
	}
	if d.Cursor > 0 {
		labels = append(labels, "with-cursor")
	}
	if d.BigCursor != "" {
		labels = append(labels, "cursor-near-2^31/32/63/64")
	}
	if d.BigLimit != "" {
		labels = append(labels, "limit-near-2^31/32/63/64")
	}
	if d.Desc {
		labels = append(labels, "desc")
	}
	if hasStr && hasGeo {
		labels = append(labels, "mixed-strings-and-geometries")
	}
	nontrivial = hasStr && hasGeo && len(ids) > 0 && len(ids) < len(d.Objs) && (d.Limit > 0 || d.Cursor > 0 || len(d.Q.Filters) > 0 || !d.Q.ordered() || d.Q.Cmd == "SEARCH")
	return labels, nontrivial
}

func drawArea(t *rapid.T, cmd string) []bstr {
	i := func(lbl string, lo, hi int) string { return strconv.Itoa(rapid.IntRange(lo, hi).Draw(t, lbl)) }
	if cmd == "NEARBY" {
		a := []bstr{"POINT", bstr(i("lat", -25, 25)), bstr(i("lon", -25, 25))}
		if rapid.Bool().Draw(t, "radius?") {
			a = append(a, bstr(i("meters", 1, 3000000)))
		}
		return a
	}
	switch rapid.IntRange(0, 2).Draw(t, "areakind") {
	case 0:
		la, lo := rapid.IntRange(-25, 20).Draw(t, "minlat"), rapid.IntRange(-25, 20).Draw(t, "minlon")
		return []bstr{"BOUNDS", bstr(strconv.Itoa(la)), bstr(strconv.Itoa(lo)),
			bstr(strconv.Itoa(la + rapid.IntRange(0, 40).Draw(t, "dlat"))), bstr(strconv.Itoa(lo + rapid.IntRange(0, 40).Draw(t, "dlon")))}
	case 1:
		return []bstr{"CIRCLE", bstr(i("lat", -25, 25)), bstr(i("lon", -25, 25)), bstr(i("meters", 1, 3000000))}
	default:
		x0, y0 := rapid.IntRange(-25, 20).Draw(t, "x0"), rapid.IntRange(-25, 20).Draw(t, "y0")
		x1, y1 := x0+rapid.IntRange(1, 40).Draw(t, "w"), y0+rapid.IntRange(1, 40).Draw(t, "h")
		return []bstr{"OBJECT", bstr(fmt.Sprintf(`{"type":"Polygon","coordinates":[[[%d,%d],[%d,%d],[%d,%d],[%d,%d],[%d,%d]]]}`,
			x0, y0, x1, y0, x1, y1, x0, y1, x0, y0))}
	}
}

func TestC12_Count(t *testing.T) {
	c := ev.New("C12", "count", "exploration")
	t.Cleanup(c.Flush)
	c.Rule("server level: 0-60 objects (strings, points, bounds, polygons spread over +-20 degrees, below the default limit of 100 so that no LIMIT means the whole result on both sides); query SCAN/SEARCH/WITHIN/INTERSECTS/NEARBY with a random area (BOUNDS, CIRCLE, polygon OBJECT; NEARBY POINT with or without radius), no filter / MATCH * / MATCH o0* / MATCH o?[1-3] / WHERE n1 range / WHEREIN n1 (2 values, or 1..129 values around the thresholds 8/16/32/64 in other spellings), optional LIMIT 1..n+1, optional CURSOR, optional DESC; 1 in 4 cases a CURSOR and/or LIMIT near 2^31, 2^32, 2^63 or 2^64-1. Oracle: the COUNT reply == number of ids the IDS reply of the same argument list holds. Non-trivial: mixed collection, result non-empty and smaller than the collection, and a LIMIT, CURSOR or filter is present or the command is not SCAN; distinct by (argument list, object kinds and positions).")
	ev.Rapid("count", ev.Pick(5000, 50000))
	rapid.Check(t, func(rt *rapid.T) {
		objs := drawObjects(rt, 0, ev.Pick(40, 60), 20)
		cmd := rapid.SampledFrom([]string{"SCAN", "SEARCH", "WITHIN", "INTERSECTS", "NEARBY"}).Draw(rt, "cmd")
		qu := query{Cmd: cmd, Key: "k"}
		if !qu.ordered() {
			qu.Area = drawArea(rt, cmd)
		}
		switch rapid.IntRange(0, 7).Draw(rt, "filter") {
		case 0:
			qu.Filters = [][]bstr{{"MATCH", "*"}}
		case 1:
			qu.Filters = [][]bstr{{"MATCH", "o0*"}}
		case 2:
			qu.Filters = [][]bstr{{"MATCH", "o?[1-3]"}}
		case 3:
			qu.Filters = [][]bstr{{"WHERE", "n1", bstr(rapid.SampledFrom([]string{"-inf", "0", "(0", "1"}).Draw(rt, "wmin")), bstr(rapid.SampledFrom([]string{"+inf", "2", "(2", "10"}).Draw(rt, "wmax"))}}
		case 4:
			qu.Filters = [][]bstr{{"WHEREIN", "n1", "2", "0", bstr(rapid.SampledFrom(numericValues).Draw(rt, "inv"))}}
		case 5:
			// a list around the plausible internal thresholds, values spelled
			// differently from the stored ones
			n := drawThresholdCount(rt, "ninthr", 200)
			f := []bstr{"WHEREIN", "n1", bstr(strconv.Itoa(n))}
			for i := 0; i < n; i++ {
				v := rapid.SampledFrom(numericValues).Draw(rt, "inv")
				if rapid.Bool().Draw(rt, "invrespell") {
					v = respell(rt, v)
				}
				f = append(f, bstr(v))
			}
			qu.Filters = [][]bstr{f}
		}
		d := countCase{Objs: objs, Q: qu}
		if rapid.Bool().Draw(rt, "limit?") {
			d.Limit = rapid.IntRange(1, len(objs)+1).Draw(rt, "limit")
		}
		if rapid.IntRange(0, 2).Draw(rt, "cursor?") == 0 {
			d.Cursor = rapid.IntRange(1, len(objs)+1).Draw(rt, "cursor")
		}
		if qu.ordered() {
			d.Desc = rapid.Bool().Draw(rt, "desc")
		}
		switch rapid.IntRange(0, 11).Draw(rt, "big") {
		case 0:
			d.BigCursor = rapid.SampledFrom(bigNumbers).Draw(rt, "bigcursor")
		case 1:
			d.BigLimit = rapid.SampledFrom(bigNumbers).Draw(rt, "biglimit")
		case 2:
			d.BigCursor = rapid.SampledFrom(bigNumbers).Draw(rt, "bigcursor")
			d.BigLimit = rapid.SampledFrom(bigNumbers).Draw(rt, "biglimit")
		}
		c.Case()
		labels, nt := runCountCase(rt, c, d)
		for _, l := range labels {
			c.Label(l)
		}
		if nt {
			var b strings.Builder
			b.WriteString(t38.CmdString(d.args("COUNT")))
			for _, o := range objs {
				fmt.Fprintf(&b, "|%d,%d,%d,%d", o.Kind, o.Lat, o.Lon, o.Size)
			}
			c.NonTrivial(b.String())
			if c.WantSample() {
				c.Sample(map[string]any{"query": t38.CmdString(d.args("COUNT")), "objects": len(objs), "labels": labels})
			}
		}
	})
}

func bucket(n int) string {
	switch {
	case n <= 5:
		return strconv.Itoa(n)
	case n < 15:
		return "6-14"
	case n <= 17:
		return strconv.Itoa(n)
	case n < 31:
		return "18-30"
	case n <= 33:
		return strconv.Itoa(n)
	case n < 63:
		return "34-62"
	case n <= 65:
		return strconv.Itoa(n)
	}
	return "66+"
}

// respelledHit: some object's field equals a listed value without being
// textually identical to any equal listed value (only an order-aware
// comparison finds it).
func (f filtSpec) respelledHit(objs []objSpec) bool {
	for _, o := range objs {
		v := o.fieldOf(f.Field)
		equal, identical := false, false
		for _, x := range f.Vals {
			w := model.NormField(string(x))
			if w.Kind == v.Kind && w.Same(v) {
				equal = true
				if w.Data == v.Data {
					identical = true
				}
			}
		}
		if equal && !identical {
			return true
		}
	}
	return false
}

// usesNonFinite: the filter compares a NaN/Inf field value or comparand.
func (f filtSpec) usesNonFinite(objs []objSpec) bool {
	nf := func(v model.FVal) bool {
		return v.Kind == model.KNumber && (v.Num != v.Num || v.Num > 1e308 || v.Num < -1e308)
	}
	switch f.Kind {
	case "range":
		a, _ := bound(string(f.Min))
		b, _ := bound(string(f.Max))
		if nf(a) && !strings.Contains(strings.ToLower(string(f.Min)), "inf") || nf(b) && !strings.Contains(strings.ToLower(string(f.Max)), "inf") {
			return true
		}
	case "op":
		if nf(model.NormField(string(f.Val))) {
			return true
		}
	case "in":
		for _, x := range f.Vals {
			if nf(model.NormField(string(x))) {
				return true
			}
		}
	default:
		return false
	}
	for _, o := range objs {
		if nf(o.fieldOf(f.Field)) {
			return true
		}
	}
	return false
}

// shadowed: some object holds both a field of exactly the filter's (dotted)
// name and a JSON field with that member, with different values.
func (f filtSpec) shadowed(objs []objSpec) bool {
	name := strings.TrimSpace(f.Field)
	dot := strings.IndexByte(name, '.')
	if dot == -1 {
		return false
	}
	for _, o := range objs {
		exact, ok := o.plainField(name)
		if !ok || exact.IsZero() {
			continue
		}
		if doc, ok := o.plainField(name[:dot]); ok && doc.Kind == model.KJSON {
			if m, ok := jsonMember(doc.Data, name[dot+1:]); ok && !(m.Kind == exact.Kind && m.Same(exact)) {
				return true
			}
		}
	}
	return false
}

// exprNonFinite: an expression term meets a NaN/Inf field value or literal.
func (f filtSpec) exprNonFinite(objs []objSpec) bool {
	nf := func(x float64) bool { return x != x || x > 1e308 || x < -1e308 }
	for _, tm := range f.Terms {
		if n, err := strconv.ParseFloat(tm.Num, 64); err == nil && nf(n) {
			return true
		}
		for _, o := range objs {
			if nf(o.fieldOf(tm.Field).Num) {
				return true
			}
		}
	}
	return false
}

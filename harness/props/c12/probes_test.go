package c12

import (
	"fmt"
	"testing"

	"github.com/tidwall/tile38/verif/harness/ev"
	"github.com/tidwall/tile38/verif/harness/t38"
)

// Deterministic probes: one for each finding of this property that was
// repaired in /repo (must keep passing) and one for each suspected defect
// (reported as a violation under its id, or as KNOWN-FINDING once listed).

func idsMust(args ...string) []string {
	ids, _, err := runIDs(args)
	if err != nil {
		return []string{"<" + err.Error() + ">"}
	}
	return ids
}

func expectIDs(want []string, args ...string) string {
	got := idsMust(args...)
	if sameSeq(got, want) {
		return ""
	}
	return fmt.Sprintf("%s returned %s, expected %s", t38.CmdString(args), qs(got), qs(want))
}

func expectInt(want int64, args ...string) string {
	v, err := conn.Do(args...)
	if err != nil {
		return err.Error()
	}
	if v.Kind == ':' && v.Int == want {
		return ""
	}
	return fmt.Sprintf("%s answered %s, expected %d", t38.CmdString(args), v.String(), want)
}

func expectList(want []string, args ...string) string {
	v, err := conn.Do(args...)
	if err != nil {
		return err.Error()
	}
	got, err := bulkList(v)
	if err != nil {
		return err.Error()
	}
	if sameSeq(got, want) {
		return ""
	}
	return fmt.Sprintf("%s returned %s, expected %s", t38.CmdString(args), qs(got), qs(want))
}

func first(msgs ...string) string {
	for _, m := range msgs {
		if m != "" {
			return m
		}
	}
	return ""
}

func runProbes(t *testing.T, c *ev.Collector) {
	// fixed f17b9c0: limits for a leading metacharacter / an escape
	probe(t, c, findLeadMeta, func() string {
		must(t, "FLUSHDB")
		for _, id := range []string{"abc", "xbc", "a*c", "bcd", "zzz"} {
			must(t, "SET", "m", id, "STRING", "v")
		}
		must(t, "SET", "k1", "a1", "POINT", "1", "1")
		must(t, "SET", "k1", "b1", "POINT", "1", "1")
		must(t, "SET", "k1", "c1", "POINT", "1", "1")
		must(t, "SET", "q", "x", "STRING", "v")
		return first(
			expectIDs([]string{"abc", "xbc"}, "SCAN", "m", "MATCH", "?bc", "IDS"),
			expectIDs([]string{"a*c"}, "SCAN", "m", "MATCH", "a\\*c", "IDS"),
			expectIDs([]string{"abc", "xbc"}, "SCAN", "m", "MATCH", "[ax]bc", "IDS"),
			expectIDs([]string{"xbc", "abc"}, "SCAN", "m", "MATCH", "[ax]bc", "DESC", "IDS"),
			expectList([]string{"m", "q"}, "KEYS", "?"),
			expectInt(2, "PDEL", "k1", "[a-b]*"),
			expectIDs([]string{"c1"}, "SCAN", "k1", "IDS"),
		)
	})
	// fixed 941d09b: SEARCH COUNT shortcut
	probe(t, c, findSearchCnt, func() string {
		must(t, "FLUSHDB")
		must(t, "SET", "k", "s1", "FIELD", "f", "1", "STRING", "one")
		must(t, "SET", "k", "s2", "FIELD", "f", "9", "STRING", "two")
		must(t, "SET", "k", "p1", "FIELD", "f", "1", "POINT", "1", "1")
		return first(
			expectInt(2, "SEARCH", "k", "COUNT"),
			expectInt(1, "SEARCH", "k", "WHEREIN", "f", "2", "1", "5", "COUNT"),
			expectIDs([]string{"s1"}, "SEARCH", "k", "WHEREIN", "f", "2", "1", "5", "IDS"),
			expectInt(1, "SEARCH", "k", "WHEREEVAL", "return FIELDS.f == 9", "0", "COUNT"),
		)
	})
	// fixed 5131212: COUNT shortcut ignored LIMIT
	probe(t, c, findCountLim, func() string {
		must(t, "FLUSHDB")
		for _, id := range []string{"a", "b", "c", "d", "e"} {
			must(t, "SET", "k", id, "STRING", "v"+id)
		}
		return first(
			expectInt(2, "SCAN", "k", "LIMIT", "2", "COUNT"),
			expectInt(2, "SEARCH", "k", "LIMIT", "2", "COUNT"),
			expectInt(5, "SCAN", "k", "COUNT"),
			expectInt(3, "SCAN", "k", "CURSOR", "2", "COUNT"),
		)
	})
	// suspected: limits when the literal prefix ends in byte 0xff
	probe(t, c, findFF, func() string {
		must(t, "FLUSHDB")
		for _, id := range []string{"a\xff", "a\xff\x00", "a\xffz", "b"} {
			must(t, "SET", "k", id, "STRING", "v")
		}
		must(t, "SET", "q\xffz", "x", "STRING", "v")
		return first(
			expectIDs([]string{"a\xff", "a\xff\x00", "a\xffz"}, "SCAN", "k", "MATCH", "a\xff*", "IDS"),
			expectIDs([]string{"a\xffz", "a\xff\x00", "a\xff"}, "SCAN", "k", "MATCH", "a\xff*", "DESC", "IDS"),
			expectList([]string{"q\xffz"}, "KEYS", "q\xff*"),
			expectInt(3, "PDEL", "k", "a\xff*"),
		)
	})
	// suspected: WHERE folds its comparands to lower case before normalising them
	probe(t, c, findLower, func() string {
		must(t, "FLUSHDB")
		must(t, "SET", "w", "1", "FIELD", "f", `{"A":1}`, "POINT", "1", "1")
		must(t, "SET", "w", "2", "FIELD", "f", "TRUE", "POINT", "1", "1")
		must(t, "SET", "w", "3", "FIELD", "f", "true", "POINT", "1", "1")
		return first(
			expectIDs([]string{"1"}, "SCAN", "w", "WHEREIN", "f", "1", `{"A":1}`, "IDS"),
			expectIDs([]string{"1"}, "SCAN", "w", "WHERE", "f", "==", `{"A":1}`, "IDS"),
			expectIDs([]string{"1"}, "SCAN", "w", "WHERE", "f", `{"A":1}`, `{"A":1}`, "IDS"),
			expectIDs([]string{"2"}, "SCAN", "w", "WHERE", "f", "==", "TRUE", "IDS"),
		)
	})
}


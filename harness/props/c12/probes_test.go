package c12

import (
	"fmt"
	"testing"

	"github.com/tidwall/tile38/verif/harness/ev"
	"github.com/tidwall/tile38/verif/harness/t38"
)

// Deterministic probes: one for each finding of this property that was
// repaired in /repo (must keep passing) and one for each suspected defect
// (reported as a violation under its id, or as KNOWN-FINDING once listed).

func idsMust(args ...string) []string {
	ids, _, err := runIDs(args)
	if err != nil {
		return []string{"<" + err.Error() + ">"}
	}
	return ids
}

func expectIDs(want []string, args ...string) string {
	got := idsMust(args...)
	if sameSeq(got, want) {
		return ""
	}
	return fmt.Sprintf("%s returned %s, expected %s", t38.CmdString(args), qs(got), qs(want))
}

func expectInt(want int64, args ...string) string {
	v, err := conn.Do(args...)
	if err != nil {
		return err.Error()
	}
	if v.Kind == ':' && v.Int == want {
		return ""
	}
	return fmt.Sprintf("%s answered %s, expected %d", t38.CmdString(args), v.String(), want)
}

func expectList(want []string, args ...string) string {
	v, err := conn.Do(args...)
	if err != nil {
		return err.Error()
	}
	got, err := bulkList(v)
	if err != nil {
		return err.Error()
	}
	if sameSeq(got, want) {
		return ""
	}
	return fmt.Sprintf("%s returned %s, expected %s", t38.CmdString(args), qs(got), qs(want))
}

func first(msgs ...string) string {
	for _, m := range msgs {
		if m != "" {
			return m
		}
	}
	return ""
}

func runProbes(t *testing.T, c *ev.Collector) {
	// fixed f17b9c0: limits for a leading metacharacter / an escape
	probe(t, c, findLeadMeta, func() string {
		must(t, "FLUSHDB")
		for _, id := range []string{"abc", "xbc", "a*c", "bcd", "zzz"} {
			must(t, "SET", "m", id, "STRING", "v")
		}
		must(t, "SET", "k1", "a1", "POINT", "1", "1")
		must(t, "SET", "k1", "b1", "POINT", "1", "1")
		must(t, "SET", "k1", "c1", "POINT", "1", "1")
		must(t, "SET", "q", "x", "STRING", "v")
		return first(
			expectIDs([]string{"abc", "xbc"}, "SCAN", "m", "MATCH", "?bc", "IDS"),
			expectIDs([]string{"a*c"}, "SCAN", "m", "MATCH", "a\\*c", "IDS"),
			expectIDs([]string{"abc", "xbc"}, "SCAN", "m", "MATCH", "[ax]bc", "IDS"),
			expectIDs([]string{"xbc", "abc"}, "SCAN", "m", "MATCH", "[ax]bc", "DESC", "IDS"),
			expectList([]string{"m", "q"}, "KEYS", "?"),
			expectInt(2, "PDEL", "k1", "[a-b]*"),
			expectIDs([]string{"c1"}, "SCAN", "k1", "IDS"),
		)
	})
	// fixed 941d09b: SEARCH COUNT shortcut
	probe(t, c, findSearchCnt, func() string {
		must(t, "FLUSHDB")
		must(t, "SET", "k", "s1", "FIELD", "f", "1", "STRING", "one")
		must(t, "SET", "k", "s2", "FIELD", "f", "9", "STRING", "two")
		must(t, "SET", "k", "p1", "FIELD", "f", "1", "POINT", "1", "1")
		return first(
			expectInt(2, "SEARCH", "k", "COUNT"),
			expectInt(1, "SEARCH", "k", "WHEREIN", "f", "2", "1", "5", "COUNT"),
			expectIDs([]string{"s1"}, "SEARCH", "k", "WHEREIN", "f", "2", "1", "5", "IDS"),
			expectInt(1, "SEARCH", "k", "WHEREEVAL", "return FIELDS.f == 9", "0", "COUNT"),
		)
	})
	// fixed 5131212: COUNT shortcut ignored LIMIT
	probe(t, c, findCountLim, func() string {
		must(t, "FLUSHDB")
		for _, id := range []string{"a", "b", "c", "d", "e"} {
			must(t, "SET", "k", id, "STRING", "v"+id)
		}
		return first(
			expectInt(2, "SCAN", "k", "LIMIT", "2", "COUNT"),
			expectInt(2, "SEARCH", "k", "LIMIT", "2", "COUNT"),
			expectInt(5, "SCAN", "k", "COUNT"),
			expectInt(3, "SCAN", "k", "CURSOR", "2", "COUNT"),
		)
	})
	// fixed 397446d: a NaN field was "equal" to every number
	probe(t, c, findNaN, func() string {
		must(t, "FLUSHDB")
		must(t, "SET", "k", "n", "FIELD", "g", "NaN", "POINT", "1", "1")
		must(t, "SET", "k", "p", "FIELD", "g", "15", "POINT", "1", "1")
		must(t, "SET", "k", "q", "FIELD", "g", "3", "POINT", "1", "1")
		return first(
			expectIDs([]string{"p"}, "SCAN", "k", "WHERE", "g", "10", "20", "IDS"),
			expectIDs([]string{"q"}, "SCAN", "k", "WHERE", "g", "==", "3", "IDS"),
			expectIDs([]string{"n", "q"}, "SCAN", "k", "WHERE", "g", "!=", "15", "IDS"),
			expectIDs([]string{}, "SCAN", "k", "WHEREIN", "g", "2", "1", "2", "IDS"),
			expectIDs([]string{"n"}, "SCAN", "k", "WHEREIN", "g", "2", "nan", "2", "IDS"),
			expectIDs([]string{"n"}, "SCAN", "k", "WHERE", "g", "==", "NaN", "IDS"),
			expectIDs([]string{"n"}, "SCAN", "k", "WHERE", "g", "<", "-inf", "IDS"),
			expectIDs([]string{"p", "q"}, "SCAN", "k", "WHERE", "g", "-inf", "+inf", "IDS"),
			expectIDs([]string{"p", "q"}, "SCAN", "k", "WHERE", "g", "(nan", "+inf", "IDS"),
			expectInt(1, "SCAN", "k", "WHERE", "g", "10", "20", "COUNT"),
		)
	})
	// fixed 75824dd: the COUNT shortcut overflowed for cursors >= 2^63
	probe(t, c, findCurOver, func() string {
		must(t, "FLUSHDB")
		for _, id := range []string{"a", "b", "c", "d", "e", "f", "g", "h"} {
			must(t, "SET", "k", id, "STRING", "v"+id)
		}
		msgs := []string{}
		for _, cur := range []string{"18446744073709550616", "9223372036854775808", "18446744073709551615", "9223372036854775807", "4294967296"} {
			msgs = append(msgs,
				expectInt(0, "SCAN", "k", "CURSOR", cur, "COUNT"),
				expectIDs([]string{}, "SCAN", "k", "CURSOR", cur, "IDS"),
				expectInt(0, "SEARCH", "k", "CURSOR", cur, "COUNT"),
				expectIDs([]string{}, "SEARCH", "k", "CURSOR", cur, "IDS"))
		}
		msgs = append(msgs, expectInt(8, "SCAN", "k", "LIMIT", "18446744073709551615", "COUNT"),
			expectInt(5, "SCAN", "k", "CURSOR", "3", "LIMIT", "9223372036854775808", "COUNT"))
		return first(msgs...)
	})
	// fixed 964544a: dotted field names next to JSON-valued fields sharing the prefix
	probe(t, c, findDotted, func() string {
		must(t, "FLUSHDB")
		must(t, "SET", "k", "hid", "FIELD", "a-", `{"x":1}`, "FIELD", "a.x", "5", "POINT", "1", "1")
		must(t, "SET", "k", "doc", "FIELD", "a", `{"x":5,"b":{"x":7}}`, "POINT", "1", "1")
		must(t, "SET", "k", "own", "FIELD", "a.b", `{"x":7}`, "POINT", "1", "1")
		must(t, "SET", "k", "both", "FIELD", "a", `{"y":1}`, "FIELD", "a.x", "5", "POINT", "1", "1")
		return first(
			expectIDs([]string{"both", "doc", "hid"}, "SCAN", "k", "WHERE", "a.x", "5", "5", "IDS"),
			expectIDs([]string{"both", "doc", "hid"}, "SCAN", "k", "WHERE", "a.x", "==", "5", "IDS"),
			expectIDs([]string{"doc"}, "SCAN", "k", "WHERE", "a.b.x", "==", "7", "IDS"),
			expectIDs([]string{"doc", "own"}, "SCAN", "k", "WHERE", "a.b", "==", `{"x":7}`, "IDS"),
			expectIDs([]string{"doc", "own"}, "SCAN", "k", "WHERE", "a.b", "!=", "0", "IDS"),
			expectIDs([]string{"hid"}, "SCAN", "k", "WHEREIN", "a-", "1", `{"x":1}`, "IDS"),
		)
	})
	// fixed c3b3792: the quoted-expression form of WHERE did not know the z pseudo-field
	probe(t, c, findExprZ, func() string {
		must(t, "FLUSHDB")
		must(t, "SET", "e", "p1", "POINT", "1", "1", "100")
		must(t, "SET", "e", "p2", "POINT", "1", "1")
		must(t, "SET", "e", "p3", "OBJECT", `{"type":"Feature","geometry":{"type":"Point","coordinates":[1,1,60]},"properties":{}}`)
		must(t, "SET", "e", "p4", "OBJECT", `{"type":"Point","coordinates":[1,1,-5]}`)
		must(t, "SET", "e", "s1", "STRING", "hello")
		high, low := []string{"p1", "p3"}, []string{"p2", "p4", "s1"}
		return first(
			expectIDs(high, "SCAN", "e", "WHERE", "z", ">", "50", "IDS"),
			expectIDs(high, "SCAN", "e", "WHERE", "z", "50", "+inf", "IDS"),
			expectIDs(high, "SCAN", "e", "WHERE", "z > 50", "IDS"),
			expectIDs(high, "SCAN", "e", "WHEREIN", "z", "2", "100", "60.0", "IDS"),
			expectIDs(low, "SCAN", "e", "WHERE", "z", "<=", "0", "IDS"),
			expectIDs(low, "SCAN", "e", "WHERE", "z <= 0", "IDS"),
			expectIDs([]string{"p4"}, "SCAN", "e", "WHERE", "z == -5", "IDS"),
			expectInt(2, "SCAN", "e", "WHERE", "z > 50 && z <= 100", "COUNT"),
			expectInt(2, "WITHIN", "e", "WHERE", "z >= 60", "COUNT", "BOUNDS", "0", "0", "2", "2"),
		)
	})
	// fixed c82202c: +-Inf / NaN fields were strings inside quoted expressions
	probe(t, c, findExprInf, func() string {
		must(t, "FLUSHDB")
		must(t, "SET", "k", "i", "FIELD", "f", "+Inf", "POINT", "1", "1")
		must(t, "SET", "k", "m", "FIELD", "f", "-Inf", "POINT", "1", "1")
		must(t, "SET", "k", "n", "FIELD", "f", "NaN", "POINT", "1", "1")
		must(t, "SET", "k", "a", "FIELD", "f", "5000", "POINT", "1", "1")
		must(t, "SET", "k", "b", "FIELD", "f", "5", "POINT", "1", "1")
		return first(
			expectIDs([]string{"a", "i"}, "SCAN", "k", "WHERE", "f", ">", "1000", "IDS"),
			expectIDs([]string{"a", "i"}, "SCAN", "k", "WHERE", "f > 1000", "IDS"),
			expectIDs([]string{"b", "m"}, "SCAN", "k", "WHERE", "f < 1000", "IDS"),
			expectIDs([]string{"i"}, "SCAN", "k", "WHERE", "f == Infinity", "IDS"),
			expectIDs([]string{"m"}, "SCAN", "k", "WHERE", "f == -Infinity", "IDS"),
			expectIDs([]string{"a", "b", "i"}, "SCAN", "k", "WHERE", "f > -Infinity", "IDS"),
			// JavaScript semantics for NaN: only != holds
			expectIDs([]string{"a", "i", "m", "n"}, "SCAN", "k", "WHERE", "f != 5", "IDS"),
			expectIDs([]string{"a", "b", "i", "m"}, "SCAN", "k", "WHERE", "f >= 5 || f < 5", "IDS"),
			expectInt(2, "SCAN", "k", "WHERE", "f > 1000", "COUNT"),
		)
	})
	// fixed 067660e: WHERE / WHEREIN look a field up under the trimmed name, as the writers store it
	probe(t, c, findPadded, func() string {
		must(t, "FLUSHDB")
		must(t, "SET", "k", "a", "FIELD", " h ", "5", "POINT", "1", "2")
		must(t, "SET", "k", "b", "FIELD", "h", "6", "POINT", "1", "2")
		return first(
			expectIDs([]string{"a"}, "SCAN", "k", "WHERE", " h ", "==", "5", "IDS"),
			expectIDs([]string{"a"}, "SCAN", "k", "WHERE", " h ", "5", "5", "IDS"),
			expectIDs([]string{"a"}, "SCAN", "k", "WHEREIN", " h ", "1", "5", "IDS"),
			expectIDs([]string{"b"}, "SCAN", "k", "WHERE", "\th", "(5", "+inf", "IDS"),
			expectIDs([]string{"a", "b"}, "SCAN", "k", "WHEREIN", "h \t", "2", "5", "6", "IDS"),
			expectIDs([]string{"a"}, "SCAN", "k", "WHERE", "h", "==", "5", "IDS"),
			expectInt(1, "SCAN", "k", "WHERE", " h ", "==", "5", "COUNT"),
		)
	})
	// fixed cba05d0: a field named j.b wins over member b of a JSON field j
	probe(t, c, findShadow, func() string {
		must(t, "FLUSHDB")
		must(t, "SET", "k", "both", "FIELD", "j", `{"b":1}`, "FIELD", "j.b", "7", "POINT", "1", "2")
		must(t, "SET", "k", "doc", "FIELD", "j", `{"b":1}`, "POINT", "1", "2")
		must(t, "SET", "k", "plain", "FIELD", "j.b", "7", "POINT", "1", "2")
		return first(
			expectIDs([]string{"both", "plain"}, "SCAN", "k", "WHERE", "j.b", "==", "7", "IDS"),
			expectIDs([]string{"doc"}, "SCAN", "k", "WHERE", "j.b", "==", "1", "IDS"),
			expectIDs([]string{"both", "plain"}, "SCAN", "k", "WHERE", "j.b", "7", "7", "IDS"),
			expectIDs([]string{"doc"}, "SCAN", "k", "WHEREIN", "j.b", "1", "1.0", "IDS"),
			expectInt(2, "SCAN", "k", "WHERE", "j.b", ">", "1", "COUNT"),
		)
	})
	// suspected: limits when the literal prefix ends in byte 0xff
	probe(t, c, findFF, func() string {
		must(t, "FLUSHDB")
		for _, id := range []string{"a\xff", "a\xff\x00", "a\xffz", "b"} {
			must(t, "SET", "k", id, "STRING", "v")
		}
		must(t, "SET", "q\xffz", "x", "STRING", "v")
		return first(
			expectIDs([]string{"a\xff", "a\xff\x00", "a\xffz"}, "SCAN", "k", "MATCH", "a\xff*", "IDS"),
			expectIDs([]string{"a\xffz", "a\xff\x00", "a\xff"}, "SCAN", "k", "MATCH", "a\xff*", "DESC", "IDS"),
			expectList([]string{"q\xffz"}, "KEYS", "q\xff*"),
			expectInt(3, "PDEL", "k", "a\xff*"),
		)
	})
	// suspected: WHERE folds its comparands to lower case before normalising them
	probe(t, c, findLower, func() string {
		must(t, "FLUSHDB")
		must(t, "SET", "w", "1", "FIELD", "f", `{"A":1}`, "POINT", "1", "1")
		must(t, "SET", "w", "2", "FIELD", "f", "TRUE", "POINT", "1", "1")
		must(t, "SET", "w", "3", "FIELD", "f", "true", "POINT", "1", "1")
		return first(
			expectIDs([]string{"1"}, "SCAN", "w", "WHEREIN", "f", "1", `{"A":1}`, "IDS"),
			expectIDs([]string{"1"}, "SCAN", "w", "WHERE", "f", "==", `{"A":1}`, "IDS"),
			expectIDs([]string{"1"}, "SCAN", "w", "WHERE", "f", `{"A":1}`, `{"A":1}`, "IDS"),
			expectIDs([]string{"2"}, "SCAN", "w", "WHERE", "f", "==", "TRUE", "IDS"),
		)
	})
}


package globfuzz

import (
	"testing"

	"github.com/tidwall/tile38/verif/harness/ev"
)

// FuzzGlobLimits is the native fuzz target for the limits law and for the
// agreement of the two matchers. It is run by TestC12_FuzzGlobLimits of the
// parent package in the thorough tier (go test -fuzz, bounded by -fuzztime).
func FuzzGlobLimits(f *testing.F) {
	seeds := [][2]string{
		{"a*", "ab"}, {"?bc", "abc"}, {"[ax]bc", "xbc"}, {"a\\*c", "a*c"}, {"\\ab", "ab"},
		{"a\x00*", "a\x00\x00"}, {"\x00*", "\x00a"}, {"a\xfe*", "a\xfez"}, {"ab[^c]", "abd"},
		{"a?c*", "a\xffcz"}, {"*a", "ba"}, {"a[b-d]*", "acx"}, {"é*", "éa"}, {"a\\\\*", "a\\b"},
		{"ab", "ab"}, {"a*b*c", "aXbYc"}, {"[^a]", "\xff"}, {"a[", "a["}, {"a\\", "a"},
	}
	known := ev.KnownActive("glob-limits-0xff")
	if !known {
		seeds = append(seeds, [2]string{"a\xff*", "a\xffz"})
	}
	for _, s := range seeds {
		f.Add(s[0], s[1], false)
		f.Add(s[0], s[1], true)
	}
	f.Fuzz(func(t *testing.T, p, s string, desc bool) {
		if len(p) > 24 || len(s) > 24 {
			return
		}
		if known && PrefixEndsFF(p) {
			return
		}
		if d := Law(p, s, desc); d != "" {
			t.Fatalf("limits-law: %s", d)
		}
		if d := MatchAgrees(p, s); d != "" {
			t.Fatalf("match-mismatch: %s", d)
		}
	})
}

// Package globfuzz holds the in-package law between the glob matcher and the
// id-range shortcut of internal/glob (Parse -> Limits), and the native fuzz
// target for it. It imports only internal/glob and the reference matcher so
// that `go test -fuzz` builds quickly.
package globfuzz

import (
	"fmt"
	"strconv"
	"unicode/utf8"

	"github.com/tidwall/tile38/internal/glob"
	"github.com/tidwall/tile38/verif/harness/model"
)

// LiteralPrefix is the part of a pattern before its first metacharacter or
// escape: the only bytes a range shortcut may be derived from.
func LiteralPrefix(p string) string {
	for i := 0; i < len(p); i++ {
		switch p[i] {
		case '*', '?', '[', '\\':
			return p[:i]
		}
	}
	return p
}

// PrefixEndsFF is the triggering shape of finding glob-limits-0xff.
func PrefixEndsFF(p string) bool {
	lp := LiteralPrefix(p)
	return len(lp) > 0 && lp[len(lp)-1] == 0xff
}

// InLimits says whether a consumer of Limits (Collection.ScanRange and
// SearchValuesRange, KEYS, forEachHookByPattern) would visit name s: both
// limits empty means "scan everything"; ascending visits lo <= s < hi
// (hi == "" is read as unbounded); descending starts at lo going down
// (lo == "" unbounded) and stops at s <= hi.
func InLimits(lim []string, desc bool, s string) bool {
	if len(lim) != 2 {
		return false
	}
	lo, hi := lim[0], lim[1]
	if lo == "" && hi == "" {
		return true
	}
	if !desc {
		return lo <= s && (s < hi || hi == "")
	}
	return (s <= lo || lo == "") && s > hi
}

// Ref is the reference verdict for (pattern, name). model.GlobMatch lets '*'
// stop between any two bytes while '?' and classes consume whole UTF-8
// characters; when the name holds a valid multi-byte character a '*' can then
// "split" it and the leftover bytes count as separate (invalid) characters.
// Whether that is intended is not documented, so a second reading is computed
// in which '*' only stops at character boundaries; certain is false when the
// two readings disagree (such pairs are never used for an equality oracle).
func Ref(p, s string) (match, certain bool) {
	a := model.GlobMatch(p, s)
	if !hasStar(p) || !hasMultiByteRune(s) {
		return a, true
	}
	b := charStarMatch(p, s)
	return a, a == b
}

// SelfCheck: on names without a valid multi-byte character the two readings
// are the same function; a difference is a bug in this harness.
func SelfCheck(p, s string) string {
	if hasMultiByteRune(s) {
		return ""
	}
	if a, b := model.GlobMatch(p, s), charStarMatch(p, s); a != b {
		return fmt.Sprintf("harness self-check: model.GlobMatch(%q,%q)=%v but the character-stepping matcher says %v", p, s, a, b)
	}
	return ""
}

func hasStar(p string) bool {
	for i := 0; i < len(p); i++ {
		if p[i] == '*' {
			return true
		}
	}
	return false
}

func hasMultiByteRune(s string) bool {
	for i := 0; i < len(s); {
		r, w := utf8.DecodeRuneInString(s[i:])
		if w > 1 && r != utf8.RuneError {
			return true
		}
		i += w
	}
	return false
}

// charStarMatch: same grammar as model.GlobMatch, but '*' advances by whole
// characters. A malformed pattern matches nothing.
func charStarMatch(p, s string) bool {
	if !model.GlobValid(p) {
		return false
	}
	return csm(p, s)
}

func csm(p, s string) bool {
	for len(p) > 0 {
		switch p[0] {
		case '*':
			for len(p) > 0 && p[0] == '*' {
				p = p[1:]
			}
			if p == "" {
				return true
			}
			for {
				if csm(p, s) {
					return true
				}
				if s == "" {
					return false
				}
				_, w := utf8.DecodeRuneInString(s)
				s = s[w:]
			}
		case '?':
			if s == "" {
				return false
			}
			_, w := utf8.DecodeRuneInString(s)
			s, p = s[w:], p[1:]
		case '[':
			if s == "" {
				return false
			}
			r, w := utf8.DecodeRuneInString(s)
			s = s[w:]
			p = p[1:]
			neg := false
			if p[0] == '^' {
				neg = true
				p = p[1:]
			}
			in := false
			for n := 0; ; n++ {
				if p[0] == ']' && n > 0 {
					p = p[1:]
					break
				}
				rd := func() rune {
					if p[0] == '\\' {
						p = p[1:]
					}
					c, cw := utf8.DecodeRuneInString(p)
					p = p[cw:]
					return c
				}
				lo := rd()
				hi := lo
				if p[0] == '-' {
					p = p[1:]
					hi = rd()
				}
				if lo <= r && r <= hi {
					in = true
				}
			}
			if in == neg {
				return false
			}
		case '\\':
			p = p[1:]
			fallthrough
		default:
			if s == "" || s[0] != p[0] {
				return false
			}
			s, p = s[1:], p[1:]
		}
	}
	return s == ""
}

// Law checks one (pattern, name, direction) triple: a name the reference
// matcher accepts (under either reading of '*') must lie inside the limits
// glob.Parse derives. It returns "" when the law holds (or is vacuous).
func Law(p, s string, desc bool) string {
	if !model.GlobMatch(p, s) && !(hasStar(p) && hasMultiByteRune(s) && charStarMatch(p, s)) {
		return ""
	}
	g := glob.Parse(p, desc)
	if InLimits(g.Limits, desc, s) {
		return ""
	}
	return fmt.Sprintf("pattern %s matches name %s but Parse(desc=%v).Limits=%s excludes it",
		strconv.QuoteToASCII(p), strconv.QuoteToASCII(s), desc, quoteAll(g.Limits))
}

// MatchAgrees compares the server's matcher with the reference verdict; pairs
// on which the two readings of '*' disagree are skipped.
func MatchAgrees(p, s string) string {
	want, certain := Ref(p, s)
	if !certain {
		return ""
	}
	got, err := glob.Match(p, s)
	if err != nil {
		got = false // every caller in internal/server ignores the error and uses the boolean
	}
	if got != want {
		return fmt.Sprintf("glob.Match(%s, %s) = %v (err %v), reference matcher says %v",
			strconv.QuoteToASCII(p), strconv.QuoteToASCII(s), got, err, want)
	}
	return ""
}

func quoteAll(xs []string) string {
	out := "["
	for i, x := range xs {
		if i > 0 {
			out += " "
		}
		out += strconv.QuoteToASCII(x)
	}
	return out + "]"
}

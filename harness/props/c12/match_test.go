package c12

import (
	"fmt"
	"sort"
	"strconv"
	"strings"
	"testing"

	"github.com/tidwall/tile38/verif/harness/ev"
	"github.com/tidwall/tile38/verif/harness/model"
	"github.com/tidwall/tile38/verif/harness/props/c12/globfuzz"
	"github.com/tidwall/tile38/verif/harness/t38"
	"pgregory.net/rapid"
)

// drawGatedPattern draws a pattern; while finding glob-limits-0xff is a listed
// known finding, its triggering shape (literal prefix ending in 0xff) is
// excluded by construction.
func drawGatedPattern(t *rapid.T, c *ev.Collector) pat {
	known := ev.KnownActive(findFF)
	for i := 0; i < 20; i++ {
		p := drawPattern(t)
		if known && globfuzz.PrefixEndsFF(p.text) {
			c.Excluded(findFF)
			continue
		}
		return p
	}
	return pat{text: "a*"}
}

func anyMatch(ps []string, s string) bool {
	for _, p := range ps {
		if model.GlobMatch(p, s) {
			return true
		}
	}
	return false
}

// ambiguous: for some pattern the two readings of '*' (may it stop inside a
// multi-byte character or not) give different verdicts for this name; such
// names are not used.
func ambiguous(ps []string, s string) bool {
	for _, p := range ps {
		if _, certain := globfuzz.Ref(p, s); !certain {
			return true
		}
	}
	return false
}

func dropAmbiguous(c *ev.Collector, ps []string, names []string) []string {
	out := names[:0:0]
	for _, n := range names {
		if ambiguous(ps, n) {
			c.Label("name-dropped(star could split a multi-byte character)")
			continue
		}
		out = append(out, n)
	}
	return out
}

func anyAmbiguous(ps []string, lists ...[]bstr) bool {
	for _, l := range lists {
		for _, n := range l {
			if ambiguous(ps, string(n)) {
				return true
			}
		}
	}
	return false
}

func anyFF(ps []string) bool {
	for _, p := range ps {
		if globfuzz.PrefixEndsFF(p) {
			return true
		}
	}
	return false
}

func filterSeq(xs []string, keep func(string) bool) []string {
	out := []string{}
	for _, x := range xs {
		if keep(x) {
			out = append(out, x)
		}
	}
	return out
}

// MATCH on SCAN / SEARCH / spatial searches ------------------------------------

type matchCase struct {
	Patterns []bstr `json:"patterns"`
	IDs      []bstr `json:"ids"`     // ids of collection k
	Kinds    []int  `json:"kinds"`   // per id: 0 string object, 1 point
	Values   []bstr `json:"values"`  // values of the string objects of collection s (ids v00, v01, ...)
	Spatial  string `json:"spatial"` // which spatial command also gets the MATCH
	Limit    int    `json:"limit"`
	Cursor   int    `json:"cursor"`
}

func matchKey(cmd, rel string, ps []string) string {
	if anyFF(ps) && rel != "parse" {
		return findFF
	}
	return "match-mismatch:" + strings.ToLower(cmd) + ":" + rel
}

func runMatchCase(t failer, c *ev.Collector, d matchCase) (labels []string, nontrivial bool) {
	ps := ss(d.Patterns)
	if anyAmbiguous(ps, d.IDs, d.Values) || len(d.IDs) == 0 || len(d.Values) == 0 {
		return []string{"case-skipped(ambiguous or empty name set)"}, false
	}
	recycle()
	must(t, "FLUSHDB")
	hasStr, hasGeo := false, false
	for i, id := range d.IDs {
		if d.Kinds[i%len(d.Kinds)] == 0 {
			must(t, "SET", "k", string(id), "STRING", "val"+strconv.Itoa(i))
			hasStr = true
		} else {
			must(t, "SET", "k", string(id), "POINT", strconv.Itoa(i%9-4), strconv.Itoa(i/9-4))
			hasGeo = true
		}
	}
	valueOf := map[string]string{}
	for j, v := range d.Values {
		id := fmt.Sprintf("v%02d", j)
		must(t, "SET", "s", id, "STRING", string(v))
		valueOf[id] = string(v)
	}
	must(t, "SET", "s", "geo1", "POINT", "1", "1")
	must(t, "SET", "s", "geo2", "BOUNDS", "0", "0", "2", "2")

	var filters [][]bstr
	for _, p := range d.Patterns {
		filters = append(filters, []bstr{"MATCH", p})
	}

	// SCAN: MATCH keeps exactly the ids matching one of the globs
	scan := query{Cmd: "SCAN", Key: "k", Filters: filters}
	u, err := unfiltered(scan)
	if err != nil {
		c.Fail(t, matchKey("scan", "parse", ps), err.Error(), d)
	}
	if want := sortedCopy(ss(d.IDs)); !sameSeq(u, want) {
		c.Fail(t, "scan-order", fmt.Sprintf("SCAN k IDS = %s, the collection holds %s", qs(u), qs(want)), d)
	}
	expScan := filterSeq(u, func(id string) bool { return anyMatch(ps, id) })
	if m := relations(scan, expScan, d.Limit, d.Cursor, true); m != nil {
		c.Fail(t, matchKey("scan", m.rel, ps), m.what, d)
	}

	// SEARCH: MATCH applies to the values; only string objects are searched
	search := query{Cmd: "SEARCH", Key: "s", Filters: filters}
	us, err := unfiltered(search)
	if err != nil {
		c.Fail(t, matchKey("search", "parse", ps), err.Error(), d)
	}
	var wantS []string
	for id := range valueOf {
		wantS = append(wantS, id)
	}
	sort.Slice(wantS, func(i, j int) bool {
		a, b := wantS[i], wantS[j]
		if valueOf[a] != valueOf[b] {
			return valueOf[a] < valueOf[b]
		}
		return a < b
	})
	if !sameSeq(us, wantS) {
		c.Fail(t, "search-order", fmt.Sprintf("SEARCH s IDS = %s, expected the string objects ordered by (value, id): %s", qs(us), qs(wantS)), d)
	}
	expSearch := filterSeq(us, func(id string) bool { return anyMatch(ps, valueOf[id]) })
	if m := relations(search, expSearch, d.Limit, d.Cursor, true); m != nil {
		c.Fail(t, matchKey("search", m.rel, ps), m.what, d)
	}

	// one spatial command: MATCH applies to ids
	var sp query
	switch d.Spatial {
	case "WITHIN", "INTERSECTS":
		sp = query{Cmd: d.Spatial, Key: "k", Filters: filters, Area: []bstr{"BOUNDS", "-90", "-180", "90", "180"}}
	default:
		sp = query{Cmd: "NEARBY", Key: "k", Filters: filters, Area: []bstr{"POINT", "0", "0"}}
	}
	usp, err := unfiltered(sp)
	if err != nil {
		c.Fail(t, matchKey(sp.Cmd, "parse", ps), err.Error(), d)
	}
	expSp := filterSeq(usp, func(id string) bool { return anyMatch(ps, id) })
	if m := relations(sp, expSp, d.Limit, d.Cursor, false); m != nil {
		c.Fail(t, matchKey(sp.Cmd, m.rel, ps), m.what, d)
	}

	// classification
	early, edge, malformed := false, false, false
	for _, p := range ps {
		early = early || metaEarly(p)
		edge = edge || edgePrefix(p)
		malformed = malformed || !model.GlobValid(p)
	}
	if early {
		labels = append(labels, "meta-or-escape-in-first-2-bytes")
	}
	if edge {
		labels = append(labels, "prefix-ends-in-edge-byte")
	}
	if malformed {
		labels = append(labels, "malformed-pattern(impl-mirrored: matches nothing)")
	}
	if len(ps) > 1 {
		labels = append(labels, "multiple-match")
	}
	if len(ps) > 3 {
		labels = append(labels, "match-clauses:"+bucket(len(ps)))
	}
	sepScan := len(expScan) > 0 && len(expScan) < len(u)
	sepSearch := len(expSearch) > 0 && len(expSearch) < len(us)
	if sepScan {
		labels = append(labels, "scan-match-separates")
	}
	if sepSearch {
		labels = append(labels, "search-match-separates")
	}
	if len(expSp) > 0 && len(expSp) < len(usp) {
		labels = append(labels, strings.ToLower(sp.Cmd)+"-match-separates")
	}
	if hasStr && hasGeo {
		labels = append(labels, "mixed-strings-and-geometries")
	}
	if d.Limit > 0 && d.Limit <= len(expScan) {
		labels = append(labels, "limit-cuts-scan-result")
	}
	nontrivial = (early || edge) && (sepScan || sepSearch) && hasStr && hasGeo
	return labels, nontrivial
}

func TestC12_Match(t *testing.T) {
	c := ev.New("C12", "match", "exploration")
	t.Cleanup(c.Flush)
	c.Rule("server level: 1-3 patterns (1 in 8 cases 4-20, around 8 and 16) from the glob grammar of the globlaw sub-check; collection k gets ids built around the patterns (instances, byte mutations, range-edge neighbours) as a mix of string and point objects, collection s gets string objects whose VALUES are built the same way (with duplicates) plus two geometries. Oracle: SCAN/SEARCH/one of WITHIN,INTERSECTS,NEARBY with MATCH p.. IDS == [x in the unfiltered reply : model.GlobMatch(p, id or value) for some p]; DESC == reverse; COUNT == len(IDS); LIMIT l IDS == prefix and LIMIT l COUNT == min; CURSOR c COUNT == len(CURSOR c IDS); the unfiltered SCAN is bytewise ascending and SEARCH is ordered by (value,id) over string objects only. Non-trivial: a pattern has a metacharacter/escape in its first two bytes or an edge-byte prefix, MATCH keeps some but not all of the SCAN or SEARCH items, and k mixes strings and geometries; distinct by (patterns, ids, values).")
	ev.Rapid("match", ev.Pick(3000, 30000))
	rapid.Check(t, func(rt *rapid.T) {
		np := rapid.SampledFrom([]int{1, 1, 1, 2, 2, 3, 3, 0}).Draw(rt, "npatterns")
		if np == 0 {
			np = rapid.SampledFrom([]int{4, 5, 7, 8, 9, 15, 16, 17, 20}).Draw(rt, "npatternsthr")
		}
		var pats []pat
		var ps []string
		for i := 0; i < np; i++ {
			p := drawGatedPattern(rt, c)
			if i < 3 {
				pats = append(pats, p) // names are built around the first three
			}
			ps = append(ps, p.text)
		}
		ids := dropAmbiguous(c, ps, drawNames(rt, pats, rapid.IntRange(2, 6).Draw(rt, "ninst"), false))
		values := dropAmbiguous(c, ps, drawNames(rt, pats, rapid.IntRange(2, 6).Draw(rt, "nvinst"), true))
		if len(ids) == 0 {
			ids = []string{"a"}
		}
		if len(values) == 0 {
			values = []string{"a"}
		}
		if n := rapid.IntRange(0, 3).Draw(rt, "dups"); n > 0 {
			for i := 0; i < n; i++ {
				values = append(values, values[rapid.IntRange(0, len(values)-1).Draw(rt, "dup")])
			}
		}
		kinds := rapid.SliceOfN(rapid.IntRange(0, 1), 1, 7).Draw(rt, "kinds")
		d := matchCase{
			Patterns: bs(ps), IDs: bs(ids), Kinds: kinds, Values: bs(values),
			Spatial: rapid.SampledFrom([]string{"NEARBY", "WITHIN", "INTERSECTS"}).Draw(rt, "spatial"),
			Limit:   rapid.IntRange(0, len(ids)+1).Draw(rt, "limit"),
			Cursor:  rapid.IntRange(0, 4).Draw(rt, "cursor"),
		}
		c.Case()
		labels, nt := runMatchCase(rt, c, d)
		for _, l := range labels {
			c.Label(l)
		}
		if nt {
			c.NonTrivial(strings.Join(ps, "\x00") + "\x01" + strings.Join(ids, "\x00") + "\x01" + strings.Join(values, "\x00"))
			if c.WantSample() {
				c.Sample(map[string]any{"patterns": qs(ps), "ids": qs(ids), "values": qs(values), "labels": labels})
			}
		}
	})
}

// KEYS / PDEL / HOOKS / CHANS / PDELHOOK / PDELCHAN ------------------------------

type namesCase struct {
	Pattern bstr   `json:"pattern"`
	Keys    []bstr `json:"keys"`
	Hooks   []bstr `json:"hooks"`
	Chans   []bstr `json:"chans"`
	IDs     []bstr `json:"ids"` // ids of collection "kk" for PDEL
	// ChanFirst: run PDELCHAN before PDELHOOK
	ChanFirst bool `json:"chan_first"`
}

const hookEndpoint = "http://127.0.0.1:1/c12"

func namesKey(cmd, p string) string {
	if globfuzz.PrefixEndsFF(p) {
		return findFF
	}
	return "names-mismatch:" + cmd
}

func bulkList(v t38.Value) ([]string, error) {
	if v.Kind != '*' {
		return nil, fmt.Errorf("not an array: %s", v.String())
	}
	out := []string{}
	for _, e := range v.Arr {
		switch {
		case e.Kind == '$':
			out = append(out, e.Str)
		case e.Kind == '*' && len(e.Arr) > 0 && e.Arr[0].Kind == '$':
			out = append(out, e.Arr[0].Str) // HOOKS/CHANS entry: name first
		default:
			return nil, fmt.Errorf("unexpected element %s", e.String())
		}
	}
	return out, nil
}

func runNamesCase(t failer, c *ev.Collector, d namesCase) (labels []string, nontrivial bool) {
	p := string(d.Pattern)
	if anyAmbiguous([]string{p}, d.Keys, d.Hooks, d.Chans, d.IDs) {
		return []string{"case-skipped(ambiguous name)"}, false
	}
	recycle()
	must(t, "FLUSHDB")
	keys := append([]string(nil), ss(d.Keys)...)
	for _, k := range d.Keys {
		must(t, "SET", string(k), "x", "STRING", "v")
	}
	for i, id := range d.IDs {
		if i%2 == 0 {
			must(t, "SET", "kk", string(id), "STRING", "v")
		} else {
			must(t, "SET", "kk", string(id), "POINT", "1", "2")
		}
	}
	if len(d.IDs) > 0 {
		found := false
		for _, k := range keys {
			found = found || k == "kk"
		}
		if !found {
			keys = append(keys, "kk")
		}
	}
	for _, h := range d.Hooks {
		must(t, "SETHOOK", string(h), hookEndpoint, "NEARBY", "fencekey", "FENCE", "POINT", "0", "0", "100")
	}
	for _, h := range d.Chans {
		must(t, "SETCHAN", string(h), "NEARBY", "fencekey", "FENCE", "POINT", "0", "0", "100")
	}
	match := func(s string) bool { return model.GlobMatch(p, s) }
	not := func(s string) bool { return !model.GlobMatch(p, s) }
	list := func(cmd string, args ...string) []string {
		v, err := conn.Do(args...)
		if err != nil {
			c.Fail(t, namesKey(cmd+":transport", p), err.Error(), d)
		}
		got, err := bulkList(v)
		if err != nil {
			c.Fail(t, namesKey(cmd+":reply", p), fmt.Sprintf("%s -> %v", t38.CmdString(args), err), d)
		}
		return got
	}
	expect := func(cmd string, want []string, args ...string) {
		got := list(cmd, args...)
		if !sameSeq(got, want) {
			c.Fail(t, namesKey(cmd, p), fmt.Sprintf("%s returned %s; the names matching under the reference matcher are %s",
				t38.CmdString(args), qs(got), qs(want)), d)
		}
	}
	count := func(cmd string, want int, args ...string) {
		v, err := conn.Do(args...)
		if err != nil {
			c.Fail(t, namesKey(cmd+":transport", p), err.Error(), d)
		}
		if v.Kind != ':' || int(v.Int) != want {
			c.Fail(t, namesKey(cmd, p), fmt.Sprintf("%s answered %s; %d names match under the reference matcher",
				t38.CmdString(args), v.String(), want), d)
		}
	}
	sKeys, sHooks, sChans, sIDs := sortedCopy(keys), sortedCopy(ss(d.Hooks)), sortedCopy(ss(d.Chans)), sortedCopy(ss(d.IDs))

	expect("keys", filterSeq(sKeys, match), "KEYS", p)
	expect("hooks", filterSeq(sHooks, match), "HOOKS", p)
	expect("chans", filterSeq(sChans, match), "CHANS", p)

	pdelhook := func() {
		count("pdelhook", len(filterSeq(sHooks, match)), "PDELHOOK", p)
		expect("pdelhook", filterSeq(sHooks, not), "HOOKS", "*")
	}
	pdelchan := func() {
		count("pdelchan", len(filterSeq(sChans, match)), "PDELCHAN", p)
		expect("pdelchan", filterSeq(sChans, not), "CHANS", "*")
	}
	if d.ChanFirst {
		pdelchan()
		expect("pdelchan", sHooks, "HOOKS", "*") // hooks untouched by PDELCHAN
		pdelhook()
	} else {
		pdelhook()
		expect("pdelhook", sChans, "CHANS", "*") // channels untouched by PDELHOOK
		pdelchan()
	}

	if len(d.IDs) > 0 {
		count("pdel", len(filterSeq(sIDs, match)), "PDEL", "kk", p)
		rest := filterSeq(sIDs, not)
		got, _, err := runIDs([]string{"SCAN", "kk", "LIMIT", big, "IDS"})
		if err != nil {
			c.Fail(t, namesKey("pdel:reply", p), err.Error(), d)
		}
		if !sameSeq(got, rest) {
			c.Fail(t, namesKey("pdel", p), fmt.Sprintf("after PDEL kk %s the collection holds %s, expected the non-matching ids %s", q(p), qs(got), qs(rest)), d)
		}
		if len(rest) == 0 {
			sKeys = filterSeq(sKeys, func(s string) bool { return s != "kk" })
		}
	}
	expect("keys", sKeys, "KEYS", "*")

	sep := func(all []string) bool {
		n := len(filterSeq(all, match))
		return n > 0 && n < len(all)
	}
	if metaEarly(p) {
		labels = append(labels, "meta-or-escape-in-first-2-bytes")
	}
	if edgePrefix(p) {
		labels = append(labels, "prefix-ends-in-edge-byte")
	}
	if !model.GlobValid(p) {
		labels = append(labels, "malformed-pattern(impl-mirrored: matches nothing)")
	}
	nsep := 0
	for name, all := range map[string][]string{"keys": sKeys, "hooks": sHooks, "chans": sChans, "ids": sIDs} {
		if sep(all) {
			labels = append(labels, "pattern-separates-"+name)
			nsep++
		}
	}
	sort.Strings(labels)
	nontrivial = (metaEarly(p) || edgePrefix(p)) && nsep >= 2
	return labels, nontrivial
}

func TestC12_Names(t *testing.T) {
	c := ev.New("C12", "names", "exploration")
	t.Cleanup(c.Flush)
	c.Rule("server level: one pattern from the glob grammar; names built around it are distributed over collection keys, hooks, channels (disjoint from hooks) and the ids of one collection. Oracle: KEYS p, HOOKS p, CHANS p list exactly the names model.GlobMatch accepts, in ascending order; PDELHOOK p / PDELCHAN p / PDEL key p answer the number of matching names and leave exactly the non-matching ones (and do not touch the other kind); KEYS * afterwards is the expected key set. Non-trivial: the pattern has a metacharacter/escape in its first two bytes or an edge-byte prefix and separates (matches some, not all of) at least two of the four name sets; distinct by (pattern, names).")
	ev.Rapid("names", ev.Pick(2000, 20000))
	rapid.Check(t, func(rt *rapid.T) {
		p := drawGatedPattern(rt, c)
		names := dropAmbiguous(c, []string{p.text}, drawNames(rt, []pat{p}, rapid.IntRange(4, 10).Draw(rt, "ninst"), false))
		var d namesCase
		d.Pattern = bstr(p.text)
		for _, n := range names {
			if rapid.IntRange(0, 9).Draw(rt, "askey") < 6 {
				d.Keys = append(d.Keys, bstr(n))
			}
			switch rapid.IntRange(0, 4).Draw(rt, "ashook") {
			case 0, 1:
				d.Hooks = append(d.Hooks, bstr(n))
			case 2, 3:
				d.Chans = append(d.Chans, bstr(n))
			}
			if rapid.IntRange(0, 9).Draw(rt, "asid") < 7 {
				d.IDs = append(d.IDs, bstr(n))
			}
		}
		d.ChanFirst = rapid.Bool().Draw(rt, "chanfirst")
		c.Case()
		labels, nt := runNamesCase(rt, c, d)
		for _, l := range labels {
			c.Label(l)
		}
		if nt {
			c.NonTrivial(p.text + "\x01" + strings.Join(names, "\x00"))
			if c.WantSample() {
				c.Sample(map[string]any{"pattern": q(p.text), "keys": qs(ss(d.Keys)), "hooks": qs(ss(d.Hooks)), "chans": qs(ss(d.Chans)), "ids": qs(ss(d.IDs)), "labels": labels})
			}
		}
	})
}

package c12

import (
	"sort"
	"unicode/utf8"

	"github.com/tidwall/tile38/verif/harness/props/c12/globfuzz"
	"pgregory.net/rapid"
)

// Pattern grammar ------------------------------------------------------------

// characters a literal / a '?' instance / a name byte is drawn from: letters,
// the bytes next to the ends of the byte range, the glob metacharacters and
// class punctuation, a two-byte and a three-byte rune.
var litChars = []string{
	"a", "b", "c", "A", "z", "0", "\x00", "\x01", "\xfe", "\xff",
	"-", "]", "^", " ", "é", "世", "*", "?", "[", "\\",
}

// characters allowed inside a class (must be valid UTF-8 for the pattern to be
// well formed).
var classChars = []string{"a", "b", "c", "d", "z", "0", "9", "é", "\x00", "\x01", "*", "?", "[", "]", "-", "\\", "^"}

func isMeta(c byte) bool { return c == '*' || c == '?' || c == '[' || c == '\\' }

type elem struct {
	text string                  // pattern text
	inst func(t *rapid.T) string // a string the element is meant to match
}

func drawChar(t *rapid.T, label string) string {
	return rapid.SampledFrom(litChars).Draw(t, label)
}

func drawShort(t *rapid.T, label string, max int) string {
	n := rapid.IntRange(0, max).Draw(t, label+"n")
	s := ""
	for i := 0; i < n; i++ {
		s += drawChar(t, label)
	}
	return s
}

func classItemText(ch string, first, neg bool) string {
	switch ch {
	case "]", "-", "\\":
		return "\\" + ch
	case "^":
		if first && !neg {
			return "\\^"
		}
	}
	return ch
}

func drawElem(t *rapid.T) elem {
	switch rapid.IntRange(0, 9).Draw(t, "elem") {
	case 0, 1, 2, 3: // literal
		ch := drawChar(t, "lit")
		text := ch
		if len(ch) == 1 && isMeta(ch[0]) {
			text = "\\" + ch
		} else if rapid.IntRange(0, 5).Draw(t, "esc?") == 0 {
			text = "\\" + ch // an escape that is not needed
		}
		return elem{text, func(*rapid.T) string { return ch }}
	case 4, 5:
		return elem{"*", func(t *rapid.T) string { return drawShort(t, "star", 3) }}
	case 6, 7:
		return elem{"?", func(t *rapid.T) string { return drawChar(t, "any") }}
	default: // class
		neg := rapid.Bool().Draw(t, "neg")
		n := rapid.IntRange(1, 3).Draw(t, "nitems")
		text := "["
		if neg {
			text += "^"
		}
		type rg struct{ lo, hi rune }
		var rs []rg
		for i := 0; i < n; i++ {
			lo := rapid.SampledFrom(classChars).Draw(t, "clo")
			text += classItemText(lo, i == 0, neg)
			r0, _ := utf8.DecodeRuneInString(lo)
			r1 := r0
			if rapid.IntRange(0, 2).Draw(t, "range?") == 0 {
				hi := rapid.SampledFrom(classChars).Draw(t, "chi")
				text += "-" + classItemText(hi, false, neg)
				r1, _ = utf8.DecodeRuneInString(hi)
			}
			rs = append(rs, rg{r0, r1})
		}
		text += "]"
		return elem{text, func(t *rapid.T) string {
			if neg {
				return drawChar(t, "negany")
			}
			r := rs[rapid.IntRange(0, len(rs)-1).Draw(t, "item")]
			if r.lo > r.hi {
				return drawChar(t, "emptyrange")
			}
			span := int(r.hi - r.lo)
			if span > 3 {
				span = 3
			}
			return string(r.lo + rune(rapid.IntRange(0, span).Draw(t, "inrange")))
		}}
	}
}

// pat is a generated pattern with the means to build names around it.
type pat struct {
	text  string
	elems []elem
}

func drawPattern(t *rapid.T) pat {
	if rapid.IntRange(0, 11).Draw(t, "rawpattern?") == 0 {
		// arbitrary bytes from the same alphabet: may be malformed
		n := rapid.IntRange(1, 5).Draw(t, "rawn")
		s := ""
		for i := 0; i < n; i++ {
			s += drawChar(t, "raw")
		}
		return pat{text: s}
	}
	n := rapid.IntRange(1, 5).Draw(t, "nelems")
	var p pat
	for i := 0; i < n; i++ {
		e := drawElem(t)
		p.elems = append(p.elems, e)
		p.text += e.text
	}
	return p
}

func (p pat) instance(t *rapid.T) string {
	if p.elems == nil {
		return drawShort(t, "rawinst", 4)
	}
	s := ""
	for _, e := range p.elems {
		s += e.inst(t)
	}
	return s
}

func mutate(t *rapid.T, s string) string {
	b := []byte(s)
	switch rapid.IntRange(0, 8).Draw(t, "mut") {
	case 0, 1:
		return s
	case 2:
		if len(b) > 0 {
			i := rapid.IntRange(0, len(b)-1).Draw(t, "mi")
			b[i] += byte(rapid.SampledFrom([]int{1, 255}).Draw(t, "delta"))
		}
	case 3:
		if len(b) > 0 {
			i := rapid.IntRange(0, len(b)-1).Draw(t, "mi")
			b[i] = byte(rapid.SampledFrom([]int{0, 255}).Draw(t, "edge"))
		}
	case 4:
		return s + drawChar(t, "app")
	case 5:
		if len(b) > 0 {
			b = b[:len(b)-1]
		}
	case 6:
		if len(b) > 0 {
			b = b[1:]
		}
	case 7:
		return drawChar(t, "pre") + s
	case 8:
		if len(b) > 0 {
			i := rapid.IntRange(0, len(b)-1).Draw(t, "mi")
			b = append(b[:i:i], b[i+1:]...)
		}
	}
	return string(b)
}

// prefixNeighbours are the names right at the edges of the id range a literal
// prefix implies.
func prefixNeighbours(p string) []string {
	lp := globfuzz.LiteralPrefix(p)
	if lp == "" {
		return nil
	}
	n := len(lp)
	last := lp[n-1]
	out := []string{lp, lp + "\x00", lp + "\xff", lp + "z", lp[:n-1] + string([]byte{last + 1}), lp[:n-1] + string([]byte{last - 1}),
		lp[:n-1] + string([]byte{last - 1}) + "\xff", lp[:n-1] + string([]byte{last + 1}) + "\x00"}
	if n > 1 {
		out = append(out, lp[:n-1])
	}
	return out
}

// drawNames builds a set of distinct names around the patterns: instances,
// mutated instances, range-edge neighbours and a few commons. allowEmpty says
// whether "" may be a member (values may be empty, ids and names may not).
func drawNames(t *rapid.T, ps []pat, nInst int, allowEmpty bool) []string {
	seen := map[string]bool{}
	var out []string
	add := func(s string) {
		if s == "" && !allowEmpty {
			return
		}
		if len(s) > 40 || seen[s] {
			return
		}
		seen[s] = true
		out = append(out, s)
	}
	for _, p := range ps {
		for i := 0; i < nInst; i++ {
			add(mutate(t, p.instance(t)))
		}
		nb := prefixNeighbours(p.text)
		for _, s := range nb {
			if rapid.IntRange(0, 2).Draw(t, "nb?") != 0 {
				add(s)
			}
		}
	}
	for _, s := range []string{"a", "b", "ab", "abc", "\xff", "\x00"} {
		if rapid.IntRange(0, 3).Draw(t, "common?") == 0 {
			add(s)
		}
	}
	if len(out) == 0 {
		add("a")
	}
	return out
}

func sortedCopy(xs []string) []string {
	out := append([]string(nil), xs...)
	sort.Strings(out)
	return out
}

// metaEarly: a metacharacter or an escape within the first two bytes.
func metaEarly(p string) bool {
	for i := 0; i < len(p) && i < 2; i++ {
		if isMeta(p[i]) {
			return true
		}
	}
	return false
}

// edgePrefix: the literal prefix ends in one of the bytes where computing the
// neighbouring string needs care.
func edgePrefix(p string) bool {
	lp := globfuzz.LiteralPrefix(p)
	if lp == "" {
		return false
	}
	switch lp[len(lp)-1] {
	case 0x00, 0x01, 0xfe, 0xff:
		return true
	}
	return false
}

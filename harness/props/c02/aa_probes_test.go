package c02

import (
	_ "embed"
	"encoding/json"
	"fmt"
	"strings"
	"testing"

	"github.com/tidwall/tile38/verif/harness/ev"
	"github.com/tidwall/tile38/verif/harness/t38"
)

// nanCorruption is a history found by the thorough tier and shrunk (under the
// pre-fix code) to 140 steps: objects around the north pole, among them circle
// objects whose disc touches the pole (NaN vertices), two deletes, and one
// INTERSECTS query. With a NaN box in the R-tree the deletes fail silently and
// the query returns a deleted id.
//
//go:embed testdata/nan_corruption.json
var nanProbeJSON []byte

// lcg is a fixed pseudo-random sequence for deterministic probe datasets.
type lcg uint64

func (l *lcg) f(lo, hi float64) float64 {
	*l = *l*6364136223846793005 + 1442695040888963407
	return lo + (hi-lo)*float64(uint64(*l)>>11)/float64(1<<53)
}

type stopFailer struct{ msg string }

func (f *stopFailer) Fatalf(format string, args ...any) {
	f.msg = fmt.Sprintf(format, args...)
	panic(f)
}
func (f *stopFailer) Helper() {}

// historyFails replays h on a scratch collector and reports the violation
// message, if any.
func historyFails(h history, conn *t38.Conn) (msg string) {
	f := &stopFailer{}
	defer func() {
		if r := recover(); r != nil {
			if r != any(f) {
				panic(r)
			}
			msg = f.msg
		}
	}()
	replayHistory(f, ev.New("C02", "probe-scratch", "exploration"), h, conn)
	return ""
}

// TestC02_KnownProbes runs first: deterministic reproductions of findings that
// belong to this property. A probe that reproduces is reported as
// KNOWN-FINDING when the id is listed as known, as a VIOLATION otherwise.
func TestC02_KnownProbes(t *testing.T) {
	c := ev.New("C02", "probes", "exploration")
	t.Cleanup(c.Flush)
	c.Rule("deterministic probes of the findings of this property (one point object + one CIRCLE query each, at both levels); every probe counts as one evaluation and is never non-trivial")
	type probe struct {
		finding string
		name    string
		obj     []string
		area    []string
	}
	probes := []probe{
		{findingEmpty, "empty-featurecollection", []string{"OBJECT", `{"type":"FeatureCollection","features":[]}`}, []string{"CIRCLE", "10", "10", "1000"}},
		{findingEmpty, "empty-geometrycollection", []string{"OBJECT", `{"type":"GeometryCollection","geometries":[]}`}, []string{"CIRCLE", "10", "10", "1000"}},
		// the disc's easternmost point lies north of the centre's parallel, 37 m beyond the 64-gon's box
		{findingCircle, "lat60-east-rim", []string{"POINT", "60.01225974875774", "11.798864868826337"}, []string{"CIRCLE", "60", "10", "100000"}},
		// small discs that barely cross the antimeridian: geo.RectFromCenter's acos() loses the crossing for
		// metre-sized radii, and returns the bare centre below 0.28 m
		{findingCircle, "antimeridian-1.7m", []string{"POINT", "0.5000000596046447", "-180"}, []string{"CIRCLE", "0.5000000596046447", "179.9999847412109", "1.6966402580272648"}},
		{findingCircle, "antimeridian-20cm", []string{"POINT", "0", "-179.9999999"}, []string{"CIRCLE", "0", "179.9999999", "0.2"}},
		// disc across the antimeridian
		{findingCircle, "antimeridian", []string{"POINT", "0", "-179.9"}, []string{"CIRCLE", "0", "179.9", "50000"}},
		// a referenced plain point outside the CLIPBY rectangle (tile 1/1/1 is lat<=0, lon>=0)
		{findingClipSimple, "get-point-clipby", []string{"POINT", "0.5", "0"}, []string{"GET", theKey, "p", "CLIPBY", "TILE", "1", "1", "1"}},
		// a point inside a stored circle's disc but outside the box of its 64-gon
		{findingCircleBox, "stored-circle-east-rim", []string{"OBJECT", `{"type":"Feature","geometry":{"type":"Point","coordinates":[10,60]},"properties":{"type":"Circle","radius":100000,"radius_units":"m"}}`}, []string{"POINT", "60.01225974875774", "11.798864868826337"}},
		// a circle nested in a FeatureCollection, against another circle that overlaps it only in the part of its
		// disc outside the 64-gon's box (circle-vs-circle tests compare centre distances): object side and query side
		{findingNested, "stored-featurecollection-of-circle", []string{"OBJECT", `{"type":"FeatureCollection","features":[{"type":"Feature","geometry":{"type":"Point","coordinates":[10,60]},"properties":{"type":"Circle","radius":100000,"radius_units":"m"}}]}`}, []string{"CIRCLE", "60.01225974875774", "11.799", "10"}},
		{findingNested, "query-featurecollection-of-circle", []string{"OBJECT", `{"type":"Feature","geometry":{"type":"Point","coordinates":[11.799,60.01225974875774]},"properties":{"type":"Circle","radius":10,"radius_units":"m"}}`}, []string{"OBJECT", `{"type":"FeatureCollection","features":[{"type":"Feature","geometry":{"type":"Point","coordinates":[10,60]},"properties":{"type":"Circle","radius":100000,"radius_units":"m"}}]}`}},
		// (point-vs-nested-circle is consistent: the collection's own child search uses the same polygon boxes)
		{findingNested, "nested-circle-vs-point", []string{"OBJECT", `{"type":"FeatureCollection","features":[{"type":"Feature","geometry":{"type":"Point","coordinates":[10,60]},"properties":{"type":"Circle","radius":100000,"radius_units":"m"}}]}`}, []string{"POINT", "60.01225974875774", "11.798864868826337"}},
		// a stored circle object against a rectangle around it
		{findingCircleObj, "stored-circle", []string{"OBJECT", `{"type":"Feature","geometry":{"type":"Point","coordinates":[10,60]},"properties":{"type":"Circle","radius":1000,"radius_units":"m"}}`}, []string{"BOUNDS", "59", "9", "61", "11"}},
		// disc over the pole
		{findingCircle, "pole", []string{"POINT", "89.9", "-170"}, []string{"CIRCLE", "89.95", "10", "20000"}},
	}
	conn := srv.MustDial()
	defer conn.Close()
	reproduced := map[string][]string{}
	firstReplay := map[string]*history{}
	for _, p := range probes {
		for _, level := range []string{"collection", "server"} {
			c.Case()
			var be backend
			if level == "collection" {
				be = &colBackend{}
			} else {
				be = &srvBackend{c: conn}
			}
			be.reset()
			spec := objSpec{p.obj}
			area := areaSpec{Args: p.area}
			for i, a := range p.area {
				if a == "CLIPBY" {
					area = areaSpec{Args: p.area[:i], Clip: [][]string{p.area[i+1:]}}
				}
			}
			if len(area.Clip) > 0 && level == "collection" {
				continue // CLIPBY parsing is a protocol-level matter
			}
			obj, err := buildObject(spec)
			if err != nil {
				t.Fatal(err)
			}
			if err := be.set("p", spec, obj); err != nil {
				t.Fatal(err)
			}
			_, clipped, err := buildArea(area, be.get)
			if err != nil {
				t.Fatal(err)
			}
			for _, pred := range []string{"within", "intersects"} {
				want, _, skip := be.oracle(pred, area, clipped)
				if skip != "" {
					t.Fatalf("probe oracle: %s", skip)
				}
				got, err := be.search(pred, 0, area, clipped)
				if err != nil {
					t.Fatalf("probe search: %v", err)
				}
				// the clip finding returns an object that should not match, all others lose one that does
				hit := want["p"] && len(got) == 0
				if p.finding == findingClipSimple {
					hit = !want["p"] && len(got) == 1
				}
				if hit {
					reproduced[p.finding] = append(reproduced[p.finding], fmt.Sprintf("%s/%s/%s", p.name, level, pred))
					c.Label("reproduced:" + p.name)
					if firstReplay[p.finding] == nil {
						firstReplay[p.finding] = &history{Level: level, Steps: []step{
							{Op: "set", ID: "p", Obj: &spec},
							{Op: "query", Pred: pred, Area: &area},
						}}
					}
				}
			}
		}
	}
	// index-corruption regression (deleted ids must not be returned)
	var nanHist history
	if err := json.Unmarshal(nanProbeJSON, &nanHist); err != nil {
		t.Fatal(err)
	}
	for _, level := range []string{"collection", "server"} {
		c.Case()
		nanHist.Level = level
		if msg := historyFails(nanHist, conn); msg != "" {
			reproduced[findingNaN] = append(reproduced[findingNaN], "nan-history/"+level+": "+msg)
			c.Label("reproduced:nan-history")
			if firstReplay[findingNaN] == nil {
				h := nanHist
				firstReplay[findingNaN] = &h
			}
		}
	}
	// object-nonfinite-coordinates: 2 000 points, 400 Point objects with a null
	// (NaN) coordinate, 2 000 more points (an R-tree of depth 3), one WITHIN
	// BOUNDS query that lost 12 ordinary points on 5c66d70. Positions come from
	// a fixed linear congruential sequence. If the server refuses the NaN
	// objects the history is just 4 000 points and must pass as well.
	{
		var nf history
		r := lcg(3)
		n := 0
		pts := func(k int) {
			for i := 0; i < k; i++ {
				n++
				nf.Steps = append(nf.Steps, step{Op: "set", ID: fmt.Sprintf("p%04d", n), Obj: &objSpec{[]string{"POINT", fs(r.f(-85, 85)), fs(r.f(-179, 179))}}})
			}
		}
		pts(2000)
		for i := 0; i < 200; i++ {
			nf.Steps = append(nf.Steps, step{Op: "set", ID: fmt.Sprintf("nan%03d", i), Obj: &objSpec{[]string{"OBJECT", `{"type":"Point","coordinates":[null,` + fs(r.f(-85, 85)) + `]}`}}})
			nf.Steps = append(nf.Steps, step{Op: "set", ID: fmt.Sprintf("nbn%03d", i), Obj: &objSpec{[]string{"OBJECT", `{"type":"Point","coordinates":[` + fs(r.f(-170, 170)) + `,null]}`}}})
		}
		pts(2000)
		nf.Steps = append(nf.Steps, step{Op: "query", Pred: "within", Area: &areaSpec{Args: []string{"BOUNDS", "-41.58648684818561", "-102.98001361004066", "-18.251810900810497", "-79.64533766266555"}}})
		levels := []string{"collection", "server"}
		if nonFiniteRefused || ev.KnownActive(findingNonFinite) {
			levels = []string{"server"} // in-package the harness follows the server's admission rule
		}
		for _, level := range levels {
			c.Case()
			nf.Level = level
			if msg := historyFails(nf, conn); msg != "" {
				reproduced[findingNonFinite] = append(reproduced[findingNonFinite], "nan-points/"+level+": "+msg)
				c.Label("reproduced:nonfinite")
				if firstReplay[findingNonFinite] == nil {
					h := nf
					firstReplay[findingNonFinite] = &h
				}
			}
		}
	}
	// sparse-stops-at-first-nonmatch and clipby-ignored-for-circles: small histories
	smallProbes := []struct {
		finding string
		name    string
		sets    [][]string // id = s0, s1, ...
		pred    string
		sparse  []int
		area    areaSpec
	}{
		{findingSparseStop, "sparse-near-miss-first", [][]string{{"POINT", "8.5", "-8.5"}, {"POINT", "-2", "2"}, {"POINT", "-3", "-3"}}, "intersects", []int{1, 2, 4},
			areaSpec{Args: []string{"CIRCLE", "0", "0", "1000000"}}},
		{findingSparseStop, "sparse-near-miss-first", [][]string{{"POINT", "8.5", "-8.5"}, {"POINT", "-2", "2"}, {"POINT", "-3", "-3"}}, "within", []int{1, 2, 4},
			areaSpec{Args: []string{"CIRCLE", "0", "0", "1000000"}}},
		{findingClipCircle, "circle-clipby", [][]string{{"POINT", "-1", "-1"}, {"POINT", "1", "1"}, {"BOUNDS", "-3", "-3", "-2", "-2"}}, "intersects", []int{0},
			areaSpec{Args: []string{"CIRCLE", "0", "0", "500000"}, Clip: [][]string{{"BOUNDS", "0", "0", "10", "10"}}}},
		{findingClipCircle, "circle-clipby", [][]string{{"POINT", "-1", "-1"}, {"POINT", "1", "1"}}, "within", []int{0},
			areaSpec{Args: []string{"CIRCLE", "0", "0", "500000"}, Clip: [][]string{{"BOUNDS", "0", "0", "10", "10"}}}},
		{findingClipCircle, "get-circle-clipby", [][]string{{"OBJECT", `{"type":"Feature","geometry":{"type":"Point","coordinates":[0,0]},"properties":{"type":"Circle","radius":500000,"radius_units":"m"}}`}, {"POINT", "-1", "-1"}, {"POINT", "1", "1"}}, "intersects", []int{0},
			areaSpec{Args: []string{"GET", theKey, "s0"}, Clip: [][]string{{"BOUNDS", "0", "0", "10", "10"}}}},
	}
	for _, sp := range smallProbes {
		var h history
		for i := range sp.sets {
			h.Steps = append(h.Steps, step{Op: "set", ID: fmt.Sprintf("s%d", i), Obj: &objSpec{sp.sets[i]}})
		}
		for _, n := range sp.sparse {
			a := sp.area
			h.Steps = append(h.Steps, step{Op: "query", Pred: sp.pred, Sparse: n, Area: &a})
		}
		levels := []string{"collection", "server"}
		if sp.area.kind() == "get" {
			levels = []string{"server"}
		}
		for _, level := range levels {
			c.Case()
			h.Level = level
			if msg := historyFails(h, conn); msg != "" {
				reproduced[sp.finding] = append(reproduced[sp.finding], sp.name+"/"+level+"/"+sp.pred+": "+msg)
				c.Label("reproduced:" + sp.name)
				if firstReplay[sp.finding] == nil {
					hh := h
					firstReplay[sp.finding] = &hh
				}
			}
		}
	}
	whats := map[string]string{
		findingSparseStop: "SPARSE returns nothing although objects match (the first index candidate that fails the exact test ends the sparse search): ",
		findingClipCircle: "CLIPBY has no effect on a circle area: objects outside the CLIPBY rectangle are returned: ",
		findingNonFinite:  "SET ... OBJECT accepts and indexes geometries with null (NaN) / 1e999 (Inf) coordinates; the NaN boxes corrupt the R-tree and WITHIN/INTERSECTS miss ordinary objects that SCAN/GET still return: ",
		findingClipSimple: "WITHIN/INTERSECTS key GET key id CLIPBY <rect> does not clip a referenced plain point (clip.Clip has no case for *geojson.SimplePoint): a point outside the rectangle still matches itself, while TEST ... INTERSECTS CLIP / clip.Clip of a *geojson.Point give an empty area: ",
		findingNested:     "a circle feature nested in a FeatureCollection is indexed / searched by the box of its 64-gon (searchRect only widens a top-level *geojson.Circle), so another circle that overlaps its disc outside that box satisfies TEST (circle-vs-circle compares centre distances) and is missed by the search: ",
		findingCircle:     "a point inside a CIRCLE's haversine disc but outside the bounding box of its 64-gon is matched by TEST / the predicate and missed by WITHIN/INTERSECTS: ",
		findingCircleObj:  "a stored circle object (Point feature with properties.type=Circle) satisfies TEST ... WITHIN/INTERSECTS but is never returned by a search (object.IsSpatial() is false for *geojson.Circle, so it is not put into the R-tree): ",
		findingCircleBox:  "a stored circle object is indexed by the box of its 64-gon, so a query point inside its haversine disc but outside that box satisfies TEST ... INTERSECTS and is missed by the search: ",
		findingNaN:        "a circle object whose disc touches a pole has NaN vertices (math.Asin(1.0000000000000002) in geo.DestinationPoint); its NaN box corrupts the R-tree for other objects (deletes fail silently, deleted ids are returned, live objects are missed): ",
		findingEmpty:      "an empty collection object is WITHIN any CIRCLE according to TEST / the predicate (vacuous truth in Circle.Contains) and is never returned by WITHIN (empty geometries are not indexed): ",
	}
	for _, fid := range append([]string{findingClipSimple, findingNonFinite, findingSparseStop, findingClipCircle}, allFindings...) {
		if len(reproduced[fid]) == 0 {
			continue
		}
		what := whats[fid] + strings.Join(reproduced[fid], " ")
		if ev.KnownActive(fid) {
			c.Known(fid, what)
		} else {
			c.Violation(fid, what, firstReplay[fid])
			t.Errorf("VIOLATION-CANDIDATE key=%s: %s", fid, what)
		}
	}
}

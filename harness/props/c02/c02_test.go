// C02: spatial search returns exactly the objects satisfying the geometric
// predicate. Differential check of the indexed search (R-tree of float32
// rectangles + exact predicate) against an index-free evaluation of the same
// predicate over every object, after arbitrary insert/move/delete histories.
//
//	TestC02_KnownProbes  deterministic probes of listed / suspected findings
//	TestC02_Collection   in-package: collection.Collection driven directly
//	TestC02_Server       protocol level: SET/DEL, WITHIN/INTERSECTS vs TEST
//	TestReplay           re-executes a replay file of either level
package c02

import (
	"encoding/json"
	"flag"
	"fmt"
	"hash/fnv"
	"math"
	"os"
	"sort"
	"strconv"
	"strings"
	"testing"

	"github.com/tidwall/geojson"
	"github.com/tidwall/geojson/geometry"
	"github.com/tidwall/tile38/internal/collection"
	"github.com/tidwall/tile38/internal/field"
	"github.com/tidwall/tile38/internal/object"
	"github.com/tidwall/tile38/verif/harness/ev"
	"github.com/tidwall/tile38/verif/harness/t38"
	"pgregory.net/rapid"
)

// findingCircle: the query rectangle of a CIRCLE area is the bounding box of
// its 64-gon approximation, but point objects are tested against the exact
// haversine disc, which sticks out of that box east and west (and wraps at
// the antimeridian / poles): such points satisfy the predicate and are never
// offered by the index.
const findingCircle = "circle-search-rect-misses-disc"

// findingEmpty: Circle.Contains(collection) is true for a collection without
// children, so TEST says an empty FeatureCollection/GeometryCollection/Multi*
// is WITHIN every CIRCLE; empty geometries are not in the spatial index and
// are never returned by WITHIN.
const findingEmpty = "empty-collection-within-circle"

// findingCircleObj: a stored circle object (Point feature with
// properties.type=Circle, parsed to *geojson.Circle) is not a geojson.Spatial,
// so object.IsSpatial() is false and Collection.setFill files it under the
// non-spatial values: it is never in the R-tree, while TEST evaluates
// Within/Intersects for it like for any other geometry.
const findingCircleObj = "circle-object-not-indexed"

// findingClipSimple: clip.Clip has no case for *geojson.SimplePoint, the type
// every plain POINT is stored as, so `GET key id CLIPBY <rect>` leaves a
// referenced point unclipped even when it lies outside the rectangle (TEST
// ... INTERSECTS CLIP, and clip.Clip for *geojson.Point, yield nothing there).
const findingClipSimple = "clipby-skips-simple-point"

// findingCircleBox: the object-side twin of findingCircle. A stored circle
// object is indexed by the box of its 64-gon (rtreeItem uses item.Rect()),
// while Circle-vs-Point uses the haversine disc and Circle-vs-Circle the
// centre distance: the same E/W sliver, and nonsense boxes for discs over a
// pole or the antimeridian.
const findingCircleBox = "circle-object-box-misses-disc"

// findingNaN: geojson's makeCircleObject computes the 64-gon with
// geo.DestinationPoint, whose math.Asin argument rounds to 1.0000000000000002
// when the disc's north/south extreme touches a pole: the circle object gets a
// NaN latitude box. cmdSET stores it, Collection puts the NaN box into the
// R-tree, node rectangles become NaN, and from then on deletes silently fail
// (deleted ids keep being returned) and searches miss objects.
const findingNaN = "circle-nan-box-corrupts-index"

// findingNested: searchRect (collection.go) widens the box only for a top-level
// *geojson.Circle. A FeatureCollection whose features are circles is indexed,
// and as a query area searched, by the union of the children's 64-gon boxes,
// while collection-vs-point tests descend to Circle.Contains/Intersects(Point)
// = haversine disc: the E/W sliver (and pole/antimeridian discs) again.
const findingNested = "nested-circle-box-misses-disc"

var allFindings = []string{findingNaN, findingEmpty, findingCircleObj, findingCircleBox, findingNested, findingCircle}

func nanBox(o geojson.Object) bool {
	if o == nil || o.Empty() {
		return false
	}
	r := o.Rect()
	return math.IsNaN(r.Min.X) || math.IsNaN(r.Min.Y) || math.IsNaN(r.Max.X) || math.IsNaN(r.Max.Y)
}

func isCircleObj(o geojson.Object) bool {
	_, ok := o.(*geojson.Circle)
	return ok
}

// findingSparseStop (fixed aa6f73e): the sparse callbacks of Within/Intersects
// returned ok=false for a candidate that failed the exact test, which ended the
// whole sparse search: SPARSE returned nothing (or too little) as soon as the
// first index candidate was a near miss.
const findingSparseStop = "sparse-stops-at-first-nonmatch"

// findingClipCircle (fixed 0c54029): clip.Clip had no case for *geojson.Circle,
// so CIRCLE ... CLIPBY (and GET of a circle object ... CLIPBY) searched the
// whole disc and returned objects outside the CLIPBY rectangle.
const findingClipCircle = "clipby-ignored-for-circles"

// findingNonFinite: SET ... OBJECT accepts GeoJSON with null (-> NaN, in Points)
// or 1e999 (-> +-Inf) coordinates and indexes it; a NaN box corrupts the node
// rectangles of the R-tree (trees of depth 3, i.e. > ~4000 entries, show it),
// after which searches miss ordinary objects that GET/SCAN still return.
const findingNonFinite = "object-nonfinite-coordinates"

// nonFiniteRefused: the server under test refuses such objects (set by a probe
// in TestMain); the in-package machine then follows the same admission rule.
var nonFiniteRefused bool

// nonFinite reports an ordinary (non-circle) geometry with a NaN or Inf
// coordinate anywhere in its box or in the box of a child.
func nonFinite(o geojson.Object) bool {
	if o == nil || isCircleObj(o) {
		return false
	}
	if _, isStr := o.(collection.String); isStr {
		return false
	}
	bad := func(v float64) bool { return math.IsNaN(v) || math.IsInf(v, 0) }
	if !o.Empty() {
		r := o.Rect()
		if bad(r.Min.X) || bad(r.Min.Y) || bad(r.Max.X) || bad(r.Max.Y) {
			return true
		}
	}
	switch g := o.(type) {
	case *geojson.Feature:
		return nonFinite(g.Base())
	case geojson.Collection:
		for _, ch := range g.Children() {
			if nonFinite(ch) {
				return true
			}
		}
	}
	return false
}

// specNonFinite reports a generated object whose GeoJSON text carries a null or
// +-1e999 coordinate (x, y or z; a non-finite z does not show in the box).
func specNonFinite(spec objSpec) bool {
	if len(spec.Args) != 2 || spec.Args[0] != "OBJECT" {
		return false
	}
	js := spec.Args[1]
	return strings.Contains(js, "1e999") || strings.Contains(js, "[null") || strings.Contains(js, ",null")
}

// nestedCircle reports a circle below the top level of o.
func nestedCircle(o geojson.Object) bool {
	if o == nil || isCircleObj(o) {
		return false
	}
	var walk func(g geojson.Object) bool
	walk = func(g geojson.Object) bool {
		switch g := g.(type) {
		case *geojson.Circle:
			return true
		case *geojson.Feature:
			return walk(g.Base())
		case geojson.Collection:
			for _, ch := range g.Children() {
				if walk(ch) {
					return true
				}
			}
		}
		return false
	}
	return walk(o)
}

// hasNaNCircle reports a circle with NaN vertices anywhere inside o.
func hasNaNCircle(o geojson.Object) bool {
	switch g := o.(type) {
	case *geojson.Circle:
		return nanBox(g)
	case *geojson.Feature:
		return hasNaNCircle(g.Base())
	case geojson.Collection:
		for _, ch := range g.Children() {
			if hasNaNCircle(ch) {
				return true
			}
		}
	}
	return false
}

var srv *t38.Srv

func TestMain(m *testing.M) {
	var err error
	srv, err = t38.Start(t38.Opts{})
	if err != nil {
		fmt.Fprintln(os.Stderr, "cannot start server:", err)
		os.Exit(2)
	}
	if c, err := srv.Dial(); err == nil {
		v, _ := c.Do("SET", "nonfinite-probe", "x", "OBJECT", `{"type":"Point","coordinates":[null,1]}`)
		nonFiniteRefused = v.IsErr()
		c.Do("FLUSHDB")
		c.Close()
	}
	code := m.Run()
	srv.Stop()
	os.Exit(code)
}

// ---- steps and histories ------------------------------------------------------

type step struct {
	Op     string    `json:"op"` // set | del | touch | query
	ID     string    `json:"id,omitempty"`
	Kind   string    `json:"kind,omitempty"` // touch: fset | expire | persist (same geometry, new object)
	Val    string    `json:"val,omitempty"`  // touch fset: value of field f
	Obj    *objSpec  `json:"obj,omitempty"`
	Pred   string    `json:"pred,omitempty"` // within | intersects
	Sparse int       `json:"sparse,omitempty"`
	Area   *areaSpec `json:"area,omitempty"`
}

type history struct {
	Level string `json:"level"` // collection | server
	Pool  string `json:"pool,omitempty"`
	Steps []step `json:"steps"`
}

const theKey = "fleet"

// ---- backends -------------------------------------------------------------------

type backend interface {
	reset()
	set(id string, spec objSpec, obj geojson.Object) error
	del(id string) error
	// touch replaces the object by a new one with the very same geometry value
	// and other fields / expiry, as FSET, EXPIRE and PERSIST do.
	touch(id, kind, val string) error
	// search runs the indexed search. A staleErr means the search delivered an
	// object (or fields) that is not the current one of that id.
	search(pred string, sparse int, area areaSpec, clipped geojson.Object) ([]string, error)
	// oracle evaluates the predicate for every object without the index.
	// skip != "" means the oracle is not available for this query.
	oracle(pred string, area areaSpec, clipped geojson.Object) (want map[string]bool, total int, skip string)
	get(key, id string) geojson.Object
}

// colBackend drives internal/collection directly.
type colBackend struct {
	col *collection.Collection
}

func (b *colBackend) reset() { b.col = collection.New() }

func (b *colBackend) set(id string, spec objSpec, obj geojson.Object) error {
	b.col.Set(object.New(id, obj, 0, field.List{}))
	return nil
}

func (b *colBackend) del(id string) error {
	b.col.Delete(id)
	return nil
}

func (b *colBackend) touch(id, kind, val string) error {
	old := b.col.Get(id)
	if old == nil {
		return nil
	}
	fields, expires := old.Fields(), old.Expires()
	switch kind {
	case "fset":
		fields = fields.Set(field.Make("f", val))
	case "expire":
		expires = 1 << 62
	case "persist":
		if expires == 0 {
			return nil // cmdPERSIST leaves such an object alone
		}
		expires = 0
	}
	// exactly what cmdFSET/cmdEXPIRE/cmdPERSIST do: same geometry value, new object
	b.col.Set(object.New(id, old.Geo(), expires, fields))
	return nil
}

// formErr: two output forms of one search disagree.
type formErr struct{ key, msg string }

func (e formErr) Error() string { return e.msg }

type staleErr struct{ msg string }

func (e staleErr) Error() string { return e.msg }

func (b *colBackend) get(key, id string) geojson.Object {
	if o := b.col.Get(id); o != nil {
		return o.Geo()
	}
	return nil
}

func (b *colBackend) search(pred string, sparse int, area areaSpec, clipped geojson.Object) ([]string, error) {
	var ids []string
	var stale error
	iter := func(o *object.Object) bool {
		ids = append(ids, o.ID())
		if cur := b.col.Get(o.ID()); cur != o && stale == nil {
			what := "an id that Get does not know"
			if cur != nil {
				what = fmt.Sprintf("a superseded object (fields %v, current %v)", o.Fields(), cur.Fields())
			}
			stale = staleErr{fmt.Sprintf("the search delivered for %q %s", o.ID(), what)}
		}
		return true
	}
	if pred == "within" {
		b.col.Within(clipped, uint8(sparse), nil, nil, iter)
	} else {
		b.col.Intersects(clipped, uint8(sparse), nil, nil, iter)
	}
	return ids, stale
}

func (b *colBackend) oracle(pred string, area areaSpec, clipped geojson.Object) (map[string]bool, int, string) {
	want := map[string]bool{}
	total := 0
	b.col.Scan(false, nil, nil, func(o *object.Object) bool {
		total++
		var ok bool
		if pred == "within" {
			ok = o.Geo().Within(clipped)
		} else {
			ok = o.Geo().Intersects(clipped)
		}
		if ok {
			want[o.ID()] = true
		}
		return true
	})
	return want, total, ""
}

// srvBackend talks to the in-process server over the protocol.
type srvBackend struct {
	c    *t38.Conn
	objs map[string]geojson.Object // harness mirror (labels, GET refs for pre-clipping)
	fld  map[string]string         // model: current value of field f per id (SET keeps fields)
	nTch int
}

func (b *srvBackend) reset() {
	if v := b.c.MustDo("FLUSHDB"); v.IsErr() {
		panic("FLUSHDB: " + v.String())
	}
	b.objs = map[string]geojson.Object{}
	b.fld = map[string]string{}
	b.nTch = 0
}

func (b *srvBackend) set(id string, spec objSpec, obj geojson.Object) error {
	v, err := b.c.Do(append([]string{"SET", theKey, id}, spec.Args...)...)
	if err != nil {
		return err
	}
	if v.IsErr() && (nonFinite(obj) || specNonFinite(spec)) {
		return refusedErr{v.Str}
	}
	if v.Kind != '+' {
		return fmt.Errorf("SET %s %v answered %s", id, spec.Args, v)
	}
	b.objs[id] = obj
	return nil
}

// refusedErr: the server does not admit the object (non-finite coordinates).
type refusedErr struct{ msg string }

func (e refusedErr) Error() string { return e.msg }

func (b *srvBackend) del(id string) error {
	v, err := b.c.Do("DEL", theKey, id)
	if err != nil {
		return err
	}
	if v.IsErr() {
		return fmt.Errorf("DEL %s answered %s", id, v)
	}
	delete(b.objs, id)
	delete(b.fld, id)
	return nil
}

func (b *srvBackend) touch(id, kind, val string) error {
	var args []string
	switch kind {
	case "fset":
		args = []string{"FSET", theKey, id, "f", val}
	case "expire":
		args = []string{"EXPIRE", theKey, id, "100000"}
	default:
		args = []string{"PERSIST", theKey, id}
	}
	v, err := b.c.Do(args...)
	if err != nil {
		return err
	}
	if v.Kind != ':' {
		return fmt.Errorf("%v answered %s", args, v)
	}
	if kind == "fset" {
		if _, ok := b.objs[id]; ok {
			b.fld[id] = val
		}
	}
	b.nTch++
	return nil
}

func (b *srvBackend) get(key, id string) geojson.Object { return b.objs[id] }

func idList(v t38.Value) ([]string, error) {
	if v.IsErr() {
		return nil, fmt.Errorf("error reply %s", v)
	}
	if v.Kind != '*' || len(v.Arr) != 2 || v.Arr[1].Kind != '*' {
		return nil, fmt.Errorf("unexpected reply shape %s", v)
	}
	out := make([]string, len(v.Arr[1].Arr))
	for i, e := range v.Arr[1].Arr {
		if e.Kind != '$' {
			return nil, fmt.Errorf("unexpected element %s", e)
		}
		out[i] = e.Str
	}
	return out, nil
}

type searchErr struct{ msg string }

func (e searchErr) Error() string { return e.msg }

func (b *srvBackend) search(pred string, sparse int, area areaSpec, clipped geojson.Object) ([]string, error) {
	args := []string{strings.ToUpper(pred), theKey}
	if sparse > 0 {
		args = append(args, "SPARSE", strconv.Itoa(sparse))
	} else {
		args = append(args, "LIMIT", "1000000000")
	}
	args = append(args, "IDS")
	args = append(args, area.cmdArgs()...)
	v, err := b.c.Do(args...)
	if err != nil {
		return nil, err
	}
	if v.IsErr() {
		return nil, searchErr{v.Str}
	}
	ids, err := idList(v)
	if err != nil {
		return nil, err
	}
	if sparse == 0 {
		// every output form of the same search must describe the same result:
		// COUNT = number of ids, and OBJECTS / POINTS / BOUNDS / HASHES list the
		// same ids in the same order
		forms := [][]string{{"COUNT"}, {"OBJECTS"}, {"POINTS"}, {"BOUNDS"}, {"HASHES", "7"}}
		for _, form := range forms {
			fargs := append([]string{strings.ToUpper(pred), theKey, "LIMIT", "1000000000"}, form...)
			fargs = append(fargs, area.cmdArgs()...)
			fv, err := b.c.Do(fargs...)
			if err != nil {
				return nil, err
			}
			what := strings.Join(fargs[:2], " ") + " ... " + strings.Join(form, " ") + " " + strings.Join(area.cmdArgs(), " ")
			if form[0] == "COUNT" {
				if fv.Kind != ':' || int(fv.Int) != len(ids) {
					return ids, formErr{"count-differs-from-ids", fmt.Sprintf("%s answered %s, the IDS form of the same search returns %d ids", what, fv, len(ids))}
				}
				continue
			}
			if fv.Kind != '*' || len(fv.Arr) != 2 || fv.Arr[1].Kind != '*' || len(fv.Arr[1].Arr) != len(ids) {
				n := -1
				if fv.Kind == '*' && len(fv.Arr) == 2 {
					n = len(fv.Arr[1].Arr)
				}
				return ids, formErr{"output-forms-disagree:" + strings.ToLower(form[0]), fmt.Sprintf("%s returned %d elements, the IDS form returns %d ids", what, n, len(ids))}
			}
			for i, e := range fv.Arr[1].Arr {
				if e.Kind != '*' || len(e.Arr) < 2 || e.Arr[0].Str != ids[i] {
					return ids, formErr{"output-forms-disagree:" + strings.ToLower(form[0]), fmt.Sprintf("%s: element %d is %s, the IDS form has %q there", what, i, e, ids[i])}
				}
			}
		}
	}
	if b.nTch > 0 {
		// the same search with an output that carries the fields: every returned
		// object must show the current value of field f
		fargs := append([]string{}, args...)
		for i, a := range fargs {
			if a == "IDS" && i >= 2 {
				fargs[i] = "POINTS"
				break
			}
		}
		fv, err := b.c.Do(fargs...)
		if err != nil {
			return nil, err
		}
		if fv.Kind != '*' || len(fv.Arr) != 2 || fv.Arr[1].Kind != '*' || len(fv.Arr[1].Arr) != len(ids) {
			return ids, staleErr{fmt.Sprintf("the POINTS form of the search returned %s for %d ids", fv, len(ids))}
		}
		for i, e := range fv.Arr[1].Arr {
			if e.Kind != '*' || len(e.Arr) < 2 || e.Arr[0].Str != ids[i] {
				return ids, staleErr{fmt.Sprintf("the POINTS form of the search returned element %s where IDS returned %q", e, ids[i])}
			}
			got := ""
			if len(e.Arr) == 3 && e.Arr[2].Kind == '*' {
				for j := 0; j+1 < len(e.Arr[2].Arr); j += 2 {
					if e.Arr[2].Arr[j].Str == "f" {
						got = e.Arr[2].Arr[j+1].Str
					}
				}
			}
			if got != b.fld[ids[i]] {
				return ids, staleErr{fmt.Sprintf("the search shows field f=%q for %q, its current value is %q", got, ids[i], b.fld[ids[i]])}
			}
		}
	}
	return ids, nil
}

func (b *srvBackend) oracle(pred string, area areaSpec, clipped geojson.Object) (map[string]bool, int, string) {
	v, err := b.c.Do("SCAN", theKey, "LIMIT", "1000000000", "IDS")
	if err != nil {
		panic(err)
	}
	ids, err := idList(v)
	if err != nil {
		panic("SCAN: " + err.Error())
	}
	testArea := area.Args
	if len(area.Clip) > 0 {
		testArea = []string{"OBJECT", clipped.JSON()}
	}
	want := map[string]bool{}
	const chunk = 256
	for lo := 0; lo < len(ids); lo += chunk {
		hi := lo + chunk
		if hi > len(ids) {
			hi = len(ids)
		}
		for _, id := range ids[lo:hi] {
			args := append([]string{"TEST", "GET", theKey, id, strings.ToUpper(pred)}, testArea...)
			if err := b.c.Send(args...); err != nil {
				panic(err)
			}
		}
		skip := ""
		for _, id := range ids[lo:hi] {
			r, err := b.c.Recv()
			if err != nil {
				panic(err)
			}
			switch {
			case r.IsErr():
				skip = "TEST answered " + r.Str
			case r.Kind == ':' && r.Int == 1:
				want[id] = true
			case r.Kind == ':' && r.Int == 0:
			default:
				skip = "TEST answered " + r.String()
			}
		}
		if skip != "" {
			return nil, len(ids), skip
		}
	}
	return want, len(ids), ""
}

// ---- the machine: applies steps, compares, collects evidence -----------------------

type machine struct {
	t        ev.Failer
	c        *ev.Collector
	be       backend
	hist     *history
	live     map[string]geojson.Object
	ids      []string // live ids in a deterministic order
	pos      map[string]int
	h        uint64 // running hash of the applied steps
	nDel     int
	nMove    int
	inex     int // live objects whose float64 box is not its float32 box
	nextN    int
	nan      bool // an object with a NaN box has been stored in this history
	nonfin   bool // an ordinary object with a NaN/Inf coordinate has been stored
	touchSeq int
	nTouch   int // geometry-preserving updates (FSET/EXPIRE/PERSIST) so far
}

func newMachine(t ev.Failer, c *ev.Collector, be backend, level, poolMode string) *machine {
	be.reset()
	return &machine{t: t, c: c, be: be, hist: &history{Level: level, Pool: poolMode},
		live: map[string]geojson.Object{}, pos: map[string]int{}, h: 14695981039346656037}
}

func (m *machine) mix(parts ...string) {
	h := fnv.New64a()
	var b [8]byte
	for i := range b {
		b[i] = byte(m.h >> (8 * i))
	}
	h.Write(b[:])
	for _, p := range parts {
		h.Write([]byte(p))
		h.Write([]byte{0})
	}
	m.h = h.Sum64()
}

func inexact(o geojson.Object) bool {
	if o.Empty() {
		return false
	}
	r := o.Rect()
	for _, v := range []float64{r.Min.X, r.Min.Y, r.Max.X, r.Max.Y} {
		if float64(float32(v)) != v {
			return true
		}
	}
	return false
}

func (m *machine) newID() string {
	m.nextN++
	return fmt.Sprintf("o%05d", m.nextN)
}

func (m *machine) harnessErr(format string, a ...any) {
	// not a property violation: the harness could not do its job
	panic("harness: " + fmt.Sprintf(format, a...))
}

func (m *machine) apply(st step) {
	m.hist.Steps = append(m.hist.Steps, st)
	switch st.Op {
	case "set":
		obj, err := buildObject(*st.Obj)
		if err != nil {
			m.harnessErr("generated object does not parse: %v %v", st.Obj.Args, err)
		}
		if err := m.be.set(st.ID, *st.Obj, obj); err != nil {
			if _, refused := err.(refusedErr); refused {
				// nothing changed; the previous object of that id, if any, stays
				m.c.Label("nonfinite-object-refused-by-server")
				m.mix("set-refused", st.ID)
				return
			}
			m.harnessErr("%v", err)
		}
		if old, ok := m.live[st.ID]; ok {
			m.nMove++
			if inexact(old) {
				m.inex--
			}
		} else {
			m.pos[st.ID] = len(m.ids)
			m.ids = append(m.ids, st.ID)
		}
		m.live[st.ID] = obj
		if inexact(obj) {
			m.inex++
		}
		if nonFinite(obj) {
			m.nonfin = true
		} else if nanBox(obj) || hasNaNCircle(obj) {
			m.nan = true
		}
		m.mix("set", st.ID, strings.Join(st.Obj.Args, " "))
	case "del":
		if err := m.be.del(st.ID); err != nil {
			m.harnessErr("%v", err)
		}
		if old, ok := m.live[st.ID]; ok {
			m.nDel++
			if inexact(old) {
				m.inex--
			}
			i := m.pos[st.ID]
			last := m.ids[len(m.ids)-1]
			m.ids[i] = last
			m.pos[last] = i
			m.ids = m.ids[:len(m.ids)-1]
			delete(m.pos, st.ID)
			delete(m.live, st.ID)
		}
		m.mix("del", st.ID)
	case "touch":
		if err := m.be.touch(st.ID, st.Kind, st.Val); err != nil {
			m.harnessErr("%v", err)
		}
		m.nTouch++
		m.mix("touch", st.ID, st.Kind, st.Val)
	case "query":
		m.mix("query", st.Pred, strconv.Itoa(st.Sparse), strings.Join(st.Area.cmdArgs(), " "))
		m.query(st)
	default:
		m.harnessErr("unknown op %q", st.Op)
	}
}

func sortedKeys(m map[string]bool) []string {
	out := make([]string, 0, len(m))
	for k := range m {
		out = append(out, k)
	}
	sort.Strings(out)
	return out
}

func clipStr(ids []string, n int) string {
	if len(ids) > n {
		return fmt.Sprintf("%q ...(%d ids)", ids[:n], len(ids))
	}
	return fmt.Sprintf("%q", ids)
}

// edgeLabels reports how close object box edges are to the query box edges.
func edgeLabels(q geometry.Rect, objs map[string]geojson.Object) (equal, ulp bool) {
	near := func(a, b float64) (bool, bool) {
		if a == b {
			return true, false
		}
		fa, fb := float32(a), float32(b)
		if fa == fb || nextafter32(fa, true) == fb || nextafter32(fa, false) == fb {
			return false, true
		}
		return false, false
	}
	for _, o := range objs {
		if o.Empty() {
			continue
		}
		r := o.Rect()
		for _, pr := range [][2]float64{{r.Min.X, q.Max.X}, {r.Max.X, q.Min.X}, {r.Min.Y, q.Max.Y}, {r.Max.Y, q.Min.Y},
			{r.Min.X, q.Min.X}, {r.Max.X, q.Max.X}, {r.Min.Y, q.Min.Y}, {r.Max.Y, q.Max.Y}} {
			e, u := near(pr[0], pr[1])
			equal = equal || e
			ulp = ulp || u
		}
		if equal && ulp {
			return
		}
	}
	return
}

func (m *machine) query(st step) {
	c := m.c
	area := *st.Area
	c.Case()
	c.Label("area:" + area.kind())
	c.Label("pred:" + st.Pred)
	if len(area.Clip) > 0 {
		c.Label("clipby")
	}
	base, clipped, err := buildArea(area, m.be.get)
	if err != nil && err != errNoMirror {
		m.harnessErr("area %v: %v", area.cmdArgs(), err)
	}
	if err == errNoMirror && (len(area.Clip) > 0 || m.hist.Level == "collection") {
		m.harnessErr("area %v cannot be built in the harness", area.cmdArgs())
	}

	clipSimple := false
	if pt, ok := base.(*geojson.Point); ok && pt.IsSimple() && area.kind() == "get" && len(area.Clip) > 0 && m.hist.Level == "server" {
		// the harness clips the referenced point; the server does not (findingClipSimple)
		clipSimple = true
		c.Label("shape:" + findingClipSimple)
		if ev.KnownActive(findingClipSimple) {
			c.Excluded(findingClipSimple)
			clipped = base
		}
	}

	if base != nil && hasNaNCircle(base) {
		// the same garbage on the query side: CIRCLE lat lon r with lat + r/R = 90 degrees within rounding
		c.Label("excluded:nan-circle-area")
		return
	}

	want, total, skip := m.be.oracle(st.Pred, area, clipped)
	if skip != "" {
		// e.g. a clipped ring that degenerated to <4 positions does not re-parse
		c.Label("oracle-unavailable")
		c.Note("oracle unavailable for %v: %s", area.cmdArgs(), skip)
		return
	}

	// shapes of the findings of this property; when a finding is listed as
	// known its shape is taken out of the comparison (and counted)
	shapes := map[string]map[string]bool{findingCircle: {}, findingEmpty: {}, findingCircleObj: {}, findingCircleBox: {}, findingNaN: {}, findingNested: {}}
	_, isCirc := base.(*geojson.Circle)
	var areaRect geometry.Rect
	if clipped != nil {
		areaRect = clipped.Rect()
	}
	for id := range want {
		o := m.live[id]
		switch {
		case o == nil:
		case clipped != nil && !o.Empty() && !o.Rect().IntersectsRect(areaRect) && (nestedCircle(o) || nestedCircle(base)):
			// a circle nested in a collection (stored or as the query OBJECT) is
			// represented by the box of its 64-gon
			shapes[findingNested][id] = true
		case isCircleObj(o):
			if clipped != nil && o.Rect().IntersectsRect(areaRect) {
				// its box meets the area's box: it must be a candidate if it is indexed at all
				shapes[findingCircleObj][id] = true
			} else {
				// the predicate holds although the box of the circle's 64-gon is elsewhere
				shapes[findingCircleBox][id] = true
			}
		case clipped == nil:
		case o.Empty():
			if isCirc {
				// an empty collection is vacuously "within" a circle
				shapes[findingEmpty][id] = true
			}
		case isCirc && !o.Rect().IntersectsRect(areaRect):
			// satisfies the predicate although its box does not meet the box of
			// the circle's polygon: only the haversine disc does that
			shapes[findingCircle][id] = true
		}
	}
	ignore := map[string]bool{}
	// Float tolerance: the exact predicates of geojson accept, by rounding in a
	// division (Segment.Raycast), an object whose box misses the area's box by
	// less than 1e-9 degrees (seen: 2e-23). No index can offer that object;
	// it is not counted as lost (circles are handled by the findings above).
	if clipped != nil && !isCirc {
		for id := range want {
			o := m.live[id]
			if o == nil || o.Empty() || isCircleObj(o) || nanBox(o) {
				continue
			}
			if r := o.Rect(); !r.IntersectsRect(areaRect) && boxGap(r, areaRect) < 1e-9 {
				c.Label("tolerated:predicate-true-boxes-disjoint")
				ignore[id] = true
				delete(want, id)
			}
		}
	}
	// TEST evaluates garbage for a circle whose 64-gon has NaN vertices (inside
	// the external geojson module; e.g. a polygon on the equator "intersects" a
	// 2 km circle at the pole): such stored circle objects are taken out of the
	// comparison. What must still hold - and is checked by everything else in
	// the history - is that their presence does not disturb other objects.
	for id, o := range m.live {
		if hasNaNCircle(o) || nonFinite(o) {
			// (likewise for ordinary geometries with NaN/Inf coordinates: the
			// predicates compute with NaN)
			ignore[id] = true
			delete(want, id)
		}
	}
	if m.nonfin {
		c.Label("excluded:nonfinite-object")
	}
	if m.nan {
		c.Label("excluded:nan-circle-object")
	}
	for _, fid := range allFindings {
		if len(shapes[fid]) == 0 {
			continue
		}
		if fid == findingNaN {
			continue
		}
		c.Label("shape:" + fid)
		if ev.KnownActive(fid) {
			c.Excluded(fid)
			for id := range shapes[fid] {
				ignore[id] = true
				delete(want, id)
			}
		}
	}

	got, err := m.be.search(st.Pred, st.Sparse, area, clipped)
	if fe, ok := err.(formErr); ok {
		c.Fail(m.t, fe.key, fmt.Sprintf("%s (over %d objects, %d of them empty geometries; after %d deletes, %d overwrites)", fe.msg, len(m.live), m.nEmpty(), m.nDel, m.nMove), m.hist)
	}
	if se, ok := err.(staleErr); ok {
		key := "stale-object-returned"
		if m.nonfin {
			// rtree.Delete cannot find an entry in a tree whose rectangles are NaN
			key = findingNonFinite
		}
		c.Fail(m.t, key, fmt.Sprintf("%s %s sparse=%d (after %d deletes, %d overwrites, %d FSET/EXPIRE/PERSIST updates): %s",
			strings.ToUpper(st.Pred), strings.Join(area.cmdArgs(), " "), st.Sparse, m.nDel, m.nMove, m.nTouch, se.msg), m.hist)
	}
	if err != nil {
		if se, ok := err.(searchErr); ok {
			c.Fail(m.t, "search-rejects-area:"+area.kind(), fmt.Sprintf("%s %v answered %q although TEST accepts the same area", st.Pred, area.cmdArgs(), se.msg), m.hist)
		}
		m.harnessErr("search %v: %v", area.cmdArgs(), err)
	}
	gotSet := map[string]bool{}
	for _, id := range got {
		if ignore[id] {
			continue
		}
		if gotSet[id] {
			c.Fail(m.t, "duplicate-result:"+st.Pred, fmt.Sprintf("%s %v sparse=%d returned id %q twice", st.Pred, area.cmdArgs(), st.Sparse, id), m.hist)
		}
		gotSet[id] = true
	}
	// model-free CLIPBY rule: whatever the clipped area looks like, it lies inside
	// every CLIPBY rectangle, so no returned object may lie wholly outside one
	// (INTERSECTS) or reach out of one (WITHIN). Judged on the float64 boxes of
	// the harness' own copies of the objects, with the 1e-9 degree slack used for
	// predicate rounding elsewhere.
	for _, cl := range area.Clip {
		cro, err := buildRect(cl)
		if err != nil {
			break
		}
		cr := cro.Rect()
		for _, id := range got {
			o := m.live[id]
			if o == nil || ignore[id] || o.Empty() || nanBox(o) || nonFinite(o) {
				continue
			}
			if isCircleObj(o) || nestedCircle(o) {
				continue // the box of a stored circle is that of its 64-gon, not the extent of its disc
			}
			r := o.Rect()
			outside := false
			if st.Pred == "intersects" {
				outside = !r.IntersectsRect(cr) && boxGap(r, cr) > 1e-9
			} else {
				over := math.Max(math.Max(cr.Min.X-r.Min.X, r.Max.X-cr.Max.X), math.Max(cr.Min.Y-r.Min.Y, r.Max.Y-cr.Max.Y))
				outside = over > 1e-9
			}
			if outside {
				key := "clipby-result-outside-cliprect"
				if isCircleObj(base) {
					key = findingClipCircle
				}
				c.Fail(m.t, key, fmt.Sprintf("%s %s returned %q whose box %v is not %s the CLIPBY rectangle %v", strings.ToUpper(st.Pred), strings.Join(area.cmdArgs(), " "), id, r,
					map[string]string{"intersects": "touching", "within": "inside"}[st.Pred], cr), m.hist)
			}
		}
	}
	var lost, extra []string
	for id := range want {
		if !gotSet[id] {
			lost = append(lost, id)
		}
	}
	for id := range gotSet {
		if !want[id] {
			extra = append(extra, id)
		}
	}
	sort.Strings(lost)
	sort.Strings(extra)
	desc := func() string {
		return fmt.Sprintf("%s %s sparse=%d over %d objects (after %d deletes, %d overwrites): index-free evaluation gives %d ids, search gave %d",
			strings.ToUpper(st.Pred), strings.Join(area.cmdArgs(), " "), st.Sparse, total, m.nDel, m.nMove, len(want), len(got))
	}
	// SPARSE samples at least one object per non-empty cell: if anything matches,
	// the sparse result cannot be empty (ids left out of the comparison count)
	if st.Sparse > 0 && len(want) > 0 && len(got) == 0 {
		c.Fail(m.t, findingSparseStop, desc()+"; SPARSE returned nothing although objects match, e.g. "+clipStr(sortedKeys(want), 4), m.hist)
	}
	if len(extra) > 0 {
		key := "extra-result:" + st.Pred
		if st.Sparse > 0 {
			key = "sparse-adds-nonmatching:" + st.Pred
		}
		if clipSimple {
			key = findingClipSimple
		}
		if m.nan {
			key = findingNaN
		}
		if m.nonfin {
			key = findingNonFinite
		}
		c.Fail(m.t, key, desc()+"; returned although the predicate is false (or the id is gone): "+clipStr(extra, 8), m.hist)
	}
	if st.Sparse == 0 && len(lost) > 0 {
		key := "lost-result:" + st.Pred
		if m.nan {
			key = findingNaN
		}
		if m.nonfin {
			key = findingNonFinite
		}
		for _, fid := range allFindings {
			all := true
			for _, id := range lost {
				if !shapes[fid][id] {
					all = false
				}
			}
			if all {
				key = fid
				break
			}
		}
		c.Fail(m.t, key, desc()+"; satisfy the predicate but are not returned: "+clipStr(lost, 8), m.hist)
	}

	// evidence
	if m.nTouch > 0 {
		c.Label("after-fset/expire/persist")
	}
	if q, ok := rectLike(clipped); ok {
		if cv := m.cover(); cv != nil && q.ContainsRect(*cv) {
			c.Label("rectangle-covers-collection")
			if m.nEmpty() > 0 {
				c.Label("rectangle-covers-collection+empty-geometries")
			}
		}
	}
	if st.Sparse > 0 {
		c.Label("sparse")
		if len(got) < len(want) {
			c.Label("sparse-thinned")
		}
	}
	if q, ok := rectLike(clipped); ok {
		eq, ulp := edgeLabels(q, m.live)
		if eq {
			c.Label("edge-equal")
		}
		if ulp {
			c.Label("edge-within-1ulp32")
		}
	}
	switch {
	case total < 300:
		c.Label("objects<300")
	case total < 1200:
		c.Label("objects<1200")
	default:
		c.Label("objects>=1200")
	}
	switch {
	case len(want) == 0:
		c.Label("oracle-empty")
	case len(want) == total:
		c.Label("oracle-everything")
	default:
		c.Label("oracle-proper-subset")
	}
	if len(want) > 0 && len(want) < total && m.nDel > 0 && m.nMove > 0 && m.inex > 0 {
		c.NonTrivial(strconv.FormatUint(m.h, 16))
		if c.WantSample() {
			c.Sample(map[string]any{"level": m.hist.Level, "pool": m.hist.Pool, "objects": total, "deletes": m.nDel, "overwrites": m.nMove,
				"query": strings.ToUpper(st.Pred) + " " + strings.Join(area.cmdArgs(), " "), "sparse": st.Sparse, "matches": len(want)})
		} else {
			c.Sample(nil)
		}
	}
}

func nextafter32(f float32, up bool) float32 {
	if up {
		return math.Nextafter32(f, float32(math.Inf(1)))
	}
	return math.Nextafter32(f, float32(math.Inf(-1)))
}

const findingLineHang = "hang-linestring-within-linestring"

// boxGap is the largest per-axis distance between two disjoint rectangles.
func boxGap(a, b geometry.Rect) float64 {
	g := 0.0
	for _, d := range []float64{b.Min.X - a.Max.X, a.Min.X - b.Max.X, b.Min.Y - a.Max.Y, a.Min.Y - b.Max.Y} {
		if d > g {
			g = d
		}
	}
	return g
}

// hasMultiSegLine reports whether o contains a LineString of more than one
// segment anywhere inside.
func hasMultiSegLine(o geojson.Object) bool {
	switch g := o.(type) {
	case *geojson.LineString:
		return g.Base().NumSegments() > 1
	case *geojson.Feature:
		return hasMultiSegLine(g.Base())
	case geojson.Collection:
		for _, ch := range g.Children() {
			if hasMultiSegLine(ch) {
				return true
			}
		}
	}
	return false
}

// ---- generation ------------------------------------------------------------------

type sizes struct {
	small, mid, large [2]int // object count ranges
	huge              [2]int // 2 % of the histories (0,0 = never): R-trees of depth 3
	steps             int
}

func drawN(rt *rapid.T, s sizes) int {
	if s.huge[1] > 0 && rapid.IntRange(0, 49).Draw(rt, "huge?") == 49 {
		return rapid.IntRange(s.huge[0], s.huge[1]).Draw(rt, "n")
	}
	switch k := rapid.IntRange(0, 9).Draw(rt, "sizeclass"); {
	case k < 6:
		return rapid.IntRange(s.small[0], s.small[1]).Draw(rt, "n")
	case k < 9:
		return rapid.IntRange(s.mid[0], s.mid[1]).Draw(rt, "n")
	default:
		return rapid.IntRange(s.large[0], s.large[1]).Draw(rt, "n")
	}
}

// drawObject draws an object; while findingNaN is listed as known, circle
// objects whose polygon box is NaN are replaced by their centre point.
func (m *machine) drawObject(t *rapid.T, p pool) objSpec {
	o := p.object(t)
	// (at the server level the refused SET is sent anyway: it must change nothing)
	if (nonFiniteRefused && m.hist.Level == "collection") || ev.KnownActive(findingNonFinite) {
		if g, err := buildObject(o); err == nil && (nonFinite(g) || specNonFinite(o)) {
			if nonFiniteRefused && !ev.KnownActive(findingNonFinite) {
				m.c.Label("nonfinite-object-not-admitted")
			} else {
				m.c.Excluded(findingNonFinite)
			}
			return objSpec{[]string{"POINT", "0", "0"}}
		}
	}
	if ev.KnownActive(findingNaN) {
		if g, err := buildObject(o); err == nil && nanBox(g) {
			m.c.Excluded(findingNaN)
			ctr := g.Center()
			return objSpec{[]string{"POINT", fs(ctr.Y), fs(ctr.X)}}
		}
	}
	return o
}

func generate(rt *rapid.T, m *machine, server bool, s sizes) {
	p := drawPool(rt)
	m.hist.Pool = p.Mode
	m.c.Label("pool:" + p.Mode)
	n := drawN(rt, s)
	for i := 0; i < n; i++ {
		o := m.drawObject(rt, p)
		m.apply(step{Op: "set", ID: m.newID(), Obj: &o})
	}
	pickLive := func(t *rapid.T) string {
		if len(m.ids) == 0 {
			t.Skip()
		}
		return m.ids[rapid.IntRange(0, len(m.ids)-1).Draw(t, "live")]
	}
	// FSET/EXPIRE/PERSIST only keep the geometry value for objects that are not
	// plain 2D points: prefer those
	pickExtended := func(t *rapid.T) string {
		id := pickLive(t)
		for try := 0; try < 3; try++ {
			if pt, ok := m.live[id].(*geojson.Point); !ok || !pt.IsSimple() {
				break
			}
			id = pickLive(t)
		}
		return id
	}
	doQuery := func(t *rapid.T, pred string, sparse int) {
		a := p.area(t, server, theKey, m.ids, m.cover())
		if pred == "within" {
			// geojson's Line.ContainsLine does not terminate for some ordinary
			// inputs (see notes: hang-linestring-within-linestring); a predicate
			// that does not return cannot serve as an oracle
			if _, clipped, err := buildArea(a, m.be.get); err == nil && hasMultiSegLine(clipped) {
				m.c.Excluded(findingLineHang)
				pred = "intersects"
			}
		}
		m.apply(step{Op: "query", Pred: pred, Sparse: sparse, Area: &a})
	}
	predOf := func(t *rapid.T) string {
		return rapid.SampledFrom([]string{"within", "intersects"}).Draw(t, "pred")
	}
	actions := map[string]func(*rapid.T){
		"set-new": func(t *rapid.T) {
			o := m.drawObject(t, p)
			m.apply(step{Op: "set", ID: m.newID(), Obj: &o})
		},
		"move": func(t *rapid.T) {
			id := pickLive(t)
			o := m.drawObject(t, p)
			m.apply(step{Op: "set", ID: id, Obj: &o})
		},
		"delete": func(t *rapid.T) {
			m.apply(step{Op: "del", ID: pickLive(t)})
		},
		"bulk-delete": func(t *rapid.T) {
			if len(m.ids) < 4 {
				t.Skip()
			}
			switch rapid.IntRange(0, 2).Draw(t, "bulkkind") {
			case 0: // a run of ids
				lo := rapid.IntRange(0, len(m.ids)-1).Draw(t, "lo")
				cnt := rapid.IntRange(1, len(m.ids)-lo).Draw(t, "cnt")
				victims := append([]string{}, m.ids[lo:lo+cnt]...)
				for _, id := range victims {
					m.apply(step{Op: "del", ID: id})
				}
			case 1: // everything inside a box: empties a region of the tree
				x0, y0, x1, y1 := p.box(t, true)
				r := geometry.Rect{Min: geometry.Point{X: x0, Y: y0}, Max: geometry.Point{X: x1, Y: y1}}
				var victims []string
				for _, id := range m.ids {
					if o := m.live[id]; !o.Empty() && r.ContainsPoint(o.Rect().Center()) {
						victims = append(victims, id)
					}
				}
				for _, id := range victims {
					m.apply(step{Op: "del", ID: id})
				}
			default: // every other object
				victims := []string{}
				for i, id := range m.ids {
					if i%2 == 0 {
						victims = append(victims, id)
					}
				}
				for _, id := range victims {
					m.apply(step{Op: "del", ID: id})
				}
			}
		},
		"touch": func(t *rapid.T) {
			m.apply(m.drawTouch(t, pickExtended(t)))
		},
		"bulk-touch": func(t *rapid.T) {
			if len(m.ids) < 2 {
				t.Skip()
			}
			cnt := rapid.IntRange(1, imin(len(m.ids), 100)).Draw(t, "cnt")
			lo := rapid.IntRange(0, len(m.ids)-cnt).Draw(t, "lo")
			victims := append([]string{}, m.ids[lo:lo+cnt]...)
			for _, id := range victims {
				m.apply(m.drawTouch(t, id))
			}
		},
		"bulk-move": func(t *rapid.T) {
			if len(m.ids) < 2 {
				t.Skip()
			}
			cnt := rapid.IntRange(1, imin(len(m.ids), 200)).Draw(t, "cnt")
			lo := rapid.IntRange(0, len(m.ids)-cnt).Draw(t, "lo")
			victims := append([]string{}, m.ids[lo:lo+cnt]...)
			for _, id := range victims {
				o := m.drawObject(t, p)
				m.apply(step{Op: "set", ID: id, Obj: &o})
			}
		},
		"bulk-insert": func(t *rapid.T) {
			cnt := rapid.IntRange(1, imax(4, s.small[1]/2)).Draw(t, "cnt")
			for i := 0; i < cnt; i++ {
				o := m.drawObject(t, p)
				m.apply(step{Op: "set", ID: m.newID(), Obj: &o})
			}
		},
		"query-a":      func(t *rapid.T) { doQuery(t, predOf(t), 0) },
		"query-b":      func(t *rapid.T) { doQuery(t, predOf(t), 0) },
		"query-c":      func(t *rapid.T) { doQuery(t, predOf(t), 0) },
		"query-d":      func(t *rapid.T) { doQuery(t, predOf(t), 0) },
		"query-e":      func(t *rapid.T) { doQuery(t, predOf(t), 0) },
		"query-sparse": func(t *rapid.T) { doQuery(t, predOf(t), rapid.IntRange(1, 5).Draw(t, "sparse")) },
		// near misses first: objects in the corners of a circle's bounding box (inside
		// the box, outside the disc) and a box straddling a corner, then a SPARSE
		// query with that circle - every index candidate of a corner cell fails the
		// exact test before one passes
		"sparse-corners": func(t *rapid.T) {
			x, y := p.xy(t)
			if math.Abs(y) > 80 || math.Abs(x) > 170 {
				t.Skip()
			}
			r := math.Min(p.radius(t, x, y), 500000)
			circ := geojson.NewCircle(geometry.Point{X: x, Y: y}, r, 64)
			b := circ.Rect()
			w, h := b.Max.X-b.Min.X, b.Max.Y-b.Min.Y
			if !(w > 0 && h > 0) {
				t.Skip()
			}
			// At high latitudes the polygon of the circle (external geojson module)
			// reaches far beyond [-180,180]: points placed in the corners of that box
			// would not be geographic coordinates, and the property does not speak of
			// such objects (the index box ends at 180 while the haversine test wraps).
			if b.Min.X-0.03*w < -180 || b.Max.X+0.03*w > 180 || b.Min.Y-0.03*h < -90 || b.Max.Y+0.03*h > 90 {
				t.Skip()
			}
			f := 0.03
			corners := [][2]float64{{b.Min.X + f*w, b.Min.Y + f*h}, {b.Max.X - f*w, b.Min.Y + f*h}, {b.Min.X + f*w, b.Max.Y - f*h}, {b.Max.X - f*w, b.Max.Y - f*h}}
			n := rapid.IntRange(1, 4).Draw(t, "ncorners")
			for i := 0; i < n; i++ {
				cpt := corners[rapid.IntRange(0, 3).Draw(t, "corner")]
				m.apply(step{Op: "set", ID: m.newID(), Obj: &objSpec{[]string{"POINT", fs(cpt[1]), fs(cpt[0])}}})
			}
			if rapid.Bool().Draw(t, "straddle") {
				m.apply(step{Op: "set", ID: m.newID(), Obj: &objSpec{[]string{"BOUNDS", fs(b.Min.Y - f*h), fs(b.Min.X - f*w), fs(b.Min.Y + f*h), fs(b.Min.X + f*w)}}})
			}
			// something that does match, next to the centre
			m.apply(step{Op: "set", ID: m.newID(), Obj: &objSpec{[]string{"POINT", fs(y), fs(x)}}})
			a := areaSpec{Args: []string{"CIRCLE", fs(y), fs(x), fs(r)}}
			if rapid.IntRange(0, 2).Draw(t, "clipit") == 0 {
				a.Clip = [][]string{{"BOUNDS", fs(y), fs(x), fs(b.Max.Y), fs(b.Max.X)}}
			}
			m.apply(step{Op: "query", Pred: predOf(t), Sparse: rapid.IntRange(1, 5).Draw(t, "sparse"), Area: &a})
			m.apply(step{Op: "query", Pred: predOf(t), Sparse: 0, Area: &a})
		},
	}
	rt.Repeat(actions)
	// every history ends with a fixed number of queries on its final state
	for i := 0; i < 4; i++ {
		doQuery(rt, []string{"within", "intersects"}[i%2], 0)
	}
}

func (m *machine) nEmpty() int {
	n := 0
	for _, o := range m.live {
		if _, isStr := o.(collection.String); !isStr && o.Empty() {
			n++
		}
	}
	return n
}

// cover is the float64 box of every stored object that has a position.
func (m *machine) cover() *geometry.Rect {
	var r geometry.Rect
	n := 0
	for _, o := range m.live {
		if o.Empty() || nanBox(o) {
			continue
		}
		if _, isStr := o.(collection.String); isStr {
			continue
		}
		b := o.Rect()
		if n == 0 {
			r = b
		} else {
			r.Min.X, r.Min.Y = math.Min(r.Min.X, b.Min.X), math.Min(r.Min.Y, b.Min.Y)
			r.Max.X, r.Max.Y = math.Max(r.Max.X, b.Max.X), math.Max(r.Max.Y, b.Max.Y)
		}
		n++
	}
	if n == 0 {
		return nil
	}
	return &r
}

func (m *machine) drawTouch(t *rapid.T, id string) step {
	kind := rapid.SampledFrom([]string{"fset", "expire", "persist", "fset"}).Draw(t, "touchkind")
	m.touchSeq++
	return step{Op: "touch", ID: id, Kind: kind, Val: strconv.Itoa(m.touchSeq)}
}

func imin(a, b int) int {
	if a < b {
		return a
	}
	return b
}

func imax(a, b int) int {
	if a > b {
		return a
	}
	return b
}

const ruleText = "history = bulk load of n objects (POINT, POINT z, BOUNDS, HASH, GeoJSON Point/LineString/Polygon incl. holes/Multi*/GeometryCollection incl. empty/Feature/FeatureCollection, STRING) over a coordinate pool (uniform world, 1e-1..1e-12 clusters, pole and antimeridian neighbourhoods, half-degree grid; every base value with its exact, +-1 ulp64, float32-round-down/up and +-1 ulp32 neighbours), then a rapid state machine of set-new / move (overwrite, kind change) / touch and bulk-touch (FSET, EXPIRE, PERSIST: same geometry value in a new object, as cmdFSET/cmdEXPIRE/cmdPERSIST do) / delete / bulk-delete (id run, spatial region, every other) / bulk-move / bulk-insert / query actions; query areas (BOUNDS, CIRCLE, SECTOR, TILE, QUADKEY, HASH, POINT, GET key id, OBJECT geojson, each optionally CLIPBY 1-2 rectangles; SPARSE 1-4) take their edges from the same pool. One evaluation = one query compared as an id set with the index-free evaluation over every object; every delivered object must also be the current object of its id (in-package: pointer identity with Get; server: field f shown by the POINTS form of the same search equals the last FSET). Non-trivial: the index-free set is neither empty nor everything AND the history has >=1 delete and >=1 overwrite AND >=1 live object whose float64 box is not float32-representable; distinct by hash of (whole history so far, query)."

func TestC02_Collection(t *testing.T) {
	c := ev.New("C02", "collection", "exploration")
	t.Cleanup(c.Flush)
	c.Rule("in-package, collection.Collection driven directly: " + ruleText + " Oracle: {o in Scan : o.Geo().Within|Intersects(area)}; SPARSE results must be a duplicate-free subset of it.")
	c.Assume("tidwall/geojson's Within/Intersects are the per-object predicate (the property is about the index, not about the predicate)")
	s := sizes{small: [2]int{50, 300}, mid: [2]int{300, 1200}, large: [2]int{1200, 3000}, huge: [2]int{4200, 6000}, steps: 45}
	if ev.Thorough() {
		s = sizes{small: [2]int{50, 400}, mid: [2]int{400, 2000}, large: [2]int{2000, 5000}, huge: [2]int{4200, 9000}, steps: 60}
	}
	flag.Set("rapid.steps", strconv.Itoa(s.steps))
	ev.Rapid("collection", ev.Pick(900, 3000))
	rapid.Check(t, func(rt *rapid.T) {
		m := newMachine(rt, c, &colBackend{}, "collection", "")
		c.Label("histories")
		generate(rt, m, false, s)
	})
}

func TestC02_Server(t *testing.T) {
	c := ev.New("C02", "server", "exploration")
	t.Cleanup(c.Flush)
	c.Rule("protocol level, SET/DEL then WITHIN|INTERSECTS key LIMIT 1e9 IDS <area> (and COUNT, and SPARSE n): " + ruleText + " Oracle: {id in SCAN key IDS : TEST GET key id WITHIN|INTERSECTS <area> = 1}, pipelined; for CLIPBY the area is pre-clipped in the harness with internal/clip and handed to TEST as OBJECT.")
	c.Assume("TEST evaluates the per-object predicate without the index (internal/server/test.go)")
	conn := srv.MustDial()
	defer conn.Close()
	s := sizes{small: [2]int{0, 60}, mid: [2]int{60, 160}, large: [2]int{160, 300}, steps: 30}
	if ev.Thorough() {
		s.steps = 45
	}
	flag.Set("rapid.steps", strconv.Itoa(s.steps))
	ev.Rapid("server", ev.Pick(450, 2000))
	rapid.Check(t, func(rt *rapid.T) {
		m := newMachine(rt, c, &srvBackend{c: conn}, "server", "")
		c.Label("histories")
		generate(rt, m, true, s)
	})
}

// ---- replay -----------------------------------------------------------------------

func replayHistory(t ev.Failer, c *ev.Collector, h history, conn *t38.Conn) {
	var be backend
	switch h.Level {
	case "collection":
		be = &colBackend{}
	case "server":
		be = &srvBackend{c: conn}
	default:
		t.Fatalf("unknown level %q", h.Level)
	}
	m := newMachine(t, c, be, h.Level, h.Pool)
	for _, st := range h.Steps {
		m.apply(st)
	}
}

func TestReplay(t *testing.T) {
	doc, ok := ev.ReplayFile()
	if !ok {
		t.Skip("no replay file")
	}
	c := ev.New("C02", "replay", "exploration")
	t.Cleanup(c.Flush)
	var h history
	if err := json.Unmarshal(doc.Data, &h); err != nil {
		t.Fatalf("bad replay data: %v", err)
	}
	conn := srv.MustDial()
	defer conn.Close()
	replayHistory(t, c, h, conn)
}

package c02

// Generators: coordinate pools (exact / +-1 ulp64 / +-1 ulp32 / float32
// round-down / round-up neighbours of every base value, pole and antimeridian
// neighbourhoods, 1e-2..1e-12 clusters), object specs (the object part of a
// SET) and area specs (the area part of WITHIN/INTERSECTS/TEST). Objects and
// areas draw their coordinates from the SAME pool, so query edges are equal
// to, or one ulp away from, object coordinates all the time.

import (
	"math"
	"sort"
	"strconv"
	"strings"

	"github.com/mmcloughlin/geohash"
	"github.com/tidwall/geojson/geometry"
	"github.com/tidwall/tile38/internal/bing"
	"pgregory.net/rapid"
)

func fs(v float64) string { return strconv.FormatFloat(v, 'f', -1, 64) }

// objSpec is the object part of a SET command.
type objSpec struct {
	Args []string `json:"args"`
}

// areaSpec is the area part of a search: Args is one of
// BOUNDS a b c d | CIRCLE lat lon m | SECTOR lat lon m b1 b2 | TILE x y z |
// QUADKEY k | HASH h | POINT lat lon | GET key id | OBJECT json, and Clip
// holds the CLIPBY rectangles (BOUNDS|TILE|QUADKEY|HASH ...).
type areaSpec struct {
	Args []string   `json:"args"`
	Clip [][]string `json:"clip,omitempty"`
}

func (a areaSpec) kind() string { return strings.ToLower(a.Args[0]) }

// cmdArgs is the area as sent to WITHIN/INTERSECTS.
func (a areaSpec) cmdArgs() []string {
	out := append([]string{}, a.Args...)
	for _, cl := range a.Clip {
		out = append(out, "CLIPBY")
		out = append(out, cl...)
	}
	return out
}

// ---- coordinate pool --------------------------------------------------------

type pool struct {
	X, Y []float64 // sorted, distinct
	Mode string
}

func f32dn(v float64) float64 {
	f := float32(v)
	if float64(f) > v {
		f = math.Nextafter32(f, float32(math.Inf(-1)))
	}
	return float64(f)
}

func f32up(v float64) float64 {
	f := float32(v)
	if float64(f) < v {
		f = math.Nextafter32(f, float32(math.Inf(1)))
	}
	return float64(f)
}

// neighbours returns v together with the values around it where float32
// rounding of index rectangles could matter.
func neighbours(v float64) []float64 {
	dn, up := f32dn(v), f32up(v)
	return []float64{
		v,
		math.Nextafter(v, math.Inf(1)), math.Nextafter(v, math.Inf(-1)),
		dn, up,
		float64(math.Nextafter32(float32(dn), float32(math.Inf(-1)))),
		float64(math.Nextafter32(float32(up), float32(math.Inf(1)))),
		math.Nextafter(dn, math.Inf(-1)), math.Nextafter(up, math.Inf(1)),
	}
}

func finishAxis(bases []float64, lim float64, full bool) []float64 {
	var out []float64
	for _, b := range bases {
		if full {
			out = append(out, neighbours(b)...)
		} else {
			out = append(out, b, f32dn(b), f32up(b))
		}
	}
	res := out[:0]
	for _, v := range out {
		if v < -lim {
			v = -lim
		}
		if v > lim {
			v = lim
		}
		if math.Abs(v) < 1e-30 {
			v = 0 // -0 and denormal neighbours of 0 -> 0
		}
		res = append(res, v)
	}
	sort.Float64s(res)
	d := res[:0]
	for i, v := range res {
		if i == 0 || v != res[i-1] {
			d = append(d, v)
		}
	}
	return d
}

var poolModes = []string{"world", "world", "cluster", "cluster", "pole", "antimeridian", "mixed", "grid"}

func drawPool(rt *rapid.T) pool {
	mode := rapid.SampledFrom(poolModes).Draw(rt, "poolmode")
	nb := rapid.IntRange(3, 24).Draw(rt, "nbase")
	var xs, ys []float64
	uni := func(label string, lim float64, n int) []float64 {
		out := make([]float64, n)
		for i := range out {
			out[i] = rapid.Float64Range(-lim, lim).Draw(rt, label)
		}
		return out
	}
	cluster := func(label string, c float64, n int) []float64 {
		out := []float64{c}
		for i := 0; i < n; i++ {
			e := rapid.IntRange(1, 12).Draw(rt, label+"exp")
			m := rapid.IntRange(-9, 9).Draw(rt, label+"mant")
			out = append(out, c+float64(m)*math.Pow(10, -float64(e)))
		}
		return out
	}
	switch mode {
	case "world":
		xs, ys = uni("x", 180, nb), uni("y", 90, nb)
	case "cluster":
		cx := rapid.Float64Range(-179, 179).Draw(rt, "cx")
		cy := rapid.Float64Range(-85, 85).Draw(rt, "cy")
		xs, ys = cluster("x", cx, nb), cluster("y", cy, nb)
	case "pole":
		s := float64(rapid.SampledFrom([]int{-1, 1}).Draw(rt, "polesign"))
		xs = uni("x", 180, nb)
		ys = []float64{s * 90}
		ys = append(ys, cluster("y", s*90, nb)...)
		ys = append(ys, uni("y", 90, 2)...)
	case "antimeridian":
		xs = []float64{180, -180}
		xs = append(xs, cluster("xe", 180, nb/2+1)...)
		xs = append(xs, cluster("xw", -180, nb/2+1)...)
		ys = uni("y", 90, nb)
	case "mixed":
		cx := rapid.Float64Range(-179, 179).Draw(rt, "cx")
		cy := rapid.Float64Range(-85, 85).Draw(rt, "cy")
		xs = append(cluster("x", cx, nb/2+1), uni("x", 180, nb/2+1)...)
		ys = append(cluster("y", cy, nb/2+1), uni("y", 90, nb/2+1)...)
	case "grid":
		// small integers and halves: lots of exactly representable, equal values
		for i := 0; i < nb; i++ {
			xs = append(xs, float64(rapid.IntRange(-360, 360).Draw(rt, "gx"))/2)
			ys = append(ys, float64(rapid.IntRange(-180, 180).Draw(rt, "gy"))/2)
		}
	}
	full := mode != "grid"
	return pool{X: finishAxis(xs, 180, full), Y: finishAxis(ys, 90, full), Mode: mode}
}

// span draws two indexes lo<=hi into an axis of n values; mostly close together.
func span(rt *rapid.T, label string, n int, wide bool) (int, int) {
	i := rapid.IntRange(0, n-1).Draw(rt, label)
	maxd := 6
	if wide || rapid.IntRange(0, 4).Draw(rt, label+"wide") == 0 {
		maxd = n
	}
	j := i + rapid.IntRange(0, maxd).Draw(rt, label+"d")
	if j > n-1 {
		j = n - 1
	}
	return i, j
}

func (p pool) xy(rt *rapid.T) (x, y float64) {
	return p.X[rapid.IntRange(0, len(p.X)-1).Draw(rt, "xi")], p.Y[rapid.IntRange(0, len(p.Y)-1).Draw(rt, "yi")]
}

func (p pool) box(rt *rapid.T, wide bool) (x0, y0, x1, y1 float64) {
	i0, i1 := span(rt, "bx", len(p.X), wide)
	j0, j1 := span(rt, "by", len(p.Y), wide)
	return p.X[i0], p.Y[j0], p.X[i1], p.Y[j1]
}

// ---- GeoJSON text -----------------------------------------------------------

func jpos(x, y float64) string { return "[" + fs(x) + "," + fs(y) + "]" }

func jring(x0, y0, x1, y1 float64) string {
	return "[" + strings.Join([]string{jpos(x0, y0), jpos(x1, y0), jpos(x1, y1), jpos(x0, y1), jpos(x0, y0)}, ",") + "]"
}

func (p pool) jposList(rt *rapid.T, min, max int) string {
	n := rapid.IntRange(min, max).Draw(rt, "npos")
	ps := make([]string, n)
	// walk through neighbouring pool indexes so that lines stay local
	i := rapid.IntRange(0, len(p.X)-1).Draw(rt, "lx")
	j := rapid.IntRange(0, len(p.Y)-1).Draw(rt, "ly")
	far := rapid.IntRange(0, 5).Draw(rt, "lfar") == 0
	for k := range ps {
		ps[k] = jpos(p.X[i], p.Y[j])
		if far {
			i = rapid.IntRange(0, len(p.X)-1).Draw(rt, "lx")
			j = rapid.IntRange(0, len(p.Y)-1).Draw(rt, "ly")
		} else {
			i = clampi(i+rapid.IntRange(-4, 4).Draw(rt, "ldx"), len(p.X))
			j = clampi(j+rapid.IntRange(-4, 4).Draw(rt, "ldy"), len(p.Y))
		}
	}
	return "[" + strings.Join(ps, ",") + "]"
}

func clampi(i, n int) int {
	if i < 0 {
		return 0
	}
	if i > n-1 {
		return n - 1
	}
	return i
}

func (p pool) polygonCoords(rt *rapid.T, wide bool) string {
	switch rapid.IntRange(0, 5).Draw(rt, "polykind") {
	case 0, 1, 2:
		x0, y0, x1, y1 := p.box(rt, wide)
		return "[" + jring(x0, y0, x1, y1) + "]"
	case 3:
		// triangle
		x0, y0, x1, y1 := p.box(rt, wide)
		xm, _ := p.xy(rt)
		return "[[" + strings.Join([]string{jpos(x0, y0), jpos(x1, y0), jpos(xm, y1), jpos(x0, y0)}, ",") + "]]"
	default:
		// rectangle with a rectangular hole (hole from the inner pool values when there are any)
		i0, i1 := span(rt, "hx", len(p.X), true)
		j0, j1 := span(rt, "hy", len(p.Y), true)
		outer := jring(p.X[i0], p.Y[j0], p.X[i1], p.Y[j1])
		if i1-i0 >= 3 && j1-j0 >= 3 {
			a := rapid.IntRange(i0+1, i1-2).Draw(rt, "hx0")
			b := rapid.IntRange(a+1, i1-1).Draw(rt, "hx1")
			c := rapid.IntRange(j0+1, j1-2).Draw(rt, "hy0")
			d := rapid.IntRange(c+1, j1-1).Draw(rt, "hy1")
			return "[" + outer + "," + jring(p.X[a], p.Y[c], p.X[b], p.Y[d]) + "]"
		}
		return "[" + outer + "]"
	}
}

// geometry draws a GeoJSON geometry text over pool coordinates.
func (p pool) geometry(rt *rapid.T, depth int, wide bool) string {
	max := 8
	if depth > 0 {
		max = 6
	}
	switch rapid.IntRange(0, max).Draw(rt, "geomkind") {
	case 0:
		x, y := p.xy(rt)
		return `{"type":"Point","coordinates":` + jpos(x, y) + `}`
	case 1, 2:
		return `{"type":"LineString","coordinates":` + p.jposList(rt, 2, 4) + `}`
	case 3, 4:
		return `{"type":"Polygon","coordinates":` + p.polygonCoords(rt, wide) + `}`
	case 5:
		return `{"type":"MultiPoint","coordinates":` + p.jposList(rt, 1, 3) + `}`
	case 6:
		n := rapid.IntRange(1, 3).Draw(rt, "nmpoly")
		ps := make([]string, n)
		for i := range ps {
			ps[i] = p.polygonCoords(rt, wide)
		}
		return `{"type":"MultiPolygon","coordinates":[` + strings.Join(ps, ",") + `]}`
	case 7:
		n := rapid.IntRange(1, 2).Draw(rt, "nmline")
		ps := make([]string, n)
		for i := range ps {
			ps[i] = p.jposList(rt, 2, 3)
		}
		return `{"type":"MultiLineString","coordinates":[` + strings.Join(ps, ",") + `]}`
	default:
		n := rapid.IntRange(0, 2).Draw(rt, "ngeoms")
		gs := make([]string, n)
		for i := range gs {
			gs[i] = p.geometry(rt, depth+1, wide)
		}
		return `{"type":"GeometryCollection","geometries":[` + strings.Join(gs, ",") + `]}`
	}
}

func (p pool) geojson(rt *rapid.T, wide bool) string {
	switch rapid.IntRange(0, 15).Draw(rt, "gjkind") {
	case 2:
		// Tile38's circle object: a Point feature with a radius
		x, y := p.xy(rt)
		return `{"type":"Feature","geometry":{"type":"Point","coordinates":` + jpos(x, y) + `},"properties":{"type":"Circle","radius":` + fs(p.radius(rt, x, y)) + `,"radius_units":"m"}}`
	case 5:
		// circle features nested in a FeatureCollection (1-3, optionally next to an ordinary feature)
		n := rapid.IntRange(1, 3).Draw(rt, "ncirc")
		f := make([]string, 0, n+1)
		for i := 0; i < n; i++ {
			x, y := p.xy(rt)
			f = append(f, `{"type":"Feature","geometry":{"type":"Point","coordinates":`+jpos(x, y)+`},"properties":{"type":"Circle","radius":`+fs(p.radius(rt, x, y))+`,"radius_units":"m"}}`)
		}
		if rapid.Bool().Draw(rt, "mixed") {
			f = append(f, `{"type":"Feature","geometry":`+p.geometry(rt, 1, wide)+`,"properties":{}}`)
		}
		return `{"type":"FeatureCollection","features":[` + strings.Join(f, ",") + `]}`
	case 0, 3:
		return `{"type":"Feature","geometry":` + p.geometry(rt, 0, wide) + `,"properties":{"n":` + strconv.Itoa(rapid.IntRange(0, 9).Draw(rt, "prop")) + `}}`
	case 1, 4:
		n := rapid.IntRange(0, 2).Draw(rt, "nfeat")
		f := make([]string, n)
		for i := range f {
			f[i] = `{"type":"Feature","geometry":` + p.geometry(rt, 1, wide) + `,"properties":{}}`
		}
		return `{"type":"FeatureCollection","features":[` + strings.Join(f, ",") + `]}`
	default:
		return p.geometry(rt, 0, wide)
	}
}

func clampLat(y float64) float64 {
	if y > 90 {
		return 90
	}
	if y < -90 {
		return -90
	}
	return y
}

// ---- objects ----------------------------------------------------------------

func (p pool) object(rt *rapid.T) objSpec {
	switch k := rapid.IntRange(0, 99).Draw(rt, "objkind"); {
	case k < 40:
		x, y := p.xy(rt)
		return objSpec{[]string{"POINT", fs(y), fs(x)}}
	case k < 45:
		x, y := p.xy(rt)
		return objSpec{[]string{"POINT", fs(y), fs(x), strconv.Itoa(rapid.IntRange(-100, 9000).Draw(rt, "z"))}}
	case k < 62:
		x0, y0, x1, y1 := p.box(rt, false)
		return objSpec{[]string{"BOUNDS", fs(y0), fs(x0), fs(y1), fs(x1)}}
	case k < 65:
		x, y := p.xy(rt)
		return objSpec{[]string{"HASH", geohash.EncodeWithPrecision(y, x, uint(rapid.IntRange(1, 12).Draw(rt, "hprec")))}}
	case k < 91:
		return objSpec{[]string{"OBJECT", p.geojson(rt, false)}}
	case k < 93:
		return objSpec{[]string{"OBJECT", p.nonFinite(rt)}}
	case k < 97:
		// geometries without a position: legal, stored, never in the spatial
		// index, matched by no area (moves turn other objects into these too)
		return objSpec{[]string{"OBJECT", rapid.SampledFrom(emptyGeoms).Draw(rt, "empty")}}
	default:
		return objSpec{[]string{"STRING", rapid.SampledFrom([]string{"hello", "", "12.5", `{"type":"Point","coordinates":[1,2]}`}).Draw(rt, "str")}}
	}
}

// nonFinite draws GeoJSON whose coordinates contain null (parsed as NaN where
// the parser accepts it: Points, also nested) or +-1e999 (parsed as +-Inf
// everywhere), in x, y or z.
func (p pool) nonFinite(rt *rapid.T) string {
	x, y := p.xy(rt)
	x2, y2 := p.xy(rt)
	bad := rapid.SampledFrom([]string{"null", "null", "1e999", "-1e999"}).Draw(rt, "badval")
	inf := rapid.SampledFrom([]string{"1e999", "-1e999"}).Draw(rt, "infval")
	pt := func(a, b string) string { return "[" + a + "," + b + "]" }
	switch rapid.IntRange(0, 11).Draw(rt, "nfkind") {
	case 0:
		return `{"type":"Point","coordinates":` + pt(bad, fs(y)) + `}`
	case 1:
		return `{"type":"Point","coordinates":` + pt(fs(x), bad) + `}`
	case 2:
		return `{"type":"Point","coordinates":[` + fs(x) + "," + fs(y) + "," + bad + `]}`
	case 3:
		return `{"type":"LineString","coordinates":[` + jpos(x, y) + "," + pt(inf, fs(y2)) + "," + jpos(x2, y2) + `]}`
	case 4:
		return `{"type":"Polygon","coordinates":[[` + jpos(x, y) + "," + jpos(x2, y) + "," + pt(fs(x2), inf) + "," + jpos(x, y) + `]]}`
	case 5:
		return `{"type":"MultiPoint","coordinates":[` + jpos(x, y) + "," + pt(bad, bad) + "," + pt(fs(x2), bad) + `]}`
	case 6:
		return `{"type":"MultiLineString","coordinates":[[` + jpos(x, y) + "," + jpos(x2, y2) + "],[" + jpos(x, y2) + "," + pt(inf, inf) + `]]}`
	case 7:
		return `{"type":"MultiPolygon","coordinates":[[` + jring(x, y, x2, y2) + `],[[` + jpos(x, y) + "," + pt(inf, fs(y)) + "," + jpos(x2, y2) + "," + jpos(x, y) + `]]]}`
	case 8:
		return `{"type":"Feature","geometry":{"type":"Point","coordinates":` + pt(bad, fs(y)) + `},"properties":{"n":1}}`
	case 9:
		return `{"type":"GeometryCollection","geometries":[{"type":"Point","coordinates":` + jpos(x, y) + `},{"type":"Point","coordinates":` + pt(fs(x2), bad) + `}]}`
	case 10:
		return `{"type":"FeatureCollection","features":[{"type":"Feature","geometry":{"type":"Point","coordinates":` + pt(bad, bad) + `},"properties":{}}]}`
	default:
		return `{"type":"LineString","coordinates":[[` + fs(x) + "," + fs(y) + ",1],[" + fs(x2) + "," + fs(y2) + "," + inf + `]]}`
	}
}

var emptyGeoms = []string{
	`{"type":"GeometryCollection","geometries":[]}`,
	`{"type":"FeatureCollection","features":[]}`,
	`{"type":"MultiPoint","coordinates":[]}`,
	`{"type":"MultiLineString","coordinates":[]}`,
	`{"type":"MultiPolygon","coordinates":[]}`,
	`{"type":"Feature","geometry":{"type":"GeometryCollection","geometries":[]},"properties":{"n":1}}`,
	`{"type":"GeometryCollection","geometries":[{"type":"MultiPoint","coordinates":[]},{"type":"GeometryCollection","geometries":[]}]}`,
	`{"type":"FeatureCollection","features":[{"type":"Feature","geometry":{"type":"MultiPolygon","coordinates":[]},"properties":{}}]}`,
}

// ---- areas ------------------------------------------------------------------

func tileOf(x, y float64, z int) (tx, ty int64) {
	px, py := bing.LatLongToPixelXY(y, x, uint64(z))
	return bing.PixelXYToTileXY(px, py)
}

func (p pool) rectArea(rt *rapid.T, kinds []string) []string {
	switch rapid.SampledFrom(kinds).Draw(rt, "rectkind") {
	case "TILE":
		x, y := p.xy(rt)
		z := rapid.IntRange(0, 22).Draw(rt, "zoom")
		tx, ty := tileOf(x, y, z)
		return []string{"TILE", strconv.FormatInt(tx, 10), strconv.FormatInt(ty, 10), strconv.Itoa(z)}
	case "QUADKEY":
		x, y := p.xy(rt)
		z := rapid.IntRange(1, 22).Draw(rt, "zoom")
		tx, ty := tileOf(x, y, z)
		return []string{"QUADKEY", bing.TileXYToQuadKey(tx, ty, uint64(z))}
	case "HASH":
		x, y := p.xy(rt)
		return []string{"HASH", geohash.EncodeWithPrecision(y, x, uint(rapid.IntRange(1, 9).Draw(rt, "hprec")))}
	default:
		x0, y0, x1, y1 := p.box(rt, true)
		return []string{"BOUNDS", fs(y0), fs(x0), fs(y1), fs(x1)}
	}
}

// coverArea draws a plain rectangle that holds (or just fails to hold) the
// whole collection: exactly its bounds, the bounds widened by 1 ulp64 / 1e-9 /
// 1 degree, the whole world, and the smallest TILE / QUADKEY / HASH cell that
// contains the bounds.
func coverArea(rt *rapid.T, cover *geometry.Rect) []string {
	world := []string{"BOUNDS", "-90", "-180", "90", "180"}
	if cover == nil {
		return world
	}
	b := *cover
	box := func(m float64, ulp bool) []string {
		x0, y0, x1, y1 := b.Min.X-m, b.Min.Y-m, b.Max.X+m, b.Max.Y+m
		if ulp {
			x0, y0 = math.Nextafter(x0, math.Inf(-1)), math.Nextafter(y0, math.Inf(-1))
			x1, y1 = math.Nextafter(x1, math.Inf(1)), math.Nextafter(y1, math.Inf(1))
		}
		cl := func(v, lim float64) float64 { return math.Max(-lim, math.Min(lim, v)) }
		return []string{"BOUNDS", fs(cl(y0, 90)), fs(cl(x0, 180)), fs(cl(y1, 90)), fs(cl(x1, 180))}
	}
	switch rapid.SampledFrom([]string{"world", "exact", "ulp", "f32", "1e-9", "1deg", "tile", "quadkey", "hash", "tile0"}).Draw(rt, "coverkind") {
	case "exact":
		return box(0, false)
	case "ulp":
		return box(0, true)
	case "f32":
		// the float32 box the index itself would report
		return []string{"BOUNDS", fs(f32dn(b.Min.Y)), fs(f32dn(b.Min.X)), fs(f32up(b.Max.Y)), fs(f32up(b.Max.X))}
	case "1e-9":
		return box(1e-9, false)
	case "1deg":
		return box(1, false)
	case "tile0":
		return []string{"TILE", "0", "0", "0"}
	case "tile", "quadkey":
		// deepest tile that holds both corners
		for z := 22; z >= 1; z-- {
			ax, ay := tileOf(b.Min.X, b.Min.Y, z)
			bx, by := tileOf(b.Max.X, b.Max.Y, z)
			if ax == bx && ay == by {
				if rapid.Bool().Draw(rt, "asquadkey") {
					return []string{"QUADKEY", bing.TileXYToQuadKey(ax, ay, uint64(z))}
				}
				return []string{"TILE", strconv.FormatInt(ax, 10), strconv.FormatInt(ay, 10), strconv.Itoa(z)}
			}
		}
		return []string{"TILE", "0", "0", "0"}
	case "hash":
		h1 := geohash.EncodeWithPrecision(b.Min.Y, b.Min.X, 12)
		h2 := geohash.EncodeWithPrecision(b.Max.Y, b.Max.X, 12)
		n := 0
		for n < 12 && h1[n] == h2[n] {
			n++
		}
		if n > 0 {
			return []string{"HASH", h1[:n]}
		}
		return world
	}
	return world
}

var rectKinds = []string{"BOUNDS", "BOUNDS", "TILE", "QUADKEY", "HASH"}

// hav is the harness' own great-circle distance in metres (used only to pick
// radii that touch object positions; never as an oracle here).
func hav(lat1, lon1, lat2, lon2 float64) float64 {
	const r = 6371e3
	p1, p2 := lat1*math.Pi/180, lat2*math.Pi/180
	dp, dl := (lat2-lat1)*math.Pi/180, (lon2-lon1)*math.Pi/180
	a := math.Sin(dp/2)*math.Sin(dp/2) + math.Cos(p1)*math.Cos(p2)*math.Sin(dl/2)*math.Sin(dl/2)
	return 2 * r * math.Atan2(math.Sqrt(a), math.Sqrt(1-a))
}

func (p pool) radius(rt *rapid.T, cx, cy float64) float64 {
	if rapid.Bool().Draw(rt, "radtouch") {
		// the distance to another pool position, nudged: puts an object right at the rim
		x, y := p.xy(rt)
		d := hav(cy, cx, y, x)
		// never closer than a relative 1e-6 to the exact distance: nearer to the
		// rim the haversine comparison and the search rectangle of the disc
		// (both transcendental) differ by rounding, see notes
		f := rapid.SampledFrom([]float64{1 + 1e-6, 1 - 1e-6, 1 + 1e-6, 1 - 1e-6, 1.001, 0.999, 1.2, 0.5}).Draw(rt, "radnudge")
		if d*f >= 1 && d*f < 1.5e7 {
			return d * f
		}
	}
	e := rapid.Float64Range(0, 6.8).Draw(rt, "radexp")
	return math.Round(math.Pow(10, e)*1000) / 1000
}

// (rapid favours the front of a SampledFrom list, so the order matters)
var areaKindsPkg = []string{"BOUNDS", "CIRCLE", "COVER", "OBJECT", "GET", "BOUNDS", "TILE", "QUADKEY", "HASH", "OBJECT", "CIRCLE", "POINT", "BOUNDS", "OBJECT"}
var areaKindsSrv = []string{"BOUNDS", "CIRCLE", "COVER", "OBJECT", "GET", "SECTOR", "BOUNDS", "TILE", "QUADKEY", "HASH", "OBJECT", "CIRCLE", "POINT", "BOUNDS", "OBJECT", "SECTOR"}

// area draws a query area. server enables the syntaxes that exist only at the
// protocol level (SECTOR). ids are the live ids a GET may reference.
// cover is the box of everything stored (nil: nothing has a position).
func (p pool) area(rt *rapid.T, server bool, key string, ids []string, cover *geometry.Rect) areaSpec {
	var a areaSpec
	kinds := areaKindsPkg
	if server {
		kinds = areaKindsSrv
	}
	switch rapid.SampledFrom(kinds).Draw(rt, "areakind") {
	case "BOUNDS":
		a.Args = p.rectArea(rt, []string{"BOUNDS"})
	case "COVER":
		a.Args = coverArea(rt, cover)
	case "CIRCLE":
		x, y := p.xy(rt)
		a.Args = []string{"CIRCLE", fs(y), fs(x), fs(p.radius(rt, x, y))}
	case "SECTOR":
		x, y := p.xy(rt)
		b1 := rapid.IntRange(0, 359).Draw(rt, "b1")
		b2 := (b1 + rapid.IntRange(1, 359).Draw(rt, "db")) % 360
		a.Args = []string{"SECTOR", fs(y), fs(x), fs(p.radius(rt, x, y)), strconv.Itoa(b1), strconv.Itoa(b2)}
	case "TILE":
		a.Args = p.rectArea(rt, []string{"TILE"})
	case "QUADKEY":
		a.Args = p.rectArea(rt, []string{"QUADKEY"})
	case "HASH":
		a.Args = p.rectArea(rt, []string{"HASH"})
	case "POINT":
		x, y := p.xy(rt)
		a.Args = []string{"POINT", fs(y), fs(x)}
	case "GET":
		if len(ids) > 0 {
			a.Args = []string{"GET", key, rapid.SampledFrom(ids).Draw(rt, "getid")}
		} else {
			a.Args = p.rectArea(rt, []string{"BOUNDS"})
		}
	default:
		a.Args = []string{"OBJECT", p.geojson(rt, true)}
	}
	// (SECTOR areas are not mirrored in the harness, so they are never pre-clipped)
	if a.Args[0] != "SECTOR" && rapid.IntRange(0, 3).Draw(rt, "clip?") == 0 {
		n := rapid.IntRange(1, 2).Draw(rt, "nclip")
		for i := 0; i < n; i++ {
			a.Clip = append(a.Clip, p.rectArea(rt, rectKinds))
		}
	}
	return a
}

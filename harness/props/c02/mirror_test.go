package c02

// In-harness construction of objects and areas from their command-level
// specs. It mirrors what cmdSET / cmdSearchArgs do with library calls
// (geojson.NewPoint/NewRect/NewCircle/Parse, geohash, bing, clip.Clip). It is
// used (1) by the in-package sub-check, which needs real geojson objects to
// hand to Collection.Set/Within/Intersects, (2) at the server level only for
// the CLIPBY pre-clipping, for labels and for recognising the shape of a
// known finding - never as the server-level oracle, which is TEST.

import (
	"errors"
	"fmt"
	"strconv"
	"strings"

	"github.com/mmcloughlin/geohash"
	"github.com/tidwall/geojson"
	"github.com/tidwall/geojson/geometry"
	"github.com/tidwall/tile38/internal/bing"
	"github.com/tidwall/tile38/internal/clip"
	"github.com/tidwall/tile38/internal/collection"
)

var parseOpts = *geojson.DefaultParseOptions

func pf(s string) float64 {
	v, err := strconv.ParseFloat(s, 64)
	if err != nil {
		panic("generator produced a bad number: " + s)
	}
	return v
}

func buildObject(spec objSpec) (geojson.Object, error) {
	a := spec.Args
	switch strings.ToUpper(a[0]) {
	case "POINT":
		if len(a) == 4 {
			return geojson.NewPointZ(geometry.Point{X: pf(a[2]), Y: pf(a[1])}, pf(a[3])), nil
		}
		return geojson.NewPoint(geometry.Point{X: pf(a[2]), Y: pf(a[1])}), nil
	case "BOUNDS":
		return geojson.NewRect(geometry.Rect{
			Min: geometry.Point{X: pf(a[2]), Y: pf(a[1])},
			Max: geometry.Point{X: pf(a[4]), Y: pf(a[3])},
		}), nil
	case "HASH":
		lat, lon := geohash.Decode(a[1])
		return geojson.NewPoint(geometry.Point{X: lon, Y: lat}), nil
	case "OBJECT":
		return geojson.Parse(a[1], &parseOpts)
	case "STRING":
		return collection.String(a[1]), nil
	}
	return nil, fmt.Errorf("unknown object kind %q", a[0])
}

var errNoMirror = errors.New("area kind not mirrored in the harness")

func buildRect(a []string) (geojson.Object, error) {
	var r geometry.Rect
	switch strings.ToUpper(a[0]) {
	case "BOUNDS":
		r = geometry.Rect{Min: geometry.Point{X: pf(a[2]), Y: pf(a[1])}, Max: geometry.Point{X: pf(a[4]), Y: pf(a[3])}}
	case "HASH":
		b := geohash.BoundingBox(a[1])
		r = geometry.Rect{Min: geometry.Point{X: b.MinLng, Y: b.MinLat}, Max: geometry.Point{X: b.MaxLng, Y: b.MaxLat}}
	case "QUADKEY":
		minLat, minLon, maxLat, maxLon, err := bing.QuadKeyToBounds(a[1])
		if err != nil {
			return nil, err
		}
		r = geometry.Rect{Min: geometry.Point{X: minLon, Y: minLat}, Max: geometry.Point{X: maxLon, Y: maxLat}}
	case "TILE":
		x, _ := strconv.ParseInt(a[1], 10, 64)
		y, _ := strconv.ParseInt(a[2], 10, 64)
		z, _ := strconv.ParseUint(a[3], 10, 64)
		minLat, minLon, maxLat, maxLon := bing.TileXYToBounds(x, y, z)
		r = geometry.Rect{Min: geometry.Point{X: minLon, Y: minLat}, Max: geometry.Point{X: maxLon, Y: maxLat}}
	default:
		return nil, errNoMirror
	}
	return geojson.NewRect(r), nil
}

// buildArea returns the unclipped and the clipped area object. get resolves a
// GET reference (nil result = missing).
func buildArea(a areaSpec, get func(key, id string) geojson.Object) (base, clipped geojson.Object, err error) {
	switch a.kind() {
	case "bounds", "hash", "quadkey", "tile":
		base, err = buildRect(a.Args)
	case "circle":
		base = geojson.NewCircle(geometry.Point{X: pf(a.Args[2]), Y: pf(a.Args[1])}, pf(a.Args[3]), 64)
	case "point":
		base = geojson.NewPoint(geometry.Point{X: pf(a.Args[2]), Y: pf(a.Args[1])})
	case "object":
		base, err = geojson.Parse(a.Args[1], &parseOpts)
	case "get":
		base = get(a.Args[1], a.Args[2])
		if base == nil {
			err = errors.New("GET reference does not exist")
		}
	default:
		err = errNoMirror
	}
	if err != nil {
		return nil, nil, err
	}
	clipped = base
	for _, cl := range a.Clip {
		r, err := buildRect(cl)
		if err != nil {
			return nil, nil, err
		}
		clipped = clip.Clip(clipped, r, nil)
	}
	return base, clipped, nil
}

// rectOf returns the query rectangle of rectangle-like areas (for labels).
func rectLike(o geojson.Object) (geometry.Rect, bool) {
	if r, ok := o.(*geojson.Rect); ok {
		return r.Base(), true
	}
	return geometry.Rect{}, false
}

package c17

// Agreement between the RESP reply and the JSON reply of the same command in
// the same state. Each command has a canonicaliser that maps what both modes
// carry (error class, ids, objects parsed, fields, counts, cursors, hook
// descriptions, ttl class, booleans) to comparable values. The output kind is
// inferred from the JSON members, never from the arguments, so the functions
// work for mutated argument vectors too.

import (
	"bytes"
	"encoding/base64"
	"encoding/json"
	"fmt"
	"math"
	"sort"
	"strconv"
	"strings"
	"time"
	"unicode/utf8"

	"github.com/tidwall/tile38/verif/harness/t38"
)

// lossy is what JSON can carry of a byte string: every byte that is not part
// of a valid UTF-8 sequence becomes U+FFFD (encoding/json semantics).
func lossy(s string) string {
	if utf8.ValidString(s) {
		return s
	}
	var b strings.Builder
	for i := 0; i < len(s); {
		r, n := utf8.DecodeRuneInString(s[i:])
		if r == utf8.RuneError && n == 1 {
			b.WriteRune(utf8.RuneError)
		} else {
			b.WriteString(s[i : i+n])
		}
		i += n
	}
	return b.String()
}

// oneLine is what a RESP simple string / error can carry: control bytes
// become spaces.
func oneLine(s string) string {
	b := []byte(s)
	for i := range b {
		if b[i] < ' ' {
			b[i] = ' '
		}
	}
	return string(b)
}

// cmdName returns the table name of an argument vector (inner command of a
// TIMEOUT wrapper; two words for CONFIG / SCRIPT sub-commands) and the name
// the server uses in RESP arity errors (always the first word as sent).
func cmdName(args []string) (name, outer string, inner []string) {
	if len(args) == 0 {
		return "", "", nil
	}
	outer = strings.ToLower(args[0])
	inner = args
	if outer == "timeout" && len(args) >= 3 {
		inner = args[2:]
	}
	name = strings.ToLower(inner[0])
	if (name == "config" || name == "script") && len(inner) >= 2 {
		name += " " + strings.ToLower(inner[1])
	}
	if name == "client" && len(inner) >= 2 {
		name += " " + strings.ToLower(inner[1])
	}
	return name, outer, inner
}

func expectedRESPErr(jsonErr, outer string) string {
	if jsonErr == "invalid number of arguments" {
		return "ERR wrong number of arguments for '" + outer + "' command"
	}
	word := strings.Split(jsonErr, " ")[0]
	uc := len(word) > 0
	for i := 0; i < len(word); i++ {
		if word[i] < 'A' || word[i] > 'Z' {
			uc = false
			break
		}
	}
	if !uc {
		jsonErr = "ERR " + jsonErr
	}
	return oneLine(jsonErr)
}

func parseJSON(raw []byte) (any, error) {
	dec := json.NewDecoder(bytes.NewReader(raw))
	dec.UseNumber()
	var v any
	if err := dec.Decode(&v); err != nil {
		return nil, err
	}
	if dec.More() {
		return nil, fmt.Errorf("trailing data")
	}
	return v, nil
}

func numEq(a, b string) bool {
	if a == b {
		return true
	}
	fa, ea := strconv.ParseFloat(a, 64)
	fb, eb := strconv.ParseFloat(b, 64)
	return ea == nil && eb == nil && (fa == fb || (math.IsNaN(fa) && math.IsNaN(fb)))
}

func deepEq(a, b any) bool {
	switch x := a.(type) {
	case json.Number:
		y, ok := b.(json.Number)
		return ok && numEq(string(x), string(y))
	case string:
		y, ok := b.(string)
		return ok && x == y
	case bool:
		y, ok := b.(bool)
		return ok && x == y
	case nil:
		return b == nil
	case []any:
		y, ok := b.([]any)
		if !ok || len(x) != len(y) {
			return false
		}
		for i := range x {
			if !deepEq(x[i], y[i]) {
				return false
			}
		}
		return true
	case map[string]any:
		y, ok := b.(map[string]any)
		if !ok || len(x) != len(y) {
			return false
		}
		for k, v := range x {
			w, ok := y[k]
			if !ok || !deepEq(v, w) {
				return false
			}
		}
		return true
	}
	return false
}

// objectAgree: RESP carries the object text; JSON carries either a JSON
// string (string objects) or the GeoJSON value.
func objectAgree(text string, j any) string {
	if s, ok := j.(string); ok {
		if lossy(text) != s {
			return fmt.Sprintf("string object differs: RESP %q, JSON %q", text, s)
		}
		return ""
	}
	rv, err := parseJSON([]byte(text))
	if err != nil {
		return fmt.Sprintf("JSON mode shows a structured object %v but the RESP object text is not JSON: %q", j, text)
	}
	if !deepEq(rv, j) {
		return fmt.Sprintf("object differs: RESP %s, JSON %v", text, j)
	}
	return ""
}

// fieldAgree: RESP carries the field's text, JSON its typed rendering.
func fieldAgree(data string, j any) bool {
	switch x := j.(type) {
	case string:
		return lossy(data) == x
	case json.Number:
		return numEq(data, string(x))
	case bool:
		return data == strconv.FormatBool(x)
	case nil:
		return data == "null"
	default:
		rv, err := parseJSON([]byte(data))
		return err == nil && deepEq(rv, j)
	}
}

func isZeroField(j any) bool {
	n, ok := j.(json.Number)
	return ok && (string(n) == "0")
}

// respPairs reads [name, value, name, value ...].
func respPairs(v t38.Value) (map[string]string, []string, bool) {
	if v.Kind != '*' || v.Null || len(v.Arr)%2 != 0 {
		return nil, nil, false
	}
	m := map[string]string{}
	var order []string
	for i := 0; i+1 < len(v.Arr); i += 2 {
		if v.Arr[i].Kind != '$' || v.Arr[i+1].Kind != '$' {
			return nil, nil, false
		}
		k := lossy(v.Arr[i].Str)
		if _, dup := m[k]; dup {
			return nil, nil, false
		}
		m[k] = v.Arr[i+1].Str
		order = append(order, k)
	}
	return m, order, true
}

// respFieldPairs reads a field list [name, value, ...]. Names are compared
// the way JSON can carry them (invalid UTF-8 -> U+FFFD), so two different
// byte strings may collapse into one name: values are kept as lists.
func respFieldPairs(v t38.Value) (map[string][]string, bool) {
	if v.Kind != '*' || v.Null || len(v.Arr)%2 != 0 {
		return nil, false
	}
	m := map[string][]string{}
	seen := map[string]bool{}
	for i := 0; i+1 < len(v.Arr); i += 2 {
		if v.Arr[i].Kind != '$' || v.Arr[i+1].Kind != '$' {
			return nil, false
		}
		if seen[v.Arr[i].Str] {
			return nil, false // the same field twice
		}
		seen[v.Arr[i].Str] = true
		k := lossy(v.Arr[i].Str)
		m[k] = append(m[k], v.Arr[i+1].Str)
	}
	return m, true
}

// fieldsAgree compares RESP name/value pairs with JSON name -> values.
// Zero-valued fields may be absent on either side. Where names collapsed
// (several values under one lossy name) every non-zero value of one side
// must have a counterpart on the other.
func fieldsAgree(rv map[string][]string, jf map[string][]any) string {
	names := map[string]bool{}
	for k := range rv {
		names[k] = true
	}
	for k := range jf {
		names[k] = true
	}
	for k := range names {
		rs, js := rv[k], jf[k]
		if len(rs) <= 1 && len(js) <= 1 {
			switch {
			case len(rs) == 1 && len(js) == 1:
				if !fieldAgree(rs[0], js[0]) {
					return fmt.Sprintf("field %q differs: RESP %q, JSON %v", k, rs[0], js[0])
				}
			case len(rs) == 1:
				if rs[0] != "0" {
					return fmt.Sprintf("field %q (RESP %q) missing in JSON %v", k, rs[0], jf)
				}
			case len(js) == 1:
				if !isZeroField(js[0]) {
					return fmt.Sprintf("field %q (JSON %v) missing in RESP %v", k, js[0], rv)
				}
			}
			continue
		}
		// collapsed names: a JSON object keeps only one member per name, so
		// only require that what JSON shows exists in RESP, and — when JSON
		// keeps a list (search replies) — the converse
		for _, j := range js {
			found := isZeroField(j)
			for _, d := range rs {
				found = found || fieldAgree(d, j)
			}
			if !found {
				return fmt.Sprintf("field %q: JSON value %v has no RESP counterpart in %q", k, j, rs)
			}
		}
		if len(js) > 1 {
			for _, d := range rs {
				found := d == "0"
				for _, j := range js {
					found = found || fieldAgree(d, j)
				}
				if !found {
					return fmt.Sprintf("field %q: RESP value %q has no JSON counterpart in %v", k, d, js)
				}
			}
		}
	}
	return ""
}

func bulkText(v t38.Value) (string, bool) {
	if v.Kind == '$' && !v.Null {
		return v.Str, true
	}
	return "", false
}

func jnum(j any) (string, bool) {
	n, ok := j.(json.Number)
	return string(n), ok
}

// pointAgree: [lat lon (z)] vs {"lat","lon"(,"z")}.
func pointAgree(v t38.Value, j any) string {
	m, ok := j.(map[string]any)
	if !ok || v.Kind != '*' || v.Null {
		return fmt.Sprintf("point shape: RESP %s, JSON %v", v, j)
	}
	want := []string{"lat", "lon"}
	if _, has := m["z"]; has {
		want = append(want, "z")
	}
	if len(v.Arr) != len(want) || len(m) != len(want) {
		return fmt.Sprintf("point arity: RESP %s, JSON %v", v, j)
	}
	for i, k := range want {
		t, ok1 := bulkText(v.Arr[i])
		n, ok2 := jnum(m[k])
		if !ok1 || !ok2 || !numEq(t, n) {
			return fmt.Sprintf("point %s differs: RESP %s, JSON %v", k, v, j)
		}
	}
	return ""
}

// simpleBoundsAgree: [[minlat minlon] [maxlat maxlon]] vs {"sw":{lat,lon},"ne":{lat,lon}}.
func simpleBoundsAgree(v t38.Value, j any) string {
	m, ok := j.(map[string]any)
	if !ok || v.Kind != '*' || len(v.Arr) != 2 || len(m) != 2 {
		return fmt.Sprintf("bounds shape: RESP %s, JSON %v", v, j)
	}
	for i, k := range []string{"sw", "ne"} {
		if d := pointAgree(v.Arr[i], m[k]); d != "" {
			return "bounds " + k + ": " + d
		}
	}
	return ""
}

func collectXY(j any, xs, ys *[]float64) bool {
	a, ok := j.([]any)
	if !ok {
		return false
	}
	if len(a) >= 2 {
		if _, isNum := a[0].(json.Number); isNum {
			x, e1 := a[0].(json.Number).Float64()
			yn, ok2 := a[1].(json.Number)
			if !ok2 || e1 != nil {
				return false
			}
			y, e2 := yn.Float64()
			if e2 != nil {
				return false
			}
			*xs = append(*xs, x)
			*ys = append(*ys, y)
			return true
		}
	}
	for _, e := range a {
		if !collectXY(e, xs, ys) {
			return false
		}
	}
	return true
}

// itemAgree compares one search result entry.
func itemAgree(kind string, it t38.Value, j any, names []string) string {
	if kind == "ids" {
		if s, ok := j.(string); ok {
			t, ok := bulkText(it)
			if !ok || lossy(t) != s {
				return fmt.Sprintf("id differs: RESP %s, JSON %q", it, s)
			}
			return ""
		}
		m, ok := j.(map[string]any)
		if !ok || it.Kind != '*' || len(it.Arr) != 2 {
			return fmt.Sprintf("id entry shape: RESP %s, JSON %v", it, j)
		}
		id, _ := m["id"].(string)
		t, ok1 := bulkText(it.Arr[0])
		d, ok2 := bulkText(it.Arr[1])
		dn, ok3 := jnum(m["distance"])
		if !ok1 || !ok2 || !ok3 || lossy(t) != id || !numEq(d, dn) || len(m) != 2 {
			return fmt.Sprintf("id+distance differs: RESP %s, JSON %v", it, j)
		}
		return ""
	}
	m, ok := j.(map[string]any)
	if !ok || it.Kind != '*' || it.Null || len(it.Arr) < 2 {
		return fmt.Sprintf("entry shape: RESP %s, JSON %v", it, j)
	}
	id, isStr := m["id"].(string)
	t, ok1 := bulkText(it.Arr[0])
	if !isStr || !ok1 || lossy(t) != id {
		return fmt.Sprintf("id differs: RESP %s, JSON %v", it.Arr[0], m["id"])
	}
	member := map[string]string{"objects": "object", "points": "point", "hashes": "hash", "bounds": "bounds"}[kind]
	pj, has := m[member]
	if !has {
		return fmt.Sprintf("JSON entry lacks %q: %v", member, j)
	}
	switch kind {
	case "objects":
		txt, ok := bulkText(it.Arr[1])
		if !ok {
			return fmt.Sprintf("RESP object is not a bulk string: %s", it)
		}
		if d := objectAgree(txt, pj); d != "" {
			return d
		}
	case "points":
		if d := pointAgree(it.Arr[1], pj); d != "" {
			return d
		}
	case "hashes":
		txt, ok := bulkText(it.Arr[1])
		s, ok2 := pj.(string)
		if !ok || !ok2 || txt != s {
			return fmt.Sprintf("hash differs: RESP %s, JSON %v", it.Arr[1], pj)
		}
	case "bounds":
		if d := simpleBoundsAgree(it.Arr[1], pj); d != "" {
			return d
		}
	}
	rest := it.Arr[2:]
	allowed := 2 // id + payload
	// fields
	rf := map[string][]string{}
	if len(rest) > 0 && rest[0].Kind == '*' {
		var ok bool
		rf, ok = respFieldPairs(rest[0])
		if !ok {
			return fmt.Sprintf("RESP field list malformed: %s", rest[0])
		}
		rest = rest[1:]
	}
	jf := map[string][]any{}
	if fa, has := m["fields"]; has {
		allowed++
		arr, ok := fa.([]any)
		if !ok || len(arr) != len(names) {
			return fmt.Sprintf("JSON entry has %v as fields for the field names %q", fa, names)
		}
		for i, n := range names {
			jf[n] = append(jf[n], arr[i])
		}
	}
	if d := fieldsAgree(rf, jf); d != "" {
		return fmt.Sprintf("entry %q: %s", id, d)
	}
	// distance
	if dj, has := m["distance"]; has {
		allowed++
		dn, ok := jnum(dj)
		if len(rest) != 1 || !ok {
			return fmt.Sprintf("distance present in JSON (%v) but RESP entry is %s", dj, it)
		}
		dt, ok := bulkText(rest[0])
		if !ok || !numEq(dt, dn) {
			return fmt.Sprintf("distance differs: RESP %s, JSON %v", rest[0], dj)
		}
	} else if len(rest) != 0 {
		return fmt.Sprintf("RESP entry has extra members %s that JSON lacks: %v", it, j)
	}
	if len(m) != allowed {
		return fmt.Sprintf("JSON entry has unexpected members: %v", j)
	}
	return ""
}

func searchAgree(v t38.Value, r t38.JSONReply, top map[string]any) string {
	cnt, okc := jnum(top["count"])
	cur, oku := jnum(top["cursor"])
	if !okc || !oku {
		return fmt.Sprintf("JSON search reply without numeric count/cursor: %s", r.Raw)
	}
	kind := ""
	for _, k := range []string{"ids", "objects", "points", "hashes", "bounds", "mvt"} {
		if _, has := top[k]; has {
			if kind != "" {
				return fmt.Sprintf("JSON search reply has both %q and %q", kind, k)
			}
			kind = k
		}
	}
	switch kind {
	case "":
		// COUNT
		if v.Kind != ':' || strconv.FormatInt(v.Int, 10) != cnt {
			return fmt.Sprintf("count differs: RESP %s, JSON count %s", v, cnt)
		}
		return ""
	case "mvt":
		s, ok := top["mvt"].(string)
		tile, err := base64.RawStdEncoding.DecodeString(s)
		if !ok || err != nil {
			return fmt.Sprintf("JSON mvt member is not raw-base64: %v", top["mvt"])
		}
		if v.Kind == ':' {
			// impl-mirrored: COUNT output with an MVT area answers the count alone in RESP
			if strconv.FormatInt(v.Int, 10) != cnt {
				return fmt.Sprintf("count differs: RESP %s, JSON count %s", v, cnt)
			}
			return ""
		}
		if v.Kind != '*' || len(v.Arr) != 2 || v.Arr[0].Kind != ':' || strconv.FormatInt(v.Arr[0].Int, 10) != cur {
			return fmt.Sprintf("mvt reply shape/cursor: RESP %s, JSON cursor %s", v, cur)
		}
		t, ok := bulkText(v.Arr[1])
		if !ok || t != string(tile) {
			return fmt.Sprintf("mvt tile differs: RESP %d bytes, JSON %d bytes", len(t), len(tile))
		}
		return ""
	}
	if v.Kind != '*' || v.Null || len(v.Arr) != 2 || v.Arr[0].Kind != ':' || v.Arr[1].Kind != '*' {
		return fmt.Sprintf("RESP search reply is not [cursor, entries] while JSON has %q: %s", kind, v)
	}
	if strconv.FormatInt(v.Arr[0].Int, 10) != cur {
		return fmt.Sprintf("cursor differs: RESP %d, JSON %s", v.Arr[0].Int, cur)
	}
	arr, ok := top[kind].([]any)
	if !ok {
		return fmt.Sprintf("JSON member %q is not an array", kind)
	}
	if strconv.Itoa(len(arr)) != cnt {
		return fmt.Sprintf("JSON count %s but %d entries", cnt, len(arr))
	}
	if len(arr) != len(v.Arr[1].Arr) {
		return fmt.Sprintf("number of entries differs: RESP %d, JSON %d", len(v.Arr[1].Arr), len(arr))
	}
	var names []string
	if fn, has := top["fields"]; has {
		a, ok := fn.([]any)
		if !ok {
			return "JSON fields member is not an array"
		}
		for _, e := range a {
			s, ok := e.(string)
			if !ok {
				return "JSON fields member holds a non-string"
			}
			names = append(names, s)
		}
	}
	for i := range arr {
		if d := itemAgree(kind, v.Arr[1].Arr[i], arr[i], names); d != "" {
			return fmt.Sprintf("entry %d: %s", i, d)
		}
	}
	return ""
}

// luaAgree relates ConvertToRESP and ConvertToJSON of the same Lua value.
func luaAgree(v t38.Value, j any, outer string) string {
	bad := func() string { return fmt.Sprintf("script result differs: RESP %s, JSON %v", v, j) }
	switch x := j.(type) {
	case nil:
		if v.Kind == '$' && v.Null {
			return ""
		}
	case bool:
		if !x && v.Kind == '$' && v.Null {
			return ""
		}
		if x && v.Kind == ':' && v.Int == 1 {
			return ""
		}
	case json.Number:
		f, err := x.Float64()
		if err != nil {
			break
		}
		if f >= -9223372036854775808.0 && f < 9223372036854775808.0 {
			if v.Kind == ':' && float64(v.Int) == math.Floor(f) {
				return ""
			}
			break
		}
		// beyond int64: an integer reply cannot hold it; the number text in a
		// bulk string (as for NaN / Inf) is what conveys the same result
		if t, ok := bulkText(v); ok && numEq(t, string(x)) {
			return ""
		}
		return fmt.Sprintf("{{%s}}script result %v is beyond the int64 range: RESP answers %s", idEvalBigNum, x, v)
	case string:
		if t, ok := bulkText(v); ok && lossy(t) == x {
			return ""
		}
		// a nested value of a type that cannot be converted (function): RESP
		// nests an error value, JSON the same text as a string
		if v.Kind == '-' && strings.HasPrefix(x, "Unsupported lua type: ") && (lossy(v.Str) == oneLine(x) || lossy(v.Str) == expectedRESPErr(x, outer)) {
			return ""
		}
	case []any:
		if v.Kind == '*' && !v.Null && len(v.Arr) == len(x) {
			for i := range x {
				if d := luaAgree(v.Arr[i], x[i], outer); d != "" {
					return d
				}
			}
			return ""
		}
	case map[string]any:
		if len(x) == 1 {
			if s, ok := x["ok"].(string); ok && v.Kind == '+' && v.Str == oneLine(lossy(s)) {
				return ""
			}
			if s, ok := x["err"].(string); ok && v.Kind == '-' {
				// top level errors pass through writeErr (prefix rule); nested ones do not
				if lossy(v.Str) == expectedRESPErr(s, outer) || lossy(v.Str) == oneLine(s) {
					return ""
				}
			}
		}
		if v.Kind == '*' && !v.Null && len(v.Arr) == len(x) {
			// map: RESP [[key value] ...] in any order. A key that is not a
			// string is a JSON member name made of its Lua text ("1.5", "true",
			// "table: 0x…") and a converted value in RESP (floor, 1, []).
			used := map[string]bool{}
			for _, p := range v.Arr {
				if p.Kind != '*' || len(p.Arr) != 2 {
					return bad()
				}
				found := false
				for name, jv := range x {
					if used[name] || !luaKeyAgree(p.Arr[0], name) || luaAgree(p.Arr[1], jv, outer) != "" {
						continue
					}
					used[name] = true
					found = true
					break
				}
				if !found {
					return bad()
				}
			}
			return ""
		}
	}
	return bad()
}

const (
	idEvalBigNum = "resp-eval-number-beyond-int64"
	idEvalErrOK  = "eval-error-result-ok-in-json"

	idClientListTyped = "json-client-list-typed-name"
)

// luaKeyAgree: a table key as RESP shows it vs the JSON member name.
func luaKeyAgree(k t38.Value, name string) bool {
	switch {
	case k.Kind == '$' && !k.Null:
		if lossy(k.Str) == name {
			return true
		}
		// non-finite numeric keys are bulk strings in RESP
		f, err := strconv.ParseFloat(name, 64)
		return err == nil && (math.IsNaN(f) || math.IsInf(f, 0)) && numEq(k.Str, name)
	case k.Kind == ':':
		if name == "true" && k.Int == 1 {
			return true
		}
		f, err := strconv.ParseFloat(name, 64)
		return err == nil && (float64(k.Int) == math.Floor(f) || math.Abs(f) >= 9e18)
	case k.Kind == '$' && k.Null:
		return name == "false" || name == "nil"
	case k.Kind == '*':
		return strings.HasPrefix(name, "table: ")
	case k.Kind == '-':
		return strings.HasPrefix(name, "function: ") || strings.HasPrefix(name, "userdata: ")
	}
	return false
}

// stable members of SERVER / SERVER EXT / INFO (the others depend on the
// process, the clock or the connection set).
var stableStats = map[string]bool{
	"num_collections": true, "num_hooks": true, "num_objects": true, "num_points": true, "num_strings": true,
	"read_only": true, "http_transport": true, "max_heap_size": true, "version": true, "pointer_size": true, "cpus": true,
	"in_memory_size": true, "aof_size": true, "following": true, "pid": true,
	"tile38_num_collections": true, "tile38_num_hooks": true, "tile38_num_objects": true, "tile38_num_points": true,
	"tile38_num_strings": true, "tile38_read_only": true, "tile38_http_transport": true, "tile38_max_heap_size": true,
	"tile38_version": true, "tile38_pointer_size": true, "sys_cpus": true, "tile38_in_memory_size": true, "tile38_aof_size": true,
	"tile38_type": true, "tile38_pid": true, "tile38_aof_enabled": true, "tile38_cluster_enabled": true, "go_version": true,
	"tile38_num_hook_groups": true, "tile38_num_object_groups": true,
	"role": true, "aof_enabled": true, "cluster_enabled": true, "redis_version": true,
	"master_host": true, "master_port": true,
}

var aofSizeKeys = map[string]bool{"aof_size": true, "tile38_aof_size": true}

func scalarAgree(text string, j any) bool {
	switch x := j.(type) {
	case string:
		return lossy(text) == x
	case json.Number:
		return numEq(text, string(x))
	case bool:
		b, err := strconv.ParseBool(text)
		return err == nil && b == x
	}
	return false
}

func statsMapAgree(rv map[string]string, jm map[string]any, tnt *taint) string {
	for k := range jm {
		if _, ok := rv[k]; !ok {
			return fmt.Sprintf("member %q only in JSON", k)
		}
	}
	for k, t := range rv {
		j, ok := jm[k]
		if !ok {
			return fmt.Sprintf("member %q only in RESP", k)
		}
		if !stableStats[k] || (aofSizeKeys[k] && tnt.aof) {
			continue
		}
		if aofSizeKeys[k] {
			rn, e1 := strconv.ParseInt(t, 10, 64)
			jn, ok := jnum(j)
			jv, e2 := strconv.ParseInt(jn, 10, 64)
			if e1 != nil || !ok || e2 != nil || rn-tnt.baseR != jv-tnt.baseJ {
				return fmt.Sprintf("member %q grew differently since the case started: RESP %s (start %d), JSON %v (start %d)", k, t, tnt.baseR, j, tnt.baseJ)
			}
			continue
		}
		if !scalarAgree(t, j) {
			return fmt.Sprintf("member %q differs: RESP %q, JSON %v", k, t, j)
		}
	}
	return ""
}

// taint records events after which some members stop being comparable
// across the twins for the rest of a case.
type taint struct {
	aof bool // AOFSHRINK runs in the background, or the log sizes at case start are unknown
	// log size at case start of the server that produced the RESP / JSON
	// reply: only the growth since then is comparable (the servers live
	// longer than a case and have different earlier histories)
	baseR, baseJ int64
}

func isOKSimple(v t38.Value) bool { return v.Kind == '+' && v.Str == "OK" }
func isInt01(v t38.Value) bool    { return v.Kind == ':' && (v.Int == 0 || v.Int == 1) }
func isIntNN(v t38.Value) bool    { return v.Kind == ':' && v.Int >= 0 }
func isInt1(v t38.Value) bool     { return v.Kind == ':' && v.Int == 1 }

// plainOK: what RESP answers when JSON answers a bare {"ok":true}.
var plainOK = map[string]func(t38.Value) bool{
	"del": isInt01, "pdel": isIntNN, "drop": isInt01, "rename": isOKSimple, "renamenx": isInt01, "flushdb": isOKSimple,
	"expire": isInt1, "persist": isInt01, "jset": isOKSimple,
	// impl-mirrored: JDEL on a spatial object is carried out as a SET and answers +OK
	"jdel": func(v t38.Value) bool { return isInt1(v) || isOKSimple(v) }, "sethook": isInt01, "setchan": isInt01,
	"delhook": isInt01, "delchan": isInt01, "pdelhook": isIntNN, "pdelchan": isIntNN, "readonly": isOKSimple,
	"config set": isOKSimple, "config rewrite": isOKSimple, "gc": isOKSimple, "aofshrink": isOKSimple,
	"script flush": func(v t38.Value) bool { return v.Kind == '$' && v.Str == "OK" }, "healthz": isOKSimple,
	"follow": isOKSimple, "slaveof": isOKSimple, "replconf": isOKSimple, "client setname": isOKSimple, "client kill": isOKSimple,
	"auth": isOKSimple, "fset": isIntNN, "set": isOKSimple, "output": isOKSimple, "massinsert": isOKSimple, "sleep": isOKSimple,
}

// softNeg: JSON error messages that correspond to a RESP reply which is not
// an error (RESP conveys "nothing there" in band).
func softNeg(name string, in []string, v t38.Value) []string {
	isNil := v.Kind == '$' && v.Null
	switch name {
	case "get", "jget":
		if isNil {
			return []string{"key not found", "id not found"}
		}
	case "bounds":
		if isNil {
			return []string{"key not found"}
		}
	case "type":
		if v.Kind == '+' && v.Str == "none" {
			return []string{"key not found"}
		}
	case "jdel":
		if v.Kind == ':' && v.Int == 0 {
			return []string{"key not found", "path not found"}
		}
	case "set":
		if isNil {
			var out []string
			for _, a := range in {
				switch strings.ToLower(a) {
				case "nx":
					out = append(out, "id already exists")
				case "xx":
					out = append(out, "id not found")
				}
			}
			return out
		}
	case "expire", "persist":
		if v.Kind == ':' && v.Int == 0 {
			return []string{"key not found", "id not found"}
		}
	case "ttl":
		if v.Kind == ':' && v.Int == -2 {
			return []string{"key not found", "id not found"}
		}
	}
	return nil
}

func hasToken(in []string, from int, tok string) bool {
	for i := from; i < len(in); i++ {
		if strings.EqualFold(in[i], tok) {
			return true
		}
	}
	return false
}

// members returns the payload members of a JSON reply (everything but ok,
// err, elapsed), parsed.
func members(r t38.JSONReply) (map[string]any, error) {
	out := map[string]any{}
	for k, raw := range r.M {
		if k == "ok" || k == "err" || k == "elapsed" {
			continue
		}
		v, err := parseJSON(raw)
		if err != nil {
			return nil, err
		}
		out[k] = v
	}
	return out, nil
}

func only(top map[string]any, keys ...string) string {
	allowed := map[string]bool{}
	for _, k := range keys {
		allowed[k] = true
	}
	for k := range top {
		if !allowed[k] {
			return fmt.Sprintf("unexpected JSON member %q", k)
		}
	}
	return ""
}

// elapsedOK: the elapsed member, when present, is a JSON string holding a Go
// duration.
func elapsedOK(r t38.JSONReply) string {
	raw, has := r.M["elapsed"]
	if !has {
		return ""
	}
	var s string
	if err := json.Unmarshal(raw, &s); err != nil {
		return fmt.Sprintf("elapsed is not a JSON string: %s", raw)
	}
	if _, err := time.ParseDuration(s); err != nil {
		return fmt.Sprintf("elapsed %q is not a duration", s)
	}
	return ""
}

// agree compares the two replies. outcome is "ok", "neg" (both say "nothing
// there" in their own way) or "err".
func agree(args []string, v t38.Value, r t38.JSONReply, tnt *taint) (outcome, diff string) {
	name, outer, in := cmdName(args)
	if d := elapsedOK(r); d != "" {
		return "", d
	}
	top, err := members(r)
	if err != nil {
		return "", "JSON member does not parse: " + err.Error()
	}
	isEval := strings.HasPrefix(name, "eval")
	if !r.OK {
		if d := only(top); d != "" {
			return "err", "error reply with payload: " + d
		}
		if v.IsErr() {
			if want := expectedRESPErr(r.Err, outer); lossy(v.Str) != want {
				return "err", fmt.Sprintf("error differs: RESP %q, JSON err %q (expected RESP %q)", v.Str, r.Err, want)
			}
			return "err", ""
		}
		for _, m := range softNeg(name, in, v) {
			if m == r.Err {
				return "neg", ""
			}
		}
		return "neg", fmt.Sprintf("JSON says error %q but RESP answers %s", r.Err, v)
	}
	if v.IsErr() {
		if isEval {
			if res, has := top["result"]; has {
				// the script's result is an error value ({err=...} from
				// tile38.error_reply / pcall, or an unconvertible type): RESP
				// reports an error, JSON reports ok:true
				if d := luaAgree(v, res, outer); d != "" {
					return "err", d
				}
				return "err", fmt.Sprintf("{{%s}}RESP answers the error %q, JSON answers ok:true with result %v", idEvalErrOK, v.Str, res)
			}
		}
		return "err", fmt.Sprintf("RESP says error %q but JSON says ok: %s", v.Str, r.Raw)
	}
	// both positive
	if len(top) == 0 {
		if f, known := plainOK[name]; known {
			if !f(v) {
				return "ok", fmt.Sprintf("JSON answers a bare ok, RESP answers %s", v)
			}
			return "ok", ""
		}
	}
	switch name {
	case "get", "set", "fset":
		// object / point / bounds / hash, optionally wrapped as [value (fields)]
		// by WITHFIELDS. Whether the reply is wrapped is read off its structure
		// (a mutated argument vector may contain the word without the option
		// being in effect).
		jf := map[string][]any{}
		hasJF := false
		if f, has := top["fields"]; has {
			m, ok := f.(map[string]any)
			if !ok {
				return "ok", "JSON fields member is not an object"
			}
			for k, j := range m {
				jf[k] = []any{j}
			}
			delete(top, "fields")
			hasJF = true
		}
		if len(top) != 1 {
			return "ok", fmt.Sprintf("expected exactly one of object/point/bounds/hash in JSON: %s", r.Raw)
		}
		var kind string
		var jv any
		for k, j := range top {
			kind, jv = k, j
		}
		wrapped := false
		switch kind {
		case "object", "hash":
			wrapped = v.Kind == '*'
		case "point":
			wrapped = v.Kind == '*' && len(v.Arr) > 0 && v.Arr[0].Kind == '*'
		case "bounds":
			wrapped = v.Kind == '*' && len(v.Arr) > 0 && v.Arr[0].Kind == '*' && len(v.Arr[0].Arr) > 0 && v.Arr[0].Arr[0].Kind == '*'
		default:
			return "ok", fmt.Sprintf("unexpected JSON member %q", kind)
		}
		payload := v
		rf := map[string][]string{}
		if wrapped {
			if v.Null || len(v.Arr) < 1 || len(v.Arr) > 2 {
				return "ok", fmt.Sprintf("WITHFIELDS reply is not [value (fields)]: %s", v)
			}
			payload = v.Arr[0]
			if len(v.Arr) == 2 {
				var ok bool
				if rf, ok = respFieldPairs(v.Arr[1]); !ok {
					return "ok", fmt.Sprintf("RESP field list malformed: %s", v.Arr[1])
				}
			}
		} else if hasJF {
			return "ok", fmt.Sprintf("JSON has fields but the RESP reply %s carries none", v)
		}
		if d := fieldsAgree(rf, jf); d != "" {
			return "ok", d
		}
		switch kind {
		case "object":
			t, ok := bulkText(payload)
			if !ok {
				return "ok", fmt.Sprintf("RESP object is not a bulk string: %s", v)
			}
			return "ok", objectAgree(t, jv)
		case "point":
			return "ok", pointAgree(payload, jv)
		case "bounds":
			return "ok", simpleBoundsAgree(payload, jv)
		default:
			t, ok := bulkText(payload)
			s, ok2 := jv.(string)
			if !ok || !ok2 || t != s {
				return "ok", fmt.Sprintf("hash differs: RESP %s, JSON %v", payload, jv)
			}
			return "ok", ""
		}
	case "bounds":
		if d := only(top, "bounds"); d != "" {
			return "ok", d
		}
		var xs, ys []float64
		g, _ := top["bounds"].(map[string]any)
		if g == nil || !collectXY(g["coordinates"], &xs, &ys) || len(xs) == 0 {
			return "ok", fmt.Sprintf("JSON bounds is not a GeoJSON geometry with coordinates: %s", r.Raw)
		}
		minx, maxx, miny, maxy := xs[0], xs[0], ys[0], ys[0]
		for i := range xs {
			minx, maxx = math.Min(minx, xs[i]), math.Max(maxx, xs[i])
			miny, maxy = math.Min(miny, ys[i]), math.Max(maxy, ys[i])
		}
		want := []float64{minx, miny, maxx, maxy}
		if v.Kind != '*' || len(v.Arr) != 2 {
			return "ok", fmt.Sprintf("RESP bounds shape: %s", v)
		}
		for i := 0; i < 2; i++ {
			if v.Arr[i].Kind != '*' || len(v.Arr[i].Arr) != 2 {
				return "ok", fmt.Sprintf("RESP bounds shape: %s", v)
			}
			for k := 0; k < 2; k++ {
				t, _ := bulkText(v.Arr[i].Arr[k])
				f, err := strconv.ParseFloat(t, 64)
				if err != nil || f != want[i*2+k] {
					return "ok", fmt.Sprintf("bounds differ: RESP %s, JSON %v", v, top["bounds"])
				}
			}
		}
		return "ok", ""
	case "type":
		s, ok := top["type"].(string)
		if d := only(top, "type"); d != "" || !ok || v.Kind != '+' || v.Str != s {
			return "ok", fmt.Sprintf("type differs: RESP %s, JSON %s", v, r.Raw)
		}
		return "ok", ""
	case "fget":
		j, has := top["value"]
		t, ok := bulkText(v)
		if d := only(top, "value"); d != "" || !has || !ok || !fieldAgree(t, j) {
			return "ok", fmt.Sprintf("field value differs: RESP %s, JSON %s", v, r.Raw)
		}
		return "ok", ""
	case "jget":
		if d := only(top, "value"); d != "" {
			return "ok", d
		}
		j, has := top["value"]
		if !has {
			if v.Kind == '$' && v.Null {
				return "neg", ""
			}
			return "ok", fmt.Sprintf("JSON has no value but RESP answers %s", v)
		}
		s, isStr := j.(string)
		t, ok := bulkText(v)
		if !isStr || !ok || lossy(t) != s {
			return "ok", fmt.Sprintf("value differs: RESP %s, JSON %v", v, j)
		}
		return "ok", ""
	case "ttl":
		n, ok := jnum(top["ttl"])
		if d := only(top, "ttl"); d != "" || !ok || v.Kind != ':' {
			return "ok", fmt.Sprintf("ttl shape: RESP %s, JSON %s", v, r.Raw)
		}
		jn, _ := strconv.ParseInt(n, 10, 64)
		if (v.Int == -1) != (jn == -1) || v.Int < -1 || jn < -1 {
			return "ok", fmt.Sprintf("ttl class differs: RESP %d, JSON %d", v.Int, jn)
		}
		return "ok", ""
	case "exists", "fexists":
		b, ok := top["exists"].(bool)
		if d := only(top, "exists"); d != "" || !ok || !isInt01(v) || (v.Int == 1) != b {
			return "ok", fmt.Sprintf("exists differs: RESP %s, JSON %s", v, r.Raw)
		}
		return "ok", ""
	case "keys":
		arr, ok := top["keys"].([]any)
		if d := only(top, "keys"); d != "" || !ok || v.Kind != '*' || len(arr) != len(v.Arr) {
			return "ok", fmt.Sprintf("keys differ: RESP %s, JSON %s", v, r.Raw)
		}
		for i := range arr {
			s, _ := arr[i].(string)
			t, ok := bulkText(v.Arr[i])
			if !ok || lossy(t) != s {
				return "ok", fmt.Sprintf("key %d differs: RESP %s, JSON %v", i, v.Arr[i], arr[i])
			}
		}
		return "ok", ""
	case "scan", "search", "nearby", "within", "intersects":
		return "ok", searchAgree(v, r, top)
	case "hooks", "chans":
		arr, ok := top[name].([]any)
		if d := only(top, name); d != "" || !ok || v.Kind != '*' || len(arr) != len(v.Arr) {
			return "ok", fmt.Sprintf("%s differ: RESP %s, JSON %s", name, v, r.Raw)
		}
		for i := range arr {
			if d := hookAgree(name == "chans", v.Arr[i], arr[i]); d != "" {
				return "ok", fmt.Sprintf("%s entry %d: %s", name, i, d)
			}
		}
		return "ok", ""
	case "stats":
		arr, ok := top["stats"].([]any)
		if d := only(top, "stats"); d != "" || !ok || v.Kind != '*' || len(arr) != len(v.Arr) {
			return "ok", fmt.Sprintf("stats differ: RESP %s, JSON %s", v, r.Raw)
		}
		for i := range arr {
			if arr[i] == nil {
				if !(v.Arr[i].Kind == '$' && v.Arr[i].Null) {
					return "ok", fmt.Sprintf("stats entry %d: JSON null, RESP %s", i, v.Arr[i])
				}
				continue
			}
			jm, ok := arr[i].(map[string]any)
			rm, _, ok2 := respPairs(v.Arr[i])
			if !ok || !ok2 {
				return "ok", fmt.Sprintf("stats entry %d shape: RESP %s, JSON %v", i, v.Arr[i], arr[i])
			}
			if d := statsMapAgree(rm, jm, tnt); d != "" {
				return "ok", fmt.Sprintf("stats entry %d: %s", i, d)
			}
		}
		return "ok", ""
	case "server":
		jm, ok := top["stats"].(map[string]any)
		rm, _, ok2 := respPairs(v)
		if d := only(top, "stats"); d != "" || !ok || !ok2 {
			return "ok", fmt.Sprintf("server shape: RESP %s, JSON %s", v, r.Raw)
		}
		return "ok", statsMapAgree(rm, jm, tnt)
	case "config get":
		jm, ok := top["properties"].(map[string]any)
		rm, _, ok2 := respPairs(v)
		if d := only(top, "properties"); d != "" || !ok || !ok2 || len(jm) != len(rm) {
			return "ok", fmt.Sprintf("config get shape: RESP %s, JSON %s", v, r.Raw)
		}
		for k, t := range rm {
			s, ok := jm[k].(string)
			if !ok || lossy(t) != s {
				return "ok", fmt.Sprintf("property %q differs: RESP %q, JSON %v", k, t, jm[k])
			}
		}
		return "ok", ""
	case "info":
		jm, ok := top["info"].(map[string]any)
		t, ok2 := bulkText(v)
		if d := only(top, "info"); d != "" || !ok || !ok2 {
			return "ok", fmt.Sprintf("info shape: RESP %s, JSON %s", v, r.Raw)
		}
		rm := map[string]string{}
		for _, line := range strings.Split(t, "\r\n") {
			line = strings.TrimSpace(line)
			if line == "" || strings.HasPrefix(line, "#") {
				continue
			}
			k, val, found := strings.Cut(line, ":")
			if !found {
				return "ok", fmt.Sprintf("INFO line without colon: %q", line)
			}
			rm[k] = val
		}
		// slaveN lines exist per follower connection and are not comparable
		for k := range rm {
			if strings.HasPrefix(k, "slave") && k != "slave_repl_offset" && k != "slave_priority" {
				delete(rm, k)
			}
		}
		for k := range jm {
			if strings.HasPrefix(k, "slave") && k != "slave_repl_offset" && k != "slave_priority" {
				delete(jm, k)
			}
		}
		return "ok", statsMapAgree(rm, jm, tnt)
	case "role":
		jm, ok := top["role"].(map[string]any)
		if d := only(top, "role"); d != "" || !ok || v.Kind != '*' || len(v.Arr) < 1 {
			return "ok", fmt.Sprintf("role shape: RESP %s, JSON %s", v, r.Raw)
		}
		role, _ := jm["role"].(string)
		if t, _ := bulkText(v.Arr[0]); t != role {
			return "ok", fmt.Sprintf("role differs: RESP %s, JSON %v", v, jm)
		}
		switch role {
		case "master":
			sl, ok := jm["slaves"].([]any)
			off, ok2 := jnum(jm["offset"])
			if !ok || !ok2 || len(v.Arr) != 3 || v.Arr[1].Kind != ':' || v.Arr[2].Kind != '*' || len(v.Arr[2].Arr) != len(sl) || len(jm) != 3 {
				return "ok", fmt.Sprintf("master role differs: RESP %s, JSON %v", v, jm)
			}
			if jo, err := strconv.ParseInt(off, 10, 64); !tnt.aof && (err != nil || v.Arr[1].Int-tnt.baseR != jo-tnt.baseJ) {
				return "ok", fmt.Sprintf("role offset grew differently: RESP %d (start %d), JSON %s (start %d)", v.Arr[1].Int, tnt.baseR, off, tnt.baseJ)
			}
			var rs, js []string
			for i := range sl {
				m, _ := sl[i].(map[string]any)
				e := v.Arr[2].Arr[i]
				if m == nil || len(m) != 3 || e.Kind != '*' || len(e.Arr) != 3 {
					return "ok", fmt.Sprintf("slave entry shape: RESP %s, JSON %v", e, sl[i])
				}
				a, _ := bulkText(e.Arr[0])
				b, _ := bulkText(e.Arr[1])
				rs = append(rs, lossy(a)+"|"+lossy(b))
				js = append(js, fmt.Sprintf("%v|%v", m["ip"], m["port"]))
			}
			sort.Strings(rs)
			sort.Strings(js)
			if strings.Join(rs, ",") != strings.Join(js, ",") {
				return "ok", fmt.Sprintf("slave lists differ: RESP %v, JSON %v", rs, js)
			}
		case "slave":
			if len(v.Arr) != 5 || len(jm) != 5 {
				return "ok", fmt.Sprintf("slave role shape: RESP %s, JSON %v", v, jm)
			}
			h, _ := bulkText(v.Arr[1])
			st, _ := bulkText(v.Arr[3])
			p, _ := jnum(jm["port"])
			if h != jm["host"] || st != jm["state"] || strconv.FormatInt(v.Arr[2].Int, 10) != p {
				return "ok", fmt.Sprintf("slave role differs: RESP %s, JSON %v", v, jm)
			}
		default:
			return "ok", fmt.Sprintf("unknown role %q", role)
		}
		return "ok", ""
	case "client list":
		arr, ok := top["list"].([]any)
		t, ok2 := bulkText(v)
		if d := only(top, "list"); d != "" || !ok || !ok2 {
			return "ok", fmt.Sprintf("client list shape: RESP %s, JSON %s", v, r.Raw)
		}
		var rnames, jnames []string
		for _, line := range strings.Split(strings.TrimSuffix(t, "\n"), "\n") {
			for _, k := range []string{"id=", " addr=", " name=", " age=", " idle="} {
				if !strings.Contains(line, k) {
					return "ok", fmt.Sprintf("client list line %q lacks %q", line, k)
				}
			}
			_, rest, _ := strings.Cut(line, " name=")
			if n, _, _ := strings.Cut(rest, " age="); n != "" {
				rnames = append(rnames, n)
			}
		}
		for _, e := range arr {
			m, _ := e.(map[string]any)
			if m == nil || len(m) != 5 {
				return "ok", fmt.Sprintf("client list entry %v", e)
			}
			for _, k := range []string{"id", "addr", "name", "age", "idle"} {
				if _, has := m[k]; !has {
					return "ok", fmt.Sprintf("client list entry %v lacks %q", e, k)
				}
			}
			// name and addr are texts: a name that reads like a number or a
			// boolean must not come back typed (finding json-client-list-typed-name)
			for _, k := range []string{"name", "addr"} {
				if _, isStr := m[k].(string); !isStr {
					return "ok", fmt.Sprintf("{{%s}}JSON CLIENT LIST shows %s as %v (%T), RESP CLIENT LIST has %q", idClientListTyped, k, m[k], m[k], clip(t, 200))
				}
			}
			for _, k := range []string{"id", "age", "idle"} {
				if _, isNum := m[k].(json.Number); !isNum {
					return "ok", fmt.Sprintf("JSON CLIENT LIST shows %s as %v", k, m[k])
				}
			}
			if n := m["name"].(string); n != "" {
				jnames = append(jnames, n)
			}
		}
		// the named connections are the lock-step lanes, which received the
		// same CLIENT SETNAME commands on every server
		sort.Strings(rnames)
		sort.Strings(jnames)
		if strings.Join(rnames, " ") != strings.Join(jnames, " ") {
			return "ok", fmt.Sprintf("{{%s}}client names differ: RESP %q, JSON %q", idClientListTyped, rnames, jnames)
		}
		return "ok", ""
	case "client getname":
		s, ok := top["name"].(string)
		t, ok2 := bulkText(v)
		if d := only(top, "name"); d != "" || !ok || !ok2 || s != t {
			return "ok", fmt.Sprintf("client name differs: RESP %s, JSON %s", v, r.Raw)
		}
		return "ok", ""
	case "eval", "evalro", "evalna", "evalsha", "evalrosha", "evalnasha":
		res, has := top["result"]
		if d := only(top, "result"); d != "" || !has {
			return "ok", fmt.Sprintf("script reply shape: %s", r.Raw)
		}
		return "ok", luaAgree(v, res, outer)
	case "script load":
		s, ok := top["result"].(string)
		t, ok2 := bulkText(v)
		if d := only(top, "result"); d != "" || !ok || !ok2 || s != t || len(s) != 40 {
			return "ok", fmt.Sprintf("script sha differs: RESP %s, JSON %s", v, r.Raw)
		}
		return "ok", ""
	case "script exists":
		arr, ok := top["result"].([]any)
		if d := only(top, "result"); d != "" || !ok || v.Kind != '*' || len(arr) != len(v.Arr) {
			return "ok", fmt.Sprintf("script exists differs: RESP %s, JSON %s", v, r.Raw)
		}
		for i := range arr {
			n, _ := jnum(arr[i])
			if v.Arr[i].Kind != ':' || strconv.FormatInt(v.Arr[i].Int, 10) != n {
				return "ok", fmt.Sprintf("script exists differs: RESP %s, JSON %s", v, r.Raw)
			}
		}
		return "ok", ""
	case "publish":
		n, ok := jnum(top["published"])
		if d := only(top, "published"); d != "" || !ok || v.Kind != ':' || strconv.FormatInt(v.Int, 10) != n {
			return "ok", fmt.Sprintf("published differs: RESP %s, JSON %s", v, r.Raw)
		}
		return "ok", ""
	case "test":
		b, ok := top["result"].(bool)
		if d := only(top, "result", "object"); d != "" || !ok {
			return "ok", fmt.Sprintf("test reply shape: %s", r.Raw)
		}
		res := v
		if obj, has := top["object"]; has {
			if v.Kind != '*' || len(v.Arr) != 2 {
				return "ok", fmt.Sprintf("JSON has a clipped object, RESP answers %s", v)
			}
			res = v.Arr[0]
			t, _ := bulkText(v.Arr[1])
			if d := objectAgree(t, obj); d != "" {
				return "ok", d
			}
		}
		if !isInt01(res) || (res.Int == 1) != b {
			return "ok", fmt.Sprintf("test result differs: RESP %s, JSON %v", v, b)
		}
		return "ok", ""
	case "aofmd5":
		s, ok := top["md5"].(string)
		if d := only(top, "md5"); d != "" || !ok || v.Kind != '+' || len(s) != 32 || (v.Str != s && !tnt.aof && tnt.baseR == tnt.baseJ) {
			return "ok", fmt.Sprintf("md5 differs: RESP %s, JSON %s", v, r.Raw)
		}
		return "ok", ""
	case "output":
		s, ok := top["output"].(string)
		t, ok2 := bulkText(v)
		if d := only(top, "output"); d != "" || !ok || !ok2 || s != "json" || t != "resp" {
			return "ok", fmt.Sprintf("output reply: RESP %s, JSON %s", v, r.Raw)
		}
		return "ok", ""
	case "ping", "echo":
		s, ok := top[name].(string)
		if d := only(top, name); d != "" || !ok {
			return "ok", fmt.Sprintf("%s reply shape: %s", name, r.Raw)
		}
		if len(in) > 1 {
			t, ok := bulkText(v)
			if !ok || lossy(t) != s {
				return "ok", fmt.Sprintf("%s message differs: RESP %s, JSON %q", name, v, s)
			}
		} else if v.Kind != '+' || v.Str != "PONG" || s != "pong" {
			return "ok", fmt.Sprintf("%s differs: RESP %s, JSON %q", name, v, s)
		}
		return "ok", ""
	}
	// no canonicaliser (new command, or a bare-ok command answering with payload)
	if _, known := plainOK[name]; known {
		return "ok", fmt.Sprintf("command %q answers with unexpected JSON payload %s (RESP %s)", name, r.Raw, v)
	}
	return "ok-generic", ""
}

func strList(v t38.Value) ([]string, bool) {
	if v.Kind != '*' || v.Null {
		return nil, false
	}
	out := make([]string, len(v.Arr))
	for i, e := range v.Arr {
		t, ok := bulkText(e)
		if !ok {
			return nil, false
		}
		out[i] = lossy(t)
	}
	return out, true
}

func jStrList(j any) ([]string, bool) {
	a, ok := j.([]any)
	if !ok {
		return nil, false
	}
	out := make([]string, len(a))
	for i, e := range a {
		s, ok := e.(string)
		if !ok {
			return nil, false
		}
		out[i] = s
	}
	return out, true
}

func hookAgree(channel bool, v t38.Value, j any) string {
	m, ok := j.(map[string]any)
	if !ok || v.Kind != '*' || len(v.Arr) != 5 {
		return fmt.Sprintf("shape: RESP %s, JSON %v", v, j)
	}
	nm, _ := bulkText(v.Arr[0])
	key, _ := bulkText(v.Arr[1])
	if s, _ := m["name"].(string); s != lossy(nm) {
		return fmt.Sprintf("name differs: RESP %q, JSON %v", nm, m["name"])
	}
	if s, _ := m["key"].(string); s != lossy(key) {
		return fmt.Sprintf("key differs: RESP %q, JSON %v", key, m["key"])
	}
	if _, ok := jnum(m["ttl"]); !ok {
		return fmt.Sprintf("ttl is not a number: %v", m["ttl"])
	}
	want := 5
	eps, ok1 := strList(v.Arr[2])
	if !channel {
		want = 6
		je, ok2 := jStrList(m["endpoints"])
		if !ok1 || !ok2 || strings.Join(eps, "\x00") != strings.Join(je, "\x00") {
			return fmt.Sprintf("endpoints differ: RESP %s, JSON %v", v.Arr[2], m["endpoints"])
		}
	} else if !ok1 || len(eps) != 1 || eps[0] != "local://"+lossy(nm) {
		return fmt.Sprintf("channel endpoint: %s", v.Arr[2])
	}
	rc, ok1 := strList(v.Arr[3])
	jc, ok2 := jStrList(m["command"])
	if !ok1 || !ok2 || strings.Join(rc, "\x00") != strings.Join(jc, "\x00") {
		return fmt.Sprintf("command differs: RESP %s, JSON %v", v.Arr[3], m["command"])
	}
	rm, _, ok1 := respPairs(v.Arr[4])
	jm, ok2 := m["meta"].(map[string]any)
	if !ok1 || !ok2 || len(rm) != len(jm) {
		return fmt.Sprintf("meta differs: RESP %s, JSON %v", v.Arr[4], m["meta"])
	}
	for k, t := range rm {
		if s, ok := jm[k].(string); !ok || s != lossy(t) {
			return fmt.Sprintf("meta %q differs: RESP %q, JSON %v", k, t, jm[k])
		}
	}
	if len(m) != want {
		return fmt.Sprintf("unexpected members in %v", m)
	}
	return ""
}

// payloadInteresting: the JSON payload contains an escape sequence or a
// non-empty array / object (the non-trivial rule).
func payloadInteresting(r t38.JSONReply) (escaped, structured bool) {
	for k, raw := range r.M {
		if k == "ok" || k == "elapsed" {
			continue
		}
		if bytes.ContainsRune(raw, '\\') {
			escaped = true
		}
		if (bytes.HasPrefix(raw, []byte("[")) && !bytes.Equal(raw, []byte("[]"))) || (bytes.HasPrefix(raw, []byte("{")) && !bytes.Equal(raw, []byte("{}"))) {
			structured = true
		}
	}
	return
}

package c17

// Argument grammars for every command of the table: valid shapes (the
// documented / parser grammar) and invalid shapes derived from them (wrong
// arity, bad numbers, unknown options, empty arguments, swapped arguments).
// Every argument carries a role so that a mutation knows what it corrupts.

import (
	"crypto/sha1"
	"encoding/hex"
	"math"
	"strconv"
	"strings"

	"github.com/tidwall/tile38/verif/harness/gen"
	"pgregory.net/rapid"
)

// roles
const (
	rKW    = 'w' // keyword / command name (case-insensitive)
	rKey   = 'k'
	rID    = 'i'
	rField = 'f'
	rVal   = 'v' // free text
	rNum   = 'n' // integer-like option value (limit, cursor, precision, counts)
	rCoord = 'c' // coordinate / metres / bearing (float)
	rTTL   = 't' // seconds until expiry or timeout: never made small
	rPat   = 'p' // glob pattern
	rJSON  = 'j' // JSON / GeoJSON text
	rScr   = 's' // Lua script or sha
	rName  = 'h' // hook / channel name
	rURL   = 'u'
)

type arg struct {
	S string
	R byte
}

type cmdShape struct {
	Name  string // table name
	Args  []arg
	Class string // "valid", "valid-case", "valid-hostile", "arity-", "arity+", "badnum", "option", "empty", "swap", "dup", "generic"
}

func (s cmdShape) strings() []string {
	out := make([]string, len(s.Args))
	for i, a := range s.Args {
		out[i] = a.S
	}
	return out
}

// names needing JSON escaping: quotes, backslashes, control bytes, DEL,
// non-ASCII (2, 3 and 4 byte), invalid UTF-8 (lone continuation, truncated
// sequence, surrogate half), U+2028, HTML-sensitive characters (encoding/json
// escapes them), and texts that look like JSON scalars.
var hostilePool = []string{
	`a"b`, `a\b`, `\`, `"`, `\"`, "a\x00b", "\x00", "a\nb", "a\r\nb", "tab\there", "\x01", "\x1f", "\x7f",
	"é", "世界", "😀", "\xff", "a\xffb", "\xc3", "\xc3\x28", "a\xed\xa0\x80b", "\xf0\x9f\x98", "\u2028", "\u2029", "<&>", "'", " sp ",
	"{", "[1]", "nan", "true", "null", "0", "-1", "1e3", `{"a":1}`, "\\u0041", "%41", "a+b", "\ufeffbom", "a\u0000b\u001f",
}

func sha1hex(s string) string {
	h := sha1.Sum([]byte(s))
	return hex.EncodeToString(h[:])
}

// scripts: deterministic, terminating, no small expiries.
// scriptMixedReserved: tables that mix the reserved members err / ok with
// other keys or with an array part (only a table whose single entry is err /
// ok is an error / status reply), at top level and nested.
var scriptMixedReserved = []string{
	"return {err='boom', code=5}", "local t={10,20} t.err='boom' return t", "return {ok='fine', extra=1}", "return {1,2,ok='x'}",
	"return {err='e', ok='o'}", "return {a={err='inner', n=1}}", "return {{err='e', x=1}, 2}", "return {err={1,2}, n=1}",
	"return {err='only'}", "return {{err='nested only'}}", "return {res={ok='nested ok'}, err2='x'}", "local t={'a'} t.ok='b' return t",
	// (a list table with two or more keyed members is left out: they follow the array part in hash order,
	// which differs from one execution to the next in both modes)
}

var scriptPool = []string{
	"return {err='boom', code=5}", "local t={10,20} t.err='boom' return t", "return {1,2,ok='x'}",
	"return 1", "return 1.5", "return -7.5", "return 'str'", "return KEYS[1]", "return ARGV[1]",
	"return {1,2,3}", "return {KEYS[1], ARGV[1]}", "return {a=1}", "return {a='x', b={1,2}}",
	"return nil", "return true", "return false", "return {}", "return {1,'a',{2,'b'}}", "return {true,false}",
	"return tile38.call('get', KEYS[1], ARGV[1])",
	"return tile38.call('get', KEYS[1], ARGV[1], 'WITHFIELDS')",
	"return tile38.call('scan', KEYS[1])",
	"return tile38.call('scan', KEYS[1], 'IDS')",
	"return tile38.call('exists', KEYS[1], ARGV[1])",
	"return tile38.call('set', KEYS[1], ARGV[1], 'POINT', 1, 2)",
	"return tile38.call('set', KEYS[1], ARGV[1], 'STRING', ARGV[2])",
	"return tile38.call('del', KEYS[1], ARGV[1])",
	"return tile38.call('keys', '*')",
	"return tile38.call('ttl', KEYS[1], ARGV[1])",
	"return tile38.call('get')", "return tile38.call('output', 'json')", "return {tile38.pcall('get')}",
	"return {p=tile38.pcall('nosuch', 'x')}",
	"return tile38.status_reply('fine')", "return {ok='y'}", "return {tile38.status_reply('x'), {s=tile38.status_reply('y')}}",
	"return {a=tile38.error_reply('bad')}", "return {1, {tile38.error_reply('deep')}}",
	"return {tile38.error_reply('in'), 1}",
	"return tile38.sha1hex('a')", "return tile38.distance_to(1,2,3,4)", "return json.encode({a=1})",
	"return json.decode('{\"a\":[1,2]}')",
	"error('bad')", "error({code=1})", "return (", "return nosuchglobal", "x = 1 return x",
	"return 'quote\"back\\\\slash\\nnl'", "return '\\255\\0\\1'", "return 'é世😀'",
	"return string.rep('x', 200)", "return string.rep('y', 70000)",
	"return -0", "return 2^53", "return -2^53", "return {1.5, -2.5, 9e15}", "return 9007199254740993", "return 2^63-1025", "return -2^63",
	"return {1,nil,3}", "return {1,2,x='y'}", "return {[1]='a',[3]='c'}", "return {[2]='b'}", "return {1,{2,{3,{4,{5}}}}}", "return {n={m={o='p'}}}",
	"return {tile38.call}", "return {f=tile38.call}", "return {{{string.rep}}}",
	"return ARGV", "return KEYS", "return #ARGV", "return {KEYS, ARGV}",
	"local t = {} for i=1,130 do t[i]=i end return t",
}

// scripts whose result is a non-finite number or a table with a non-string
// key: they trigger known-finding candidates and are only generated when the
// corresponding finding is not excluded.
var scriptNonFinite = []string{"return 0/0", "return 1/0", "return -1/0", "return {1/0}", "return {n=-1/0}"}

// scripts whose top-level result RESP reports as an error while JSON reports
// ok:true with the same content as "result" (finding eval-error-result-ok-in-json)
var scriptErrTop = []string{"return tile38.error_reply('bad')", "return tile38.error_reply('boom\\nline')", "return {err='x y'}", "return tile38.pcall('get')",
	"return tile38.pcall('nosuch', 'x')", "return tile38.call", "return string.rep"}

// scripts returning numbers beyond the int64 range (finding resp-eval-number-beyond-int64)
var scriptBigNum = []string{"return 1e300", "return -1e19", "return 2^63", "return 10000000000000000000000", "return {1.5, -2.5, 1e300}", "return {big=-1e300}", "return 2^64", "return math.huge"}

var scriptOddKeys = []string{"return {[1.5]='x'}", "return {[true]='x'}", "return {[-1]='x'}", "return {[{}]='x'}"}

var badNumsPlain = []string{"abc", "", "1e999", "1.5.2", "0x", "١٢", "--1", "1,5", "1 2", "9999999999999999999999", "-", "+", "1\x002"}
var badNumsSmall = []string{"-1", "0", "-0.5", "1.5", "18446744073709551616", "-9223372036854775809"}
var badNumsNonFinite = []string{"nan", "NaN", "inf", "-inf", "+Inf", "Infinity", "-infinity", "1e999", "-1e999"}

// G is the generation context of one case.
type G struct {
	t             *rapid.T
	ns            gen.Names
	hooks         []string
	chans         []string
	nonFinite     bool // non-finite coordinates may be generated
	evalNonFinite bool // scripts returning non-finite numbers may be generated
	oddKeys       bool // scripts returning tables with non-string keys may be generated
	errTop        bool // scripts whose top-level result is an error value may be generated
	bigNum        bool // scripts returning numbers beyond int64 may be generated
	noLineAreas   bool // see area
	onExcluded    func(id string)
}

func (g *G) pick(label string, xs []string) string { return rapid.SampledFrom(xs).Draw(g.t, label) }
func (g *G) intn(label string, lo, hi int) int     { return rapid.IntRange(lo, hi).Draw(g.t, label) }
func (g *G) chance(label string, num, den int) bool {
	return rapid.IntRange(0, den-1).Draw(g.t, label) < num
}

func kw(s string) arg { return arg{s, rKW} }
func num(n int) arg   { return arg{strconv.Itoa(n), rNum} }
func (g *G) key() arg {
	if g.chance("nokey?", 1, 8) {
		return arg{"nokey", rKey}
	}
	return arg{g.pick("key", g.ns.Keys), rKey}
}
func (g *G) id() arg {
	if g.chance("noid?", 1, 8) {
		return arg{"noid", rID}
	}
	return arg{g.pick("id", g.ns.IDs), rID}
}
func (g *G) field() arg {
	if g.chance("nofield?", 1, 10) {
		return arg{"nofield", rField}
	}
	return arg{g.pick("field", g.ns.Fields), rField}
}
func (g *G) hookName() arg {
	xs := append([]string{"nohook"}, g.hooks...)
	return arg{g.pick("hook", xs), rName}
}
func (g *G) chanName() arg {
	xs := append([]string{"nochan"}, g.chans...)
	return arg{g.pick("chan", xs), rName}
}
func (g *G) text(label string) arg {
	if g.chance(label+"hostile?", 1, 2) {
		return arg{g.pick(label+"h", hostilePool), rVal}
	}
	return arg{g.pick(label, []string{"hello", "x", "a b", "12", "value"}), rVal}
}
func ffmt(f float64) string { return strconv.FormatFloat(f, 'f', -1, 64) }
func (g *G) lat() arg       { return arg{ffmt(gen.Coord(g.t, "lat", 90)), rCoord} }
func (g *G) lon() arg       { return arg{ffmt(gen.Coord(g.t, "lon", 180)), rCoord} }
func (g *G) meters() arg {
	return arg{g.pick("meters", []string{"0", "1", "100", "5000", "100000", "2500000.5", "20000000"}), rCoord}
}
func (g *G) ttl() arg { return arg{gen.EX(g.t), rTTL} }
func (g *G) pattern(pool []string) arg {
	xs := []string{"*", "?", "a*", "*a", "[a-c]*", "k?", "\\*", "no*match", "*\"*", "*\\\\*", "[", "a\\"}
	if len(pool) > 0 {
		p := g.pick("patbase", pool)
		xs = append(xs, p, p+"*")
	}
	return arg{g.pick("pattern", xs), rPat}
}

func (g *G) objSpec() []arg {
	if g.chance("hostileobj?", 1, 4) {
		switch g.intn("hobj", 0, 2) {
		case 0:
			return []arg{kw("STRING"), {g.pick("hstr", hostilePool), rVal}}
		case 1:
			p := g.pick("hprop", []string{`a\"b`, `\\`, `\u0000`, `\n`, `é世😀`, `😀`, `<&>`, ` `, `x`})
			return []arg{kw("OBJECT"), {`{"type":"Feature","geometry":{"type":"Point","coordinates":[` + ffmt(gen.Coord(g.t, "flon", 180)) + `,` + ffmt(gen.Coord(g.t, "flat", 90)) + `]},"properties":{"n\"m":"` + p + `","` + p + `":[1,{"z":null}]}}`, rJSON}}
		default:
			return []arg{kw("OBJECT"), {`{"type":"Feature","id":"i\"d","geometry":{"type":"Point","coordinates":[1,2,3]},"properties":{}}`, rJSON}}
		}
	}
	if g.chance("polarcircle?", 1, 16) {
		// a circle Feature whose disc touches a pole (to within 0, 1 cm, 1 m)
		lat := float64(g.intn("pclat", -179, 179)) / 2
		lon := float64(g.intn("pclon", -360, 360)) / 2
		d := polarDeltas[g.intn("pcdelta", 0, len(polarDeltas)-1)]
		return []arg{kw("OBJECT"), {polarCircle(lat, lon, d), rJSON}}
	}
	sp := gen.ObjectSpec(g.t)
	out := []arg{kw(sp[0])}
	for _, s := range sp[1:] {
		r := byte(rCoord)
		switch sp[0] {
		case "OBJECT":
			r = rJSON
		case "STRING", "HASH":
			r = rVal
		}
		out = append(out, arg{s, r})
	}
	return out
}

func (g *G) fieldValue() arg {
	if g.chance("hostilefv?", 1, 4) {
		return arg{g.pick("hfv", hostilePool), rVal}
	}
	return arg{gen.FieldValue(g.t), rVal}
}

func (g *G) returnKind(withHash bool) []arg {
	n := 3
	if withHash {
		n = 4
	}
	switch g.intn("retkind", 0, n) {
	case 0:
		return []arg{kw("OBJECT")}
	case 1:
		return []arg{kw("POINT")}
	case 2:
		return []arg{kw("BOUNDS")}
	case 3:
		return []arg{kw("WITHFIELDS"), kw(g.pick("retkind2", []string{"OBJECT", "POINT", "BOUNDS"}))}
	default:
		return []arg{kw("HASH"), num(g.intn("prec", 1, 12))}
	}
}

// area draws a search / TEST area. While the finding
// hang-linestring-within-linestring (C16, external geometry library: a
// LineString area against a LineString object sharing a vertex never
// returns) is listed as known, no LineString is used as an area, neither
// literally nor through GET.
func (g *G) area(forTest bool) []arg {
	for {
		a := g.area1(forTest)
		if !g.noLineAreas {
			return a
		}
		if a[0].S == "GET" || (a[0].S == "OBJECT" && strings.Contains(a[1].S, "LineString")) {
			if g.onExcluded != nil {
				g.onExcluded(idHangLineString)
			}
			continue
		}
		return a
	}
}

const idHangLineString = "hang-linestring-within-linestring"

func (g *G) area1(forTest bool) []arg {
	max := 9
	if forTest {
		max = 8 // no MVT
	}
	switch g.intn("area", 0, max) {
	case 0:
		la, lo := gen.Coord(g.t, "minlat", 80), gen.Coord(g.t, "minlon", 170)
		return []arg{kw("BOUNDS"), {ffmt(la), rCoord}, {ffmt(lo), rCoord}, {ffmt(la + float64(g.intn("dlat", 0, 900))/100), rCoord}, {ffmt(lo + float64(g.intn("dlon", 0, 900))/100), rCoord}}
	case 1:
		return []arg{kw("CIRCLE"), g.lat(), g.lon(), g.meters()}
	case 2:
		return []arg{kw("OBJECT"), {gen.GeoJSON(g.t), rJSON}}
	case 3:
		return []arg{kw("HASH"), {g.pick("gh", []string{"s", "9q", "u4pruy", "7zzzz", "0"}), rVal}}
	case 4:
		return []arg{kw("QUADKEY"), {g.pick("qk", []string{"0", "12", "0231", "3333333"}), rVal}}
	case 5:
		z := g.intn("tz", 0, 6)
		return []arg{kw("TILE"), num(g.intn("tx", 0, 1<<z-1)), num(g.intn("ty", 0, 1<<z-1)), num(z)}
	case 6:
		return []arg{kw("GET"), g.key(), g.id()}
	case 7:
		return []arg{kw("SECTOR"), g.lat(), g.lon(), g.meters(), {g.pick("b1", []string{"0", "45", "90.5"}), rCoord}, {g.pick("b2", []string{"180", "270", "359"}), rCoord}}
	case 8:
		return []arg{kw("POINT"), g.lat(), g.lon()}
	default:
		z := g.intn("mz", 0, 4)
		return []arg{kw("MVT"), num(g.intn("mx", 0, 1<<z-1)), num(g.intn("my", 0, 1<<z-1)), num(z)}
	}
}

var whereEvalScripts = []string{"return FIELDS.f ~= nil", "return true", "return false", "return ID == ARGV[1]", "return 1", "return nil", "return {}", "return FIELDS.nope.x", "error('w')", "return ("}

func (g *G) searchOpts(cmd string) []arg {
	var out []arg
	n := g.intn("nopts", 0, 3)
	usedLimit, usedCursor, usedSparse, usedOrder := false, false, false, false
	for i := 0; i < n; i++ {
		switch g.intn("opt", 0, 13) {
		case 13:
			// a live fence: the connection leaves request/reply mode (run on fresh connections)
			if cmd != "scan" && cmd != "search" && !usedCursor {
				usedCursor = true
				out = append(out, kw("FENCE"))
			}
		case 0:
			if !usedCursor && !usedSparse {
				usedCursor = true
				out = append(out, kw("CURSOR"), num(g.intn("cursor", 0, 4)))
			}
		case 1:
			if !usedLimit && !usedSparse {
				usedLimit = true
				out = append(out, kw("LIMIT"), num(g.intn("limit", 1, 4)))
			}
		case 2:
			out = append(out, kw("MATCH"), g.pattern(g.ns.IDs))
		case 3:
			out = append(out, kw("WHERE"), g.field(), arg{g.pick("wmin", []string{"-inf", "0", "1", "(1", "-5"}), rNum}, arg{g.pick("wmax", []string{"+inf", "10", "(10", "1", "inf"}), rNum})
		case 4:
			out = append(out, kw("WHERE"), arg{g.pick("wexpr", []string{"f > 0", "f == 1 || g == 2", "f", "f >", "nofield < 1", `f == "a"`, "properties.speed > 10", "(f"}), rVal})
		case 5:
			k := g.intn("nin", 0, 3)
			out = append(out, kw("WHEREIN"), g.field(), num(k))
			for j := 0; j < k; j++ {
				out = append(out, g.fieldValue())
			}
		case 6:
			k := g.intn("nev", 0, 2)
			out = append(out, kw("WHEREEVAL"), arg{g.pick("wscript", whereEvalScripts), rScr}, num(k))
			for j := 0; j < k; j++ {
				out = append(out, arg{g.pick("wearg", []string{"a", "b", "1"}), rVal})
			}
		case 7:
			out = append(out, kw("WHEREEVALSHA"), arg{g.pick("wsha", []string{sha1hex("return true"), sha1hex("nope")}), rScr}, num(0))
		case 8:
			out = append(out, kw("NOFIELDS"))
		case 9:
			if (cmd == "scan" || cmd == "search") && !usedOrder {
				usedOrder = true
				out = append(out, kw(g.pick("order", []string{"ASC", "DESC"})))
			}
		case 10:
			if cmd != "scan" && cmd != "search" && !usedLimit && !usedCursor && !usedSparse {
				usedSparse = true
				out = append(out, kw("SPARSE"), num(g.intn("sparse", 1, 8)))
			}
		case 11:
			if cmd == "nearby" {
				out = append(out, kw("DISTANCE"))
			} else if cmd == "intersects" {
				out = append(out, kw("CLIP"))
			}
		case 12:
			if cmd != "scan" && cmd != "search" {
				out = append(out, kw("BUFFER"), g.meters())
			}
		}
	}
	return out
}

func (g *G) searchOutput() []arg {
	switch g.intn("output", 0, 7) {
	case 0:
		return []arg{kw("COUNT")}
	case 1:
		return []arg{kw("IDS")}
	case 2:
		return []arg{kw("OBJECTS")}
	case 3:
		return []arg{kw("POINTS")}
	case 4:
		return []arg{kw("BOUNDS")}
	case 5:
		return []arg{kw("HASHES"), num(g.intn("hprec", 1, 12))}
	}
	return nil
}

func (g *G) fenceTail(cmd string) []arg {
	// <cmd> key [MATCH p] [NOFIELDS] FENCE [DETECT ..] [COMMANDS ..] [output] area
	out := []arg{kw(strings.ToUpper(cmd)), g.key()}
	if g.chance("fmatch?", 1, 4) {
		out = append(out, kw("MATCH"), g.pattern(g.ns.IDs))
	}
	if g.chance("fnofields?", 1, 5) {
		out = append(out, kw("NOFIELDS"))
	}
	out = append(out, kw("FENCE"))
	if g.chance("fdetect?", 1, 3) {
		out = append(out, kw("DETECT"), arg{g.pick("detect", []string{"inside", "enter,exit", "inside,outside,cross", "enter"}), rVal})
	}
	if g.chance("fcommands?", 1, 4) {
		out = append(out, kw("COMMANDS"), arg{g.pick("commands", []string{"set", "set,del", "del,drop,fset"}), rVal})
	}
	if g.chance("foutput?", 1, 4) {
		out = append(out, g.searchOutput()...)
	}
	if cmd == "nearby" {
		if g.chance("roam?", 1, 4) {
			return append(out, kw("ROAM"), g.key(), g.pattern(nil), g.meters())
		}
		return append(out, kw("POINT"), g.lat(), g.lon(), g.meters())
	}
	for {
		a := g.area(true)
		if a[0].S == "GET" {
			continue // GET needs an existing object; keep the hook grammar state-independent
		}
		return append(out, a...)
	}
}

// hookURLs point at a local HTTP sink that answers 200 (set in TestMain): a
// hook whose endpoint refuses connections makes the server sleep in 0.5 s
// steps while holding the hook's lock, which stalls SETHOOK / FLUSHDB / SET.
var hookURLs = []string{"http://127.0.0.1:1/h"}

func setHookSink(base string) {
	hookURLs = []string{base + "/h", base + "/é", base + "/q?a=1&b=<2>", base + "/a," + base + "/b"}
}

// safeConfig: properties (and values) whose change cannot alter how later
// commands are answered.
var safeConfig = [][2]string{
	{"keepalive", "300"}, {"keepalive", "10"}, {"keepalive", ""}, {"autogc", "0"}, {"autogc", ""}, {"autogc", "600"},
	{"maxmemory", ""}, {"maxmemory", "0"}, {"maxmemory", "100gb"}, {"protected-mode", "yes"}, {"protected-mode", "no"},
	{"leaderauth", ""}, {"leaderauth", "s\"ecret"}, {"logconfig", ""}, {"replica-priority", "5"}, {"replica_announce_ip", "10.0.0.1"},
	{"replica_announce_ip", ""}, {"replica_announce_port", "1234"}, {"replica_announce_port", ""}, {"requirepass", ""},
}

var infoSections = []string{"server", "clients", "memory", "persistence", "stats", "replication", "cpu", "cluster", "keyspace", "all", "default", "SERVER", "bogus"}

// validShape draws a shape of the documented grammar for table entry name.
// ok=false: no grammar is known for this name (generic fallback).
func (g *G) validShape(name string) (args []arg, ok bool) {
	up := func(s string) arg { return kw(strings.ToUpper(s)) }
	words := strings.Fields(name)
	head := make([]arg, len(words))
	for i, w := range words {
		head[i] = up(w)
	}
	a := func(xs ...arg) []arg { return append(append([]arg{}, head...), xs...) }
	switch name {
	case "set":
		out := a(g.key(), g.id())
		nf := g.intn("nfields", 0, 2)
		for i := 0; i < nf; i++ {
			out = append(out, kw("FIELD"), g.field(), g.fieldValue())
		}
		if g.chance("ex?", 1, 4) {
			out = append(out, kw("EX"), g.ttl())
		}
		switch g.intn("nxxx", 0, 7) {
		case 0:
			out = append(out, kw("NX"))
		case 1:
			out = append(out, kw("XX"))
		}
		out = append(out, g.objSpec()...)
		if g.chance("return?", 1, 4) {
			// RETURN and its kind come last: the option parser looks ahead
			// from RETURN and would take the object keyword for a kind
			out = append(out, kw("RETURN"))
			out = append(out, g.returnKind(true)...)
		}
		return out, true
	case "fset":
		out := a(g.key(), g.id())
		if g.chance("xx?", 1, 4) {
			out = append(out, kw("XX"))
		}
		n := g.intn("npairs", 1, 3)
		for i := 0; i < n; i++ {
			out = append(out, g.field(), g.fieldValue())
		}
		if g.chance("fret?", 1, 5) {
			out = append(out, kw("RETURN"))
			out = append(out, g.returnKind(false)...)
		}
		return out, true
	case "get":
		out := a(g.key(), g.id())
		if g.chance("wf?", 1, 2) {
			out = append(out, kw("WITHFIELDS"))
		}
		switch g.intn("getkind", 0, 5) {
		case 0:
			out = append(out, kw("OBJECT"))
		case 1:
			out = append(out, kw("POINT"))
		case 2:
			out = append(out, kw("BOUNDS"))
		case 3:
			out = append(out, kw("HASH"), num(g.intn("prec", 1, 12)))
		}
		return out, true
	case "del":
		if g.chance("erron404?", 1, 3) {
			return a(g.key(), g.id(), kw("ERRON404")), true
		}
		return a(g.key(), g.id()), true
	case "pdel":
		return a(g.key(), g.pattern(g.ns.IDs)), true
	case "drop", "type", "bounds":
		return a(g.key()), true
	case "flushdb", "role", "healthz", "gc", "aofshrink", "config rewrite", "script flush", "monitor", "quit", "shutdown":
		return a(), true
	case "rename", "renamenx":
		return a(g.key(), g.key()), true
	case "expire":
		return a(g.key(), g.id(), g.ttl()), true
	case "persist", "ttl", "exists":
		return a(g.key(), g.id()), true
	case "fexists", "fget":
		return a(g.key(), g.id(), g.field()), true
	case "keys":
		return a(g.pattern(g.ns.Keys)), true
	case "stats":
		out := a(g.key())
		for i := g.intn("nstats", 0, 2); i > 0; i-- {
			out = append(out, g.key())
		}
		return out, true
	case "jset":
		path := arg{g.pick("path", []string{"a", "a.b", "n.m", "properties.tag", "x\"y", "a.0", "é"}), rVal}
		vals := []string{"hello", "12", "1.50", "true", "null", "x y", `{"q":1}`, "-3e2", "é", `q"uote`, "a\x00b", "\xff"}
		v := g.pick("jval", vals)
		out := a(g.key(), g.id(), path, arg{v, rVal})
		switch g.intn("jopt", 0, 4) {
		case 0:
			out = append(out, kw("STR"))
		case 1:
			if v == `{"q":1}` || v == "12" || v == "true" || v == "null" || v == "1.50" || v == "-3e2" {
				out = append(out, kw("RAW"))
			}
		}
		return out, true
	case "jget":
		out := a(g.key(), g.id())
		if g.chance("jpath?", 2, 3) {
			out = append(out, arg{g.pick("path", []string{"a", "a.b", "n", "properties", "properties.n\\\"m", "type", "coordinates.0", "nope", "x\"y"}), rVal})
			if g.chance("jraw?", 1, 3) {
				out = append(out, kw("RAW"))
			}
		}
		return out, true
	case "jdel":
		return a(g.key(), g.id(), arg{g.pick("path", []string{"a", "a.b", "n.m", "n", "properties.tag", "properties", "nope", "type", "id", "x\"y"}), rVal}), true
	case "scan", "search":
		out := a(g.key())
		out = append(out, g.searchOpts(name)...)
		return append(out, g.searchOutput()...), true
	case "nearby":
		out := a(g.key())
		out = append(out, g.searchOpts(name)...)
		out = append(out, g.searchOutput()...)
		out = append(out, kw("POINT"), g.lat(), g.lon())
		if g.chance("nmeters?", 2, 3) {
			out = append(out, g.meters())
		}
		return out, true
	case "within", "intersects":
		if name == "intersects" && g.chance("mvtpath?", 1, 6) {
			// the exact command an HTTP GET /key/z/x/y.mvt is rewritten to
			z := g.intn("mz", 0, 7)
			lim := []arg{kw("LIMIT"), {g.pick("mvtlimit", []string{"100000000", "1", "3"}), rNum}}
			if g.chance("mvtsparse?", 1, 4) {
				lim = []arg{kw("SPARSE"), num(g.intn("mvtsparse", 1, 4))}
			}
			out := append(a(g.key()), lim...)
			return append(out, kw("MVT"), num(g.intn("mx", 0, 1<<z-1)), num(g.intn("my", 0, 1<<z-1)), num(z)), true
		}
		out := a(g.key())
		out = append(out, g.searchOpts(name)...)
		out = append(out, g.searchOutput()...)
		return append(out, g.area(false)...), true
	case "sethook", "setchan":
		nm := g.hookName()
		if name == "setchan" {
			nm = g.chanName()
		}
		if g.chance("newname?", 1, 3) {
			nm = arg{g.pick("newhook", []string{"h1", "h2", "h\"q", "h\\", "hé", "h\x01"}), rName}
		}
		out := a(nm)
		if name == "sethook" {
			out = append(out, arg{g.pick("url", hookURLs), rURL})
		}
		for i := g.intn("nmeta", 0, 2); i > 0; i-- {
			out = append(out, kw("META"), arg{g.pick("mk", []string{"m", "k\"q", "é"}), rVal}, g.text("mv"))
		}
		if g.chance("hex?", 1, 4) {
			out = append(out, kw("EX"), g.ttl())
		}
		return append(out, g.fenceTail(g.pick("fcmd", []string{"nearby", "within", "intersects"}))...), true
	case "delhook":
		return a(g.hookName()), true
	case "delchan":
		return a(g.chanName()), true
	case "pdelhook", "hooks":
		return a(g.pattern(g.hooks)), true
	case "pdelchan", "chans":
		return a(g.pattern(g.chans)), true
	case "test":
		var out []arg
		one := func() {
			if g.chance("not?", 1, 8) {
				out = append(out, kw("NOT"))
			}
			out = append(out, g.area(true)...)
			if g.chance("andor?", 1, 6) {
				out = append(out, kw(g.pick("andor", []string{"AND", "OR"})))
				out = append(out, g.area(true)...)
			}
		}
		out = a()
		one()
		t := g.pick("testop", []string{"WITHIN", "INTERSECTS"})
		out = append(out, kw(t))
		if t == "INTERSECTS" && g.chance("clip?", 1, 3) {
			out = append(out, kw("CLIP"))
		}
		one()
		return out, true
	case "server":
		if g.chance("ext?", 1, 2) {
			return a(kw("EXT")), true
		}
		return a(), true
	case "info":
		out := a()
		for i := g.intn("nsect", 0, 2); i > 0; i-- {
			out = append(out, arg{g.pick("sect", infoSections), rVal})
		}
		return out, true
	case "readonly":
		return a(arg{g.pick("yn", []string{"yes", "no"}), rVal}), true
	case "config get":
		return a(arg{g.pick("cfgpat", []string{"*", "max*", "requirepass", "keepalive", "nosuch", "?utogc", "*-*"}), rPat}), true
	case "config set":
		kv := rapid.SampledFrom(safeConfig).Draw(g.t, "cfg")
		if kv[0] == "requirepass" && g.chance("noval?", 1, 2) {
			return a(arg{kv[0], rVal}), true
		}
		return a(arg{kv[0], rVal}, arg{kv[1], rVal}), true
	case "client":
		switch g.intn("client", 0, 3) {
		case 0:
			return a(kw("LIST")), true
		case 1:
			return a(kw("GETNAME")), true
		case 2:
			return a(kw("SETNAME"), arg{g.pick("cname", []string{"me", "a=b", "123", "true", "x\"y", "n\\", "007", "1e3", "0x1p4", "null", "false", "-0", "1.0", "+5", ".5", "12345678901234567890"}), rVal}), true
		default:
			// only forms that cannot match a live connection
			return a(kw("KILL"), kw(g.pick("killby", []string{"ID", "ADDR"})), arg{g.pick("killwho", []string{"noclient", "0.0.0.0:1"}), rVal}), true
		}
	case "eval", "evalro", "evalna":
		pool := scriptPool
		if g.evalNonFinite {
			pool = append(append([]string{}, pool...), scriptNonFinite...)
		}
		pool = append(append([]string{}, pool...), scriptMixedReserved...)
		if g.oddKeys {
			pool = append(append([]string{}, pool...), scriptOddKeys...)
		}
		if g.errTop {
			pool = append(append([]string{}, pool...), scriptErrTop...)
		}
		if g.bigNum {
			pool = append(append([]string{}, pool...), scriptBigNum...)
		}
		return a(g.evalTail(arg{g.pick("script", pool), rScr})...), true
	case "evalsha", "evalrosha", "evalnasha":
		sha := sha1hex(g.pick("shaof", scriptPool[:12]))
		if g.chance("unknownsha?", 1, 4) {
			sha = sha1hex("never loaded")
		}
		return a(g.evalTail(arg{sha, rScr})...), true
	case "script load":
		return a(arg{g.pick("script", scriptPool), rScr}), true
	case "script exists":
		out := a()
		for i := g.intn("nsha", 1, 3); i > 0; i-- {
			out = append(out, arg{sha1hex(g.pick("shaof", scriptPool[:12])), rScr})
		}
		return out, true
	case "publish":
		return a(arg{g.pick("pubch", []string{"ch", "c\"h", "é"}), rVal}, g.text("pubmsg")), true
	case "subscribe", "psubscribe":
		out := a()
		for i := g.intn("nch", 1, 2); i > 0; i-- {
			out = append(out, arg{g.pick("subch", []string{"ch", "c\"h", "é", "c*", "\x01"}), rVal})
		}
		return out, true
	case "aof":
		return a(num(0)), true
	case "aofmd5":
		return a(num(0), num(0)), true
	case "output":
		switch g.intn("output", 0, 2) {
		case 0:
			return a(), true
		case 1:
			return a(arg{g.pick("outmode", []string{"json", "JSON", "Json"}), rVal}), true
		default:
			return a(arg{g.pick("outmode", []string{"resp", "RESP"}), rVal}), true
		}
	case "ping", "echo":
		if g.chance("msg?", 1, 2) {
			return a(g.text("pingmsg")), true
		}
		return a(), true
	case "auth":
		return a(g.text("pw")), true
	case "hello":
		if g.chance("ver?", 1, 2) {
			return a(num(g.intn("hellover", 2, 3))), true
		}
		return a(), true
	case "timeout":
		inner := g.pick("timeoutinner", []string{"get", "scan", "search", "nearby", "within", "intersects", "keys", "ttl", "server", "evalro", "set", "del", "test", "stats", "fget", "exists", "jget", "bounds", "type", "hooks", "info", "ping", "output"})
		in, _ := g.validShape(inner)
		return a(append([]arg{{g.pick("timeout", []string{"30", "100", "3600.5", "1e3"}), rTTL}}, in...)...), true
	case "follow", "slaveof":
		if g.chance("noone?", 1, 2) {
			return a(arg{"no", rVal}, arg{"one", rVal}), true
		}
		return a(arg{"127.0.0.1", rVal}, arg{"1", rVal}), true
	case "replconf":
		if g.chance("lport?", 1, 2) {
			return a(arg{"listening-port", rVal}, num(g.intn("lport", 1, 65535))), true
		}
		return a(arg{"ip-address", rVal}, arg{g.pick("ipaddr", []string{"10.1.2.3", "h\"ost"}), rVal}), true
	case "massinsert":
		return a(num(0), num(0)), true
	case "sleep":
		return a(num(0)), true
	case "command":
		// named before dispatch only (COMMAND DOCS from Redis clients); answered "unknown command"
		if g.chance("docs?", 1, 2) {
			return a(kw("DOCS")), true
		}
		return a(), true
	case "config", "script":
		// bare prefix: answered "unknown command" unless a known sub-command follows
		if g.chance("sub?", 1, 2) {
			return a(arg{g.pick("sub", []string{"bogus", "GET", "x\"y"}), rVal}), true
		}
		return a(), true
	}
	return nil, false
}

func (g *G) evalTail(script arg) []arg {
	nk := g.intn("numkeys", 0, 2)
	out := []arg{script, num(nk)}
	for i := 0; i < nk; i++ {
		out = append(out, g.key())
	}
	for i := g.intn("nargv", 0, 3); i > 0; i-- {
		if i%2 == 1 {
			out = append(out, g.id())
		} else {
			out = append(out, g.text("argv"))
		}
	}
	return out
}

// genericShape is used for table entries without a grammar (a command added
// to the server after this check was written): well-formedness and error
// agreement are still checked on a few argument vectors.
func (g *G) genericShape(name string) []arg {
	var out []arg
	for _, w := range strings.Fields(name) {
		out = append(out, kw(strings.ToUpper(w)))
	}
	for i := g.intn("ngeneric", 0, 4); i > 0; i-- {
		switch g.intn("generic", 0, 4) {
		case 0:
			out = append(out, g.key())
		case 1:
			out = append(out, g.id())
		case 2:
			out = append(out, num(g.intn("gnum", 0, 9)))
		case 3:
			out = append(out, g.text("gtext"))
		default:
			out = append(out, kw("BOGUS"))
		}
	}
	return out
}

func randCase(g *G, s string) string {
	b := []byte(s)
	for i := range b {
		if b[i] >= 'A' && b[i] <= 'Z' && g.chance("lower?", 1, 2) {
			b[i] += 32
		}
	}
	return string(b)
}

func (g *G) badNum(role byte) string {
	pool := append([]string{}, badNumsPlain...)
	switch role {
	case rTTL:
		// never a small or negative number of seconds (the twins would see
		// the expiry at different moments); NaN and +Inf saturate to "never"
		pool = append(pool, "nan", "NaN", "inf", "+Inf", "Infinity", "1e999")
	case rCoord:
		pool = append(pool, "1e400", "-1e400", "181", "-91.5", "1e308")
		if g.nonFinite {
			pool = append(pool, badNumsNonFinite...)
		}
	default:
		pool = append(pool, badNumsSmall...)
		pool = append(pool, badNumsNonFinite...)
	}
	return g.pick("badnum", pool)
}

// shape draws a shape for name: valid with probability ~1/2, otherwise one of
// the invalid classes derived from a valid shape.
func (g *G) shape(name string, wantValid int) cmdShape {
	args, ok := g.validShape(name)
	if !ok {
		return cmdShape{Name: name, Args: g.genericShape(name), Class: "generic"}
	}
	sh := cmdShape{Name: name, Args: args, Class: "valid"}
	nwords := len(strings.Fields(name))
	mode := wantValid
	if mode < 0 {
		mode = g.intn("shapeclass", 0, 11)
	}
	switch mode {
	case 0, 1, 2, 3:
		// valid as drawn
	case 4:
		sh.Class = "valid-case"
		for i := range sh.Args {
			if sh.Args[i].R == rKW {
				sh.Args[i].S = randCase(g, sh.Args[i].S)
			}
		}
	case 5:
		sh.Class = "valid-hostile"
		var idx []int
		for i, a := range sh.Args {
			switch a.R {
			case rKey, rID, rField, rVal, rName:
				idx = append(idx, i)
			}
		}
		if len(idx) > 0 {
			i := idx[g.intn("hostileidx", 0, len(idx)-1)]
			sh.Args[i].S = g.pick("hostile", hostilePool)
		}
	case 6:
		sh.Class = "arity-"
		if len(sh.Args) > 1 {
			sh.Args = sh.Args[:g.intn("trunc", 1, len(sh.Args)-1)]
		} else {
			sh.Class = "arity+"
			sh.Args = append(sh.Args, arg{"extra", rVal})
		}
	case 7:
		sh.Class = "arity+"
		for i := g.intn("nextra", 1, 2); i > 0; i-- {
			sh.Args = append(sh.Args, arg{g.pick("extra", []string{"extra", "1", "", "WITHFIELDS", "0"}), rVal})
		}
	case 8:
		sh.Class = "badnum"
		var idx []int
		for i, a := range sh.Args {
			if a.R == rNum || a.R == rCoord || a.R == rTTL {
				idx = append(idx, i)
			}
		}
		if len(idx) == 0 {
			sh.Class = "option"
			sh.Args = append(sh.Args, kw("BOGUS"))
		} else {
			i := idx[g.intn("badidx", 0, len(idx)-1)]
			sh.Args[i].S = g.badNum(sh.Args[i].R)
		}
	case 9:
		sh.Class = "option"
		pos := g.intn("optpos", nwords, len(sh.Args))
		tok := kw(g.pick("bogus", []string{"BOGUS", "NX", "LIMIT", "DESC", "-1", "WITHFIELDS", "FENCE", "EX", "COUNT"}))
		sh.Args = append(sh.Args[:pos], append([]arg{tok}, sh.Args[pos:]...)...)
	case 10:
		sh.Class = "empty"
		if len(sh.Args) > nwords {
			sh.Args[g.intn("emptyidx", nwords, len(sh.Args)-1)].S = ""
		} else {
			sh.Args = append(sh.Args, arg{"", rVal})
		}
	default:
		sh.Class = "swap"
		if len(sh.Args) > nwords+1 {
			i := g.intn("swapi", nwords, len(sh.Args)-1)
			j := g.intn("swapj", nwords, len(sh.Args)-1)
			sh.Args[i], sh.Args[j] = sh.Args[j], sh.Args[i]
		} else {
			sh.Class = "dup"
			sh.Args = append(sh.Args, sh.Args[len(sh.Args)-1])
		}
	}
	return sh
}

// ---- safety filter --------------------------------------------------------

// parsesSmall: s parses as a number of seconds that is not safely inside
// [limit, 1e9]: small, negative, NaN, or so large that the server's
// conversion to a duration overflows (EX 1e22 makes an object expire at
// once, which the twins would see at different moments).
func parsesSmall(s string, limit float64) bool {
	f, err := strconv.ParseFloat(strings.TrimSpace(s), 64)
	if err != nil {
		return false // rejected by the server
	}
	if math.IsNaN(f) || math.IsInf(f, +1) {
		return false // saturates to "never expires" / refused: the same on every server
	}
	return !(f >= limit && f <= 1e9)
}

// unwrapTimeout returns the command a TIMEOUT prefix wraps (or args itself).
func unwrapTimeout(args []string) []string {
	if len(args) >= 3 && strings.EqualFold(args[0], "timeout") {
		return args[2:]
	}
	return args
}

// unsafe says why an argument vector must not be sent in lock step (""
// when it is fine): it could make the twins diverge for reasons that have
// nothing to do with reply encoding (expiry timing, memory pressure), lock
// the harness out (password), kill harness connections, or reconfigure
// replication.
func unsafeReason(args []string) string {
	if len(args) == 0 {
		return "empty"
	}
	if strings.EqualFold(args[0], "timeout") && len(args) >= 2 && parsesSmall(args[1], 25) {
		return "small-timeout"
	}
	in := unwrapTimeout(args)
	if len(in) == 0 {
		return ""
	}
	name := strings.ToLower(in[0])
	for i := 1; i+1 < len(in); i++ {
		if strings.EqualFold(in[i], "ex") && parsesSmall(in[i+1], 10000) {
			switch name {
			case "set", "sethook", "setchan", "jset", "jdel", "timeout":
				return "small-expiry"
			}
		}
	}
	if exclNonFinite {
		for i, a := range in {
			switch strings.ToLower(a) {
			case "point", "bounds", "circle", "sector":
				for k := i + 1; k < len(in) && k <= i+5; k++ {
					if f, err := strconv.ParseFloat(strings.TrimSpace(in[k]), 64); err == nil && (math.IsNaN(f) || math.IsInf(f, 0)) {
						return idNonFiniteCoords
					}
				}
			}
		}
	}
	switch name {
	case "set", "jset":
		if len(in) >= 2 && in[1] == "" {
			return "empty-key" // a collection named "" cannot be read back by SCAN (state dump)
		}
	case "rename", "renamenx":
		if len(in) == 3 && in[2] == "" {
			return "empty-key"
		}
	case "expire":
		if len(in) == 4 && parsesSmall(in[3], 10000) {
			return "small-expiry"
		}
	case "client":
		if exclClientNaN && len(in) == 3 && strings.EqualFold(in[1], "setname") {
			if f, err := strconv.ParseFloat(in[2], 64); err == nil && (math.IsNaN(f) || math.IsInf(f, 0)) {
				return idClientListNaN
			}
		}
		if len(in) >= 2 && strings.EqualFold(in[1], "kill") {
			for _, a := range in[2:] {
				switch strings.ToLower(a) {
				case "id", "addr", "noclient", "0.0.0.0:1", "bogus", "extra", "":
				default:
					return "client-kill"
				}
			}
		}
	case "config":
		if len(in) >= 3 && strings.EqualFold(in[1], "set") {
			ok := false
			val := ""
			if len(in) >= 4 {
				val = in[3]
			}
			for _, kv := range safeConfig {
				if kv[0] == in[2] && (kv[1] == val || len(in) != 4) {
					ok = true
				}
			}
			switch in[2] {
			case "requirepass", "maxmemory", "autogc", "keepalive", "protected-mode", "leaderauth", "logconfig", "replica-priority", "replica_announce_ip", "replica_announce_port":
				if !ok {
					return "config-set"
				}
			}
		}
	case "follow", "slaveof":
		if len(in) == 3 {
			h, p := strings.ToLower(in[1]), strings.ToLower(in[2])
			if h == "no" && p == "one" {
				break
			}
			if _, err := strconv.ParseUint(p, 10, 64); err != nil {
				break // rejected before dialing
			}
			if h == "127.0.0.1" && p == "1" {
				break
			}
			return "follow"
		}
	case "shutdown", "massinsert", "sleep":
		// unknown commands on the non-dev servers used here
	case "nearby":
		if exclNearbyBuffer && hasToken(in, 1, "buffer") {
			return idCrashNearbyBuffer
		}
	case "sethook", "setchan":
		if exclNearbyBuffer && hasToken(in, 1, "buffer") && hasToken(in, 1, "nearby") {
			return idCrashNearbyBuffer
		}
	}
	return ""
}

// exclNearbyBuffer: NEARBY ... BUFFER ends the process (finding
// crash-nearby-buffer); cleared when the subprocess probe shows it fixed.
var exclNearbyBuffer = true

// exclNonFinite: non-finite coordinates lead to JSON replies with bare NaN /
// Inf (finding json-nonfinite-coordinates); set while its probe reproduces.
var exclNonFinite = false

// exclClientNaN: a client named nan / inf breaks CLIENT LIST in JSON mode
// (finding json-client-list-nonfinite-name); set while its probe reproduces.
var exclClientNaN = false

const idClientListNaN = "json-client-list-nonfinite-name"

// detaches: the command may take the connection out of request/reply mode
// (live fence, SUBSCRIBE, MONITOR, AOF) or end it (QUIT).
func mayDetach(args []string) bool {
	if len(args) > 0 && strings.EqualFold(args[0], "quit") {
		return true
	}
	in := unwrapTimeout(args)
	if len(in) == 0 {
		return false
	}
	switch strings.ToLower(in[0]) {
	case "subscribe", "psubscribe":
		return len(in) >= 2
	case "monitor":
		return len(in) == 1
	case "aof":
		return len(in) == 2
	case "nearby", "within", "intersects", "scan", "search":
		for _, a := range in[1:] {
			if strings.EqualFold(a, "fence") {
				return true
			}
		}
	}
	return false
}

// switchesOutput: OUTPUT (possibly TIMEOUT-wrapped) with an argument may
// change the connection's reply mode.
func switchesOutput(args []string) bool {
	in := unwrapTimeout(args)
	return len(in) >= 1 && strings.EqualFold(in[0], "output")
}

package c17

// Vector tiles over HTTP: GET /<key>/<z>/<x>/<y>.mvt (or .pbf, with ?limit=n
// or ?sparse=n) is rewritten by the server to
// INTERSECTS key LIMIT n|SPARSE n MVT x y z. The HTTP body must be exactly the
// tile that RESP returns as a bulk string and JSON as base64, with a matching
// Content-Length and the vector-tile content type (finding
// http-mvt-trailing-crlf: the JSON line terminator was appended to the tile).

import (
	"bytes"
	"encoding/base64"
	"fmt"
	"io"
	"net"
	"strconv"
	"strings"
	"time"

	"github.com/tidwall/tile38/verif/harness/t38"
)

const idHTTPMVT = "http-mvt-trailing-crlf"

// mvtPath returns the HTTP path form of args when args is exactly what the
// server makes of such a path, "" otherwise.
func mvtPath(args []string, ext string) string {
	// INTERSECTS key (LIMIT n | SPARSE n) MVT x y z
	if len(args) != 8 || !strings.EqualFold(args[0], "intersects") || !strings.EqualFold(args[4], "mvt") {
		return ""
	}
	key := args[1]
	if !carriable(key) || strings.ContainsAny(key, "/?%+#.") {
		return ""
	}
	for _, n := range []string{args[3], args[5], args[6], args[7]} {
		if _, err := strconv.ParseUint(n, 10, 32); err != nil {
			return ""
		}
	}
	q := ""
	switch strings.ToLower(args[2]) {
	case "limit":
		if args[3] != "100000000" {
			q = "?limit=" + args[3]
		}
	case "sparse":
		q = "?sparse=" + args[3]
	default:
		return ""
	}
	return "/" + key + "/" + args[7] + "/" + args[5] + "/" + args[6] + ext + q
}

type rawHTTP struct {
	Status  string
	Headers map[string]string
	Body    []byte // everything after the header block, until the server closed
}

// httpGetRaw sends GET path and returns the reply without assuming a JSON body.
func httpGetRaw(addr, path string) (rawHTTP, error) {
	var rep rawHTTP
	c, err := net.DialTimeout("tcp", addr, 5*time.Second)
	if err != nil {
		return rep, err
	}
	defer c.Close()
	c.SetDeadline(time.Now().Add(ioTimeout))
	req := "GET " + path + " HTTP/1.1\r\nHost: x\r\n\r\n"
	t38.JournalNote("http " + addr + " " + strconv.Quote(req))
	if _, err := io.WriteString(c, req); err != nil {
		return rep, err
	}
	all, err := io.ReadAll(c)
	if err != nil {
		return rep, fmt.Errorf("http read: %v (got %d bytes)", err, len(all))
	}
	i := bytes.Index(all, []byte("\r\n\r\n"))
	if i < 0 {
		return rep, fmt.Errorf("http reply without header terminator: %q", clip(string(all), 200))
	}
	lines := strings.Split(string(all[:i]), "\r\n")
	rep.Status = lines[0]
	rep.Headers = map[string]string{}
	for _, h := range lines[1:] {
		k, v, ok := strings.Cut(h, ":")
		if !ok {
			return rep, fmt.Errorf("http reply with a malformed header line %q", h)
		}
		rep.Headers[strings.ToLower(strings.TrimSpace(k))] = strings.TrimSpace(v)
	}
	rep.Body = all[i+4:]
	return rep, nil
}

// mvtHTTPAgree checks the HTTP tile reply against the tile RESP returned
// (respTile) and the one JSON returned as base64 (jsonTile). key "" = fine.
func mvtHTTPAgree(path string, h rawHTTP, respTile, jsonTile []byte) (key, what string) {
	if !bytes.Equal(respTile, jsonTile) {
		return "disagree:intersects", fmt.Sprintf("MVT tile differs between RESP (%d bytes) and JSON base64 (%d bytes)", len(respTile), len(jsonTile))
	}
	if h.Status != "HTTP/1.1 200 OK" {
		return "http-status:mvt", fmt.Sprintf("GET %s: status %q for a tile that RESP and JSON return", path, h.Status)
	}
	cl, err := strconv.Atoi(h.Headers["content-length"])
	if bytes.Equal(h.Body, append(append([]byte{}, respTile...), '\r', '\n')) {
		return idHTTPMVT, fmt.Sprintf("GET %s: the body is the %d-byte tile followed by CRLF (Content-Length %s): a binary body with the JSON line terminator appended", path, len(respTile), h.Headers["content-length"])
	}
	if err != nil || cl != len(h.Body) {
		return "http-frame:mvt", fmt.Sprintf("GET %s: Content-Length %q but %d body bytes", path, h.Headers["content-length"], len(h.Body))
	}
	if !bytes.Equal(h.Body, respTile) {
		return "http-mvt-body-differs", fmt.Sprintf("GET %s: body of %d bytes differs from the %d-byte tile of the same search in RESP / JSON mode", path, len(h.Body), len(respTile))
	}
	if ct := h.Headers["content-type"]; ct != "application/vnd.mapbox-vector-tile" {
		return "http-content-type:mvt", fmt.Sprintf("GET %s: content-type %q for a vector tile", path, ct)
	}
	return "", ""
}

// tilesOf extracts the tile from the RESP and JSON replies of an MVT search.
func tilesOf(v t38.Value, r t38.JSONReply) (respTile, jsonTile []byte, ok bool) {
	if !r.OK || v.Kind != '*' || len(v.Arr) != 2 || v.Arr[1].Kind != '$' {
		return nil, nil, false
	}
	top, err := members(r)
	if err != nil {
		return nil, nil, false
	}
	s, isStr := top["mvt"].(string)
	jt, err := base64.RawStdEncoding.DecodeString(s)
	if !isStr || err != nil {
		return nil, nil, false
	}
	return []byte(v.Arr[1].Str), jt, true
}

// mvtProbe is the deterministic regression probe of http-mvt-trailing-crlf.
func mvtProbe() probeResult {
	res := probeResult{id: idHTTPMVT}
	if err := mainTrio.reset(); err != nil {
		panic(err)
	}
	setup := [][]string{
		{"SET", "tiles", "p1", "FIELD", "speed", "10", "POINT", "33.5", "-112.25"},
		{"SET", "tiles", "p2", "POINT", "-20", "140"},
		{"SET", "tiles", "poly", "OBJECT", `{"type":"Polygon","coordinates":[[[-10,-10],[10,-10],[10,10],[-10,10],[-10,-10]]]}`},
	}
	for _, cmd := range setup {
		for _, c := range []*t38.Conn{mainTrio.a, mainTrio.b} {
			if _, err := c.Do(cmd...); err != nil {
				panic(err)
			}
		}
	}
	for _, q := range [][]string{
		{"INTERSECTS", "tiles", "LIMIT", "100000000", "MVT", "0", "0", "0"},
		{"INTERSECTS", "tiles", "LIMIT", "1", "MVT", "0", "0", "0"},
		{"INTERSECTS", "tiles", "SPARSE", "2", "MVT", "1", "1", "1"},
		{"INTERSECTS", "tiles", "LIMIT", "100000000", "MVT", "24", "51", "7"},
		{"INTERSECTS", "notiles", "LIMIT", "100000000", "MVT", "0", "0", "0"},
	} {
		res.cmds = append(res.cmds, q)
		v, err1 := mainTrio.a.Do(q...)
		jv, err2 := mainTrio.b.Do(q...)
		if err1 != nil || err2 != nil {
			panic(fmt.Sprint(err1, err2))
		}
		rep, err := t38.DecodeJSONReply(jv.Str)
		rt, jt, ok := tilesOf(v, rep)
		if err != nil || !ok {
			res.reproduces, res.what = true, fmt.Sprintf("%s: no tile in RESP %s / JSON %s", t38.CmdString(q), clip(v.String(), 100), clip(jv.Str, 100))
			return res
		}
		for _, ext := range []string{".mvt", ".pbf"} {
			path := mvtPath(q, ext)
			h, err := httpGetRaw(mainTrio.srv[0].Addr, path)
			if err != nil {
				res.reproduces, res.what = true, fmt.Sprintf("GET %s: %v", path, err)
				return res
			}
			if key, what := mvtHTTPAgree(path, h, rt, jt); key != "" {
				res.reproduces, res.what = true, what
				if key != idHTTPMVT {
					res.what = key + ": " + what
				}
				return res
			}
		}
	}
	return res
}

package c17

// TestC17_Concurrent: the same searches answered while other connections
// search at the same time. N clients, each with its OWN collection (every id,
// object and field value carries the owner's tag, so every reply is
// attributable), loop JSON-mode and RESP-mode SCAN / SEARCH / NEARBY / WITHIN /
// INTERSECTS queries with pages of ~1 KB .. ~300 KB over a frozen dataset.
// Oracle: every reply equals, byte for byte up to "elapsed", the reply the
// same query got sequentially before the storm (which was checked for
// well-formedness, RESP/JSON agreement and ownership); a differing reply is
// classified as malformed / foreign data / different.

import (
	"encoding/json"
	"fmt"
	"regexp"
	"strconv"
	"strings"
	"sync"
	"sync/atomic"
	"testing"
	"time"

	"github.com/tidwall/tile38/verif/harness/ev"
	"github.com/tidwall/tile38/verif/harness/t38"
)

type stormCfg struct {
	Clients int `json:"clients"`
	Objects int `json:"objects"` // points per collection (plus Objects/5 strings)
	Pad     int `json:"pad"`     // bytes of padding in every id
	Rounds  int `json:"rounds"`  // times each client runs its query list
}

type stormQuery struct {
	args []string
	name string
	refJ string // JSON reply without the elapsed tail
	refR t38.Value
}

var reElapsedTail = regexp.MustCompile(`,"elapsed":"[^"\\]+"\}$`)
var reOwner = regexp.MustCompile(`own(\d+)x`)

func stripElapsed(raw string) (string, bool) {
	loc := reElapsedTail.FindStringIndex(raw)
	if loc == nil {
		return raw, false
	}
	return raw[:loc[0]], true
}

func stormKey(i int) string { return fmt.Sprintf("own%dxcol", i) }

func stormQueries(i, objects int) [][]string {
	k := stormKey(i)
	all := strconv.Itoa(objects * 2)
	return [][]string{
		{"SCAN", k, "LIMIT", all},
		{"SCAN", k, "LIMIT", "1"},
		{"SCAN", k, "LIMIT", "7", "CURSOR", "3", "IDS"},
		{"SCAN", k, "LIMIT", all, "IDS"},
		{"SCAN", k, "LIMIT", all, "POINTS"},
		{"SCAN", k, "LIMIT", all, "WHERE", "n", "5", "50"},
		{"SCAN", k, "COUNT"},
		{"SEARCH", k, "LIMIT", all},
		{"SEARCH", k, "LIMIT", "3", "DESC"},
		{"SEARCH", k, "LIMIT", all, "IDS"},
		{"NEARBY", k, "LIMIT", all, "POINT", "33.5", "-112.2"},
		{"NEARBY", k, "LIMIT", "5", "DISTANCE", "IDS", "POINT", "33.5", "-112.2"},
		{"NEARBY", k, "LIMIT", all, "DISTANCE", "POINT", "33.5", "-112.2", "900000"},
		{"WITHIN", k, "LIMIT", all, "BOUNDS", "30", "-120", "40", "-100"},
		{"WITHIN", k, "LIMIT", "2", "HASHES", "7", "CIRCLE", "33.5", "-112.2", "500000"},
		{"INTERSECTS", k, "LIMIT", all, "BOUNDS", "30", "-120", "40", "-100"},
		{"INTERSECTS", k, "LIMIT", all, "NOFIELDS", "BOUNDS", "CIRCLE", "33.5", "-112.2", "800000"},
		{"INTERSECTS", k, "LIMIT", "10", "IDS", "TILE", "24", "51", "7"},
	}
}

func populateStorm(c *t38.Conn, cfg stormCfg) error {
	for i := 0; i < cfg.Clients; i++ {
		k := stormKey(i)
		tag := fmt.Sprintf("own%dx", i)
		for j := 0; j < cfg.Objects; j++ {
			id := fmt.Sprintf("%s%04d%s", tag, j, strings.Repeat(string(rune('a'+i%26)), cfg.Pad))
			lat := 33.0 + float64(j%50)/50 + float64(i)/1000
			lon := -112.5 + float64(j/50)/10 + float64(i)/1000
			v, err := c.Do("SET", k, id, "FIELD", "n", strconv.Itoa(j+1), "FIELD", "who", tag+"\"q", "POINT", ffmt(lat), ffmt(lon))
			if err != nil || v.IsErr() {
				return fmt.Errorf("SET: %v %v", v, err)
			}
		}
		for j := 0; j < cfg.Objects/5; j++ {
			id := fmt.Sprintf("%ss%04d", tag, j)
			v, err := c.Do("SET", k, id, "FIELD", "n", strconv.Itoa(j+1), "STRING", fmt.Sprintf("%svalue %d %s", tag, j, strings.Repeat("v\"", cfg.Pad/4)))
			if err != nil || v.IsErr() {
				return fmt.Errorf("SET: %v %v", v, err)
			}
		}
	}
	return nil
}

// owners returns the owner tags that occur in text.
func owners(text string) map[string]bool {
	out := map[string]bool{}
	for _, m := range reOwner.FindAllStringSubmatch(text, -1) {
		out[m[1]] = true
	}
	return out
}

type stormFailure struct {
	key, what string
}

func runStorm(c *ev.Collector, tr *trio, cfg stormCfg) (fail *stormFailure, labels map[string]int) {
	labels = map[string]int{}
	if err := tr.reset(); err != nil {
		c.Inconclusive("cannot reset: %v", err)
		return nil, labels
	}
	srv := tr.srv[0]
	if err := populateStorm(tr.a, cfg); err != nil {
		panic(err)
	}
	// sequential references
	qs := make([][]*stormQuery, cfg.Clients)
	cj, err := srv.Dial()
	if err != nil {
		c.Inconclusive("dial: %v", err)
		return nil, labels
	}
	defer cj.Close()
	if err := cj.SetJSON(true); err != nil {
		panic(err)
	}
	var tnt taint
	tnt.aof = true
	minPage, maxPage := 1<<30, 0
	for i := 0; i < cfg.Clients; i++ {
		for _, args := range stormQueries(i, cfg.Objects) {
			name, _, _ := cmdName(args)
			q := &stormQuery{args: args, name: name}
			vR, err := tr.a.Do(args...)
			if err != nil {
				return &stormFailure{"resp-malformed:" + name, fmt.Sprintf("%s: %v", t38.CmdString(args), err)}, labels
			}
			vJ, err := cj.Do(args...)
			if err != nil || vJ.Kind != '$' {
				return &stormFailure{"json-not-bulk:" + name, fmt.Sprintf("%s: %v %v", t38.CmdString(args), vJ.Kind, err)}, labels
			}
			rep, err := t38.DecodeJSONReply(vJ.Str)
			if err != nil {
				return &stormFailure{malformedKey(name, vJ.Str), fmt.Sprintf("%s: %v", t38.CmdString(args), err)}, labels
			}
			if _, d := agree(args, vR, rep, &tnt); d != "" {
				return &stormFailure{"disagree:" + name, fmt.Sprintf("%s (sequential reference): %s", t38.CmdString(args), d)}, labels
			}
			if !rep.OK {
				panic("storm query refused: " + t38.CmdString(args) + ": " + rep.Err)
			}
			ref, ok := stripElapsed(vJ.Str)
			if !ok {
				return &stormFailure{"json-malformed:" + name, fmt.Sprintf("%s: reply does not end in the elapsed member: %s", t38.CmdString(args), clip(vJ.Str, 200))}, labels
			}
			for o := range owners(vJ.Str + vR.String()) {
				if o != strconv.Itoa(i) {
					return &stormFailure{"foreign-data:" + name, fmt.Sprintf("%s on the collection of client %d shows data of client %s", t38.CmdString(args), i, o)}, labels
				}
			}
			q.refJ, q.refR = ref, vR
			minPage, maxPage = min(minPage, len(vJ.Str)), max(maxPage, len(vJ.Str))
			qs[i] = append(qs[i], q)
		}
	}
	labels[fmt.Sprintf("page-bytes-min:%d", minPage/1000*1000)]++
	labels[fmt.Sprintf("page-kbytes-max:%d", maxPage/1000)]++

	// the storm: no writes from here on
	var stop atomic.Bool
	var mu sync.Mutex
	var first *stormFailure
	report := func(key, what string) {
		mu.Lock()
		if first == nil {
			first = &stormFailure{key, what}
		}
		mu.Unlock()
		stop.Store(true)
	}
	var nJSON, nRESP, nNative atomic.Int64
	var wg sync.WaitGroup
	for i := 0; i < cfg.Clients; i++ {
		wg.Add(1)
		go func(i int) {
			defer wg.Done()
			jc, err1 := srv.Dial()
			rc, err2 := srv.Dial()
			if err1 != nil || err2 != nil {
				c.Inconclusive("dial: %v %v", err1, err2)
				return
			}
			defer jc.Close()
			defer rc.Close()
			native := i%3 == 2 // every third client speaks the native protocol
			if !native {
				if err := jc.SetJSON(true); err != nil {
					c.Inconclusive("OUTPUT json: %v", err)
					return
				}
			}
			for round := 0; round < cfg.Rounds && !stop.Load(); round++ {
				for qi := range qs[i] {
					q := qs[i][(qi+round+i)%len(qs[i])]
					if stop.Load() {
						return
					}
					var raw string
					if native {
						line := strings.Join(q.args, " ")
						jc.C.SetDeadline(time.Now().Add(t38.ReplyTimeout))
						if err := jc.SendRaw([]byte("$" + strconv.Itoa(len(line)) + " " + line + "\r\n")); err != nil {
							c.Inconclusive("write: %v", err)
							return
						}
						var err error
						if raw, err = readNativeFrameStream(jc.BR); err != nil {
							report("native-frame:"+q.name, fmt.Sprintf("client %d, %s during concurrent searches: %v", i, t38.CmdString(q.args), err))
							return
						}
						nNative.Add(1)
					} else {
						v, err := jc.Do(q.args...)
						if err != nil {
							report("resp-malformed:"+q.name, fmt.Sprintf("client %d, JSON mode, %s during concurrent searches: %v", i, t38.CmdString(q.args), err))
							return
						}
						if v.Kind != '$' || v.Null {
							report("json-not-bulk:"+q.name, fmt.Sprintf("client %d, %s: %s", i, t38.CmdString(q.args), clip(v.String(), 200)))
							return
						}
						raw = v.Str
						nJSON.Add(1)
					}
					if got, ok := stripElapsed(raw); !ok || got != q.refJ {
						report(classifyStormJSON(i, q, raw))
						return
					}
					if (qi+round)%3 == 0 {
						v, err := rc.Do(q.args...)
						if err != nil {
							report("resp-malformed:"+q.name, fmt.Sprintf("client %d, RESP mode, %s during concurrent searches: %v", i, t38.CmdString(q.args), err))
							return
						}
						if !v.Equal(q.refR) {
							report("concurrent-reply-differs:"+q.name, fmt.Sprintf("client %d, RESP mode, %s: the reply during concurrent searches differs from the reply to the same query before them (frozen dataset): %s vs %s", i, t38.CmdString(q.args), clip(v.String(), 300), clip(q.refR.String(), 300)))
							return
						}
						nRESP.Add(1)
					}
				}
			}
		}(i)
	}
	wg.Wait()
	labels["json-replies"] += int(nJSON.Load())
	labels["native-replies"] += int(nNative.Load())
	labels["resp-replies"] += int(nRESP.Load())
	c.Cases(int(nJSON.Load() + nNative.Load() + nRESP.Load()))
	return first, labels
}

// classifyStormJSON says what is wrong with a JSON reply that differs from
// its sequential reference.
func classifyStormJSON(i int, q *stormQuery, raw string) (key, what string) {
	head := fmt.Sprintf("client %d, JSON mode, %s issued while %s search concurrently (no writes)", i, t38.CmdString(q.args), "other connections")
	foreign := []string{}
	for o := range owners(raw) {
		if o != strconv.Itoa(i) {
			foreign = append(foreign, o)
		}
	}
	_, err := t38.DecodeJSONReply(raw)
	switch {
	case err != nil && len(foreign) > 0:
		return "concurrent-json-torn:" + q.name, fmt.Sprintf("%s: the reply is not a JSON document (%v) and carries data of client(s) %v: %s", head, clipErr(err), foreign, clip(raw, 300))
	case err != nil:
		return "concurrent-json-torn:" + q.name, fmt.Sprintf("%s: the reply is not a JSON document: %v", head, clipErr(err))
	case len(foreign) > 0:
		return "concurrent-foreign-data:" + q.name, fmt.Sprintf("%s: the reply is a well-formed document but shows ids / objects / fields of client(s) %v, whose collections were not asked for: %s", head, foreign, clip(raw, 300))
	}
	return "concurrent-reply-differs:" + q.name, fmt.Sprintf("%s: the reply differs from the reply to the same query before the storm (frozen dataset): %s vs %s", head, clip(raw, 300), clip(q.refJ, 300))
}

func clipErr(err error) string { return clip(err.Error(), 300) }

func TestC17_Concurrent(t *testing.T) {
	c := ev.New("C17", "concurrent", "exploration")
	t.Cleanup(c.Flush)
	c.Rule("6 (thorough: 8) clients, each owning one collection of 120 points (ids of ~2 KB carrying the owner's tag, two fields) and 24 strings; per client 18 queries of the five search kinds (all outputs, LIMIT 1 .. everything, CURSOR, WHERE, DISTANCE, NOFIELDS: JSON pages of ~0.1 KB .. ~330 KB); first every query is answered sequentially in RESP and JSON mode (well-formed, RESP/JSON agreement, only the owner's data) and kept as reference; then all clients loop their queries concurrently for a fixed number of rounds (JSON-mode connections, every third client over the native protocol, every third query also on a RESP connection) while nothing is written: every reply must equal its reference up to elapsed; a differing JSON reply is classified as torn (not a JSON document), foreign data, or different. Distinct non-trivial: (client, query) pairs answered during the storm.")
	c.Assume("the dataset is frozen during the storm (no writes, expiries far away), so a search has one right answer")
	cfg := stormCfg{Clients: ev.Pick(6, 8), Objects: 120, Pad: 2000, Rounds: ev.Pick(50, 150)}
	fail, labels := runStorm(c, mainTrio, cfg)
	for l, n := range labels {
		c.LabelN(l, n)
	}
	for i := 0; i < cfg.Clients; i++ {
		for _, q := range stormQueries(i, cfg.Objects) {
			c.NonTrivial(fmt.Sprintf("%d|%v", i, q))
		}
	}
	c.Sample(map[string]any{"config": cfg, "queries-of-client-0": stormQueries(0, cfg.Objects)})
	if fail != nil {
		c.Violation(fail.key, fail.what, cfg)
		t.Fatalf("VIOLATION-CANDIDATE key=%s: %s", fail.key, fail.what)
	}
}

func replayConcurrent(t *testing.T, c *ev.Collector, data []byte) {
	var cfg stormCfg
	if err := json.Unmarshal(data, &cfg); err != nil || cfg.Clients == 0 {
		t.Fatalf("bad replay data: %v", err)
	}
	// the interleaving is not recorded: repeat the workload a few times
	for k := 0; k < 5; k++ {
		if fail, _ := runStorm(c, mainTrio, cfg); fail != nil {
			c.Violation(fail.key, fail.what, cfg)
			t.Fatalf("VIOLATION-CANDIDATE key=%s: %s", fail.key, fail.what)
		}
	}
}

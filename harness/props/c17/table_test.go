package c17

// The command table is read at run time from the repository so that new
// commands are picked up: the case labels of func (s *Server) command in
// internal/server/server.go, the names handled before dispatch in
// handleInputCommand / netServe, and the keys of core/commands.json.

import (
	"bufio"
	"encoding/json"
	"fmt"
	"os"
	"path/filepath"
	"regexp"
	"sort"
	"strings"
)

type tableEntry struct {
	Name     string // lower case, e.g. "config get"
	InSwitch bool   // case label of Server.command
	InDocs   bool   // key of core/commands.json
	PreDisp  bool   // handled before dispatch (ping, echo, quit, hello, timeout, auth)
	InLock   bool   // named in the lock table of handleInputCommand
}

func repoDir() string {
	if d := os.Getenv("VERIF_REPO"); d != "" {
		return d
	}
	return "/repo"
}

var (
	reCase   = regexp.MustCompile(`^\s*case\s+("[^"]+"(?:\s*,\s*"[^"]+")*)\s*:`)
	reStr    = regexp.MustCompile(`"([^"]+)"`)
	reCmdEq  = regexp.MustCompile(`(?:cmd|msg\.Command\(\))\s*==\s*"([a-z]+)"`)
	reFuncRx = regexp.MustCompile(`^func \(s \*Server\) (\w+)\(`)
)

// loadTable parses the sources. It fails loudly when the anchor functions
// are not found (the extraction must never silently return a short table).
func loadTable() ([]tableEntry, error) {
	src := filepath.Join(repoDir(), "internal", "server", "server.go")
	f, err := os.Open(src)
	if err != nil {
		return nil, err
	}
	defer f.Close()
	entries := map[string]*tableEntry{}
	get := func(n string) *tableEntry {
		n = strings.ToLower(n)
		e := entries[n]
		if e == nil {
			e = &tableEntry{Name: n}
			entries[n] = e
		}
		return e
	}
	sc := bufio.NewScanner(f)
	sc.Buffer(make([]byte, 1<<20), 1<<20)
	cur := ""
	sawCommand := false
	for sc.Scan() {
		line := sc.Text()
		if m := reFuncRx.FindStringSubmatch(line); m != nil {
			cur = m[1]
			if cur == "command" {
				sawCommand = true
			}
			continue
		}
		if line == "}" {
			cur = ""
			continue
		}
		switch cur {
		case "command":
			if m := reCase.FindStringSubmatch(line); m != nil {
				for _, s := range reStr.FindAllStringSubmatch(m[1], -1) {
					get(s[1]).InSwitch = true
				}
			}
		case "handleInputCommand", "netServe":
			for _, m := range reCmdEq.FindAllStringSubmatch(line, -1) {
				get(m[1]).PreDisp = true
			}
			if cur == "handleInputCommand" {
				// the lock table names commands too
				if m := reCase.FindStringSubmatch(line); m != nil {
					for _, s := range reStr.FindAllStringSubmatch(m[1], -1) {
						get(s[1]).InLock = true
					}
				}
			}
		}
	}
	if err := sc.Err(); err != nil {
		return nil, err
	}
	if !sawCommand || len(entries) < 40 {
		return nil, fmt.Errorf("could not extract the command switch from %s (%d names)", src, len(entries))
	}
	b, err := os.ReadFile(filepath.Join(repoDir(), "core", "commands.json"))
	if err != nil {
		return nil, err
	}
	var docs map[string]json.RawMessage
	if err := json.Unmarshal(b, &docs); err != nil {
		return nil, fmt.Errorf("core/commands.json: %v", err)
	}
	for k := range docs {
		get(k).InDocs = true
	}
	var out []tableEntry
	for _, e := range entries {
		out = append(out, *e)
	}
	sort.Slice(out, func(i, j int) bool { return out[i].Name < out[j].Name })
	return out, nil
}

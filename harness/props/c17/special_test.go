package c17

// States and commands that need dedicated handling: a password-protected
// server (AUTH), followers (not the leader / catching up), dev mode (SLEEP,
// MASSINSERT), pub/sub and live-fence streams over every transport.

import (
	"bufio"
	"bytes"
	"encoding/json"
	"errors"
	"fmt"
	"io"
	"net"
	"strconv"
	"strings"
	"testing"
	"time"

	"github.com/tidwall/tile38/verif/harness/ev"
	"github.com/tidwall/tile38/verif/harness/gen"
	"github.com/tidwall/tile38/verif/harness/t38"
	"pgregory.net/rapid"
)

const idLiveAckWrapped = "live-ack-double-wrapped"

// openLanes opens fresh lane connections without touching server state.
func (tr *trio) openLanes() error {
	tr.closeConns()
	var err error
	if tr.a, err = tr.srv[0].Dial(); err != nil {
		return err
	}
	if tr.b, err = tr.srv[1].Dial(); err != nil {
		return err
	}
	if tr.cc, err = tr.srv[2].Dial(); err != nil {
		return err
	}
	if err := tr.b.SetJSON(true); err != nil {
		return err
	}
	tr.readBases()
	return nil
}

var plainLanes = []string{"c-resp", "c-json"}

// ---- AUTH --------------------------------------------------------------------

const authPass = `p"w\é`

func authProgram(rt *rapid.T, c *ev.Collector) program {
	g := newG(rt, c, gen.SmallNames)
	p := program{State: "password"}
	lane := func() string { return rapid.SampledFrom(plainLanes).Draw(rt, "lane") }
	readNames := []string{"get", "scan", "server", "keys", "set", "ping", "hooks", "eval", "info", "output", "config get", "healthz"}
	cmd := func(class string) {
		name := rapid.SampledFrom(readNames).Draw(rt, "cmd")
		if name == "output" {
			p.Steps = append(p.Steps, mkStep([]string{"OUTPUT"}, lane(), name, class))
			return
		}
		sh := g.safeShape(name, 0)
		p.Steps = append(p.Steps, mkStep(sh.strings(), lane(), name, class))
	}
	for i := g.intn("nunauth", 1, 3); i > 0; i-- {
		cmd("unauthenticated")
	}
	for i := g.intn("nbad", 0, 2); i > 0; i-- {
		bad := g.pick("badpw", []string{"", "wrong", "p\"w", authPass + "x", "\xff", "a b"})
		args := []string{"AUTH", bad}
		if g.chance("noarg?", 1, 4) {
			args = []string{"AUTH"}
		}
		p.Steps = append(p.Steps, mkStep(args, lane(), "auth", "wrong-password"))
	}
	if g.chance("stillunauth?", 1, 2) {
		cmd("unauthenticated")
	}
	p.Steps = append(p.Steps, mkStep([]string{"AUTH", g.pick("goodpw", []string{authPass, " " + authPass + " "})}, lane(), "auth", "right-password"))
	for i := g.intn("nauth", 1, 4); i > 0; i-- {
		cmd("authenticated")
	}
	if g.chance("reauthbad?", 1, 3) {
		p.Steps = append(p.Steps, mkStep([]string{"AUTH", "wrong"}, lane(), "auth", "wrong-password-after-auth"))
		cmd("authenticated")
	}
	return p
}

func runAuthProgram(tr *trio, c *ev.Collector, t ev.Failer, p *program) *runner {
	// same empty dataset on the three servers (a failed case may have stopped half way)
	for _, s := range tr.srv {
		adm := s.MustDial()
		for _, cmd := range [][]string{{"AUTH", authPass}, {"FLUSHDB"}, {"SCRIPT", "FLUSH"}} {
			if v := adm.MustDo(cmd...); v.IsErr() {
				panic(fmt.Sprintf("auth reset %v: %s", cmd, v))
			}
		}
		adm.Close()
	}
	if err := tr.openLanes(); err != nil {
		panic(err)
	}
	r := newRunner(tr, c, t, p, exclusions{})
	for i := range p.Steps {
		st := &p.Steps[i]
		if st.Lane != "c-resp" && st.Lane != "c-json" {
			st.Lane = "c-resp"
		}
		r.exec(i, st)
	}
	// HTTP carries the password in a header
	addr := tr.srv[2].Addr
	for _, h := range []struct{ hdr, wantErr string }{
		{"", "authentication required"},
		{"Authorization: wrong\r\n", "invalid password"},
		{"Authorization: " + authPass + "\r\n", ""},
	} {
		for _, post := range []bool{false, true} {
			rep, err := httpDo(addr, []string{"SERVER"}, post, h.hdr)
			if err != nil {
				r.fail("http-frame:server", fmt.Sprintf("password-protected server, header %q: %v", h.hdr, err))
			}
			jr := r.decode("C/http", "server", []string{"SERVER"}, rep.Body)
			if jr.Err != h.wantErr {
				r.fail("disagree:auth", fmt.Sprintf("HTTP request with header %q on a password-protected server answers %s, expected err %q", h.hdr, rep.Body, h.wantErr))
			}
			r.c.Case()
			r.label("http-auth:" + map[bool]string{true: "accepted", false: "refused"}[jr.OK])
		}
	}
	return r
}

func startAuthTrio() (*trio, error) {
	tr, err := startTrio(t38.Opts{})
	if err != nil {
		return nil, err
	}
	for _, s := range tr.srv {
		c := s.MustDial()
		v := c.MustDo("CONFIG", "SET", "requirepass", authPass)
		c.Close()
		if v.IsErr() {
			tr.stop()
			return nil, fmt.Errorf("CONFIG SET requirepass: %s", v)
		}
	}
	return tr, nil
}

func TestC17_Auth(t *testing.T) {
	c := ev.New("C17", "auth", "exploration")
	t.Cleanup(c.Flush)
	c.Rule("three servers with requirepass set to a password that needs JSON escaping; each case opens fresh connections (RESP, JSON) and sends: commands before authenticating, AUTH with wrong / missing passwords, AUTH with the right one, commands afterwards; plus HTTP requests with no / a wrong / the right Authorization header. Same oracles as the table sub-check. Non-trivial: a step whose JSON payload has an escape or a non-empty array/object; distinct by (command, phase, outcome, lane).")
	tr, err := startAuthTrio()
	if err != nil {
		t.Fatal(err)
	}
	defer tr.stop()
	ev.Rapid("auth", ev.Pick(60, 600))
	rapid.Check(t, func(rt *rapid.T) {
		p := authProgram(rt, c)
		r := runAuthProgram(tr, c, rt, &p)
		r.commit()
	})
}

func replayAuth(t *testing.T, c *ev.Collector, p *program) {
	tr, err := startAuthTrio()
	if err != nil {
		t.Fatal(err)
	}
	defer tr.stop()
	runAuthProgram(tr, c, t, p).commit()
}

// ---- followers -------------------------------------------------------------------

type followerRig struct {
	leader *t38.Srv
	tr     *trio
}

func (f *followerRig) stop() {
	if f.tr != nil {
		f.tr.stop()
	}
	if f.leader != nil {
		f.leader.Stop()
	}
}

var leaderData = [][]string{
	{"SET", "k1", "a", "FIELD", "f", "1.5", "POINT", "33.5", "-112.25"},
	{"SET", "k1", "b", "FIELD", "g", `{"a": [1, 2]}`, "STRING", "va\"l\\ue\n"},
	{"SET", "k1", "c\xff", "EX", "500000", "OBJECT", `{"type":"Feature","geometry":{"type":"Point","coordinates":[1,2]},"properties":{"n\"m":"é"}}`},
	{"SET", "k\"2", "i\x00d", "BOUNDS", "1", "2", "3", "4"},
	{"SET", "k2", "a", "HASH", "9q"},
	{"JSET", "j", "a", "x.y", "é\"q"},
	{"SETCHAN", "c\"1", "META", "m", "v\\", "WITHIN", "k1", "FENCE", "BOUNDS", "0", "0", "1", "1"},
}

// startFollowers returns a rig whose three followers have caught up with the
// leader and show its dataset; "" when that did not happen within the budget.
func startFollowers() (*followerRig, string, error) {
	f := &followerRig{}
	var err error
	if f.leader, err = t38.Start(t38.Opts{}); err != nil {
		return nil, "", err
	}
	lc := f.leader.MustDial()
	hook := []string{"SETHOOK", "h1", hookURLs[0], "NEARBY", "k1", "FENCE", "POINT", "1", "2", "100"}
	for _, cmd := range append(append([][]string{}, leaderData...), hook) {
		if v := lc.MustDo(cmd...); v.IsErr() {
			lc.Close()
			f.stop()
			return nil, "", fmt.Errorf("leader %v: %s", cmd, v)
		}
	}
	lc.Close()
	if f.tr, err = startTrio(t38.Opts{}); err != nil {
		f.stop()
		return nil, "", err
	}
	want, err := t38.TakeDump(f.leader.Addr)
	if err != nil {
		f.stop()
		return nil, "", err
	}
	for _, s := range f.tr.srv {
		c := s.MustDial()
		v := c.MustDo("FOLLOW", "127.0.0.1", strconv.Itoa(f.leader.Port))
		c.Close()
		if v.IsErr() {
			f.stop()
			return nil, "", fmt.Errorf("FOLLOW: %s", v)
		}
	}
	deadline := time.Now().Add(40 * time.Second)
	for i, s := range f.tr.srv {
		for {
			ok := false
			c := s.MustDial()
			v := c.MustDo("SERVER")
			c.Close()
			if m, _, isMap := respPairs(v); isMap && m["caught_up"] == "true" {
				if d, err := t38.TakeDump(s.Addr); err == nil && want.Diff(d) == "" {
					ok = true
				}
			}
			if ok {
				break
			}
			if time.Now().After(deadline) {
				return f, fmt.Sprintf("follower %d did not show the leader's dataset within 40 s", i), nil
			}
			time.Sleep(20 * time.Millisecond)
		}
	}
	return f, "", nil
}

var followerSkip = map[string]bool{"follow": true, "slaveof": true, "readonly": true, "config set": true, "config rewrite": true, "config": true, "aofshrink": true, "replconf": true}

func runFollowerProgram(f *followerRig, c *ev.Collector, t ev.Failer, p *program) *runner {
	if err := f.tr.openLanes(); err != nil {
		panic(err)
	}
	r := newRunner(f.tr, c, t, p, exclusions{})
	for i := range p.Steps {
		st := &p.Steps[i]
		name, _, _ := cmdName(st.Args())
		if followerSkip[name] {
			continue
		}
		r.exec(i, st)
	}
	r.finish()
	return r
}

func TestC17_Follower(t *testing.T) {
	c := ev.New("C17", "follower", "exploration")
	t.Cleanup(c.Flush)
	c.Rule("a leader holding objects, a hook and a channel whose names need escaping, and three fresh followers that have caught up; cases of 6-14 steps drawn from the command table (valid and invalid shapes; commands that would reconfigure replication are left out) over drawn transports; writes must be refused identically (\"not the leader\") in every mode, reads answered identically. Non-trivial and distinctness as in the table sub-check.")
	f, inconclusive, err := startFollowers()
	if err != nil {
		t.Fatal(err)
	}
	defer f.stop()
	if inconclusive != "" {
		c.Case()
		c.Inconclusive("%s", inconclusive)
		return
	}
	var names []string
	for _, e := range table {
		if !followerSkip[e.Name] {
			names = append(names, e.Name)
		}
	}
	ns := gen.Names{Keys: []string{"k1", "k\"2", "k2", "j"}, IDs: []string{"a", "b", "c\xff", "i\x00d"}, Fields: []string{"f", "g", "h"}}
	ev.Rapid("follower", ev.Pick(60, 500))
	rapid.Check(t, func(rt *rapid.T) {
		g := newG(rt, c, ns)
		g.hooks, g.chans = []string{"h1"}, []string{"c\"1"}
		p := program{State: "follower"}
		for i := g.intn("nsteps", 6, 14); i > 0; i-- {
			name := rapid.SampledFrom(names).Draw(rt, "cmdname")
			sh := g.safeShape(name, -1)
			p.Steps = append(p.Steps, mkStep(sh.strings(), drawLane(rt), name, sh.Class))
		}
		p.Steps = append(p.Steps, followUps(g)...)
		r := runFollowerProgram(f, c, rt, &p)
		r.label("state:follower")
		r.commit()
	})
}

func replayFollower(t *testing.T, c *ev.Collector, p *program) {
	f, inconclusive, err := startFollowers()
	if err != nil {
		t.Fatal(err)
	}
	defer f.stop()
	if inconclusive != "" {
		c.Inconclusive("%s", inconclusive)
		return
	}
	runFollowerProgram(f, c, t, p).commit()
}

// ---- dev mode ------------------------------------------------------------------

func devProgram(rt *rapid.T, c *ev.Collector) program {
	g := newG(rt, c, gen.SmallNames)
	p := program{State: "devmode"}
	for i := g.intn("nsteps", 3, 8); i > 0; i-- {
		var args []string
		switch g.intn("dev", 0, 5) {
		case 0:
			args = []string{"SLEEP", g.pick("sleep", []string{"0", "0.001", "abc", "", "-1"})}
		case 1:
			args = []string{"SLEEP"}
			if g.chance("extra?", 1, 2) {
				args = append(args, "0", "0")
			}
		case 2:
			// only shapes that insert nothing: the inserted points are random
			args = []string{"MASSINSERT", g.pick("cols", []string{"0", "1", "2"}), "0"}
			if args[1] != "0" && g.chance("swap?", 1, 2) {
				args[1], args[2] = args[2], args[1]
			}
		case 3:
			args = [][]string{{"MASSINSERT"}, {"MASSINSERT", "1"}, {"MASSINSERT", "a", "b"}, {"MASSINSERT", "0", "-1"}, {"MASSINSERT", "0", "0", "1", "2", "3"}, {"MASSINSERT", "0", "0", "x", "2", "3", "4"}, {"MASSINSERT", "0", "0", "1", "2", "3", "4", "5"}}[g.intn("mi", 0, 6)]
		default:
			args = gen.KeyspaceCmd(rt, gen.SmallNames)
		}
		p.Steps = append(p.Steps, mkStep(args, drawLane(rt), "", "devmode"))
	}
	return p
}

func TestC17_DevMode(t *testing.T) {
	c := ev.New("C17", "devmode", "exploration")
	t.Cleanup(c.Flush)
	c.Rule("three servers in dev mode: SLEEP (valid, invalid), MASSINSERT (arity and number errors, and the shapes that insert nothing — inserted points are random, so inserting shapes cannot be compared across servers), keyspace traffic. SHUTDOWN is never sent (it ends the process). Same oracles. Distinct by (command, outcome, lane).")
	tr, err := startTrio(t38.Opts{DevMode: true})
	if err != nil {
		t.Fatal(err)
	}
	defer tr.stop()
	ev.Rapid("devmode", ev.Pick(40, 300))
	rapid.Check(t, func(rt *rapid.T) {
		p := devProgram(rt, c)
		r := newRunner(tr, c, rt, &p, exclusions{})
		r.run()
		r.commit()
		c.NonTrivial("devmode|" + fmt.Sprint(len(r.labels)))
	})
}

func replayDev(t *testing.T, c *ev.Collector, p *program) {
	tr, err := startTrio(t38.Opts{DevMode: true})
	if err != nil {
		t.Fatal(err)
	}
	defer tr.stop()
	r := newRunner(tr, c, t, p, exclusions{})
	r.run()
	r.commit()
}

// ---- streams: pub/sub and live fences over every transport ---------------------

// stream is a detached connection that yields payloads.
type stream struct {
	kind string // "resp", "json", "native", "ws"
	c    net.Conn
	br   *bufio.Reader
}

func openStream(addr, kind string, args []string) (*stream, error) {
	c, err := net.DialTimeout("tcp", addr, 5*time.Second)
	if err != nil {
		return nil, err
	}
	s := &stream{kind: kind, c: c, br: bufio.NewReader(c)}
	c.SetDeadline(time.Now().Add(ioTimeout))
	line := strings.Join(args, " ")
	switch kind {
	case "resp":
		_, err = c.Write(t38.EncodeCmd(args...))
	case "json":
		if _, err = c.Write(t38.EncodeCmd("OUTPUT", "json")); err == nil {
			if _, err = t38.ReadValue(s.br); err == nil {
				_, err = c.Write(t38.EncodeCmd(args...))
			}
		}
	case "native":
		_, err = io.WriteString(c, "$"+strconv.Itoa(len(line))+" "+line+"\r\n")
	case "ws":
		_, err = io.WriteString(c, "GET /"+pathEscape(line)+" HTTP/1.1\r\nHost: x\r\nUpgrade: websocket\r\nConnection: Upgrade\r\nSec-WebSocket-Version: 13\r\nSec-WebSocket-Key: dGhlIHNhbXBsZSBub25jZQ==\r\n\r\n")
		if err == nil {
			for {
				var h string
				if h, err = s.br.ReadString('\n'); err != nil || h == "\r\n" {
					break
				}
			}
		}
	}
	if err != nil {
		c.Close()
		return nil, err
	}
	return s, nil
}

// next returns the next payload: for "resp" the RESP value, otherwise the
// JSON text the transport frame wraps.
func (s *stream) next() (v t38.Value, payload string, err error) {
	s.c.SetDeadline(time.Now().Add(ioTimeout))
	switch s.kind {
	case "resp":
		v, err = t38.ReadValue(s.br)
		return v, "", err
	case "json":
		v, err = t38.ReadValue(s.br)
		if err == nil && (v.Kind != '$' || v.Null) {
			err = fmt.Errorf("JSON-mode stream element is not a bulk string: %s", v)
		}
		return v, v.Str, err
	case "native":
		payload, err = readNativeFrameStream(s.br)
		return v, payload, err
	default:
		payload, err = readWSFrame(s.br, false)
		return v, payload, err
	}
}

func readNativeFrameStream(br *bufio.Reader) (string, error) {
	head, err := br.ReadString(' ')
	if err != nil {
		return head, err
	}
	if len(head) < 3 || head[0] != '$' {
		return head, fmt.Errorf("native frame does not start with $n: %q", head)
	}
	n, err := strconv.Atoi(head[1 : len(head)-1])
	if err != nil || n < 0 {
		return head, fmt.Errorf("native frame has a bad length %q", head)
	}
	buf := make([]byte, n+2)
	if _, err := io.ReadFull(br, buf); err != nil {
		return string(buf), err
	}
	if buf[n] != '\r' || buf[n+1] != '\n' {
		return string(buf), fmt.Errorf("native frame of declared length %d is not followed by CRLF: %q", n, buf)
	}
	return string(buf[:n]), nil
}

// close ends the stream the polite way (QUIT, then wait for the server to
// close) so that the subscription is gone before the next case.
func deadlineIn(d time.Duration) time.Time { return time.Now().Add(d) }

func (s *stream) close() {
	s.c.SetDeadline(time.Now().Add(5 * time.Second))
	s.c.Write(t38.EncodeCmd("QUIT"))
	io.Copy(io.Discard, s.br)
	s.c.Close()
}

func isTimeout(err error) bool {
	var ne net.Error
	return errors.As(err, &ne) && ne.Timeout()
}

func compactJSON(s string) (string, bool) {
	var b bytes.Buffer
	if err := json.Compact(&b, []byte(s)); err != nil {
		return "", false
	}
	return b.String(), true
}

// normNotification parses a fence notification and drops what legitimately
// differs between servers (time, group id).
func normNotification(s string) (map[string]any, error) {
	v, err := parseJSON([]byte(s))
	if err != nil {
		return nil, err
	}
	m, ok := v.(map[string]any)
	if !ok {
		return nil, fmt.Errorf("notification is not an object")
	}
	delete(m, "time")
	delete(m, "group")
	return m, nil
}

type streamCase struct {
	Kind    string   `json:"kind"` // "pubsub" or "fence"
	Channel string   `json:"channel"`
	Msgs    []string `json:"msgs,omitempty"` // Go-quoted payloads
	Key     string   `json:"key,omitempty"`
	IDs     []string `json:"ids,omitempty"` // Go-quoted ids
}

var streamKinds = []string{"resp", "json", "native", "ws"}

func runStreamCase(c *ev.Collector, fail func(key, what string), tr *trio, sc streamCase, kinds []string) map[string]bool {
	labels := map[string]bool{}
	if err := tr.reset(); err != nil {
		if isDialErr(err) {
			c.Inconclusive("cannot reset: %v", err)
			return labels
		}
		panic(err)
	}
	srv := tr.srv[0]
	adm := tr.a
	unq := func(q string) string {
		u, err := strconv.Unquote(q)
		if err != nil {
			return q
		}
		return u
	}
	var openArgs []string
	switch sc.Kind {
	case "pubsub":
		openArgs = []string{"SUBSCRIBE", sc.Channel}
	default:
		openArgs = []string{"WITHIN", sc.Key, "FENCE", "BOUNDS", "-10", "-10", "10", "10"}
	}
	var ss []*stream
	defer func() {
		for _, s := range ss {
			s.close()
		}
	}()
	for _, kind := range kinds {
		if (kind == "native" || kind == "ws") && !lineCarriable(openArgs, false) {
			continue
		}
		s, err := openStream(srv.Addr, kind, openArgs)
		if err != nil {
			if isDialErr(err) {
				c.Inconclusive("cannot open the %s stream: %v", kind, err)
				return labels
			}
			fail("transport:stream", fmt.Sprintf("%s: %v", kind, err))
		}
		ss = append(ss, s)
		// first element: the acknowledgement
		v, payload, err := s.next()
		if err != nil {
			if isTimeout(err) {
				c.Inconclusive("no acknowledgement on the %s stream within %v", kind, ioTimeout)
				return labels
			}
			fail("stream-frame:"+kind, fmt.Sprintf("%s %s: acknowledgement: %v (got %q)", kind, t38.CmdString(openArgs), err, payload))
		}
		labels["ack:"+kind] = true
		if kind == "resp" {
			okSub := v.Kind == '*' && len(v.Arr) == 3 && v.Arr[0].Str == "subscribe"
			okLive := v.Kind == '+' && v.Str == "OK"
			if !(sc.Kind == "pubsub" && okSub || sc.Kind == "fence" && okLive) {
				fail("disagree:stream-ack", fmt.Sprintf("resp %s: acknowledgement %s", t38.CmdString(openArgs), v))
			}
			continue
		}
		rep, err := t38.DecodeJSONReply(payload)
		if err != nil {
			key := "json-malformed:stream-ack"
			if sc.Kind == "fence" && (kind == "ws" || kind == "native") && strings.HasPrefix(payload, "$") {
				key = idLiveAckWrapped
			}
			fail(key, fmt.Sprintf("%s %s: the acknowledgement frame does not wrap exactly one JSON document: %q (%v)", kind, t38.CmdString(openArgs), payload, err))
		}
		if !rep.OK {
			fail("disagree:stream-ack", fmt.Sprintf("%s %s: acknowledgement %s", kind, t38.CmdString(openArgs), payload))
		}
	}
	// events
	var events [][]string
	switch sc.Kind {
	case "pubsub":
		for _, q := range sc.Msgs {
			events = append(events, []string{"PUBLISH", sc.Channel, unq(q)})
		}
	default:
		for i, q := range sc.IDs {
			events = append(events, []string{"SET", sc.Key, unq(q), "FIELD", "f", strconv.Itoa(i + 1), "POINT", strconv.Itoa(i % 5), strconv.Itoa(i % 7)})
		}
	}
	for _, evt := range events {
		v, err := adm.Do(evt...)
		if err != nil || v.IsErr() {
			fail("disagree:stream-event", fmt.Sprintf("%s: %v %v", t38.CmdString(evt), v, err))
		}
		if sc.Kind == "pubsub" && (v.Kind != ':' || int(v.Int) < len(ss)) {
			fail("disagree:publish", fmt.Sprintf("%s answers %s with %d subscribers", t38.CmdString(evt), v, len(ss)))
		}
		if sc.Kind == "pubsub" && int(v.Int) != len(ss) {
			labels["publish-counted-a-closing-subscriber"] = true // the server drops a closed subscriber asynchronously
		}
		nmsg := 1
		if sc.Kind == "fence" {
			nmsg = 2 // enter + inside
		}
		for k := 0; k < nmsg; k++ {
			var ref string // RESP-mode payload
			for _, s := range ss {
				v, payload, err := s.next()
				if err != nil {
					if isTimeout(err) {
						c.Inconclusive("no message on the %s stream within %v", s.kind, ioTimeout)
						return labels
					}
					fail("stream-frame:"+s.kind, fmt.Sprintf("%s after %s: %v (got %q)", s.kind, t38.CmdString(evt), err, payload))
				}
				labels["msg:"+s.kind] = true
				switch sc.Kind {
				case "pubsub":
					msg := evt[2]
					if s.kind == "resp" {
						if !(v.Kind == '*' && len(v.Arr) == 3 && v.Arr[0].Str == "message" && v.Arr[1].Str == sc.Channel && v.Arr[2].Str == msg) {
							fail("disagree:message", fmt.Sprintf("resp subscriber got %s for %s", v, t38.CmdString(evt)))
						}
						continue
					}
					got, ok := compactJSON(payload)
					if !ok {
						fail("json-malformed:message", fmt.Sprintf("%s subscriber got a payload that is not JSON: %q for %s", s.kind, payload, t38.CmdString(evt)))
					}
					if want, isJSON := compactJSON(msg); isJSON {
						if got != want {
							fail("disagree:message", fmt.Sprintf("%s subscriber got %q for the JSON message %q", s.kind, payload, msg))
						}
						labels["msg-json-passthrough"] = true
					} else {
						var str string
						if json.Unmarshal([]byte(payload), &str) != nil || str != lossy(msg) {
							fail("disagree:message", fmt.Sprintf("%s subscriber got %q for the text message %q", s.kind, payload, msg))
						}
						if strings.Contains(payload, "\\") {
							labels["msg-escaped"] = true
						}
					}
				default:
					text := payload
					if s.kind == "resp" {
						// live fence notifications are bulk strings on a RESP connection
						if v.Kind != '$' || v.Null {
							fail("disagree:notification", fmt.Sprintf("resp live fence got %s", v))
						}
						text = v.Str
					}
					m, err := normNotification(text)
					if err != nil {
						fail("json-malformed:notification", fmt.Sprintf("%s live fence: notification is not one JSON object: %q (%v)", s.kind, text, err))
					}
					if id, _ := m["id"].(string); id != lossy(evt[2]) {
						fail("disagree:notification", fmt.Sprintf("%s live fence: notification id %q for %s", s.kind, id, t38.CmdString(evt)))
					}
					b, _ := json.Marshal(m)
					if ref == "" {
						ref = string(b)
					} else if ref != string(b) {
						fail("disagree:notification", fmt.Sprintf("notification differs between transports: %s vs %s (%s)", ref, b, s.kind))
					}
					if strings.Contains(text, "\\") {
						labels["notification-escaped"] = true
					}
				}
			}
		}
	}
	return labels
}

func TestC17_Streams(t *testing.T) {
	c := ev.New("C17", "streams", "exploration")
	t.Cleanup(c.Flush)
	c.Rule("pub/sub and live geofence streams opened over a RESP connection, a JSON-mode connection, the native $n transport and a WebSocket on one server: the acknowledgement and every message frame must wrap exactly one JSON document (RESP: one strict value); a published text arrives as the JSON string of that text, a published JSON document arrives unchanged; fence notifications for ids that need escaping are the same object on every transport. Non-trivial: a delivered payload contains an escape sequence; distinct by (kind, channel/key, messages).")
	// deterministic probe of the going-live acknowledgement
	probe := streamCase{Kind: "fence", Key: "fleet", IDs: []string{strconv.Quote("truck1")}}
	var pend *probeFailure
	func() {
		defer func() {
			if v := recover(); v != nil {
				pf, ok := v.(probeFailure)
				if !ok {
					panic(v)
				}
				pend = &pf
			}
		}()
		runStreamCase(c, func(key, what string) { panic(probeFailure{key, what}) }, mainTrio, probe, streamKinds)
	}()
	c.Case()
	wrapped := false
	if pend != nil {
		if pend.key != idLiveAckWrapped {
			c.Violation(pend.key, pend.what, probe)
			t.Fatalf("VIOLATION-CANDIDATE key=%s: %s", pend.key, pend.what)
		}
		wrapped = true
		c.Label("probe-reproduces:" + idLiveAckWrapped)
		if ev.Shard() != 0 {
			// reported once, by shard 0
		} else if ev.KnownActive(idLiveAckWrapped) {
			c.Known(idLiveAckWrapped, pend.what)
		} else {
			c.Violation(idLiveAckWrapped, pend.what, probe)
			t.Logf("VIOLATION-CANDIDATE key=%s: %s", idLiveAckWrapped, pend.what)
			defer t.Fail()
		}
	}
	kinds := []string{"pubsub", "fence"}
	ev.Rapid("streams", ev.Pick(60, 600))
	rapid.Check(t, func(rt *rapid.T) {
		sc := streamCase{Kind: rapid.SampledFrom(kinds).Draw(rt, "kind")}
		use := streamKinds
		pool := append([]string{"plain", `{"a":1}`, `{"a": [1, 2,  {"b":null}]}`, `[1,"x"]`, `"quoted"`, "12", "true", `{"unterminated`}, hostilePool...)
		switch sc.Kind {
		case "pubsub":
			sc.Channel = rapid.SampledFrom([]string{"ch", "c:1", "sub.x", "a-b"}).Draw(rt, "channel")
			for _, m := range rapid.SliceOfN(rapid.SampledFrom(pool), 1, 4).Draw(rt, "msgs") {
				if m == "" {
					continue // an empty message is never written to a stream
				}
				sc.Msgs = append(sc.Msgs, strconv.Quote(m))
			}
		default:
			sc.Key = rapid.SampledFrom([]string{"fleet", "k1", "a-b"}).Draw(rt, "key")
			for _, id := range distinct(rapid.SliceOfN(rapid.SampledFrom(hostilePool), 1, 3).Draw(rt, "ids")) {
				sc.IDs = append(sc.IDs, strconv.Quote(id))
			}
			if wrapped {
				// the native / WebSocket fence streams do not get past their first frame
				c.Excluded(idLiveAckWrapped)
				use = []string{"resp", "json"}
			}
		}
		c.Case()
		labels := runStreamCase(c, func(key, what string) { c.Fail(rt, key, what, sc) }, mainTrio, sc, use)
		for l := range labels {
			c.Label(l)
		}
		c.Label("stream:" + sc.Kind)
		if labels["msg-escaped"] || labels["notification-escaped"] {
			c.NonTrivial(fmt.Sprintf("%s|%s|%s|%v|%v", sc.Kind, sc.Channel, sc.Key, sc.Msgs, sc.IDs))
			if c.WantSample() {
				c.Sample(sc)
			}
		}
	})
}

// probeFailure unwinds a deterministic probe that reuses code written for
// rapid properties.
type probeFailure struct{ key, what string }

func replayStreams(t *testing.T, c *ev.Collector, data []byte) {
	var sc streamCase
	if err := json.Unmarshal(data, &sc); err != nil {
		t.Fatalf("bad replay data: %v", err)
	}
	runStreamCase(c, func(key, what string) { c.Fail(t, key, what, sc) }, mainTrio, sc, streamKinds)
}

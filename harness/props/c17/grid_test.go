package c17

// TestC17_Grid: a fixed dataset whose names, values and fields need JSON
// escaping, and a complete enumeration of (command x output kind x one
// modifier) for the commands whose replies are assembled by hand, each sent
// over every transport that can carry it. This makes the coverage of reply
// formats independent of the random draws.

import (
	"fmt"
	"strconv"
	"testing"

	"github.com/tidwall/tile38/verif/harness/ev"
)

func gridDataset() [][]string {
	poly := `{"type":"Polygon","coordinates":[[[-112.4,33.4],[-112.1,33.4],[-112.1,33.7],[-112.4,33.7],[-112.4,33.4]]]}`
	feat := `{"type":"Feature","id":"f\"1","geometry":{"type":"Point","coordinates":[-112.26,33.51]},"properties":{"n\"m":"é\\\u0000","tag":[1,{"z":null}]}}`
	return [][]string{
		{"SET", "fleet", "t1", "FIELD", "speed", "10", "FIELD", "name", `a"b`, "POINT", "33.5", "-112.25"},
		{"SET", "fleet", "t2", "FIELD", "speed", "0", "FIELD", "fl\"ag", "true", "POINT", "33.6", "-112.3", "120.5"},
		{"SET", "fleet", "t3", "FIELD", "tags", `{"a": [1, 2]}`, "OBJECT", poly},
		{"SET", "fleet", "t\"4", "FIELD", "speed", "7.5", "STRING", "he said \"hi\"\n\\"},
		{"SET", "fleet", "t\xff5", "FIELD", "name", "\x01 <&>", "OBJECT", feat},
		{"SET", "fleet", "t6", "EX", "500000", "BOUNDS", "33", "-113", "34", "-112"},
		{"SET", "fleet", "t7", "FIELD", "speed", "nan", "HASH", "9tbnwg"},
		{"SET", "k\"ey", "a", "STRING", "plain"},
		{"SET", "k\"ey", "b\n", "FIELD", "speed", "-3", "STRING", `{"a":{"b":"c"},"n":[1,2]}`},
		{"JSET", "fleet", "j1", "a.b", "q\"uote"},
		{"SETHOOK", "h\"1", hookURLs[0], "META", "m", "v\"q", "META", "é", "\\", "NEARBY", "fleet", "FENCE", "DETECT", "enter,exit", "POINT", "33.5", "-112.2", "5000"},
		{"SETHOOK", "h2", hookURLs[3], "EX", "500000", "INTERSECTS", "fleet", "MATCH", "t*", "FENCE", "OBJECT", poly},
		{"SETCHAN", "c\\1", "EX", "500000", "WITHIN", "fleet", "FENCE", "BOUNDS", "33", "-113", "34", "-112"},
		{"SETCHAN", "c2", "META", "k", "v", "NEARBY", "fleet", "FENCE", "ROAM", "fleet", "*", "1000"},
		{"SCRIPT", "LOAD", "return true"},
	}
}

func gridCommands() [][]string {
	var out [][]string
	add := func(args ...string) { out = append(out, args) }
	cat := func(parts ...[]string) []string {
		var a []string
		for _, p := range parts {
			a = append(a, p...)
		}
		return a
	}
	outputs := [][]string{nil, {"COUNT"}, {"IDS"}, {"OBJECTS"}, {"POINTS"}, {"BOUNDS"}, {"HASHES", "6"}}
	scanMods := [][]string{nil, {"NOFIELDS"}, {"LIMIT", "2"}, {"CURSOR", "1"}, {"LIMIT", "2", "CURSOR", "2"}, {"MATCH", "t*"}, {"MATCH", "*\"*"},
		{"WHERE", "speed", "1", "20"}, {"WHERE", "speed > 5"}, {"WHEREIN", "speed", "2", "10", "7.5"}, {"DESC"}, {"ASC", "LIMIT", "3"},
		{"WHEREEVAL", "return FIELDS.speed ~= nil", "0"}, {"WHEREEVALSHA", sha1hex("return true"), "0"}}
	for _, cmd := range []string{"SCAN", "SEARCH"} {
		for _, key := range []string{"fleet", "k\"ey", "nokey"} {
			for _, o := range outputs {
				for _, m := range scanMods {
					if key != "fleet" && len(m) > 0 && m[0] != "LIMIT" {
						continue
					}
					add(cat([]string{cmd, key}, m, o)...)
				}
			}
		}
	}
	nearMods := [][]string{nil, {"DISTANCE"}, {"NOFIELDS"}, {"LIMIT", "2"}, {"DISTANCE", "LIMIT", "2"}, {"DISTANCE", "NOFIELDS"}, {"MATCH", "t[1-3]"}, {"WHERE", "speed", "1", "20"}, {"SPARSE", "2"}, {"DISTANCE", "CURSOR", "1"}}
	for _, o := range outputs {
		for _, m := range nearMods {
			add(cat([]string{"NEARBY", "fleet"}, m, o, []string{"POINT", "33.5", "-112.25", "100000"})...)
			if len(m) == 0 || m[0] == "DISTANCE" {
				add(cat([]string{"NEARBY", "fleet"}, m, o, []string{"POINT", "33.5", "-112.25"})...)
			}
		}
	}
	areas := [][]string{{"BOUNDS", "33", "-113", "34", "-112"}, {"CIRCLE", "33.5", "-112.25", "20000"}, {"GET", "fleet", "t3"}, {"HASH", "9tbn"}, {"TILE", "24", "51", "7"}, {"QUADKEY", "0231"}, {"SECTOR", "33.5", "-112.25", "30000", "0", "90"}}
	for _, cmd := range []string{"WITHIN", "INTERSECTS"} {
		mods := [][]string{nil, {"NOFIELDS"}, {"LIMIT", "2"}, {"SPARSE", "3"}, {"WHERE", "speed", "1", "20"}, {"BUFFER", "1000"}}
		if cmd == "INTERSECTS" {
			mods = append(mods, []string{"CLIP"})
		}
		for _, o := range outputs {
			for _, m := range mods {
				for ai, a := range areas {
					if len(m) > 0 && ai > 1 && !(m[0] == "CLIP" && (ai == 3 || ai == 4)) {
						continue
					}
					if len(m) > 0 && m[0] == "CLIP" && (ai == 1 || ai == 2) {
						continue // CLIP needs a rectangle
					}
					add(cat([]string{cmd, "fleet"}, m, o, a)...)
				}
			}
		}
		add(cmd, "fleet", "MVT", "24", "51", "7")
		if cmd == "INTERSECTS" {
			// the commands HTTP GET /fleet/z/x/y.mvt|.pbf[?limit=|?sparse=] are rewritten to
			for _, tile := range [][3]string{{"0", "0", "0"}, {"24", "51", "7"}, {"0", "1", "1"}, {"1", "0", "1"}, {"49", "103", "8"}, {"3", "3", "2"}} {
				add(cmd, "fleet", "LIMIT", "100000000", "MVT", tile[0], tile[1], tile[2])
				add(cmd, "fleet", "LIMIT", "2", "MVT", tile[0], tile[1], tile[2])
				add(cmd, "fleet", "SPARSE", "3", "MVT", tile[0], tile[1], tile[2])
			}
			add(cmd, "nokey", "LIMIT", "100000000", "MVT", "0", "0", "0")
		}
		add(cmd, "fleet", "COUNT", "MVT", "0", "0", "0")
		add(cmd, "fleet", "OBJECT", `{"type":"Polygon","coordinates":[[[-113,33],[-112,33],[-112,34],[-113,34],[-113,33]]]}`)
	}
	ids := []string{"t1", "t2", "t3", "t\"4", "t\xff5", "t6", "t7", "j1", "noid"}
	kinds := [][]string{nil, {"OBJECT"}, {"POINT"}, {"BOUNDS"}, {"HASH", "7"}}
	for _, id := range ids {
		for _, k := range kinds {
			add(cat([]string{"GET", "fleet", id}, k)...)
			add(cat([]string{"GET", "fleet", id, "WITHFIELDS"}, k)...)
		}
		add("TTL", "fleet", id)
		add("EXISTS", "fleet", id)
		for _, f := range []string{"speed", "name", "fl\"ag", "tags", "nofield"} {
			add("FGET", "fleet", id, f)
			add("FEXISTS", "fleet", id, f)
		}
		add("JGET", "fleet", id)
		add("JGET", "fleet", id, "properties")
		add("JGET", "fleet", id, "properties.n\\\"m", "RAW")
		add("JGET", "fleet", id, "a.b")
	}
	for _, k := range kinds[1:] {
		add(cat([]string{"SET", "fleet", "r1", "FIELD", "speed", "3", "POINT", "33.52", "-112.24", "RETURN"}, k)...)
		add(cat([]string{"SET", "fleet", "r1", "FIELD", "na\"me", "x\\y", "POINT", "33.52", "-112.24", "9", "RETURN", "WITHFIELDS"}, k)...)
		add(cat([]string{"SET", "fleet", "r2", "STRING", "s\"tr", "RETURN"}, k)...)
		add(cat([]string{"FSET", "fleet", "t1", "speed", "11", "RETURN"}, k)...)
		add(cat([]string{"FSET", "fleet", "t1", "extra", `{"x":1}`, "RETURN", "WITHFIELDS"}, k)...)
	}
	add("SET", "fleet", "t1", "NX", "POINT", "1", "2")
	add("SET", "fleet", "nonexistent", "XX", "POINT", "1", "2")
	add("FSET", "fleet", "nonexistent", "XX", "speed", "1")
	add("FSET", "fleet", "t1", "speed", "11", "name", "new\"name")
	for _, k := range []string{"fleet", "k\"ey", "nokey"} {
		add("TYPE", k)
		add("BOUNDS", k)
		add("STATS", k, "nokey", "fleet")
	}
	for _, p := range []string{"*", "k*", "*\"*", "nomatch"} {
		add("KEYS", p)
		add("HOOKS", p)
		add("CHANS", p)
	}
	add("HOOKS", "h\"*")
	add("CHANS", "c\\\\*")
	add("SERVER")
	add("SERVER", "EXT")
	add("INFO")
	add("INFO", "server", "replication")
	add("INFO", "all")
	add("ROLE")
	add("HEALTHZ")
	add("CONFIG", "GET", "*")
	add("CONFIG", "GET", "max*")
	add("CLIENT", "LIST")
	add("CLIENT", "SETNAME", "na\"me")
	add("CLIENT", "GETNAME")
	for _, n := range []string{"007", "1e3", "0x1p4", "true", "null", "-0", "1.0"} {
		add("CLIENT", "SETNAME", n)
		add("CLIENT", "GETNAME")
		add("CLIENT", "LIST")
	}
	add("CLIENT", "SETNAME", "plain")
	add("REPLCONF", "listening-port", "4242")
	add("ROLE")
	add("INFO", "replication")
	add("AOFMD5", "0", "0")
	add("AOFMD5", "0", "99999999")
	add("PING")
	add("PING", "he\"llo\n")
	add("ECHO", "é\xff")
	add("OUTPUT")
	add("PUBLISH", "c\\1", "m\"sg")
	add("SCRIPT", "EXISTS", sha1hex("return true"), sha1hex("nope"))
	for _, s := range scriptPool {
		add("EVAL", s, "1", "fleet", "t1", "v\"al")
		add("EVALRO", s, "1", "fleet", "t\"4")
	}
	for _, sc := range scriptMixedReserved {
		add("EVAL", sc, "0")
		add("EVALRO", sc, "0")
		add("EVALNA", sc, "0")
		add("SCRIPT", "LOAD", sc)
		add("EVALSHA", sha1hex(sc), "0")
		add("EVALROSHA", sha1hex(sc), "0")
		add("EVALNASHA", sha1hex(sc), "0")
	}
	add("EVALSHA", sha1hex("return true"), "0")
	add("EVALNASHA", sha1hex("nope"), "0")
	testAreas := [][]string{{"POINT", "33.5", "-112.25"}, {"BOUNDS", "33", "-113", "34", "-112"}, {"CIRCLE", "33.5", "-112.25", "5000"}, {"GET", "fleet", "t3"}, {"GET", "fleet", "t\"4"}, {"HASH", "9tbn"}}
	for _, a1 := range testAreas {
		for _, a2 := range testAreas {
			add(cat([]string{"TEST"}, a1, []string{"WITHIN"}, a2)...)
			add(cat([]string{"TEST"}, a1, []string{"INTERSECTS"}, a2)...)
			if a2[0] == "BOUNDS" || a2[0] == "HASH" {
				add(cat([]string{"TEST"}, a1, []string{"INTERSECTS", "CLIP"}, a2)...)
			}
		}
	}
	add("TEST", "POINT", "33.5", "-112.25", "WITHIN", "(", "BOUNDS", "33", "-113", "34", "-112", "AND", "NOT", "HASH", "9tbn", ")")
	for _, in := range [][]string{{"GET", "fleet", "t1", "WITHFIELDS"}, {"SCAN", "fleet", "LIMIT", "2"}, {"NEARBY", "fleet", "DISTANCE", "IDS", "POINT", "33.5", "-112.25"}, {"SET", "fleet", "x", "POINT", "1", "2"}, {"KEYS", "*"}, {"GET", "fleet"}} {
		add(cat([]string{"TIMEOUT", "120"}, in)...)
	}
	// errors of every class
	add("GET", "fleet")
	add("GET", "fleet", "t1", "HASH", "99")
	add("GET", "fleet", "t1", "BOGUS")
	add("SCAN", "fleet", "LIMIT", "0")
	add("SCAN", "fleet", "LIMIT", "x\"y\n")
	add("SCAN", "fleet", "SPARSE", "2")
	add("NEARBY", "fleet", "POINT", "abc", "1")
	add("WITHIN", "fleet", "GET", "fleet", "noid")
	add("WITHIN", "fleet", "GET", "nokey", "x")
	add("NOSUCH\"COMMAND\r\n", "x")
	add("SET", "fleet", "e", "OBJECT", `{"type":"Nope"}`)
	add("SET", "fleet", "e", "OBJECT", `{"type":"Point","coordinates":[1`)
	add("SETHOOK", "h3", "nope://x", "NEARBY", "fleet", "FENCE", "POINT", "1", "2", "3")
	add("SETHOOK", "c2", hookURLs[0], "NEARBY", "fleet", "FENCE", "POINT", "1", "2", "3")
	add("RENAME", "fleet", "other")
	add("EVAL", "return tile38.call('get', 'fleet', 'noid')", "0")
	add("EVAL", "return tile38.call('nosuch')", "0")
	add("SCAN", "fleet", "WHEREEVAL", "return (", "0")
	add("SCAN", "fleet", "WHEREEVAL", "error('x\\ny')", "0")
	return out
}

func TestC17_Grid(t *testing.T) {
	c := ev.New("C17", "grid", "exploration")
	t.Cleanup(c.Flush)
	c.Rule("fixed dataset (points with z and fields, polygon, feature with escaped properties, strings, hash, bounds with expiry, ids / keys / field names / values with quotes, backslashes, control bytes, U+2028, HTML-sensitive characters, non-ASCII and invalid UTF-8; two hooks and two channels with metas) and a complete enumeration of: SCAN/SEARCH x 7 outputs x 14 modifiers, NEARBY x 7 outputs x 10 modifiers (with and without radius), WITHIN/INTERSECTS x 7 outputs x modifiers x 7 area kinds (+MVT, CLIP), GET x 9 ids x {WITHFIELDS} x 5 kinds, SET/FSET RETURN kinds, TTL/EXISTS/FGET/FEXISTS/JGET per id, TYPE/BOUNDS/STATS/KEYS/HOOKS/CHANS, SERVER/INFO/ROLE/CONFIG GET/CLIENT, the script pool under EVAL and EVALRO, TEST over 6x6 areas with WITHIN/INTERSECTS/CLIP, TIMEOUT wrappers and one error of every class; every command is sent over each of the 7 lanes (transports that cannot carry its arguments fall back to plain connections). Oracles as in the table sub-check. Non-trivial: JSON payload with an escape or a non-empty array/object; distinct by (command line, outcome, lane).")
	if ev.Shard() != 0 {
		t.Skip("the enumeration runs on shard 0 only")
	}
	ex := exclusionsNow()
	var p program
	p.State = "grid"
	for _, cmd := range gridDataset() {
		p.Steps = append(p.Steps, mkStep(cmd, "c-resp", "", "setup"))
	}
	cmds := gridCommands()
	if !ex.evalNonFinite {
		for _, s := range scriptNonFinite {
			cmds = append(cmds, []string{"EVAL", s, "0"})
		}
	} else {
		c.Excluded(idEvalNonFinite)
	}
	if !ex.oddKeys {
		for _, s := range scriptOddKeys {
			cmds = append(cmds, []string{"EVAL", s, "0"})
		}
	} else {
		c.Excluded(idEvalOddKeys)
	}
	if !ex.errTop {
		for _, sc := range scriptErrTop {
			cmds = append(cmds, []string{"EVAL", sc, "0"}, []string{"EVALRO", sc, "0"})
		}
	}
	if !ex.bigNum {
		for _, sc := range scriptBigNum {
			cmds = append(cmds, []string{"EVAL", sc, "0"}, []string{"EVALNA", sc, "0"})
		}
	}
	if !ex.nonFinite {
		cmds = append(cmds, []string{"SET", "fleet", "nf", "POINT", "nan", "inf"}, []string{"GET", "fleet", "nf", "POINT"}, []string{"SCAN", "fleet", "BOUNDS"}, []string{"NEARBY", "fleet", "DISTANCE", "POINT", "1", "2"}, []string{"DEL", "fleet", "nf"})
	} else {
		c.Excluded(idNonFiniteCoords)
	}
	for _, cmd := range cmds {
		if why := unsafeReason(cmd); why != "" {
			if why == idCrashNearbyBuffer {
				c.Excluded(why)
			}
			c.Label("skipped:" + why)
			continue
		}
		for _, lane := range lanesAll {
			name, _, _ := cmdName(cmd)
			p.Steps = append(p.Steps, mkStep(cmd, lane, name, "grid"))
		}
	}
	// circle Features whose disc touches a pole, and every output that prints a box or a distance
	for i, pc := range []struct{ lat, lon float64 }{{1.5, 10}, {-60, -170}, {88, 0}, {0, 180}} {
		for j, d := range polarDeltas {
			id := fmt.Sprintf("c%d_%d", i, j)
			for _, cmd := range append([][]string{{"SET", "polar", id, "FIELD", "n", strconv.Itoa(j + 1), "OBJECT", polarCircle(pc.lat, pc.lon, d)}}, polarQueries("polar", id)[:5]...) {
				name, _, _ := cmdName(cmd)
				p.Steps = append(p.Steps, mkStep(cmd, lanesAll[(i*7+j)%len(lanesAll)], name, "grid"))
			}
		}
	}
	for k, cmd := range polarQueries("polar", "c0_0")[5:] {
		for l := 0; l < 3; l++ {
			name, _, _ := cmdName(cmd)
			p.Steps = append(p.Steps, mkStep(cmd, lanesAll[(k+l*3)%len(lanesAll)], name, "grid"))
		}
	}
	nfSteps := nonFiniteSlotSteps()
	p.Steps = append(p.Steps, nfSteps...)
	c.LabelN("nonfinite-slot-steps", len(nfSteps))
	r := newRunner(mainTrio, c, t, &p, ex)
	r.run() // grid steps are keyed by their command line, not by command name
	r.commit()
	c.Exhaustive(true)
	c.States(len(cmds), len(p.Steps))
}

// nonFiniteSpellings go into every numeric operand slot of the templates
// below: the command must be refused in both modes or answered well-formed in
// both (and a stored non-finite value must not surface later as bare NaN/Inf).
var nonFiniteSpellings = []string{"nan", "NaN", "inf", "+Inf", "-inf", "1e999"}

func nonFiniteSlotSteps() []step {
	type tmpl struct {
		args  []string
		slots []int
		after [][]string // read-backs / clean-up sent right after each variant
	}
	readNF := [][]string{{"GET", "nf", "a", "POINT"}, {"GET", "nf", "a", "BOUNDS"}, {"SCAN", "nf", "POINTS"}, {"SCAN", "nf", "BOUNDS"}, {"NEARBY", "nf", "DISTANCE", "POINT", "1", "2"}, {"BOUNDS", "nf"}, {"DEL", "nf", "a"}}
	ts := []tmpl{
		{[]string{"NEARBY", "fleet", "DISTANCE", "POINT", "33.5", "-112.25", "100000"}, []int{4, 5, 6}, nil},
		{[]string{"NEARBY", "fleet", "DISTANCE", "IDS", "LIMIT", "3", "POINT", "33.5", "-112.25"}, []int{5, 7, 8}, nil},
		{[]string{"NEARBY", "fleet", "SPARSE", "2", "POINT", "33.5", "-112.25", "100000"}, []int{3, 7}, nil},
		{[]string{"WITHIN", "fleet", "CIRCLE", "33.5", "-112.25", "20000"}, []int{3, 4, 5}, nil},
		{[]string{"INTERSECTS", "fleet", "DISTANCE", "CIRCLE", "33.5", "-112.25", "20000"}, []int{4, 5, 6}, nil},
		{[]string{"WITHIN", "fleet", "BOUNDS", "33", "-113", "34", "-112"}, []int{3, 4, 5, 6}, nil},
		{[]string{"INTERSECTS", "fleet", "CLIP", "BOUNDS", "33", "-113", "34", "-112"}, []int{4, 5, 6, 7}, nil},
		{[]string{"INTERSECTS", "fleet", "SECTOR", "33.5", "-112.25", "30000", "0", "90"}, []int{3, 4, 5, 6, 7}, nil},
		{[]string{"WITHIN", "fleet", "TILE", "24", "51", "7"}, []int{3, 4, 5}, nil},
		{[]string{"WITHIN", "fleet", "MVT", "24", "51", "7"}, []int{3, 4, 5}, nil},
		{[]string{"WITHIN", "fleet", "BUFFER", "1000", "BOUNDS", "33", "-113", "34", "-112"}, []int{3}, nil},
		{[]string{"INTERSECTS", "fleet", "BUFFER", "1000", "CIRCLE", "33.5", "-112.25", "1000"}, []int{3}, nil},
		{[]string{"SCAN", "fleet", "LIMIT", "3", "CURSOR", "1"}, []int{3, 5}, nil},
		{[]string{"SCAN", "fleet", "HASHES", "6"}, []int{3}, nil},
		{[]string{"SCAN", "fleet", "WHERE", "speed", "1", "20"}, []int{4, 5}, nil},
		{[]string{"SCAN", "fleet", "WHEREIN", "speed", "2", "10", "7.5"}, []int{4, 5}, nil},
		{[]string{"GET", "fleet", "t1", "HASH", "7"}, []int{4}, nil},
		{[]string{"TEST", "POINT", "33.5", "-112.25", "WITHIN", "CIRCLE", "33.5", "-112.25", "5000"}, []int{2, 3, 6, 7, 8}, nil},
		{[]string{"TEST", "BOUNDS", "1", "2", "3", "4", "INTERSECTS", "CLIP", "BOUNDS", "0", "0", "5", "5"}, []int{2, 5, 9, 12}, nil},
		{[]string{"TIMEOUT", "120", "SCAN", "fleet", "LIMIT", "2"}, []int{1}, nil},
		{[]string{"SET", "nf", "a", "POINT", "1", "2", "3"}, []int{4, 5, 6}, readNF},
		{[]string{"SET", "nf", "a", "BOUNDS", "1", "2", "3", "4"}, []int{4, 5, 6, 7}, readNF},
		{[]string{"SET", "nf", "a", "FIELD", "f", "1", "POINT", "1", "2"}, []int{5}, [][]string{{"GET", "nf", "a", "WITHFIELDS"}, {"FGET", "nf", "a", "f"}, {"SCAN", "nf", "WHERE", "f", "-inf", "+inf"}, {"SCAN", "nf", "WHERE", "f == 1"}, {"DEL", "nf", "a"}}},
		{[]string{"FSET", "fleet", "t6", "speed", "1"}, []int{4}, [][]string{{"FGET", "fleet", "t6", "speed"}, {"SCAN", "fleet", "LIMIT", "3", "DESC"}, {"FSET", "fleet", "t6", "speed", "0"}}},
		{[]string{"SET", "nf", "a", "EX", "500000", "POINT", "1", "2"}, []int{4}, [][]string{{"DEL", "nf", "a"}}},
		{[]string{"EXPIRE", "nf", "a", "500000"}, []int{3}, [][]string{{"DEL", "nf", "a"}}},
		{[]string{"SETHOOK", "nfh", hookURLs[0], "EX", "500000", "NEARBY", "fleet", "FENCE", "POINT", "33.5", "-112.2", "5000"}, []int{4, 9, 10, 11}, [][]string{{"HOOKS", "nfh"}, {"DELHOOK", "nfh"}}},
		{[]string{"SETCHAN", "nfc", "NEARBY", "fleet", "FENCE", "ROAM", "fleet", "*", "1000"}, []int{8}, [][]string{{"CHANS", "nfc"}, {"DELCHAN", "nfc"}}},
		{[]string{"JSET", "nf", "j", "v", "1"}, []int{4}, [][]string{{"JGET", "nf", "j"}, {"JGET", "nf", "j", "v", "RAW"}, {"DEL", "nf", "j"}}},
		{[]string{"AOFMD5", "0", "0"}, []int{1, 2}, nil},
		{[]string{"REPLCONF", "listening-port", "4242"}, []int{2}, nil},
	}
	var out []step
	n := 0
	for _, t := range ts {
		for _, slot := range t.slots {
			for _, sp := range nonFiniteSpellings {
				args := append([]string{}, t.args...)
				args[slot] = sp
				lane := lanesAll[n%len(lanesAll)]
				n++
				if args[0] == "EXPIRE" {
					// needs an object, set right before it (a deadline in the past removes it soon after)
					st := mkStep([]string{"SET", "nf", "a", "POINT", "1", "2"}, "c-resp", "set", "nonfinite-slot")
					st.Force = true
					out = append(out, st)
				}
				name, _, _ := cmdName(args)
				st := mkStep(args, lane, name, "nonfinite-slot")
				st.Force = true
				out = append(out, st)
				after := t.after
				if sp == "-inf" && len(after) > 1 && (args[0] == "SETHOOK" || args[0] == "SETCHAN") && slot == 4 {
					// a deadline in the past: the hook disappears with the next sweep, at
					// different moments on the three servers; only clean up
					after = after[len(after)-1:]
				}
				for _, a := range after {
					an, _, _ := cmdName(a)
					as := mkStep(a, lanesAll[n%len(lanesAll)], an, "nonfinite-slot")
					as.Force = true
					n++
					out = append(out, as)
				}
			}
		}
	}
	return out
}

package c17

// Clients for the transports other than RESP: telnet (inline commands),
// native "$n cmd", HTTP GET / POST and WebSocket. Each returns the raw reply
// payload after checking, strictly, that the transport frame wraps exactly one
// payload (declared length == actual length, nothing left over).

import (
	"bufio"
	"bytes"
	"crypto/sha1"
	"encoding/base64"
	"encoding/binary"
	"fmt"
	"io"
	"net"
	"strconv"
	"strings"
	"time"

	"github.com/tidwall/tile38/verif/harness/t38"
)

const ioTimeout = 30 * time.Second

// carriable says whether an argument can be carried as one token by the
// space-separated line transports (telnet, native, HTTP path/body,
// WebSocket URL). Such tokens contain no space, quote, backslash, control or
// non-ASCII byte, are not empty and do not start with '{' or '"'.
func carriable(a string) bool {
	if a == "" {
		return false
	}
	for i := 0; i < len(a); i++ {
		c := a[i]
		if c <= ' ' || c >= 0x7f || c == '"' || c == '\'' || c == '\\' {
			return false
		}
	}
	return a[0] != '{' && a[0] != '$' && a[0] != '*'
}

// jsonTail says whether a can travel as the LAST token of a native / HTTP /
// WebSocket line: the native line parser takes everything from a leading '{'
// to the end of the line as one argument.
func jsonTail(a string) bool {
	if len(a) == 0 || a[0] != '{' {
		return false
	}
	for i := 0; i < len(a); i++ {
		if a[i] < ' ' || a[i] >= 0x7f {
			return false
		}
	}
	return true
}

// lineCarriable: every argument is a plain token, optionally with a JSON
// tail (allowTail).
func lineCarriable(args []string, allowTail bool) bool {
	if len(args) == 0 || !carriable(args[0]) {
		return false
	}
	// the first byte decides the protocol: G/P/O may start an HTTP request
	// line, anything else that is not '*' or '$' is telnet. Any command name
	// is fine for telnet as long as the line does not end in " HTTP/1.x".
	for i, a := range args {
		if carriable(a) {
			continue
		}
		if allowTail && i == len(args)-1 && i > 0 && jsonTail(a) {
			continue
		}
		return false
	}
	return true
}

// telnetDo sends an inline command on a fresh connection and reads one
// strict RESP value; nothing may be left over in the buffer.
func telnetDo(addr string, args []string) (t38.Value, error) {
	c, err := net.DialTimeout("tcp", addr, 5*time.Second)
	if err != nil {
		return t38.Value{}, err
	}
	defer c.Close()
	c.SetDeadline(time.Now().Add(ioTimeout))
	line := strings.Join(args, " ") + "\r\n"
	t38.JournalNote("telnet " + addr + " " + strconv.Quote(line))
	if _, err := io.WriteString(c, line); err != nil {
		return t38.Value{}, err
	}
	br := bufio.NewReader(c)
	v, err := t38.ReadValue(br)
	if err != nil {
		return v, fmt.Errorf("telnet reply: %w", err)
	}
	if br.Buffered() != 0 {
		rest, _ := br.Peek(br.Buffered())
		return v, fmt.Errorf("telnet: %d bytes left over after the reply: %q", len(rest), rest)
	}
	return v, nil
}

// nativeDo sends "$n line\r\n" and reads "$m payload\r\n".
func nativeDo(addr string, args []string) (string, error) {
	c, err := net.DialTimeout("tcp", addr, 5*time.Second)
	if err != nil {
		return "", err
	}
	defer c.Close()
	c.SetDeadline(time.Now().Add(ioTimeout))
	line := strings.Join(args, " ")
	frame := "$" + strconv.Itoa(len(line)) + " " + line + "\r\n"
	t38.JournalNote("native " + addr + " " + strconv.Quote(frame))
	if _, err := io.WriteString(c, frame); err != nil {
		return "", err
	}
	br := bufio.NewReader(c)
	return readNativeFrame(br, c)
}

// bodyTimeout bounds the wait for the rest of a frame once its header has
// arrived (the server writes a frame with one Write).
const bodyTimeout = 10 * time.Second

func readNativeFrame(br *bufio.Reader, c net.Conn) (string, error) {
	head, err := br.ReadString(' ')
	if err != nil {
		return head, fmt.Errorf("native reply header: %v (got %q)", err, head)
	}
	c.SetReadDeadline(time.Now().Add(bodyTimeout))
	if len(head) < 3 || head[0] != '$' {
		return head, fmt.Errorf("native reply does not start with $n: %q", head)
	}
	n, err := strconv.Atoi(head[1 : len(head)-1])
	if err != nil || n < 0 || strconv.Itoa(n) != head[1:len(head)-1] {
		return head, fmt.Errorf("native reply has a bad length %q", head)
	}
	buf := make([]byte, n+2)
	if _, err := io.ReadFull(br, buf); err != nil {
		return string(buf), fmt.Errorf("native reply shorter than its declared %d bytes: %v", n, err)
	}
	if buf[n] != '\r' || buf[n+1] != '\n' {
		return string(buf), fmt.Errorf("native frame of declared length %d is not followed by CRLF: %q", n, buf)
	}
	if br.Buffered() != 0 {
		rest, _ := br.Peek(br.Buffered())
		return string(buf[:n]), fmt.Errorf("native: %d bytes left over after the frame: %q", len(rest), rest)
	}
	return string(buf[:n]), nil
}

func pathEscape(line string) string {
	var b strings.Builder
	for i := 0; i < len(line); i++ {
		c := line[i]
		switch {
		case c >= 'a' && c <= 'z', c >= 'A' && c <= 'Z', c >= '0' && c <= '9', c == '-', c == '_', c == '.':
			b.WriteByte(c)
		case c == ' ':
			b.WriteByte('+')
		default:
			fmt.Fprintf(&b, "%%%02X", c)
		}
	}
	return b.String()
}

type httpReply struct {
	Status  string
	Headers map[string]string
	Body    string // body without the trailing CRLF the server appends
}

// httpDo performs one HTTP/1.1 request (GET with the command in the path or
// POST with the command in the body) and checks the framing: status line,
// Content-Length equal to the number of body bytes received before EOF, body
// terminated by CRLF.
func httpDo(addr string, args []string, post bool, extraHeaders string) (httpReply, error) {
	var rep httpReply
	c, err := net.DialTimeout("tcp", addr, 5*time.Second)
	if err != nil {
		return rep, err
	}
	defer c.Close()
	c.SetDeadline(time.Now().Add(ioTimeout))
	line := strings.Join(args, " ")
	var req string
	if post {
		req = "POST / HTTP/1.1\r\nHost: x\r\n" + extraHeaders + "Content-Length: " + strconv.Itoa(len(line)) + "\r\n\r\n" + line
	} else {
		req = "GET /" + pathEscape(line) + " HTTP/1.1\r\nHost: x\r\n" + extraHeaders + "\r\n"
	}
	t38.JournalNote("http " + addr + " " + strconv.Quote(req))
	if _, err := io.WriteString(c, req); err != nil {
		return rep, err
	}
	all, err := io.ReadAll(c) // Connection: close
	if err != nil {
		return rep, fmt.Errorf("http read: %v (got %q)", err, all)
	}
	i := bytes.Index(all, []byte("\r\n\r\n"))
	if i < 0 {
		return rep, fmt.Errorf("http reply without header terminator: %q", all)
	}
	lines := strings.Split(string(all[:i]), "\r\n")
	rep.Status = lines[0]
	rep.Headers = map[string]string{}
	for _, h := range lines[1:] {
		k, v, ok := strings.Cut(h, ":")
		if !ok {
			return rep, fmt.Errorf("http reply with a malformed header line %q", h)
		}
		rep.Headers[strings.ToLower(strings.TrimSpace(k))] = strings.TrimSpace(v)
	}
	body := all[i+4:]
	if !strings.HasPrefix(rep.Status, "HTTP/1.1 ") {
		return rep, fmt.Errorf("http status line %q", rep.Status)
	}
	cl, ok := rep.Headers["content-length"]
	if !ok {
		return rep, fmt.Errorf("http reply without Content-Length: %q", all[:i])
	}
	n, err := strconv.Atoi(cl)
	if err != nil || n != len(body) {
		return rep, fmt.Errorf("http Content-Length %q but %d body bytes: %q", cl, len(body), body)
	}
	if !bytes.HasSuffix(body, []byte("\r\n")) {
		return rep, fmt.Errorf("http body not terminated by CRLF: %q", body)
	}
	rep.Body = string(body[:len(body)-2])
	return rep, nil
}

// wsDo opens a WebSocket connection whose URL path is the command and reads
// the handshake plus exactly one unmasked text frame.
func wsDo(addr string, args []string) (string, error) {
	c, err := net.DialTimeout("tcp", addr, 5*time.Second)
	if err != nil {
		return "", err
	}
	defer c.Close()
	c.SetDeadline(time.Now().Add(ioTimeout))
	line := strings.Join(args, " ")
	key := "dGhlIHNhbXBsZSBub25jZQ=="
	req := "GET /" + pathEscape(line) + " HTTP/1.1\r\nHost: x\r\nUpgrade: websocket\r\nConnection: Upgrade\r\nSec-WebSocket-Version: 13\r\nSec-WebSocket-Key: " + key + "\r\n\r\n"
	t38.JournalNote("ws " + addr + " " + strconv.Quote(req))
	if _, err := io.WriteString(c, req); err != nil {
		return "", err
	}
	br := bufio.NewReader(c)
	status, err := br.ReadString('\n')
	if err != nil {
		return "", fmt.Errorf("ws handshake: %v", err)
	}
	if !strings.HasPrefix(status, "HTTP/1.1 101") {
		return "", fmt.Errorf("ws handshake status %q", status)
	}
	sum := sha1.Sum([]byte(key + "258EAFA5-E914-47DA-95CA-C5AB0DC85B11"))
	want := base64.StdEncoding.EncodeToString(sum[:])
	accepted := false
	for {
		h, err := br.ReadString('\n')
		if err != nil {
			return "", fmt.Errorf("ws handshake headers: %v", err)
		}
		if h == "\r\n" {
			break
		}
		k, v, _ := strings.Cut(h, ":")
		if strings.EqualFold(strings.TrimSpace(k), "Sec-WebSocket-Accept") && strings.TrimSpace(v) == want {
			accepted = true
		}
	}
	if !accepted {
		return "", fmt.Errorf("ws handshake without the right Sec-WebSocket-Accept")
	}
	return readWSFrame(br, true)
}

func readWSFrame(br *bufio.Reader, last bool) (string, error) {
	var h [2]byte
	if _, err := io.ReadFull(br, h[:]); err != nil {
		return "", fmt.Errorf("ws frame header: %v", err)
	}
	if h[0] != 0x81 {
		return "", fmt.Errorf("ws frame first byte %#x, want FIN+TEXT 0x81", h[0])
	}
	if h[1]&0x80 != 0 {
		return "", fmt.Errorf("ws server frame is masked")
	}
	n := uint64(h[1] & 0x7f)
	switch n {
	case 126:
		var b [2]byte
		if _, err := io.ReadFull(br, b[:]); err != nil {
			return "", err
		}
		n = uint64(binary.BigEndian.Uint16(b[:]))
		if n < 126 {
			return "", fmt.Errorf("ws frame uses 16-bit length for %d bytes", n)
		}
	case 127:
		var b [8]byte
		if _, err := io.ReadFull(br, b[:]); err != nil {
			return "", err
		}
		n = binary.BigEndian.Uint64(b[:])
		if n <= 0xffff {
			return "", fmt.Errorf("ws frame uses 64-bit length for %d bytes", n)
		}
	}
	if n > 1<<28 {
		return "", fmt.Errorf("ws frame length %d", n)
	}
	buf := make([]byte, n)
	if _, err := io.ReadFull(br, buf); err != nil {
		return string(buf), fmt.Errorf("ws frame shorter than its declared %d bytes: %v", n, err)
	}
	if last {
		// the server closes after one command; nothing else may follow
		rest, err := io.ReadAll(br)
		if err == nil && len(rest) != 0 {
			return string(buf), fmt.Errorf("ws: %d bytes after the frame: %q", len(rest), rest)
		}
	}
	return string(buf), nil
}

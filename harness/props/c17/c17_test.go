// C17: every reply is well-formed, and RESP and JSON outputs agree.
//
// The command table is read from the repository at run time. Every command
// is sent with valid and invalid argument shapes, over several states, in
// lock step to three in-process servers: one answers in RESP, one in OUTPUT
// json mode, one over a per-step transport (telnet, native, HTTP GET/POST,
// WebSocket). Oracles: strict framing of every reply, JSON documents with a
// boolean ok and err iff !ok, per-command agreement of what both modes
// carry, equal final datasets.
package c17

import (
	"encoding/json"
	"fmt"
	"io"
	"net/http"
	"net/http/httptest"
	"os"
	"sort"
	"strings"
	"sync"
	"testing"
	"time"

	"github.com/tidwall/tile38/verif/harness/ev"
	"github.com/tidwall/tile38/verif/harness/gen"
	"github.com/tidwall/tile38/verif/harness/t38"
	"pgregory.net/rapid"
)

const (
	idOutputElapsed     = "output-json-elapsed-unquoted"
	idNonFiniteCoords   = "json-nonfinite-coordinates"
	idEvalNonFinite     = "json-eval-nonfinite-number"
	idEvalOddKeys       = "json-eval-non-string-table-key"
	idCrashNearbyBuffer = "crash-nearby-buffer"
	idSearchNonFinite   = "json-search-area-nonfinite"
	idEvalFunction      = "json-eval-function-value"
)

var (
	mainTrio *trio
	table    []tableEntry
)

func TestMain(m *testing.M) {
	var err error
	table, err = loadTable()
	if err != nil {
		fmt.Fprintln(os.Stderr, "cannot read the command table:", err)
		os.Exit(2)
	}
	sink := httptest.NewServer(http.HandlerFunc(func(w http.ResponseWriter, r *http.Request) {
		io.Copy(io.Discard, r.Body)
		w.WriteHeader(200)
	}))
	defer sink.Close()
	setHookSink(sink.URL)
	mainTrio, err = startTrio(t38.Opts{})
	if err != nil {
		fmt.Fprintln(os.Stderr, "cannot start servers:", err)
		os.Exit(2)
	}
	code := m.Run()
	mainTrio.stop()
	sink.Close()
	os.Exit(code)
}

// ---- probes of findings (regressions and gates) ----------------------------

type probeResult struct {
	id          string
	reproduces  bool
	what        string
	cmds        [][]string
	skipped     bool // could not be run (no server binary)
	observeOnly bool // recorded as a note, never as a violation
}

var (
	probeOnce    sync.Once
	probeResults []probeResult
	excl         exclusions
)

// jsonProbe runs cmds on a fresh JSON-mode connection of a clean server and
// reports the first reply that is not a well-formed JSON reply.
func jsonProbe(cmds [][]string) (bad string) {
	if err := mainTrio.reset(); err != nil {
		panic(err)
	}
	c := mainTrio.b
	for _, cmd := range cmds {
		v, err := c.Do(cmd...)
		if err != nil {
			return fmt.Sprintf("%s: %v", t38.CmdString(cmd), err)
		}
		if v.Kind != '$' || v.Null {
			return fmt.Sprintf("%s: reply is not a bulk string: %s", t38.CmdString(cmd), v)
		}
		rep, err := t38.DecodeJSONReply(v.Str)
		if err != nil {
			return fmt.Sprintf("%s: %v", t38.CmdString(cmd), err)
		}
		if d := elapsedOK(rep); d != "" {
			return fmt.Sprintf("%s: %s in %s", t38.CmdString(cmd), d, v.Str)
		}
	}
	return ""
}

func runProbes() {
	probes := []probeResult{
		{id: idOutputElapsed, cmds: [][]string{{"OUTPUT"}, {"OUTPUT", "json"}, {"OUTPUT"}}},
		{id: idNonFiniteCoords, cmds: [][]string{{"SET", "k", "a", "POINT", "nan", "nan"}, {"GET", "k", "a", "POINT"}}},
		{id: idNonFiniteCoords, cmds: [][]string{{"SET", "k", "a", "POINT", "1", "inf"}, {"SCAN", "k", "BOUNDS"}}},
		{id: idNonFiniteCoords, cmds: [][]string{{"SET", "k", "a", "POINT", "1", "2", "-inf"}, {"SCAN", "k", "POINTS"}}},
		{id: idNonFiniteCoords, cmds: [][]string{{"SET", "k", "a", "POINT", "nan", "2"}, {"NEARBY", "k", "DISTANCE", "POINT", "1", "2"}}},
		{id: idEvalNonFinite, cmds: [][]string{{"EVAL", "return 0/0", "0"}}},
		{id: idEvalNonFinite, cmds: [][]string{{"EVALRO", "return {1/0}", "0"}}},
		{id: idEvalOddKeys, cmds: [][]string{{"EVAL", "return {[1.5]='x'}", "0"}}},
		{id: idEvalOddKeys, cmds: [][]string{{"EVALNA", "return {[true]='x'}", "0"}}},
		{id: idSearchNonFinite, cmds: [][]string{{"SET", "k", "a", "POINT", "1", "2"}, {"NEARBY", "k", "DISTANCE", "POINT", "nan", "nan"}}},
		{id: idSearchNonFinite, cmds: [][]string{{"SET", "k", "a", "POINT", "1", "2"}, {"NEARBY", "k", "DISTANCE", "IDS", "POINT", "inf", "2"}}},
		{id: idSearchNonFinite, cmds: [][]string{{"SET", "k", "a", "POINT", "1", "2"}, {"NEARBY", "k", "DISTANCE", "POINT", "1", "2", "inf"}, {"WITHIN", "k", "CIRCLE", "nan", "2", "10"}, {"INTERSECTS", "k", "CIRCLE", "1", "2", "inf"}}},
		{id: idEvalFunction, cmds: [][]string{{"EVAL", "return tile38.call", "0"}}},
		{id: idEvalFunction, cmds: [][]string{{"EVALRO", "return {tile38.call, {f=string.rep}}", "0"}}},
		{id: idClientListNaN, cmds: [][]string{{"CLIENT", "SETNAME", "nan"}, {"CLIENT", "LIST"}}},
		{id: idClientListNaN, cmds: [][]string{{"CLIENT", "SETNAME", "-Infinity"}, {"CLIENT", "LIST"}}},
	}
	for i := range probes {
		p := &probes[i]
		p.what = jsonProbe(p.cmds)
		p.reproduces = p.what != ""
		if p.reproduces {
			switch p.id {
			case idNonFiniteCoords:
				excl.nonFinite = true
			case idEvalNonFinite:
				excl.evalNonFinite = true
			case idEvalOddKeys:
				excl.oddKeys = true
			case idClientListNaN:
				exclClientNaN = true
			}
		}
	}
	probes = append(probes, pairProbe(idEvalBigNum, []string{"EVAL", "return 1e300", "0"}), pairProbe(idEvalBigNum, []string{"EVAL", "return {-1e19, 2^63}", "0"}),
		pairProbe(idEvalErrOK, []string{"EVAL", "return tile38.error_reply('bad')", "0"}), pairProbe(idEvalErrOK, []string{"EVAL", "return tile38.call", "0"}))
	// both are repaired (ee99fc4, 1823414): plain regression probes, nothing is excluded
	probes = append(probes, mvtProbe())
	probes = append(probes, polarProbes()...)
	probes = append(probes, clientListTypedProbe())
	probes = append(probes, crashProbe(idCrashNearbyBuffer, [][]string{{"SET", "k", "a", "POINT", "1", "2"}, {"NEARBY", "k", "BUFFER", "1", "POINT", "1", "2"}}))
	exclNearbyBuffer = probes[len(probes)-1].reproduces
	exclNonFinite = excl.nonFinite
	probeResults = probes
	mainTrio.dirty = true
}

// pairProbe sends one command in RESP mode (server A) and in JSON mode
// (server B) on a clean state and reports a disagreement that belongs to
// finding id.
func pairProbe(id string, cmd []string) probeResult {
	res := probeResult{id: id, cmds: [][]string{cmd}}
	if err := mainTrio.reset(); err != nil {
		panic(err)
	}
	v, err1 := mainTrio.a.Do(cmd...)
	jv, err2 := mainTrio.b.Do(cmd...)
	if err1 != nil || err2 != nil || jv.Kind != '$' {
		res.reproduces, res.what = true, fmt.Sprintf("%s: %v %v %s", t38.CmdString(cmd), err1, err2, jv)
		return res
	}
	rep, err := t38.DecodeJSONReply(jv.Str)
	if err != nil {
		res.reproduces, res.what = true, fmt.Sprintf("%s: %v", t38.CmdString(cmd), err)
		return res
	}
	var tnt taint
	if _, d := agree(cmd, v, rep, &tnt); d != "" {
		res.reproduces = true
		res.what = fmt.Sprintf("%s: RESP %s, JSON %s: %s", t38.CmdString(cmd), v, jv.Str, strings.TrimPrefix(d, "{{"+id+"}}"))
	}
	return res
}

// crashProbe sends cmds to a subprocess server (an in-process server would
// take the test binary down) and reports whether the process died. Without a
// server binary the finding is assumed to be present (its shape stays
// excluded) and nothing is reported.
func crashProbe(id string, cmds [][]string) probeResult {
	res := probeResult{id: id, cmds: cmds}
	if t38.ServerBin() == "" {
		res.reproduces = true
		res.skipped = true
		return res
	}
	p, err := t38.StartProc(t38.Opts{})
	if err != nil {
		res.reproduces = true
		res.skipped = true
		return res
	}
	defer p.Kill()
	c, err := p.Dial()
	if err != nil {
		res.reproduces = true
		res.skipped = true
		return res
	}
	defer c.Close()
	for _, cmd := range cmds {
		if _, err := c.Do(cmd...); err != nil {
			// give the process a moment to finish dying
			for i := 0; i < 200 && p.Alive(); i++ {
				time.Sleep(10 * time.Millisecond)
			}
			if !p.Alive() {
				res.reproduces = true
				stderr := p.Stderr.String()
				if i := strings.Index(stderr, "panic:"); i >= 0 {
					stderr = stderr[i:]
				}
				res.what = fmt.Sprintf("%s ends the server process: %s", t38.CmdString(cmd), clip(strings.ReplaceAll(stderr, "\n", " | "), 400))
			}
			return res
		}
	}
	return res
}

func exclusionsNow() exclusions {
	probeOnce.Do(runProbes)
	return excl
}

func TestC17_Probes(t *testing.T) {
	c := ev.New("C17", "probes", "exploration")
	t.Cleanup(c.Flush)
	c.Rule("deterministic probes: the regression input of each repaired finding of this property and the minimal input of each finding this check reported (JSON-mode replies that must parse as one JSON object with ok and a quoted elapsed); a probe that reproduces excludes its input shape from the random generators and is reported under its finding id")
	exclusionsNow()
	seen := map[string]bool{}
	for _, p := range probeResults {
		c.Case()
		c.Label("probe:" + p.id)
		if p.observeOnly {
			if p.reproduces {
				c.Label("observed:" + p.id)
				c.Note("observed, not reported (%s): %s", p.id, p.what)
			}
			continue
		}
		if p.skipped {
			c.Label("probe-skipped-no-server-binary:" + p.id)
			c.Note("probe %s needs the server binary (checks.json server_bin); its input shape stays excluded", p.id)
			continue
		}
		if !p.reproduces {
			continue
		}
		c.Label("probe-reproduces:" + p.id)
		if seen[p.id] || ev.Shard() != 0 {
			continue // reported once, by shard 0
		}
		seen[p.id] = true
		if ev.KnownActive(p.id) {
			c.Known(p.id, p.what)
		} else {
			prog := program{State: "empty"}
			for _, cmd := range p.cmds {
				lane := "c-json"
				if p.id == idHTTPMVT {
					lane = "httpget" // replayed as GET /key/z/x/y.mvt
				}
				prog.Steps = append(prog.Steps, mkStep(cmd, lane, "", "probe"))
			}
			c.Violation(p.id, p.what, prog)
			t.Logf("VIOLATION-CANDIDATE key=%s: %s", p.id, p.what)
			defer t.Fail()
		}
	}
	c.NonTrivial("probes")
}

// ---- generation --------------------------------------------------------------

var states = []string{"empty", "populated", "hostile", "hooks", "readonly"}

func distinct(xs []string) []string {
	seen := map[string]bool{}
	var out []string
	for _, x := range xs {
		if !seen[x] {
			seen[x] = true
			out = append(out, x)
		}
	}
	return out
}

func drawNames(rt *rapid.T, state string) gen.Names {
	if state != "hostile" {
		return gen.DrawNames(rt)
	}
	var n gen.Names
	n.Keys = distinct(rapid.SliceOfN(rapid.SampledFrom(hostilePool), 3, 3).Draw(rt, "hkeys"))
	n.IDs = distinct(rapid.SliceOfN(rapid.SampledFrom(hostilePool), 4, 4).Draw(rt, "hids"))
	for _, f := range rapid.SliceOfN(rapid.SampledFrom(hostilePool), 3, 3).Draw(rt, "hfields") {
		switch strings.ToLower(strings.TrimSpace(f)) {
		case "", "z", "lat", "lon", "xx", "return":
			f = "f" + f
		}
		n.Fields = append(n.Fields, f)
	}
	n.Fields = distinct(n.Fields)
	return n
}

func newG(rt *rapid.T, c *ev.Collector, ns gen.Names) *G {
	ex := exclusionsNow()
	if ex.nonFinite {
		c.Excluded(idNonFiniteCoords)
	}
	if ex.evalNonFinite {
		c.Excluded(idEvalNonFinite)
	}
	if ex.oddKeys {
		c.Excluded(idEvalOddKeys)
	}
	if exclNearbyBuffer {
		c.Excluded(idCrashNearbyBuffer)
	}
	if exclClientNaN {
		c.Excluded(idClientListNaN)
	}
	return &G{t: rt, ns: ns, nonFinite: !ex.nonFinite, evalNonFinite: !ex.evalNonFinite, oddKeys: !ex.oddKeys, errTop: !ex.errTop, bigNum: !ex.bigNum,
		noLineAreas: ev.KnownActive(idHangLineString), onExcluded: c.Excluded}
}

func drawLane(rt *rapid.T) string {
	return rapid.SampledFrom(lanesAll).Draw(rt, "lane")
}

// safeArgs returns args, or a harmless replacement when the safety filter
// rejects them.
func (g *G) safeShape(name string, mode int) cmdShape {
	for try := 0; try < 4; try++ {
		sh := g.shape(name, mode)
		if unsafeReason(sh.strings()) == "" {
			return sh
		}
		mode = 0
	}
	args, _ := g.validShape(name)
	return cmdShape{Name: name, Args: args, Class: "valid"}
}

func setupSteps(g *G, state string) []step {
	var out []step
	add := func(args ...string) { out = append(out, mkStep(args, "c-resp", "", "setup")) }
	addShape := func(name string) {
		sh := g.safeShape(name, 0)
		out = append(out, mkStep(sh.strings(), drawLane(g.t), "", "setup"))
	}
	if state == "empty" {
		return nil
	}
	nobj := 0
	for _, k := range g.ns.Keys[:min(2, len(g.ns.Keys))] {
		for _, id := range g.ns.IDs[:min(3, len(g.ns.IDs))] {
			args := []string{"SET", k, id}
			if g.chance("sfield?", 2, 3) {
				args = append(args, "FIELD", g.ns.Fields[nobj%len(g.ns.Fields)], g.fieldValue().S)
			}
			if g.chance("sex?", 1, 4) {
				args = append(args, "EX", gen.EX(g.t))
			}
			for _, a := range g.objSpec() {
				args = append(args, a.S)
			}
			out = append(out, mkStep(args, drawLane(g.t), "", "setup"))
			nobj++
		}
	}
	for i := g.intn("nsetuptraffic", 0, 4); i > 0; i-- {
		out = append(out, mkStep(gen.KeyspaceCmd(g.t, g.ns), drawLane(g.t), "", "setup"))
	}
	if state == "hooks" || state == "readonly" {
		hn := []string{"h1", "h\"q", "hé"}
		cn := []string{"c1", "c\\x", "c\x01"}
		g.hooks, g.chans = hn, cn
		for i := 0; i < 2; i++ {
			addShape("sethook")
			addShape("setchan")
		}
	}
	if state == "readonly" {
		add("READONLY", "yes")
	}
	return out
}

// primers make the documented shapes of some commands meaningful: scripts
// that the *SHA commands can find, JSON members that JGET / JDEL can find.
func primers(g *G, name string) []step {
	var out []step
	add := func(args ...string) { out = append(out, mkStep(args, drawLane(g.t), "", "primer")) }
	switch {
	case strings.HasSuffix(name, "sha") || name == "script exists":
		for _, s := range scriptPool[:12] {
			add("SCRIPT", "LOAD", s)
		}
	case name == "jdel" || name == "jget":
		for _, k := range g.ns.Keys[:min(2, len(g.ns.Keys))] {
			for _, id := range g.ns.IDs[:min(2, len(g.ns.IDs))] {
				add("JSET", k, id, "a.b", "hello")
				add("JSET", k, id, "n.m", "12")
			}
		}
	case name == "scan" || name == "search" || name == "nearby" || name == "within" || name == "intersects":
		add("SCRIPT", "LOAD", "return true")
	}
	return out
}

func followUps(g *G) []step {
	var out []step
	add := func(args ...string) { out = append(out, mkStep(args, drawLane(g.t), "", "followup")) }
	if len(g.ns.Keys) > 0 {
		add("SCAN", g.ns.Keys[0])
	}
	add("KEYS", "*")
	add("HOOKS", "*")
	add("CHANS", "*")
	add("SERVER")
	return out
}

func sortedKeys(m map[string]bool) []string {
	var out []string
	for k := range m {
		out = append(out, k)
	}
	sort.Strings(out)
	return out
}

// ---- TestC17_Table: every command x shapes x states ------------------------------

const tableRule = "the command table is read from internal/server/server.go (case labels of Server.command, names handled before dispatch, lock table) and core/commands.json at run time; for every entry, cases of: a drawn state (empty / populated / names and values needing JSON escaping incl. control bytes, non-ASCII and invalid UTF-8 / with hooks and channels / read-only), then 2-4 shapes of that command (one of the documented grammar, the others drawn from {valid, keyword case, hostile names, arity-, arity+, bad number, unknown option, empty argument, swapped arguments}) interleaved with keyspace traffic, then read-backs; every step is sent in lock step to server A (RESP), server B (OUTPUT json) and server C (drawn transport: telnet, native $n, HTTP GET, HTTP POST, WebSocket, or plain connections when the arguments cannot be carried); oracles: strict frames, one JSON object with boolean ok / err iff !ok / quoted elapsed, per-command agreement of everything both modes carry, equal final datasets. Non-trivial: the JSON payload of the step contains an escape sequence or a non-empty array/object; distinct by (command, shape class, outcome, transport)."

func TestC17_Table(t *testing.T) {
	c := ev.New("C17", "table", "exploration")
	t.Cleanup(c.Flush)
	c.Rule(tableRule)
	c.Assume("the twins are deterministic given the same command history: expiries are >= 10^5 s, no password / memory limit / replication target is configured by generated commands, volatile members of SERVER / INFO / CLIENT LIST are compared structurally only")
	exclusionsNow()
	perCmd := ev.Pick(10, 60)
	covered := map[string]map[string]bool{}
	var noGrammar []string
	shard, shards := ev.Shard(), ev.Shards()
	for idx, e := range table {
		if ev.Thorough() && shards > 1 && idx%shards != shard%shards && perCmd > 20 {
			// thorough: every shard covers the whole table, but spends most
			// of its budget on its own slice
			perCmdLocal := 12
			runTableEntry(t, c, e, perCmdLocal, covered, &noGrammar)
			continue
		}
		runTableEntry(t, c, e, perCmd, covered, &noGrammar)
	}
	c.States(len(table), 0)
	for _, e := range table {
		if len(covered[e.Name]) == 0 {
			c.Inconclusive("no step of %q was executed", e.Name)
		}
	}
	if len(noGrammar) > 0 {
		c.Note("table entries without a grammar (generic argument vectors only): %s", strings.Join(distinct(noGrammar), ", "))
	}
}

func runTableEntry(t *testing.T, c *ev.Collector, e tableEntry, n int, covered map[string]map[string]bool, noGrammar *[]string) {
	name := e.Name
	if name == "gc" {
		n = min(n, ev.Pick(4, 10)) // every GC step collects three in-process servers' heap
	}
	ev.Rapid("table/"+name, n)
	t0 := time.Now()
	defer func() {
		if d := time.Since(t0); d > 2*time.Second {
			t.Logf("table entry %q took %v", name, d)
		}
	}()
	rapid.Check(t, func(rt *rapid.T) {
		state := rapid.SampledFrom(states).Draw(rt, "state")
		ns := drawNames(rt, state)
		g := newG(rt, c, ns)
		p := program{State: state}
		p.Steps = setupSteps(g, state)
		if pr := primers(g, name); state == "readonly" && len(p.Steps) > 0 {
			last := p.Steps[len(p.Steps)-1] // READONLY yes
			p.Steps = append(append(p.Steps[:len(p.Steps)-1], pr...), last)
		} else {
			p.Steps = append(p.Steps, pr...)
		}
		nshapes := g.intn("nshapes", 2, 4)
		for i := 0; i < nshapes; i++ {
			mode := -1
			if i == 0 {
				mode = 0
			}
			sh := g.safeShape(name, mode)
			if sh.Class == "generic" {
				*noGrammar = append(*noGrammar, name)
			}
			p.Steps = append(p.Steps, mkStep(sh.strings(), drawLane(rt), name, sh.Class))
			if g.chance("traffic?", 1, 3) {
				p.Steps = append(p.Steps, mkStep(gen.KeyspaceCmd(rt, ns), drawLane(rt), "", "traffic"))
			}
		}
		p.Steps = append(p.Steps, followUps(g)...)
		r := newRunner(mainTrio, c, rt, &p, exclusionsNow())
		r.run()
		r.label("state:" + state)
		r.commit()
		if covered[name] == nil {
			covered[name] = map[string]bool{}
		}
		covered[name][state] = true
	})
}

// ---- TestC17_Mixed: long programs over the whole table --------------------------

func TestC17_Mixed(t *testing.T) {
	c := ev.New("C17", "mixed", "exploration")
	t.Cleanup(c.Flush)
	c.Rule("random programs of 15-60 steps: a drawn state, then steps drawn from the whole command table (shapes as in the table sub-check) mixed 1:1 with gen.KeyspaceCmd traffic, each step over a drawn transport; same oracles, final datasets of the three servers equal. Non-trivial and distinctness as in the table sub-check.")
	exclusionsNow()
	names := make([]string, len(table))
	for i, e := range table {
		names[i] = e.Name
	}
	maxSteps := ev.Pick(40, 60)
	ev.Rapid("mixed", ev.Pick(250, 1500))
	rapid.Check(t, func(rt *rapid.T) {
		state := rapid.SampledFrom(states).Draw(rt, "state")
		ns := drawNames(rt, state)
		g := newG(rt, c, ns)
		p := program{State: state}
		p.Steps = setupSteps(g, state)
		n := g.intn("nsteps", 15, maxSteps)
		for i := 0; i < n; i++ {
			if g.chance("table?", 1, 2) {
				name := rapid.SampledFrom(names).Draw(rt, "cmdname")
				sh := g.safeShape(name, -1)
				p.Steps = append(p.Steps, mkStep(sh.strings(), drawLane(rt), name, sh.Class))
			} else {
				p.Steps = append(p.Steps, mkStep(gen.KeyspaceCmd(rt, ns), drawLane(rt), "", "traffic"))
			}
		}
		p.Steps = append(p.Steps, followUps(g)...)
		r := newRunner(mainTrio, c, rt, &p, exclusionsNow())
		r.run()
		r.label("state:" + state)
		r.commit()
	})
}

// ---- replay -------------------------------------------------------------------

func TestReplay(t *testing.T) {
	doc, ok := ev.ReplayFile()
	if !ok {
		t.Skip("no replay file")
	}
	c := ev.New("C17", "replay", "exploration")
	t.Cleanup(c.Flush)
	if doc.Check == "streams" {
		replayStreams(t, c, doc.Data)
		return
	}
	if doc.Check == "subcommands" {
		replaySubCommands(t, c, doc.Data)
		return
	}
	if doc.Check == "concurrent" {
		replayConcurrent(t, c, doc.Data)
		return
	}
	if doc.Check == "pipeline" {
		replayPipeline(t, c, doc.Data)
		return
	}
	if doc.Key == idCrashNearbyBuffer {
		// would take an in-process server (and this binary) down: use a child process
		var p program
		json.Unmarshal(doc.Data, &p)
		var cmds [][]string
		for i := range p.Steps {
			cmds = append(cmds, p.Steps[i].Args())
		}
		c.Case()
		if res := crashProbe(idCrashNearbyBuffer, cmds); res.skipped {
			c.Inconclusive("no server binary to replay %s", doc.Key)
		} else if res.reproduces {
			c.Violation(doc.Key, res.what, p)
			t.Errorf("VIOLATION-CANDIDATE key=%s: %s", doc.Key, res.what)
		}
		return
	}
	var p program
	if err := json.Unmarshal(doc.Data, &p); err != nil {
		t.Fatalf("bad replay data: %v", err)
	}
	switch doc.Check {
	case "auth":
		replayAuth(t, c, &p)
	case "follower":
		replayFollower(t, c, &p)
	case "devmode":
		replayDev(t, c, &p)
	default:
		r := newRunner(mainTrio, c, t, &p, exclusions{})
		r.run()
		r.commit()
	}
}

package c17

// Lock-step execution on three in-process servers that receive the same
// commands: A answers over a RESP connection, B over a connection in OUTPUT
// json mode, C over a per-step transport (telnet, native, HTTP GET, HTTP POST,
// WebSocket, or plain RESP / JSON connections when the arguments cannot be
// carried). After every case the visible datasets of the three must be equal.

import (
	"errors"
	"fmt"
	"io"
	"net"
	"regexp"
	"strconv"
	"strings"
	"sync/atomic"
	"time"

	"github.com/tidwall/tile38/internal/verifhook"
	"github.com/tidwall/tile38/verif/harness/ev"
	"github.com/tidwall/tile38/verif/harness/t38"
)

type step struct {
	Q     []string `json:"args"` // Go-quoted arguments (arguments may hold any bytes)
	Lane  string   `json:"lane"`
	Name  string   `json:"name,omitempty"`
	Class string   `json:"class,omitempty"`
	Force bool     `json:"force,omitempty"` // hand-written step: not subject to the safety filter
	args  []string
}

func mkStep(args []string, lane, name, class string) step {
	q := make([]string, len(args))
	for i, a := range args {
		q[i] = strconv.Quote(a)
	}
	return step{Q: q, Lane: lane, Name: name, Class: class, args: args}
}

func (s *step) Args() []string {
	if s.args == nil {
		s.args = make([]string, len(s.Q))
		for i, q := range s.Q {
			u, err := strconv.Unquote(q)
			if err != nil {
				u = q
			}
			s.args[i] = u
		}
	}
	return s.args
}

type program struct {
	State string `json:"state"`
	Steps []step `json:"steps"`
}

var lanesAll = []string{"telnet", "native", "httpget", "httppost", "ws", "c-resp", "c-json"}

type trio struct {
	srv    [3]*t38.Srv
	a, b   *t38.Conn // RESP on A, JSON on B
	cc     *t38.Conn // the one persistent connection on C; its mode is switched as needed
	dirty  bool      // config / read-only may have been changed
	base   [3]int64  // aof_size of each server when the case started
	baseOK bool
	// AOFSHRINK runs in the background; the "ended" stage hook (build tag
	// verif) lets a step wait for it, so that log sizes stay comparable
	shrinkEnded   [3]atomic.Int64
	aofUnreliable bool // a shrink could not be waited for
	opts          t38.Opts
	resets        int
}

func startTrio(o t38.Opts) (*trio, error) {
	tr := &trio{}
	o.HTTP = true
	tr.opts = o
	if err := tr.startServers(); err != nil {
		return nil, err
	}
	return tr, nil
}

// restartEvery bounds what a long-lived server accumulates over thousands of
// cases. In particular the server never returns a Lua state to its pool when
// a search fails to parse after a WHEREEVAL option; after 1000 such errors
// every script command answers "no interpreters available".
const restartEvery = 400

func (tr *trio) startServers() error {
	o := tr.opts
	for i := range tr.srv {
		s, err := t38.Start(o)
		if err != nil {
			tr.stop()
			return err
		}
		tr.srv[i] = s
		i := i
		verifhook.Register(s.Dir, &verifhook.Handler{Stage: func(name string) {
			if name == "ended" {
				tr.shrinkEnded[i].Add(1)
			}
		}})
	}
	tr.dirty = true
	tr.aofUnreliable = false
	return nil
}

func (tr *trio) stop() {
	tr.closeConns()
	for _, s := range tr.srv {
		if s != nil {
			s.StopAsync()
		}
	}
	for _, s := range tr.srv {
		if s != nil {
			s.Stop()
			verifhook.Unregister(s.Dir)
		}
	}
}

func (tr *trio) closeConns() {
	// QUIT and wait for the server to close: the server forgets a connection
	// (and its name / replication port, shown by ROLE, INFO, CLIENT LIST) only
	// when its goroutine notices the close
	for _, c := range []*t38.Conn{tr.a, tr.b, tr.cc} {
		if c != nil {
			c.C.SetDeadline(time.Now().Add(5 * time.Second))
			c.SendRaw(t38.EncodeCmd("QUIT"))
			io.Copy(io.Discard, c.BR)
			c.Close()
		}
	}
	tr.a, tr.b, tr.cc = nil, nil, nil
}

// cMode puts C's persistent connection into RESP or JSON mode.
func (tr *trio) cMode(json bool) error {
	if tr.cc.JSON == json {
		return nil
	}
	return tr.cc.SetJSON(json)
}

// reset brings the three servers to the empty default state and opens fresh
// lane connections (so that per-connection state — client name, replication
// port, output mode — never leaks between cases).
func (tr *trio) reset() error {
	tr.closeConns()
	tr.resets++
	if tr.resets%restartEvery == 0 {
		tr.stop()
		tr.srv = [3]*t38.Srv{}
		if err := tr.startServers(); err != nil {
			return err
		}
	}
	for _, s := range tr.srv {
		c, err := s.Dial()
		if err != nil {
			return err
		}
		cmds := [][]string{{"READONLY", "no"}, {"FLUSHDB"}, {"SCRIPT", "FLUSH"}}
		if tr.dirty {
			cmds = append([][]string{{"FOLLOW", "no", "one"}}, cmds...)
			for _, p := range []string{"keepalive", "autogc", "maxmemory", "leaderauth", "logconfig", "replica_announce_ip", "replica_announce_port", "requirepass"} {
				cmds = append(cmds, []string{"CONFIG", "SET", p, ""})
			}
			cmds = append(cmds, []string{"CONFIG", "SET", "protected-mode", "no"})
		}
		for _, cmd := range cmds {
			v, err := c.Do(cmd...)
			if err != nil {
				c.Close()
				return fmt.Errorf("reset %v: %v", cmd, err)
			}
			if v.IsErr() && cmd[0] != "CONFIG" {
				c.Close()
				return fmt.Errorf("reset %v: %s", cmd, v)
			}
		}
		c.Close()
	}
	tr.dirty = false
	var err error
	if tr.a, err = tr.srv[0].Dial(); err != nil {
		return err
	}
	if tr.b, err = tr.srv[1].Dial(); err != nil {
		return err
	}
	if tr.cc, err = tr.srv[2].Dial(); err != nil {
		return err
	}
	if err := tr.b.SetJSON(true); err != nil {
		return err
	}
	tr.readBases()
	return nil
}

// readBases records the log size of each server at the start of a case.
func (tr *trio) readBases() {
	tr.baseOK = !tr.aofUnreliable
	if !tr.baseOK {
		return
	}
	for i, c := range []*t38.Conn{tr.a, nil, nil} {
		if c == nil {
			var err error
			if c, err = tr.srv[i].Dial(); err != nil {
				tr.baseOK = false
				return
			}
			defer c.Close()
		}
		v, err := c.Do("SERVER")
		m, _, ok := respPairs(v)
		n, perr := strconv.ParseInt(m["aof_size"], 10, 64)
		if err != nil || !ok || perr != nil {
			tr.baseOK = false
			return
		}
		tr.base[i] = n
	}
}

// runner executes one program and records what it exercised.
type runner struct {
	tr      *trio
	c       *ev.Collector
	t       ev.Failer
	p       *program
	tnt     taint
	labels  map[string]int
	nt      map[string]bool
	samples []any
	// exclusions of reproduced findings (see probes)
	ex exclusions
}

type exclusions struct {
	nonFinite     bool
	evalNonFinite bool
	oddKeys       bool
	errTop        bool
	bigNum        bool
}

func (r *runner) label(s string) { r.labels[s]++ }

func (r *runner) fail(key, what string) {
	r.c.Fail(r.t, key, what, r.p)
}

// giveUp abandons the case without a verdict: the harness could not open a
// connection (listen backlog / ephemeral ports under load). Never a violation.
func (r *runner) giveUp(what string) {
	r.c.Inconclusive("%s", what)
	if sk, ok := r.t.(interface{ SkipNow() }); ok {
		sk.SkipNow()
	}
	panic("inconclusive: " + what)
}

// isDialErr: the harness could not connect, or could not even hand its
// request to the kernel before its own deadline (seen only with 16 loaded
// shards) — nothing the server said or failed to say.
func isDialErr(err error) bool {
	var oe *net.OpError
	return errors.As(err, &oe) && (oe.Op == "dial" || oe.Op == "write")
}

var reBareNonFinite = regexp.MustCompile(`[:\[,]\s*([+-]?Inf|NaN)\s*[,\]}]`)

// malformedKey maps a malformed JSON payload to its root-cause key.
func malformedKey(name, raw string) string {
	if reBareNonFinite.MatchString(raw) {
		if strings.HasPrefix(name, "eval") {
			return idEvalNonFinite
		}
		switch name {
		case "nearby", "within", "intersects", "test":
			// stored coordinates are refused since json-nonfinite-coordinates
			// was repaired: what is left is a non-finite search area
			if !exclNonFinite {
				return idSearchNonFinite
			}
		}
		return idNonFiniteCoords
	}
	if name == "client list" && strings.Contains(raw, `"list":,`) {
		return idClientListNaN
	}
	return "json-malformed:" + name
}

func decodeJSONPayload(raw string) (t38.JSONReply, error) {
	return t38.DecodeJSONReply(raw)
}

// doRESP sends on a RESP-mode connection and checks that exactly one strict
// RESP value comes back.
func (r *runner) doRESP(c *t38.Conn, who, name string, args []string) t38.Value {
	v, err := c.Do(args...)
	if err != nil {
		kind := "resp-malformed:"
		if errors.Is(err, t38.ErrHang) {
			kind = "hang:"
		} else if errors.Is(err, io.EOF) || errors.Is(err, io.ErrUnexpectedEOF) {
			kind = "connection-closed:"
		} else if !errors.Is(err, t38.ErrProtocol) {
			kind = "transport:"
		}
		if isDialErr(err) {
			r.giveUp(fmt.Sprintf("%s: %v", who, err))
		}
		r.fail(kind+name, fmt.Sprintf("%s: %s: %v", who, t38.CmdString(args), err))
	}
	if n := c.BR.Buffered(); n != 0 {
		rest, _ := c.BR.Peek(n)
		r.fail("resp-leftover:"+name, fmt.Sprintf("%s: %s: %d bytes follow the reply %s: %q", who, t38.CmdString(args), n, v, rest))
	}
	return v
}

func (r *runner) decode(who, name string, args []string, raw string) t38.JSONReply {
	rep, err := decodeJSONPayload(raw)
	if err != nil {
		r.fail(malformedKey(name, raw), fmt.Sprintf("%s: %s: %v", who, t38.CmdString(args), err))
	}
	return rep
}

// doJSON sends on a connection in JSON mode: the reply must be one bulk
// string holding one JSON document.
func (r *runner) doJSON(c *t38.Conn, who, name string, args []string) t38.JSONReply {
	v := r.doRESP(c, who, name, args)
	if v.Kind != '$' || v.Null {
		r.fail("json-not-bulk:"+name, fmt.Sprintf("%s: %s: reply in JSON mode is not a bulk string: %s", who, t38.CmdString(args), v))
	}
	return r.decode(who, name, args, v.Str)
}

func (r *runner) check(iR, iJ int, what, name string, args []string, v t38.Value, rep t38.JSONReply) string {
	r.tnt.baseR, r.tnt.baseJ = r.tr.base[iR], r.tr.base[iJ]
	if !r.tr.baseOK {
		r.tnt.aof = true
	}
	outcome, diff := agree(args, v, rep, &r.tnt)
	if strings.HasPrefix(diff, "{{") {
		// a disagreement that belongs to a named finding
		if i := strings.Index(diff, "}}"); i > 0 {
			r.fail(diff[2:i], fmt.Sprintf("%s: %s: %s\n  RESP: %s\n  JSON: %s", what, t38.CmdString(args), diff[i+2:], v, rep.Raw))
		}
	}
	if diff != "" {
		r.fail("disagree:"+name, fmt.Sprintf("%s: %s: %s\n  RESP: %s\n  JSON: %s", what, t38.CmdString(args), diff, v, rep.Raw))
	}
	return outcome
}

// connStateful: commands that read or write per-connection state; on C they
// must use the persistent connection, not a one-shot transport connection.
var connStateful = map[string]bool{"client setname": true, "client getname": true, "client": true, "replconf": true, "auth": true}

func httpCarriable(args []string) bool {
	if !lineCarriable(args, true) {
		return false
	}
	if len(args) == 1 {
		a := strings.ToLower(args[0])
		if strings.Contains(a, "?") || strings.HasSuffix(a, ".mvt") || strings.HasSuffix(a, ".pbf") || strings.HasPrefix(a, "viewer") {
			return false
		}
	}
	return true
}

func (r *runner) exec(i int, st *step) {
	args := st.Args()
	if len(args) == 0 {
		return
	}
	name, _, in := cmdName(args)
	if why := unsafeReason(args); why != "" && !st.Force {
		r.label("skipped:" + why)
		return
	}
	r.c.Case()
	var ended [3]int64
	for k := range ended {
		ended[k] = r.tr.shrinkEnded[k].Load()
	}
	switch {
	case mayDetach(args):
		r.execDetached(name, args)
		return
	case switchesOutput(args) && len(in) == 2 && (strings.EqualFold(in[1], "json") || strings.EqualFold(in[1], "resp")):
		r.execOutputSwitch(name, args, strings.ToLower(in[1]))
		return
	}
	vA := r.doRESP(r.tr.a, "A/resp", name, args)
	rB := r.doJSON(r.tr.b, "B/json", name, args)
	outcome := r.check(0, 1, "A/resp vs B/json", name, args, vA, rB)

	lane := st.Lane
	addr := r.tr.srv[2].Addr
	if connStateful[name] && lane != "c-resp" && lane != "c-json" {
		lane = "" // needs C's persistent connection
	}
	switch lane {
	case "telnet":
		if !lineCarriable(args, false) || strings.HasSuffix(strings.ToUpper(strings.Join(args, " ")), " HTTP/1.1") {
			lane = ""
		}
	case "native", "ws":
		if !lineCarriable(args, true) {
			lane = ""
		}
	case "httpget", "httppost":
		if !httpCarriable(args) {
			lane = ""
		}
	}
	if lane == "" || lane == "c-resp" || lane == "c-json" {
		if lane == "" {
			if i%2 == 0 {
				lane = "c-resp"
			} else {
				lane = "c-json"
			}
		}
	}
	switch lane {
	case "c-resp":
		if err := r.tr.cMode(false); err != nil {
			r.fail("disagree:output", "C: cannot switch to RESP: "+err.Error())
		}
		vC := r.doRESP(r.tr.cc, "C/resp", name, args)
		r.check(2, 1, "C/resp vs B/json", name, args, vC, rB)
	case "c-json":
		if err := r.tr.cMode(true); err != nil {
			r.fail("disagree:output", "C: cannot switch to JSON: "+err.Error())
		}
		rC := r.doJSON(r.tr.cc, "C/json", name, args)
		r.check(0, 2, "A/resp vs C/json", name, args, vA, rC)
	case "telnet":
		vC, err := telnetDo(addr, args)
		if err != nil {
			if isDialErr(err) {
				r.giveUp(err.Error())
			}
			r.fail("telnet-frame:"+name, fmt.Sprintf("telnet %s: %v", t38.CmdString(args), err))
		}
		r.check(2, 1, "C/telnet vs B/json", name, args, vC, rB)
	case "native":
		raw, err := nativeDo(addr, args)
		if err != nil {
			if isDialErr(err) {
				r.giveUp(err.Error())
			}
			r.fail("native-frame:"+name, fmt.Sprintf("native %s: %v", t38.CmdString(args), err))
		}
		rC := r.decode("C/native", name, args, raw)
		r.check(0, 2, "A/resp vs C/native", name, args, vA, rC)
	case "httpget", "httppost":
		if path := mvtPath(args, []string{".mvt", ".pbf"}[i%2]); path != "" && lane == "httpget" {
			// the path form of a vector-tile request
			if rt, jt, ok := tilesOf(vA, rB); ok {
				h, err := httpGetRaw(addr, path)
				if err != nil {
					if isDialErr(err) {
						r.giveUp(err.Error())
					}
					r.fail("http-frame:mvt", fmt.Sprintf("GET %s: %v", path, err))
				}
				if key, what := mvtHTTPAgree(path, h, rt, jt); key != "" {
					r.fail(key, what+" ("+t38.CmdString(args)+")")
				}
				r.label("http-mvt-path")
				r.label("lane:httpget-mvt-path")
				break
			}
		}
		h, err := httpDo(addr, args, lane == "httppost", "")
		if err != nil {
			if isDialErr(err) {
				r.giveUp(err.Error())
			}
			r.fail("http-frame:"+name, fmt.Sprintf("%s %s: %v", lane, t38.CmdString(args), err))
		}
		rC := r.decode("C/"+lane, name, args, h.Body)
		wantStatus := "HTTP/1.1 200 OK"
		if name == "healthz" && !rC.OK {
			wantStatus = "HTTP/1.1 500 Internal Server Error"
		}
		if h.Status != wantStatus {
			r.fail("http-status:"+name, fmt.Sprintf("%s %s: status %q, want %q", lane, t38.CmdString(args), h.Status, wantStatus))
		}
		if ct := h.Headers["content-type"]; !strings.HasPrefix(ct, "application/json") {
			r.fail("http-content-type:"+name, fmt.Sprintf("%s %s: content-type %q for a JSON body", lane, t38.CmdString(args), ct))
		}
		r.check(0, 2, "A/resp vs C/"+lane, name, args, vA, rC)
	case "ws":
		raw, err := wsDo(addr, args)
		if err != nil {
			if isDialErr(err) {
				r.giveUp(err.Error())
			}
			r.fail("ws-frame:"+name, fmt.Sprintf("ws %s: %v", t38.CmdString(args), err))
		}
		rC := r.decode("C/ws", name, args, raw)
		r.check(0, 2, "A/resp vs C/ws", name, args, vA, rC)
	}

	// bookkeeping
	switch name {
	case "aofshrink":
		if outcome == "ok" {
			r.awaitShrink(ended)
		}
	case "config set", "readonly", "follow", "slaveof":
		r.tr.dirty = true
	}
	cls := st.Class
	if cls == "" {
		cls = "traffic"
	}
	tname := st.Name
	if tname == "" {
		tname = name
	}
	r.label("cmd:" + tname + "/" + cls + "/" + outcome)
	r.label("lane:" + lane)
	r.label("outcome:" + outcome)
	esc, structured := payloadInteresting(rB)
	if esc {
		r.label("json-escape-in-payload")
	}
	if esc || structured {
		keyName := tname
		if cls == "grid" {
			keyName = strings.Join(st.Q, " ")
		}
		r.nt[keyName+"|"+cls+"|"+outcome+"|"+lane] = true
		if len(r.samples) < 2 && r.c.WantSample() {
			r.samples = append(r.samples, map[string]any{"cmd": t38.CmdString(args), "lane": lane, "resp": clip(vA.String(), 300), "json": clip(rB.Raw, 300)})
		}
	}
}

// awaitShrink waits until the background shrink started by this step has
// ended on all three servers, then re-reads the log sizes (a rewritten log
// has nothing to do with its size at case start).
func (r *runner) awaitShrink(before [3]int64) {
	if !verifhook.Enabled {
		r.tr.aofUnreliable, r.tr.baseOK = true, false
		return
	}
	deadline := time.Now().Add(60 * time.Second)
	for k := range before {
		for r.tr.shrinkEnded[k].Load() == before[k] {
			if time.Now().After(deadline) {
				r.c.Inconclusive("AOFSHRINK did not end within 60 s on server %d; log sizes are no longer compared", k)
				r.tr.aofUnreliable, r.tr.baseOK = true, false
				return
			}
			time.Sleep(200 * time.Microsecond)
		}
	}
	r.tr.readBases()
	r.label("aofshrink-awaited")
}

func clip(s string, n int) string {
	if len(s) > n {
		return s[:n] + "..."
	}
	return s
}

// execOutputSwitch: OUTPUT json|resp answers in the mode it switches to, on
// every connection; afterwards the lanes are put back.
func (r *runner) execOutputSwitch(name string, args []string, target string) {
	type lane struct {
		who  string
		c    *t38.Conn
		json bool
	}
	// The format of the reply shows the mode the connection is in afterwards:
	// OUTPUT answers in the mode it switched to, and (impl-mirrored) a
	// TIMEOUT wrapper whose deadline has passed reports "timeout" after the
	// switch has taken effect, in the new mode; errors raised before OUTPUT
	// ran come in the old mode and switch nothing.
	var errsR []t38.Value
	var errsJ []t38.JSONReply
	okCount := 0
	lanes := []lane{{"A/resp", r.tr.a, false}, {"B/json", r.tr.b, true}, {"C", r.tr.cc, r.tr.cc.JSON}}
	for _, ln := range lanes {
		v := r.doRESP(ln.c, ln.who, name, args)
		nowJSON := false
		switch {
		case v.Kind == '+' && v.Str == "OK" && target == "resp":
			okCount++
		case v.IsErr():
			errsR = append(errsR, v)
		case v.Kind == '$' && !v.Null:
			nowJSON = true
			rep := r.decode(ln.who, name, args, v.Str)
			if d := elapsedOK(rep); d != "" {
				r.fail("disagree:"+name, fmt.Sprintf("%s: %s: reply %s %s", ln.who, t38.CmdString(args), v.Str, d))
			}
			switch {
			case rep.OK && target == "json" && len(rep.M) <= 2:
				okCount++
			case !rep.OK:
				errsJ = append(errsJ, rep)
			default:
				r.fail("disagree:"+name, fmt.Sprintf("%s: %s switches to %s but answers %s", ln.who, t38.CmdString(args), target, v))
			}
		default:
			r.fail("disagree:"+name, fmt.Sprintf("%s: %s switches to %s but answers %s", ln.who, t38.CmdString(args), target, v))
		}
		ln.c.JSON = nowJSON
		if nowJSON != ln.json {
			if err := ln.c.SetJSON(ln.json); err != nil {
				r.fail("disagree:"+name, fmt.Sprintf("%s: cannot switch the connection back: %v", ln.who, err))
			}
		}
	}
	outcome := "ok"
	if okCount != len(lanes) {
		outcome = "err"
		if okCount != 0 {
			r.fail("disagree:"+name, fmt.Sprintf("%s: accepted on %d of %d connections", t38.CmdString(args), okCount, len(lanes)))
		}
		for _, e := range errsR {
			if e.Str != errsR[0].Str {
				r.fail("disagree:"+name, fmt.Sprintf("%s: different errors %q / %q", t38.CmdString(args), e.Str, errsR[0].Str))
			}
		}
		for _, e := range errsJ {
			if e.Err != errsJ[0].Err {
				r.fail("disagree:"+name, fmt.Sprintf("%s: different errors %q / %q", t38.CmdString(args), e.Err, errsJ[0].Err))
			}
		}
		if len(errsR) > 0 && len(errsJ) > 0 {
			r.check(0, 1, "RESP-format vs JSON-format error", name, args, errsR[0], errsJ[0])
		}
	}
	r.label("cmd:output/switch-" + target + "/" + outcome)
	r.label("outcome:" + outcome)
}

// drain sends QUIT on a detached connection and waits for the server to
// close it, so that the server has dropped the subscription / monitor before
// the next lock-step command.
func drain(c *t38.Conn) {
	c.C.SetDeadline(time.Now().Add(10 * time.Second))
	c.SendRaw(t38.EncodeCmd("QUIT"))
	io.Copy(io.Discard, c.BR)
	c.Close()
}

// execDetached runs commands that may take the connection out of
// request/reply mode on fresh connections, one per mode, and compares the
// first reply.
func (r *runner) execDetached(name string, args []string) {
	_, outer, in := cmdName(args)
	isQuit := outer == "quit"
	// RESP mode
	ca, err := r.tr.srv[0].Dial()
	if err != nil {
		r.giveUp(err.Error())
	}
	defer ca.Close()
	cb, err := r.tr.srv[1].Dial()
	if err != nil {
		r.giveUp(err.Error())
	}
	defer cb.Close()
	if err := cb.SetJSON(true); err != nil {
		r.fail("transport:"+name, err.Error())
	}
	// C gets the command too (a WHEREEVAL script in a live search is cached by
	// the server; the three script caches must stay alike)
	cc, err := r.tr.srv[2].Dial()
	if err != nil {
		r.giveUp(err.Error())
	}
	defer cc.Close()
	nReplies := 1
	if (name == "subscribe" || name == "psubscribe") && len(in) > 1 {
		nReplies = len(in) - 1
	}
	if err := ca.Send(args...); err != nil {
		r.fail("transport:"+name, err.Error())
	}
	if err := cb.Send(args...); err != nil {
		r.fail("transport:"+name, err.Error())
	}
	if err := cc.Send(args...); err != nil {
		r.fail("transport:"+name, err.Error())
	}
	if _, err := cc.Recv(); err != nil && !(isQuit && errors.Is(err, io.EOF)) {
		r.fail("resp-malformed:"+name, fmt.Sprintf("C/resp %s: %v", t38.CmdString(args), err))
	}
	defer drain(cc)
	outcome := "ok"
	for k := 0; k < nReplies; k++ {
		vA, errA := ca.Recv()
		vB, errB := cb.Recv()
		if errA != nil {
			r.fail("resp-malformed:"+name, fmt.Sprintf("A/resp %s: reply %d: %v", t38.CmdString(args), k, errA))
		}
		if errB != nil {
			if isQuit && errors.Is(errB, io.EOF) {
				// QUIT in JSON mode closes without a reply
				if !(vA.Kind == '+' && vA.Str == "OK") {
					r.fail("disagree:quit", fmt.Sprintf("QUIT: RESP answers %s", vA))
				}
				r.label("impl-mirrored:quit-json-closes-without-reply")
				r.label("cmd:quit/" + "detached" + "/ok")
				return
			}
			r.fail("resp-malformed:"+name, fmt.Sprintf("B/json %s: reply %d: %v", t38.CmdString(args), k, errB))
		}
		if vB.Kind == '+' && vB.Str == "OK" && vA.Kind == '+' && vA.Str == "OK" && (name == "monitor" || name == "aof") {
			// the stream protocols of MONITOR and AOF start with +OK in either mode
			r.label("impl-mirrored:" + name + "-plain-ok-in-json-mode")
			break
		}
		if vB.Kind != '$' || vB.Null {
			r.fail("json-not-bulk:"+name, fmt.Sprintf("B/json %s: reply %d in JSON mode is not a bulk string: %s", t38.CmdString(args), k, vB))
		}
		rB := r.decode("B/json", name, args, vB.Str)
		if d := elapsedOK(rB); d != "" {
			r.fail("disagree:"+name, d)
		}
		switch {
		case !rB.OK || vA.IsErr():
			outcome = r.check(0, 1, "A/resp vs B/json (fresh connections)", name, args, vA, rB)
			k = nReplies
		case name == "subscribe" || name == "psubscribe":
			top, _ := members(rB)
			cmdS, _ := top["command"].(string)
			ch, _ := top["channel"].(string)
			n, _ := jnum(top["num"])
			ok := vA.Kind == '*' && len(vA.Arr) == 3 && vA.Arr[0].Str == cmdS && lossy(vA.Arr[1].Str) == ch && vA.Arr[2].Kind == ':' && strconv.FormatInt(vA.Arr[2].Int, 10) == n && cmdS == name && len(top) == 3
			if !ok {
				r.fail("disagree:"+name, fmt.Sprintf("%s: subscription reply %d differs: RESP %s, JSON %s", t38.CmdString(args), k, vA, rB.Raw))
			}
		case isQuit:
			if !(vA.Kind == '+' && vA.Str == "OK" && len(rB.M) <= 2) {
				r.fail("disagree:quit", fmt.Sprintf("QUIT: RESP %s, JSON %s", vA, rB.Raw))
			}
		default:
			// live fence, or a search that did not go live after all
			top, _ := members(rB)
			if live, _ := top["live"].(bool); live && len(top) == 1 {
				if !(vA.Kind == '+' && vA.Str == "OK") {
					r.fail("disagree:"+name, fmt.Sprintf("%s: going-live reply differs: RESP %s, JSON %s", t38.CmdString(args), vA, rB.Raw))
				}
				r.label("went-live")
			} else {
				outcome = r.check(0, 1, "A/resp vs B/json (fresh connections)", name, args, vA, rB)
				k = nReplies
			}
		}
	}
	drain(ca)
	drain(cb)
	r.label("cmd:" + name + "/detached/" + outcome)
	r.label("lane:fresh-connections")
	r.label("outcome:" + outcome)
}

// finish compares the visible datasets of the three servers.
func (r *runner) finish() {
	var dumps [3]*t38.Dump
	for i, s := range r.tr.srv {
		d, err := t38.TakeDump(s.Addr)
		if err != nil {
			if isDialErr(err) {
				r.giveUp(err.Error())
			}
			r.fail("dump-failed", fmt.Sprintf("server %d: %v", i, err))
		}
		dumps[i] = d
	}
	names := []string{"A(resp)", "B(json)", "C(transports)"}
	for i := 1; i < 3; i++ {
		if diff := dumps[0].Diff(dumps[i]); diff != "" {
			r.fail("twins-diverged", fmt.Sprintf("same commands, different datasets: A=%s B=%s: %s", names[0], names[i], diff))
		}
	}
	if dumps[0].NumObjects() > 0 {
		r.label("final-state-nonempty")
	}
}

func newRunner(tr *trio, c *ev.Collector, t ev.Failer, p *program, ex exclusions) *runner {
	return &runner{tr: tr, c: c, t: t, p: p, labels: map[string]int{}, nt: map[string]bool{}, ex: ex}
}

func (r *runner) run() {
	if err := r.tr.reset(); err != nil {
		if isDialErr(err) {
			r.giveUp(err.Error())
		}
		panic("cannot reset the servers: " + err.Error())
	}
	for i := range r.p.Steps {
		r.exec(i, &r.p.Steps[i])
	}
	r.finish()
}

// commit moves what the (successful) execution exercised into the collector.
func (r *runner) commit() {
	for l, n := range r.labels {
		r.c.LabelN(l, n)
	}
	for k := range r.nt {
		r.c.NonTrivial(k)
	}
	for _, s := range r.samples {
		r.c.Sample(s)
	}
}

package c17

// TestC17_SubCommands: commands issued INSIDE a subscription. A connection in
// RESP mode, one in JSON mode and one speaking the native protocol enter the
// same subscription and then run the same generated sequence of PING (with /
// without argument), SUBSCRIBE / PSUBSCRIBE more, UNSUBSCRIBE / PUNSUBSCRIBE,
// refused commands and a final QUIT, interleaved with published messages.
// Every frame on the JSON and native connections must be one JSON document of
// the documented shape and convey what the RESP twin got; message delivery
// follows a model of the subscription set.

import (
	"encoding/json"
	"errors"
	"fmt"
	"io"
	"strconv"
	"strings"
	"testing"

	"github.com/tidwall/tile38/verif/harness/ev"
	"github.com/tidwall/tile38/verif/harness/t38"
	"pgregory.net/rapid"
)

type subOp struct {
	Pub  bool     `json:"pub,omitempty"`
	Args []string `json:"args"` // Go-quoted: the command, or [channel, message] of a PUBLISH
}

type subCase struct {
	First []string `json:"first"` // the command that opens the subscription (quoted)
	Ops   []subOp  `json:"ops"`
}

var subChannels = []string{"a1", "a2", "b1"}
var subPatterns = []string{"p*", "q?"}
var subTargets = []string{"a1", "a2", "b1", "p7", "pp", "qx", "zz"}

func patMatch(p, ch string) bool {
	switch p {
	case "p*":
		return strings.HasPrefix(ch, "p")
	case "q?":
		return len(ch) == 2 && ch[0] == 'q'
	}
	return p == ch
}

// subAgree: a reply inside a subscription in RESP form vs JSON form.
func subAgree(args []string, k int, v t38.Value, rep t38.JSONReply) string {
	if d := elapsedOK(rep); d != "" {
		return d
	}
	top, err := members(rep)
	if err != nil {
		return err.Error()
	}
	name := strings.ToLower(args[0])
	bad := func() string { return fmt.Sprintf("RESP %s, JSON %s", v, rep.Raw) }
	if !rep.OK {
		if !v.IsErr() || lossy(v.Str) != expectedRESPErr(rep.Err, name) || len(top) != 0 {
			return "error differs: " + bad()
		}
		return ""
	}
	if v.IsErr() {
		return "RESP error, JSON ok: " + bad()
	}
	switch name {
	case "ping":
		s, _ := top["ping"].(string)
		want, wantR := "pong", ""
		if len(args) > 1 {
			want, wantR = lossy(args[1]), args[1]
		}
		if len(top) != 1 || s != want || v.Kind != '*' || len(v.Arr) != 2 || v.Arr[0].Str != "PONG" || v.Arr[1].Str != wantR {
			return "ping reply differs: " + bad()
		}
	case "subscribe", "psubscribe", "unsubscribe", "punsubscribe":
		cmd, _ := top["command"].(string)
		ch, _ := top["channel"].(string)
		n, _ := jnum(top["num"])
		if len(top) != 3 || cmd != name || v.Kind != '*' || len(v.Arr) != 3 || v.Arr[0].Str != name ||
			lossy(v.Arr[1].Str) != ch || ch != lossy(args[1+k]) || v.Arr[2].Kind != ':' || strconv.FormatInt(v.Arr[2].Int, 10) != n {
			return "subscription reply differs: " + bad()
		}
	case "quit":
		if len(top) != 0 || !(v.Kind == '+' && v.Str == "OK") {
			return "quit reply differs: " + bad()
		}
	default:
		return "a command that is not allowed inside a subscription was answered ok: " + bad()
	}
	return ""
}

func encodeFor(kind string, args []string) []byte {
	if kind == "native" {
		line := strings.Join(args, " ")
		return []byte("$" + strconv.Itoa(len(line)) + " " + line + "\r\n")
	}
	return t38.EncodeCmd(args...)
}

func runSubCase(c *ev.Collector, fail func(key, what string), tr *trio, sc subCase) map[string]bool {
	labels := map[string]bool{}
	if err := tr.reset(); err != nil {
		if isDialErr(err) {
			c.Inconclusive("cannot reset: %v", err)
			return labels
		}
		panic(err)
	}
	srv, adm := tr.srv[0], tr.a
	first := unquoteArgs(sc.First)
	chans, pats := map[string]bool{}, map[string]bool{}
	apply := func(args []string, k int) int {
		ch := args[1+k]
		switch strings.ToLower(args[0]) {
		case "subscribe":
			chans[ch] = true
		case "psubscribe":
			pats[ch] = true
		case "unsubscribe":
			delete(chans, ch)
		case "punsubscribe":
			delete(pats, ch)
		}
		return len(chans) + len(pats)
	}
	var ss []*stream
	defer func() {
		for _, s := range ss {
			s.close()
		}
	}()
	for _, kind := range []string{"resp", "json", "native"} {
		s, err := openStream(srv.Addr, kind, first)
		if err != nil {
			c.Inconclusive("cannot open the %s stream: %v", kind, err)
			return labels
		}
		ss = append(ss, s)
	}
	// frames: read n frames from every stream and compare with the RESP one
	readFrames := func(what string, args []string, n int, skipNative bool) bool {
		for k := 0; k < n; k++ {
			var ref t38.Value
			for _, s := range ss {
				if s.kind == "native" && skipNative {
					continue
				}
				v, payload, err := s.next()
				if err != nil {
					if isTimeout(err) {
						c.Inconclusive("no frame on the %s stream within %v (%s)", s.kind, ioTimeout, what)
						return false
					}
					fail("substream-frame:"+s.kind, fmt.Sprintf("%s connection inside a subscription, %s, frame %d: %v (got %q)", s.kind, what, k, err, clip(payload, 200)))
				}
				if s.kind == "resp" {
					ref = v
					continue
				}
				rep, err := t38.DecodeJSONReply(payload)
				if err != nil {
					fail("json-malformed:in-subscription", fmt.Sprintf("%s connection inside a subscription, %s, frame %d is not one JSON reply document: %v", s.kind, what, k, clipErr(err)))
				}
				if d := subAgree(args, k, ref, rep); d != "" {
					fail("disagree:in-subscription:"+strings.ToLower(args[0]), fmt.Sprintf("%s connection inside a subscription, %s, frame %d: %s", s.kind, what, k, d))
				}
				labels["reply:"+s.kind+":"+strings.ToLower(args[0])] = true
			}
			if strings.HasSuffix(strings.ToLower(args[0]), "subscribe") && len(args) > 1 {
				want := apply(args, k)
				if ref.Kind == '*' && len(ref.Arr) == 3 && int(ref.Arr[2].Int) != want {
					fail("disagree:in-subscription:num", fmt.Sprintf("%s: reply %s, model says %d subscriptions", what, ref, want))
				}
			}
		}
		return true
	}
	if !readFrames("opening "+t38.CmdString(first), first, len(first)-1, false) {
		return labels
	}
	for oi, op := range sc.Ops {
		args := unquoteArgs(op.Args)
		what := fmt.Sprintf("op %d %s", oi, t38.CmdString(args))
		if op.Pub {
			ch, msg := args[0], args[1]
			v, err := adm.Do("PUBLISH", ch, msg)
			if err != nil || v.IsErr() {
				fail("disagree:publish", fmt.Sprintf("PUBLISH %q: %v %v", ch, v, err))
			}
			pat := ""
			for p := range pats {
				if patMatch(p, ch) {
					pat = p
				}
			}
			if !chans[ch] && pat == "" {
				labels["publish-unmatched"] = true
				continue
			}
			for _, s := range ss {
				v, payload, err := s.next()
				if err != nil {
					if isTimeout(err) {
						c.Inconclusive("no message on the %s stream within %v", s.kind, ioTimeout)
						return labels
					}
					fail("substream-frame:"+s.kind, fmt.Sprintf("%s connection, message published to %q: %v", s.kind, ch, err))
				}
				if s.kind == "resp" {
					okMsg := v.Kind == '*' && len(v.Arr) == 3 && v.Arr[0].Str == "message" && v.Arr[1].Str == ch && v.Arr[2].Str == msg
					okPMsg := v.Kind == '*' && len(v.Arr) == 4 && v.Arr[0].Str == "pmessage" && v.Arr[1].Str == pat && v.Arr[2].Str == ch && v.Arr[3].Str == msg
					if !(chans[ch] && okMsg || !chans[ch] && okPMsg) {
						fail("disagree:message", fmt.Sprintf("resp subscriber got %s for PUBLISH %q %q", v, ch, msg))
					}
					continue
				}
				var str string
				if json.Unmarshal([]byte(payload), &str) != nil || str != lossy(msg) {
					fail("disagree:message", fmt.Sprintf("%s subscriber got %q for the text message %q", s.kind, payload, msg))
				}
			}
			labels["message-delivered"] = true
			c.Case()
			continue
		}
		native := lineCarriable(args, false)
		for _, s := range ss {
			if s.kind == "native" && !native {
				continue
			}
			s.c.SetWriteDeadline(deadlineIn(ioTimeout))
			if _, err := s.c.Write(encodeFor(s.kind, args)); err != nil {
				c.Inconclusive("write: %v", err)
				return labels
			}
		}
		n := 1
		if strings.HasSuffix(strings.ToLower(args[0]), "subscribe") && len(args) > 1 {
			n = len(args) - 1
		}
		if !readFrames(what, args, n, !native) {
			return labels
		}
		c.Case()
		if strings.EqualFold(args[0], "quit") {
			for _, s := range ss {
				_, _, err := s.next()
				if !errors.Is(err, io.EOF) && !errors.Is(err, io.ErrUnexpectedEOF) {
					fail("disagree:in-subscription:quit", fmt.Sprintf("%s connection: after QUIT the server must close the connection, got %v", s.kind, err))
				}
			}
			labels["quit"] = true
			break
		}
	}
	return labels
}

func TestC17_SubCommands(t *testing.T) {
	c := ev.New("C17", "subcommands", "exploration")
	t.Cleanup(c.Flush)
	c.Rule("three connections (RESP mode, OUTPUT json mode, native protocol) open the same subscription (SUBSCRIBE or PSUBSCRIBE with 1-2 names) and run the same 4-12 drawn operations: PING, PING <text> (texts needing escaping on the RESP/JSON pair), SUBSCRIBE / PSUBSCRIBE of further names, UNSUBSCRIBE / PUNSUBSCRIBE of subscribed and unsubscribed names, the same without arguments (refused), a command that is not allowed (GET, SET, OUTPUT json, bogus), PUBLISH from a fourth connection to matching and non-matching channels, and mostly a final QUIT; each reply frame on the JSON / native connection must be one JSON reply document of the shape of that command and convey what the RESP connection received (pong text, command/channel/num, error text, ok), subscription counts follow a model, published texts arrive exactly when the model says so, QUIT closes. Non-trivial: a case with at least one in-subscription reply after a change of the subscription set; distinct by the sequence of operation kinds.")
	ev.Rapid("subcommands", ev.Pick(120, 1200))
	rapid.Check(t, func(rt *rapid.T) {
		var sc subCase
		pick := func(label string, xs []string) string { return rapid.SampledFrom(xs).Draw(rt, label) }
		if rapid.Bool().Draw(rt, "psub") {
			sc.First = quoteArgs([]string{"PSUBSCRIBE", pick("fp", subPatterns)})
		} else {
			f := []string{"SUBSCRIBE", pick("fc", subChannels)}
			if rapid.Bool().Draw(rt, "two") {
				f = append(f, pick("fc2", subChannels))
			}
			sc.First = quoteArgs(distinct(f))
		}
		var abs []string
		n := rapid.IntRange(4, 12).Draw(rt, "nops")
		for i := 0; i < n; i++ {
			var op subOp
			switch rapid.IntRange(0, 9).Draw(rt, "op") {
			case 0:
				op.Args = []string{"PING"}
			case 1:
				op.Args = []string{"PING", pick("pingtext", append([]string{"hello", "x"}, hostilePool...))}
				if op.Args[1] == "" {
					op.Args = []string{"PING"}
				}
			case 2:
				op.Args = []string{pick("subcmd", []string{"SUBSCRIBE", "subscribe"}), pick("ch", subChannels)}
				if rapid.Bool().Draw(rt, "more") {
					op.Args = append(op.Args, pick("ch2", subChannels))
				}
			case 3:
				op.Args = []string{"PSUBSCRIBE", pick("pat", subPatterns)}
			case 4:
				op.Args = []string{"UNSUBSCRIBE", pick("ch", subChannels)}
			case 5:
				op.Args = []string{"PUNSUBSCRIBE", pick("pat", subPatterns)}
			case 6:
				op.Args = [][]string{{"UNSUBSCRIBE"}, {"PUNSUBSCRIBE"}, {"SUBSCRIBE"}, {"PSUBSCRIBE"}}[rapid.IntRange(0, 3).Draw(rt, "noarg")]
			case 7:
				op.Args = [][]string{{"GET", "k", "a"}, {"SET", "k", "a", "POINT", "1", "2"}, {"OUTPUT", "json"}, {"OUTPUT", "resp"}, {"BOGUS"}, {"SERVER"}}[rapid.IntRange(0, 5).Draw(rt, "refused")]
			default:
				op.Pub = true
				op.Args = []string{pick("target", subTargets), pick("msg", []string{"plain text", "q\"uote", "é\xff", "a\nb", "not {json"})}
			}
			kind := strings.ToLower(op.Args[0])
			if op.Pub {
				kind = "pub"
			}
			abs = append(abs, kind)
			op.Args = quoteArgs(op.Args)
			sc.Ops = append(sc.Ops, op)
		}
		if rapid.IntRange(0, 3).Draw(rt, "quit") > 0 {
			sc.Ops = append(sc.Ops, subOp{Args: quoteArgs([]string{"QUIT"})})
			abs = append(abs, "quit")
		}
		labels := runSubCase(c, func(key, what string) { c.Fail(rt, key, what, sc) }, mainTrio, sc)
		for l := range labels {
			c.Label(l)
		}
		c.NonTrivial(strings.Join(abs, ","))
		if c.WantSample() {
			c.Sample(sc)
		}
	})
}

func replaySubCommands(t *testing.T, c *ev.Collector, data []byte) {
	var sc subCase
	if err := json.Unmarshal(data, &sc); err != nil {
		t.Fatalf("bad replay data: %v", err)
	}
	runSubCase(c, func(key, what string) { c.Fail(t, key, what, sc) }, mainTrio, sc)
}

package c17

// Stored circle Features whose disc touches (or nearly touches) a pole:
// their 64-gon approximation has NaN vertices, and their bounding box used to
// surface as NaN in BOUNDS outputs and distances (finding
// polar-circle-nan-rect, listed under C13; the reply-format half belongs here).

import (
	"fmt"
	"math"
	"strings"

	"github.com/tidwall/tile38/verif/harness/t38"
)

const idPolarCircle = "polar-circle-nan-rect"

// polarCircle returns a circle Feature centred at (lat, lon) whose radius is
// the distance to the nearer pole plus delta metres (earth radius 6371 km as
// in tidwall/geojson).
func polarCircle(lat, lon, delta float64) string {
	r := 6371000.0*(90-math.Abs(lat))*math.Pi/180 + delta
	return fmt.Sprintf(`{"type":"Feature","geometry":{"type":"Point","coordinates":[%s,%s]},"properties":{"type":"Circle","radius":%s,"radius_units":"m"}}`,
		ffmt(lon), ffmt(lat), ffmt(r))
}

var polarDeltas = []float64{0, 0.01, -0.01, 1, -1}

// polarQueries: every output that prints the object's box or a distance.
func polarQueries(key, id string) [][]string {
	return [][]string{
		{"GET", key, id}, {"GET", key, id, "BOUNDS"}, {"GET", key, id, "WITHFIELDS", "BOUNDS"}, {"GET", key, id, "POINT"}, {"GET", key, id, "HASH", "6"},
		{"SCAN", key, "BOUNDS"}, {"SCAN", key, "POINTS"}, {"SCAN", key, "HASHES", "5"}, {"SCAN", key},
		{"NEARBY", key, "DISTANCE", "POINT", "0", "0"}, {"NEARBY", key, "DISTANCE", "IDS", "POINT", "0", "0"}, {"NEARBY", key, "DISTANCE", "BOUNDS", "POINT", "80", "10", "5000000"},
		{"WITHIN", key, "BOUNDS", "BOUNDS", "-90", "-180", "90", "180"}, {"INTERSECTS", key, "BOUNDS", "BOUNDS", "-90", "-180", "90", "180"},
		{"INTERSECTS", key, "BOUNDS", "CIRCLE", "0", "0", "1000000"}, {"INTERSECTS", key, "DISTANCE", "POINTS", "CIRCLE", "85", "10", "2000000"},
		{"BOUNDS", key}, {"STATS", key},
	}
}

// seqPairProbe runs cmds on A (RESP) and B (JSON) of a clean trio and
// reports the first malformed reply or RESP/JSON disagreement.
func seqPairProbe(id string, cmds [][]string) probeResult {
	res := probeResult{id: id, cmds: cmds}
	if err := mainTrio.reset(); err != nil {
		panic(err)
	}
	var tnt taint
	tnt.aof = true
	for _, cmd := range cmds {
		v, err1 := mainTrio.a.Do(cmd...)
		jv, err2 := mainTrio.b.Do(cmd...)
		if err1 != nil || err2 != nil || jv.Kind != '$' {
			res.reproduces, res.what = true, fmt.Sprintf("%s: %v %v %s", t38.CmdString(cmd), err1, err2, clip(jv.String(), 200))
			return res
		}
		rep, err := t38.DecodeJSONReply(jv.Str)
		if err != nil {
			res.reproduces, res.what = true, fmt.Sprintf("%s: %s", t38.CmdString(cmd), clip(err.Error(), 400))
			return res
		}
		if _, d := agree(cmd, v, rep, &tnt); d != "" {
			res.reproduces, res.what = true, fmt.Sprintf("%s: %s (RESP %s, JSON %s)", t38.CmdString(cmd), strings.TrimPrefix(d, "{{"+id+"}}"), clip(v.String(), 200), clip(jv.Str, 200))
			return res
		}
	}
	return res
}

func polarProbes() []probeResult {
	var out []probeResult
	for _, c := range []struct{ lat, lon, delta float64 }{{1.5, 10, -0.6}, {1.5, 10, 0}, {-60, -170, 0.01}, {88, 0, 1}} {
		obj := polarCircle(c.lat, c.lon, c.delta)
		if c.delta == -0.6 {
			// the reported object verbatim
			obj = `{"type":"Feature","geometry":{"type":"Point","coordinates":[10,1.5]},"properties":{"type":"Circle","radius":9840751,"radius_units":"m"}}`
		}
		cmds := [][]string{{"SET", "k", "circ", "FIELD", "f", "1", "OBJECT", obj}, {"SET", "k", "p", "POINT", "10", "20"}}
		cmds = append(cmds, polarQueries("k", "circ")...)
		out = append(out, seqPairProbe(idPolarCircle, cmds))
	}
	return out
}

// clientListTypedProbe: names that read like numbers, booleans or null must
// come back from CLIENT LIST in JSON mode as the strings RESP CLIENT LIST and
// CLIENT GETNAME show (regression probe of json-client-list-typed-name).
func clientListTypedProbe() probeResult {
	var cmds [][]string
	for _, name := range []string{"007", "1e3", "0x1p4", "true", "false", "null", "-0", "1.0", "+5", ".5", "1e-2", "123456789012345678901234567890"} {
		cmds = append(cmds, []string{"CLIENT", "SETNAME", name}, []string{"CLIENT", "GETNAME"}, []string{"CLIENT", "LIST"})
	}
	return seqPairProbe(idClientListTyped, cmds)
}

package c17

// TestC17_Pipeline: output-mode switches pipelined with other commands.
// Segments such as [OUTPUT json, SET, GET, SCAN], [GET, OUTPUT resp, GET] or
// several switches in one segment are written to server A with ONE write (so
// that they arrive in one network read), as RESP arrays or as telnet lines,
// while the twin connection on server B sends the same commands one round
// trip at a time. Oracle: every reply is well-formed in the mode that is in
// force at that point of the segment (OUTPUT answers in the mode it switches
// to, everything behind it in the new mode), equals what the twin got, the
// mode persists into later segments, and the two datasets end up equal.

import (
	"bufio"
	"encoding/json"
	"fmt"
	"net"
	"strconv"
	"strings"
	"testing"
	"time"

	"github.com/tidwall/tile38/verif/harness/ev"
	"github.com/tidwall/tile38/verif/harness/gen"
	"github.com/tidwall/tile38/verif/harness/t38"
	"pgregory.net/rapid"
)

type pipeCase struct {
	Telnet   bool         `json:"telnet"`   // segments are sent as inline (telnet) lines
	Setup    [][]string   `json:"setup"`    // Go-quoted arguments
	Segments [][][]string `json:"segments"` // segment -> command -> Go-quoted arguments
}

func quoteArgs(args []string) []string {
	q := make([]string, len(args))
	for i, a := range args {
		q[i] = strconv.Quote(a)
	}
	return q
}

func unquoteArgs(q []string) []string {
	out := make([]string, len(q))
	for i, s := range q {
		u, err := strconv.Unquote(s)
		if err != nil {
			u = s
		}
		out[i] = u
	}
	return out
}

// outputTarget: "json" / "resp" when args is an OUTPUT command that switches.
func outputTarget(args []string) string {
	if len(args) == 2 && strings.EqualFold(args[0], "output") {
		switch strings.ToLower(args[1]) {
		case "json", "resp":
			return strings.ToLower(args[1])
		}
	}
	return ""
}

// pipeReply is one reply read in a known mode.
type pipeReply struct {
	v    t38.Value
	json bool
	doc  map[string]any // JSON mode: parsed document without elapsed
}

// readReply reads one reply that must be in the given mode.
func readReply(br *bufio.Reader, c net.Conn, wantJSON bool) (pipeReply, string) {
	c.SetReadDeadline(time.Now().Add(t38.ReplyTimeout))
	v, err := t38.ReadValue(br)
	if err != nil {
		return pipeReply{}, fmt.Sprintf("cannot read the reply: %v", err)
	}
	r := pipeReply{v: v, json: wantJSON}
	isDoc := false
	if v.Kind == '$' && !v.Null {
		if rep, err := t38.DecodeJSONReply(v.Str); err == nil {
			isDoc = true
			if d := elapsedOK(rep); d != "" {
				return r, d
			}
			m, err := parseJSON([]byte(v.Str))
			if err != nil {
				return r, err.Error()
			}
			r.doc, _ = m.(map[string]any)
			delete(r.doc, "elapsed")
		}
	}
	switch {
	case wantJSON && !isDoc:
		return r, fmt.Sprintf("the connection is in JSON mode at this point but the reply is not a JSON reply document: %s", v)
	case !wantJSON && isDoc:
		return r, fmt.Sprintf("the connection is in RESP mode at this point but the reply is a JSON reply document: %s", v)
	}
	return r, ""
}

func sameReply(name string, a, b pipeReply) bool {
	if a.json != b.json {
		return false
	}
	if name == "ttl" {
		// seconds left: the twins run at slightly different moments
		if a.json {
			x, _ := jnum(a.doc["ttl"])
			y, _ := jnum(b.doc["ttl"])
			return (x == "-1") == (y == "-1") && a.doc["ok"] == b.doc["ok"]
		}
		return a.v.Kind == b.v.Kind && (a.v.Int == -1) == (b.v.Int == -1) && (a.v.Int == -2) == (b.v.Int == -2)
	}
	if a.json {
		return deepEq(a.doc, b.doc)
	}
	return a.v.Equal(b.v)
}

type pipeConn struct {
	c  net.Conn
	br *bufio.Reader
}

func dialPipe(addr string) (*pipeConn, error) {
	c, err := net.DialTimeout("tcp", addr, 5*time.Second)
	if err != nil {
		return nil, err
	}
	if tc, ok := c.(*net.TCPConn); ok {
		tc.SetNoDelay(true)
	}
	return &pipeConn{c: c, br: bufio.NewReader(c)}, nil
}

func encodeSegment(cmds [][]string, telnet bool) []byte {
	var b []byte
	for _, args := range cmds {
		if telnet {
			b = append(b, strings.Join(args, " ")...)
			b = append(b, '\r', '\n')
		} else {
			b = append(b, t38.EncodeCmd(args...)...)
		}
	}
	return b
}

func runPipeCase(c *ev.Collector, fail func(key, what string), tr *trio, pc pipeCase) (labels map[string]bool) {
	labels = map[string]bool{}
	if err := tr.reset(); err != nil {
		if isDialErr(err) {
			c.Inconclusive("cannot reset: %v", err)
			return
		}
		panic(err)
	}
	for _, q := range pc.Setup {
		args := unquoteArgs(q)
		for _, conn := range []*t38.Conn{tr.a} {
			if _, err := conn.Do(args...); err != nil {
				panic(err)
			}
		}
		// B's lane connection is in JSON mode; use a plain one
		cb, err := tr.srv[1].Dial()
		if err != nil {
			c.Inconclusive("dial: %v", err)
			return
		}
		_, err = cb.Do(args...)
		cb.Close()
		if err != nil {
			panic(err)
		}
	}
	p, err := dialPipe(tr.srv[0].Addr) // pipelined
	if err != nil {
		c.Inconclusive("dial: %v", err)
		return
	}
	defer p.c.Close()
	w, err := dialPipe(tr.srv[1].Addr) // twin: one command per round trip
	if err != nil {
		c.Inconclusive("dial: %v", err)
		return
	}
	defer w.c.Close()
	jsonMode := false
	for si, seg := range pc.Segments {
		var cmds [][]string
		for _, q := range seg {
			cmds = append(cmds, unquoteArgs(q))
		}
		t38.JournalNote(fmt.Sprintf("pipeline segment %d telnet=%v %q", si, pc.Telnet, cmds))
		p.c.SetWriteDeadline(time.Now().Add(ioTimeout))
		if _, err := p.c.Write(encodeSegment(cmds, pc.Telnet)); err != nil {
			c.Inconclusive("write: %v", err)
			return
		}
		segSwitched := false
		for ci, args := range cmds {
			name, _, _ := cmdName(args)
			// the mode this reply must be in
			want := jsonMode
			if t := outputTarget(args); t != "" {
				want = t == "json"
			}
			line := fmt.Sprintf("segment %d (%d commands in one write, %s) command %d %s", si, len(cmds), map[bool]string{true: "telnet lines", false: "RESP arrays"}[pc.Telnet], ci, t38.CmdString(args))
			// twin: own round trip
			w.c.SetWriteDeadline(time.Now().Add(ioTimeout))
			if _, err := w.c.Write(encodeSegment([][]string{args}, pc.Telnet)); err != nil {
				c.Inconclusive("write: %v", err)
				return
			}
			rw, bad := readReply(w.br, w.c, want)
			if bad != "" {
				fail("mode-switch:"+name, "twin connection (one command per round trip): "+line+": "+bad)
			}
			rp, bad := readReply(p.br, p.c, want)
			if bad != "" {
				fail("pipelined-mode-switch:"+name, "pipelined connection: "+line+": "+bad)
			}
			if !sameReply(name, rp, rw) {
				fail("pipelined-reply-differs:"+name, fmt.Sprintf("%s: pipelined connection got %s, the connection sending one command per round trip got %s", line, rp.v, rw.v))
			}
			if outputTarget(args) != "" {
				// an OUTPUT that answered with an error switches nothing
				if rp.json && rp.doc["ok"] == false || !rp.json && rp.v.IsErr() {
					fail("mode-switch:output", line+": refused: "+rp.v.String())
				}
				if want != jsonMode {
					labels["switch-to-"+map[bool]string{true: "json", false: "resp"}[want]] = true
				}
				if ci < len(cmds)-1 {
					labels["switch-followed-in-same-write"] = true
				}
				if segSwitched {
					labels["several-switches-in-one-write"] = true
				}
				segSwitched = true
			} else if segSwitched {
				labels["reply-behind-switch:"+map[bool]string{true: "json", false: "resp"}[want]] = true
			}
			jsonMode = want
			c.Case()
		}
		if p.br.Buffered() != 0 {
			rest, _ := p.br.Peek(p.br.Buffered())
			fail("resp-leftover:pipeline", fmt.Sprintf("segment %d: %d bytes follow the last reply: %q", si, len(rest), rest))
		}
	}
	// the mode persists: ask both connections, each in its own round trip
	for _, pcn := range []*pipeConn{p, w} {
		pcn.c.SetWriteDeadline(time.Now().Add(ioTimeout))
		pcn.c.Write(encodeSegment([][]string{{"OUTPUT"}}, pc.Telnet))
		r, bad := readReply(pcn.br, pcn.c, jsonMode)
		if bad != "" {
			fail("pipelined-mode-not-kept:output", fmt.Sprintf("after the segments the connection must be in %s mode: OUTPUT: %s", map[bool]string{true: "JSON", false: "RESP"}[jsonMode], bad))
		}
		if jsonMode && r.doc["output"] != "json" || !jsonMode && r.v.Str != "resp" {
			fail("pipelined-mode-not-kept:output", fmt.Sprintf("OUTPUT reports %s", r.v))
		}
	}
	// datasets
	da, err1 := t38.TakeDump(tr.srv[0].Addr)
	db, err2 := t38.TakeDump(tr.srv[1].Addr)
	if err1 != nil || err2 != nil {
		if isDialErr(err1) || isDialErr(err2) {
			c.Inconclusive("dump: %v %v", err1, err2)
			return
		}
		fail("dump-failed", fmt.Sprintf("%v %v", err1, err2))
	}
	if d := da.Diff(db); d != "" {
		fail("twins-diverged", "pipelined (A) and one-by-one (B) connections left different datasets: "+d)
	}
	return labels
}

func telnetSafe(args []string) bool {
	return lineCarriable(args, false) && !strings.HasSuffix(strings.ToUpper(strings.Join(args, " ")), " HTTP/1.1")
}

func TestC17_Pipeline(t *testing.T) {
	c := ev.New("C17", "pipeline", "exploration")
	t.Cleanup(c.Flush)
	c.Rule("2-4 segments of 1-6 commands each (keyspace traffic over a small alphabet on a populated dataset, with OUTPUT json / OUTPUT resp / OUTPUT placed first, in the middle, last, or several times in a segment); each segment goes to server A in one write (RESP arrays, or telnet lines when every argument is a plain token) and command by command to the twin connection on server B; every reply must be in the mode in force at that position, equal the twin's reply (elapsed dropped, TTL by class), the mode must persist, final datasets equal. Non-trivial: a segment in which a switch is followed by at least one more command in the same write; distinct by (transport, the sequence of command names and switch targets).")
	// deterministic shapes first
	fixed := []pipeCase{}
	setup := [][]string{quoteArgs([]string{"SET", "k1", "a", "FIELD", "f", "1", "POINT", "33", "-115"}), quoteArgs([]string{"SET", "k1", "b", "STRING", "va\"l"})}
	mk := func(telnet bool, segs ...[][]string) pipeCase {
		pc := pipeCase{Telnet: telnet, Setup: setup}
		for _, s := range segs {
			var seg [][]string
			for _, cmd := range s {
				seg = append(seg, quoteArgs(cmd))
			}
			pc.Segments = append(pc.Segments, seg)
		}
		return pc
	}
	for _, telnet := range []bool{false, true} {
		fixed = append(fixed,
			mk(telnet, [][]string{{"OUTPUT", "json"}, {"SET", "k1", "c", "POINT", "1", "2"}, {"GET", "k1", "c"}, {"SCAN", "k1"}}, [][]string{{"GET", "k1", "a"}}),
			mk(telnet, [][]string{{"OUTPUT", "json"}}, [][]string{{"GET", "k1", "a"}, {"OUTPUT", "resp"}, {"GET", "k1", "a"}}, [][]string{{"SCAN", "k1", "IDS"}}),
			mk(telnet, [][]string{{"GET", "k1", "a"}, {"OUTPUT", "json"}, {"GET", "k1", "a"}, {"OUTPUT", "resp"}, {"GET", "k1", "a"}, {"OUTPUT", "json"}}, [][]string{{"TTL", "k1", "a"}, {"GET", "k1", "nope"}}),
			mk(telnet, [][]string{{"OUTPUT", "json"}, {"OUTPUT", "json"}, {"PING"}, {"OUTPUT", "resp"}, {"OUTPUT", "resp"}, {"PING"}}),
		)
	}
	for _, pc := range fixed {
		pc := pc
		labels := runPipeCase(c, func(key, what string) {
			c.Violation(key, what, pc)
			t.Fatalf("VIOLATION-CANDIDATE key=%s: %s", key, what)
		}, mainTrio, pc)
		for l := range labels {
			c.Label(l)
		}
		c.Label("fixed-shape")
		c.NonTrivial(fmt.Sprintf("fixed|%v|%v", pc.Telnet, pc.Segments))
	}
	ev.Rapid("pipeline", ev.Pick(150, 1500))
	rapid.Check(t, func(rt *rapid.T) {
		pc := pipeCase{Telnet: rapid.Bool().Draw(rt, "telnet")}
		ns := gen.SmallNames
		for i := rapid.IntRange(2, 6).Draw(rt, "nsetup"); i > 0; i-- {
			pc.Setup = append(pc.Setup, quoteArgs(safeTraffic(rt, ns, pc.Telnet)))
		}
		var abs []string
		for s := rapid.IntRange(2, 4).Draw(rt, "nsegments"); s > 0; s-- {
			var seg [][]string
			for k := rapid.IntRange(1, 6).Draw(rt, "ncmds"); k > 0; k-- {
				var args []string
				switch rapid.IntRange(0, 9).Draw(rt, "kind") {
				case 0, 1:
					args = []string{"OUTPUT", rapid.SampledFrom([]string{"json", "JSON"}).Draw(rt, "mode")}
				case 2, 3:
					args = []string{"OUTPUT", rapid.SampledFrom([]string{"resp", "RESP"}).Draw(rt, "mode")}
				case 4:
					args = rapid.SampledFrom([][]string{{"OUTPUT"}, {"PING"}, {"SERVERX"}, {"GET", "k1"}, {"KEYS", "*"}}).Draw(rt, "misc")
				default:
					args = safeTraffic(rt, ns, pc.Telnet)
				}
				seg = append(seg, quoteArgs(args))
				abs = append(abs, strings.ToLower(strings.Join(args[:min(2, len(args))], " ")))
			}
			pc.Segments = append(pc.Segments, seg)
			abs = append(abs, "|")
		}
		labels := runPipeCase(c, func(key, what string) { c.Fail(rt, key, what, pc) }, mainTrio, pc)
		for l := range labels {
			c.Label(l)
		}
		c.Label(map[bool]string{true: "transport:telnet", false: "transport:resp"}[pc.Telnet])
		if labels["switch-followed-in-same-write"] {
			c.NonTrivial(fmt.Sprintf("%v|%s", pc.Telnet, strings.Join(abs, ",")))
			if c.WantSample() {
				c.Sample(pc)
			}
		}
	})
}

// safeTraffic draws a keyspace command that passes the safety filter and,
// for telnet, can be written as a line of plain tokens.
func safeTraffic(rt *rapid.T, ns gen.Names, telnet bool) []string {
	for try := 0; try < 20; try++ {
		args := gen.KeyspaceCmd(rt, ns)
		if unsafeReason(args) != "" || (telnet && !telnetSafe(args)) {
			continue
		}
		return args
	}
	return []string{"GET", ns.Keys[0], ns.IDs[0]}
}

func replayPipeline(t *testing.T, c *ev.Collector, data []byte) {
	var pc pipeCase
	if err := json.Unmarshal(data, &pc); err != nil {
		t.Fatalf("bad replay data: %v", err)
	}
	runPipeCase(c, func(key, what string) { c.Fail(t, key, what, pc) }, mainTrio, pc)
}

package c07

import (
	"encoding/json"
	"fmt"
	"os"
	"os/exec"
	"path/filepath"
	"regexp"
	"sort"
	"strconv"
	"strings"
	"sync"
	"sync/atomic"
	"testing"
	"time"

	"github.com/tidwall/tile38/internal/verifhook"
	"github.com/tidwall/tile38/verif/harness/ev"
	"github.com/tidwall/tile38/verif/harness/gen"
	"github.com/tidwall/tile38/verif/harness/t38"
	"pgregory.net/rapid"
)

// (c) The race detector prints to stderr of the process it runs in and turns
// the exit status into a failure, so the racy workload runs in a CHILD
// process: the test re-executes its own binary with -test.run of
// TestC07_RaceChild, GORACE=log_path=... and the workload in a file, then
// parses the report files.

const raceChildEnv = "C07_RACE_CHILD" // path of the workload file

// fenceGroupsID is the stable id of the finding "live fences mutate the group
// btrees under the shared lock".
const fenceGroupsID = "live-fence-groups-under-shared-lock"

// shutdownShrinkID: graceful shutdown flushes and syncs s.aof without the
// server lock while an AOFSHRINK goroutine (which nothing waits for) may
// still swap the log files and reassign s.aof. Observed, but outside this
// property (lifecycle, not two client commands): the workload avoids it and a
// report of this shape is only labelled.
const shutdownShrinkID = "shutdown-races-aofshrink"

type raceWorkload struct {
	Spin    bool       `json:"spinlock"`
	Fences  [][]string `json:"fences"`
	Clients [][]rop    `json:"clients"`
}

// rop is one step of a race-workload client: a command or a pause.
type rop struct {
	Cmd     []string `json:"cmd,omitempty"`
	PauseMs int      `json:"pause_ms,omitempty"`
}

type raceReplay struct {
	Workload raceWorkload `json:"workload"`
	Report   string       `json:"report,omitempty"`
	Frames   []string     `json:"tile38_frames,omitempty"`
}

var fenceShapes = [][]string{
	{"NEARBY", "k1", "FENCE", "POINT", "33", "-115", "5000"},
	{"WITHIN", "k1", "FENCE", "BOUNDS", "32.96", "-115.04", "33.04", "-114.96"},
	{"INTERSECTS", "k1", "FENCE", "DETECT", "enter,exit,cross", "BOUNDS", "32.9", "-115.1", "33.1", "-114.9"},
	{"NEARBY", "k1", "FENCE", "ROAM", "k1", "*", "3000"},
	{"NEARBY", "k2", "FENCE", "POINT", "33", "-115", "5000"},
}

func ffloat(f float64) string { return strconv.FormatFloat(f, 'f', 6, 64) }

// raceCmd draws one command of the race workload: half of them move objects
// of k1/k2 in and out of the fences (often with a deadline of a fraction of a
// second, so that the expiry sweeper deletes them while clients are
// active), the rest is the general keyspace generator.
func raceCmd(t *rapid.T) []string {
	key := rapid.SampledFrom([]string{"k1", "k1", "k1", "k2"}).Draw(t, "fkey")
	id := rapid.SampledFrom(gen.SmallNames.IDs).Draw(t, "fid")
	switch rapid.IntRange(0, 19).Draw(t, "racekind") {
	case 0, 1, 2, 3, 4, 5:
		// around the centre: +-0.08 degrees is about 9 km, the fences are 3-5 km
		lat := 33 + float64(rapid.IntRange(-80, 80).Draw(t, "dlat"))/1000
		lon := -115 + float64(rapid.IntRange(-80, 80).Draw(t, "dlon"))/1000
		args := []string{"SET", key, id}
		if rapid.IntRange(0, 2).Draw(t, "fld") == 0 {
			args = append(args, "FIELD", "f", strconv.Itoa(rapid.IntRange(0, 9).Draw(t, "fv")))
		}
		if rapid.IntRange(0, 2).Draw(t, "shortttl") == 0 {
			args = append(args, "EX", rapid.SampledFrom([]string{"0.05", "0.15", "0.3"}).Draw(t, "ttl"))
		}
		return append(args, "POINT", ffloat(lat), ffloat(lon))
	case 6:
		return []string{"DEL", key, id}
	case 7:
		return []string{"FSET", key, id, "f", strconv.Itoa(rapid.IntRange(0, 9).Draw(t, "fv"))}
	case 8:
		return []string{"EXPIRE", key, id, rapid.SampledFrom([]string{"0.05", "0.2"}).Draw(t, "ttl")}
	case 9:
		return rapid.SampledFrom([][]string{
			{"NEARBY", "k1", "POINT", "33", "-115", "6000"},
			{"WITHIN", "k1", "IDS", "BOUNDS", "32.9", "-115.1", "33.1", "-114.9"},
			{"SERVER"}, {"SERVER", "EXT"}, {"INFO"}, {"STATS", "k1", "k2"},
			{"HOOKS", "*"}, {"CHANS", "*"}, {"BOUNDS", "k1"}, {"SEARCH", "k1"},
			{"EVAL", "return tile38.call('SCAN', 'k1', 'COUNT')", "0"},
			{"EVALNA", "tile38.pcall('DEL', 'k1', 'a') return tile38.pcall('SET', 'k1', 'a', 'POINT', '33', '-115')", "0"},
			{"EVALRO", "return tile38.call('NEARBY', 'k1', 'IDS', 'POINT', '33', '-115', '6000')", "0"},
			{"SETCHAN", "ch1", "NEARBY", "k1", "FENCE", "POINT", "33", "-115", "4000"},
			{"SETCHAN", "ch2", "EX", "0.2", "WITHIN", "k2", "FENCE", "BOUNDS", "32.9", "-115.1", "33.1", "-114.9"},
			{"DELCHAN", "ch1"}, {"PDELCHAN", "ch*"},
			{"SCRIPT", "LOAD", "return 1"}, {"SCRIPT", "FLUSH"},
			{"GC"}, {"AOFSHRINK"},
		}).Draw(t, "misc")
	case 10, 11:
		// scripts with several writes and read-modify-write scripts, started
		// plainly or behind the TIMEOUT prefix, as EVAL / EVALNA / EVALRO
		twoWrites := "tile38.call('SET', ARGV[1], ARGV[2], 'POINT', '33.001', '-115.001') " +
			"tile38.call('FSET', ARGV[1], ARGV[2], 'f', '7') " +
			"tile38.call('SET', ARGV[1], 'z' .. ARGV[2], 'POINT', '33.2', '-115') return 1"
		incr := "local r = tile38.pcall('FGET', ARGV[1], ARGV[2], 'n') local v = (tonumber(r) or 0) + 1 " +
			"tile38.call('SET', ARGV[1], ARGV[2], 'FIELD', 'n', tostring(v), 'POINT', '33', '-115') return v"
		read := "return tile38.call('SCAN', ARGV[1], 'COUNT')"
		var cmd []string
		switch rapid.IntRange(0, 5).Draw(t, "tscript") {
		case 0, 1:
			cmd = []string{"EVAL", twoWrites, "0", key, id}
		case 2, 3:
			cmd = []string{"EVAL", incr, "0", key, id}
		case 4:
			// (never behind TIMEOUT here: the history sub-check owns that
			// shape, whose failure mode is a hang)
			return []string{"EVALNA", twoWrites, "0", key, id}
		default:
			cmd = []string{"EVALRO", read, "0", key}
		}
		if rapid.IntRange(0, 3).Draw(t, "timeout?") != 0 {
			cmd = append([]string{"TIMEOUT", "30"}, cmd...)
		}
		return cmd
	case 12:
		return []string{"TIMEOUT", "30", rapid.SampledFrom([]string{"SCAN", "SEARCH", "BOUNDS"}).Draw(t, "tread"), key}
	default:
		return gen.KeyspaceCmd(t, gen.SmallNames)
	}
}

func drawRaceWorkload(rt *rapid.T, nfences, clients, ops int, allowStats bool) raceWorkload {
	var w raceWorkload
	w.Spin = rapid.Bool().Draw(rt, "spinlock")
	// the first two fences always watch k1 (contention on one collection)
	w.Fences = append(w.Fences, fenceShapes[0])
	if nfences >= 2 {
		w.Fences = append(w.Fences, fenceShapes[1])
	}
	for len(w.Fences) < nfences {
		w.Fences = append(w.Fences, rapid.SampledFrom(fenceShapes).Draw(rt, "fence"))
	}
	for ci := 0; ci < clients; ci++ {
		var cl []rop
		for i := 0; i < ops; i++ {
			if rapid.IntRange(0, 29).Draw(rt, "pause?") == 0 {
				cl = append(cl, rop{PauseMs: rapid.IntRange(1, 8).Draw(rt, "pause")})
				continue
			}
			cmd := raceCmd(rt)
			if !allowStats && len(cmd) > 0 && (cmd[0] == "SERVER" || cmd[0] == "INFO") {
				cmd = []string{"STATS", "k1"}
			}
			cl = append(cl, rop{Cmd: cmd})
		}
		w.Clients = append(w.Clients, cl)
	}
	return w
}

// TestC07_RaceChild is the body of the child process. It is skipped unless
// the workload file is named in the environment.
func TestC07_RaceChild(t *testing.T) {
	path := os.Getenv(raceChildEnv)
	if path == "" {
		t.Skip("helper of TestC07_Race_*; runs only in the child process")
	}
	b, err := os.ReadFile(path)
	if err != nil {
		t.Fatal(err)
	}
	var w raceWorkload
	if err := json.Unmarshal(b, &w); err != nil {
		t.Fatal(err)
	}
	runRaceWorkload(t, w)
}

// shrinkWatch follows the AOFSHRINK stages of one server so that the
// workload can let a running shrink finish before it stops the server: a
// graceful shutdown during a background shrink touches s.aof from both sides
// (finding "shutdown-races-aofshrink"), which is a lifecycle matter outside
// this property (decision of the lead) and must not show up here.
type shrinkWatch struct {
	active atomic.Bool
	dir    string
}

func watchShrink(srv *t38.Srv) *shrinkWatch {
	w := &shrinkWatch{dir: srv.Dir}
	verifhook.Register(srv.Dir, &verifhook.Handler{Stage: func(name string) { w.active.Store(name != "ended") }})
	return w
}

func (w *shrinkWatch) wait(srv *t38.Srv) {
	quiet := 0
	for i := 0; i < 3000 && quiet < 15; i++ {
		_, err := os.Stat(srv.AOFPath() + "-shrink")
		if !w.active.Load() && os.IsNotExist(err) {
			quiet++
		} else {
			quiet = 0
		}
		time.Sleep(10 * time.Millisecond)
	}
	verifhook.Unregister(w.dir)
}

func runRaceWorkload(t *testing.T, w raceWorkload) {
	srv, err := t38.Start(t38.Opts{Spinlock: w.Spin})
	if err != nil {
		t.Fatal(err)
	}
	defer srv.Stop()
	sw := watchShrink(srv)
	defer sw.wait(srv)
	// live fences: open, read the acknowledgement, then drain in the background
	var fwg sync.WaitGroup
	var fconns []*t38.Conn
	for _, f := range w.Fences {
		fc := srv.MustDial()
		v, err := fc.Do(f...)
		if err != nil || v.IsErr() {
			t.Fatalf("fence %v: %v %s", f, err, v)
		}
		fconns = append(fconns, fc)
		fwg.Add(1)
		go func() {
			defer fwg.Done()
			for {
				if _, err := fc.RecvTimeout(time.Hour); err != nil {
					return
				}
			}
		}()
	}
	var wg sync.WaitGroup
	for ci := range w.Clients {
		wg.Add(1)
		go func(ci int) {
			defer wg.Done()
			c := srv.MustDial()
			defer c.Close()
			for _, o := range w.Clients[ci] {
				if o.PauseMs > 0 {
					time.Sleep(time.Duration(o.PauseMs) * time.Millisecond)
					continue
				}
				if _, err := c.Do(o.Cmd...); err != nil {
					t.Errorf("client %d: %s: %v", ci, t38.CmdString(o.Cmd), err)
					return
				}
			}
		}(ci)
	}
	wg.Wait()
	// let the sweeper expire what is left and the fences report it
	time.Sleep(400 * time.Millisecond)
	for _, fc := range fconns {
		fc.Close()
	}
	fwg.Wait()
}

// ---- parent side -----------------------------------------------------------

type raceReport struct {
	Panic  bool
	Text   string
	Frames []string // tile38-internal frames of the two access stacks, in order
	Top    string   // first of them
}

var frameRE = regexp.MustCompile(`^  (\S.*)\(\)$`)

const internalPrefix = "github.com/tidwall/tile38/internal/"

// parseRaceReports splits race detector output into reports and extracts the
// tile38-internal frames of the access stacks (not of the goroutine creation
// stacks).
func parseRaceReports(text string) []raceReport {
	var out []raceReport
	for _, block := range strings.Split(text, "==================") {
		if !strings.Contains(block, "WARNING: DATA RACE") {
			continue
		}
		r := raceReport{Text: strings.TrimSpace(block)}
		for _, sec := range strings.Split(block, "\n\n") {
			head := strings.TrimSpace(sec)
			if strings.HasPrefix(head, "Goroutine ") {
				continue
			}
			for _, line := range strings.Split(sec, "\n") {
				m := frameRE.FindStringSubmatch(line)
				if m == nil {
					continue
				}
				fn := m[1]
				if strings.HasPrefix(fn, internalPrefix) {
					r.Frames = append(r.Frames, strings.TrimPrefix(fn, internalPrefix))
				}
			}
		}
		if len(r.Frames) > 0 {
			r.Top = r.Frames[0]
		}
		out = append(out, r)
	}
	return out
}

var panicFrameRE = regexp.MustCompile(`(?m)^(github\.com/tidwall/tile38/internal/[^\s(]+(?:\(\*?[\w.\[\]]+\))?[\w.\-\[\]·]*)\(`)

// parsePanic turns a crash of the child (the in-process server panicked:
// a corrupted structure is the other face of a data race) into a report.
func parsePanic(out string) (raceReport, bool) {
	i := strings.Index(out, "\npanic: ")
	if i < 0 {
		i = strings.Index(out, "\nfatal error: ")
	}
	if i < 0 {
		if strings.HasPrefix(out, "panic: ") || strings.HasPrefix(out, "fatal error: ") {
			i = 0
		} else {
			return raceReport{}, false
		}
	}
	tail := out[i:]
	if j := strings.Index(tail, "\n\ngoroutine "); j >= 0 {
		// keep the panicking goroutine only
		if k := strings.Index(tail[j+2:], "\n\n"); k >= 0 {
			tail = tail[:j+2+k]
		}
	}
	r := raceReport{Text: strings.TrimSpace(tail), Panic: true}
	if len(r.Text) > 6000 {
		r.Text = r.Text[:6000]
	}
	for _, m := range panicFrameRE.FindAllStringSubmatch(tail, -1) {
		r.Frames = append(r.Frames, strings.TrimPrefix(m[1], internalPrefix))
	}
	if len(r.Frames) == 0 {
		return raceReport{}, false
	}
	r.Top = r.Frames[0]
	return r, true
}

// classifyRace maps a report to a finding key: known root causes get their
// stable id, anything else is keyed by its top tile38 frame.
func classifyRace(r raceReport) string {
	shrink, serve := false, false
	for _, f := range r.Frames {
		if strings.HasPrefix(f, "server.(*Server).aofshrink") {
			shrink = true
		}
		if strings.HasPrefix(f, "server.Serve.func") || f == "server.Serve" {
			serve = true
		}
	}
	if shrink && serve && !r.Panic {
		return shutdownShrinkID
	}
	group := false
	for _, f := range r.Frames {
		switch f {
		case "server.(*Server).groupConnect", "server.(*Server).groupDisconnect", "server.(*Server).groupGet":
			group = true
		case "server.byGroupObject", "server.byGroupHook", "server.deleteGroups",
			"server.(*Server).groupDisconnectObject", "server.(*Server).groupDisconnectCollection", "server.(*Server).groupDisconnectHook":
			if r.Panic {
				// a crash inside the group trees: they were corrupted
				return fenceGroupsID
			}
		}
	}
	if group {
		if r.Panic {
			return fenceGroupsID
		}
		for _, f := range r.Frames {
			if strings.HasPrefix(f, "server.(*Server).goLive") || f == "server.fenceMatch" || f == "server.FenceMatch" {
				return fenceGroupsID
			}
		}
	}
	if r.Panic {
		return "server-panic:" + r.Top
	}
	return "data-race:" + r.Top
}

// runRaceChild executes the workload in a child process of this test binary
// and returns the parsed reports.
func runRaceChild(w raceWorkload, tag string) (reports []raceReport, out string, err error) {
	dir := t38.NewDir("race-" + tag)
	wf := filepath.Join(dir, "workload.json")
	b, _ := json.Marshal(w)
	if err := os.WriteFile(wf, b, 0o644); err != nil {
		return nil, "", err
	}
	logBase := filepath.Join(dir, "race")
	bin := os.Args[0]
	if !raceBuild {
		// a replay of a race finding through the normal binary: use the
		// -race binary of the last regular run for the child when it exists
		if rb := filepath.Join(os.Getenv("VERIF_DIR"), ".build", "c07.race.test"); os.Getenv("VERIF_REPLAY") != "" && os.Getenv("VERIF_DIR") != "" {
			if _, err := os.Stat(rb); err == nil {
				bin = rb
			}
		}
	}
	cmd := exec.Command(bin, "-test.run", "^TestC07_RaceChild$", "-test.count=1", "-test.timeout=600s")
	cmd.Env = append(os.Environ(),
		raceChildEnv+"="+wf,
		"GORACE=log_path="+logBase+" halt_on_error=0 exitcode=0 history_size=3",
		"VERIF_WORK="+filepath.Join(dir, "data"),
		"VERIF_JOURNAL=",
		"VERIF_PARTS="+filepath.Join(dir, "parts"),
	)
	ob, runErr := cmd.CombinedOutput()
	out = string(ob)
	files, _ := filepath.Glob(logBase + ".*")
	sort.Strings(files)
	var text strings.Builder
	for _, f := range files {
		fb, _ := os.ReadFile(f)
		text.Write(fb)
		text.WriteString("\n")
	}
	// reports that went to stderr anyway (e.g. log file could not be opened)
	if strings.Contains(out, "WARNING: DATA RACE") {
		text.WriteString(out)
	}
	reports = parseRaceReports(text.String())
	if pr, ok := parsePanic(out); ok {
		reports = append(reports, pr)
	}
	if runErr != nil && len(reports) == 0 {
		return nil, out, fmt.Errorf("child failed: %v", runErr)
	}
	if len(reports) == 0 && !strings.Contains(out, "PASS") && !strings.Contains(out, "FAIL") {
		return reports, out, fmt.Errorf("child produced no test result")
	}
	os.RemoveAll(dir)
	return reports, out, nil
}

func raceEnabledBuild() bool { return raceBuild }

func reportRaces(t *testing.T, c *ev.Collector, w raceWorkload, reports []raceReport, seen map[string]bool) {
	for _, r := range reports {
		if len(r.Frames) == 0 {
			c.Label("race-report-without-tile38-frame")
			c.Inconclusive("race report without a tile38 frame in its access stacks: %.300s", r.Text)
			continue
		}
		key := classifyRace(r)
		if key == shutdownShrinkID {
			c.Label("outside-property:" + shutdownShrinkID)
			continue
		}
		if r.Panic {
			c.Label("panic:" + key)
		} else {
			c.Label("race:" + key)
		}
		if seen[key] {
			continue
		}
		seen[key] = true
		what := fmt.Sprintf("the race detector reports unsynchronised access in %s (frames: %s)", r.Top, strings.Join(uniq(r.Frames), " <- "))
		if r.Panic {
			what = fmt.Sprintf("the server panicked under the concurrent workload in %s: %.200s", r.Top, strings.SplitN(r.Text, "\n", 2)[0])
		}
		if ev.KnownActive(key) {
			c.Known(key, what)
			continue
		}
		c.Violation(key, what, raceReplay{Workload: w, Report: r.Text, Frames: uniq(r.Frames)})
		t.Errorf("VIOLATION-CANDIDATE key=%s: %s", key, what)
	}
}

func uniq(xs []string) []string {
	var out []string
	seen := map[string]bool{}
	for _, x := range xs {
		if !seen[x] {
			seen[x] = true
			out = append(out, x)
		}
	}
	return out
}

func TestC07_Race_Workload(t *testing.T) {
	if !raceEnabledBuild() {
		t.Skip("needs the -race build")
	}
	c := ev.New("C07", "race", "exploration")
	t.Cleanup(c.Flush)
	c.Rule("the concurrent workload in a -race build, executed in a child process (GORACE log_path; reports parsed by the parent): 2-3 live fences (NEARBY/WITHIN/INTERSECTS/ROAM ... FENCE, the first two on the same collection) whose connections are drained, 4-6 client goroutines issuing SET of points moving in and out of the fences (a third with deadlines of 0.05-0.3 s, so the expiry sweeper deletes while clients write), DEL/FSET/EXPIRE, channel create/delete, SERVER/INFO/STATS, scripts (multi-write and read-modify-write EVAL/EVALNA/EVALRO, three quarters of them behind a TIMEOUT prefix), TIMEOUT-wrapped reads, AOFSHRINK and the general keyspace generator (PDEL/DROP/RENAME/FLUSHDB included), with pauses. Violation: a DATA RACE report whose access stacks name a github.com/tidwall/tile38/internal frame, keyed by root cause (known ones by stable id, otherwise data-race:<top tile38 frame>) and deduplicated. Non-trivial: a child run in which both fences delivered events concurrently with writers (every run by construction); distinct by workload.")
	known := ev.KnownActive(fenceGroupsID)
	seen := map[string]bool{}
	if known {
		// deterministic probe of exactly the known shape: two live fences on
		// one collection, two writers moving points across them
		probe := raceWorkload{Fences: [][]string{fenceShapes[0], fenceShapes[1]}}
		for ci := 0; ci < 2; ci++ {
			var cl []rop
			for i := 0; i < 300; i++ {
				lat := "33.001"
				if i%2 == 1 {
					lat = "33.2"
				}
				cl = append(cl, rop{Cmd: []string{"SET", "k1", fmt.Sprintf("p%d_%d", ci, i%7), "POINT", lat, "-115"}})
			}
			probe.Clients = append(probe.Clients, cl)
		}
		reports, out, err := runRaceChild(probe, "probe")
		if err != nil {
			c.Inconclusive("known-finding probe: %v: %.400s", err, out)
		}
		c.Case()
		for _, r := range reports {
			if classifyRace(r) == fenceGroupsID && !seen[fenceGroupsID] {
				seen[fenceGroupsID] = true
				c.Known(fenceGroupsID, "two live fences on one collection race on the group btrees: "+strings.Join(uniq(r.Frames), " <- "))
			}
		}
		// other races of the probe are reported normally
		reportRaces(t, c, probe, reports, seen)
	}
	runs := ev.Pick(2, 20)
	ops := ev.Pick(700, 2500)
	ev.Rapid("race", runs)
	rapid.Check(t, func(rt *rapid.T) {
		nf := rapid.IntRange(2, 3).Draw(rt, "fences")
		if known {
			// the known finding needs two fence goroutines (or a fence and
			// a reader of the group trees) inside the shared lock at once
			nf = 1
			c.Excluded(fenceGroupsID)
		}
		w := drawRaceWorkload(rt, nf, rapid.IntRange(4, 6).Draw(rt, "clients"), ops, !known)
		c.Case()
		reports, out, err := runRaceChild(w, "wl")
		if err != nil {
			c.Inconclusive("race child: %v: %.400s", err, out)
			return
		}
		c.LabelN("race-reports", len(reports))
		b, _ := json.Marshal(w.Clients)
		c.NonTrivial(fmt.Sprintf("%v|%d|%x", w.Fences, len(w.Clients), len(b)) + string(b[:min(len(b), 4000)]))
		reportRaces(t, c, w, reports, seen)
	})
}

func replayRace(t *testing.T, c *ev.Collector, r raceReplay) {
	c.Case()
	if !raceEnabledBuild() && r.Report != "" {
		t.Logf("this binary is not a -race build: only crashes of the child can reproduce; recorded report:\n%s", r.Report)
	}
	seen := map[string]bool{}
	for i := 0; i < 3; i++ {
		reports, out, err := runRaceChild(r.Workload, "replay")
		if err != nil {
			t.Fatalf("child: %v\n%s", err, out)
		}
		reportRaces(t, c, r.Workload, reports, seen)
	}
}

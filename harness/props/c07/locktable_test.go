package c07

import (
	"bytes"
	"crypto/sha1"
	"encoding/hex"
	"encoding/json"
	"fmt"
	"go/ast"
	"go/parser"
	"go/token"
	"os"
	"path/filepath"
	"sort"
	"strconv"
	"strings"
	"sync"
	"testing"
	"time"

	"github.com/tidwall/tile38/verif/harness/ev"
	"github.com/tidwall/tile38/verif/harness/gen"
	"github.com/tidwall/tile38/verif/harness/t38"
	"pgregory.net/rapid"
)

// ---- command labels from the source ----------------------------------------

func repoRoot() string {
	if r := os.Getenv("VERIF_REPO"); r != "" {
		return r
	}
	return "/repo"
}

// sourceFile resolves a repo file through the build overlay (mutant runs).
func sourceFile(rel string) string {
	p := filepath.Join(repoRoot(), rel)
	if ov := os.Getenv("VERIF_OVERLAY"); ov != "" {
		if b, err := os.ReadFile(ov); err == nil {
			var doc struct{ Replace map[string]string }
			if json.Unmarshal(b, &doc) == nil {
				if r, ok := doc.Replace[p]; ok && r != "" {
					return r
				}
			}
		}
	}
	return p
}

// commandLabels returns the string case labels of the top-level switch of
// func (s *Server) command in internal/server/server.go.
func commandLabels() ([]string, error) {
	path := sourceFile("internal/server/server.go")
	fset := token.NewFileSet()
	f, err := parser.ParseFile(fset, path, nil, 0)
	if err != nil {
		return nil, err
	}
	var out []string
	seen := map[string]bool{}
	for _, d := range f.Decls {
		fd, ok := d.(*ast.FuncDecl)
		if !ok || fd.Name.Name != "command" || fd.Recv == nil || fd.Body == nil {
			continue
		}
		for _, st := range fd.Body.List {
			sw, ok := st.(*ast.SwitchStmt)
			if !ok {
				continue
			}
			for _, cl := range sw.Body.List {
				cc := cl.(*ast.CaseClause)
				for _, e := range cc.List {
					if bl, ok := e.(*ast.BasicLit); ok && bl.Kind == token.STRING {
						s, err := strconv.Unquote(bl.Value)
						if err == nil && !seen[s] {
							seen[s] = true
							out = append(out, s)
						}
					}
				}
			}
		}
	}
	if len(out) < 20 {
		return nil, fmt.Errorf("only %d command labels found in %s", len(out), path)
	}
	sort.Strings(out)
	return out, nil
}

// ---- probe table -----------------------------------------------------------

type probe struct {
	Label   string     `json:"label"`
	Shape   string     `json:"shape"`
	Setup   [][]string `json:"setup,omitempty"`
	Cmd     []string   `json:"cmd"`
	WantMut bool       `json:"want_mut"`
	// Det: the reply is a deterministic function of the dataset (used by the
	// exclusive-lock probe, which compares replies).
	Det bool `json:"det,omitempty"`
	// Poison: the server is unusable for further probes afterwards.
	Poison bool `json:"poison,omitempty"`
	// Finding: a violation of this probe is the regression of this finding id.
	Finding string `json:"finding,omitempty"`
}

type probeReplay struct {
	Probe probe  `json:"probe"`
	Spin  bool   `json:"spinlock"`
	Mode  string `json:"mode"` // "shared" (SLEEP) or "exclusive" (spinning EVAL)
	Obs   string `json:"observed,omitempty"`
}

const (
	scriptWrite     = `tile38.call('SET', KEYS[1], ARGV[1], 'POINT', ARGV[2], ARGV[3]) return 1`
	scriptRead      = `return tile38.call('EXISTS', KEYS[1], ARGV[1])`
	scriptReadWrite = `local e = tile38.call('EXISTS', KEYS[1], ARGV[1]) tile38.call('DEL', KEYS[1], ARGV[1]) return e`
	scriptPWrite    = `local r = tile38.pcall('DEL', KEYS[1], ARGV[1]) return r`
	scriptPure      = `return 41 + 1`
)

func sha1hex(s string) string {
	h := sha1.Sum([]byte(s))
	return hex.EncodeToString(h[:])
}

// argDraw supplies the generated parts of probe arguments.
type argDraw struct {
	t *rapid.T
}

func (a argDraw) lat() string {
	return strconv.FormatFloat(gen.Coord(a.t, "lat", 80), 'f', -1, 64)
}
func (a argDraw) lon() string {
	return strconv.FormatFloat(gen.Coord(a.t, "lon", 170), 'f', -1, 64)
}
func (a argDraw) fval() string {
	return strconv.Itoa(rapid.IntRange(2, 9999).Draw(a.t, "fval"))
}
func (a argDraw) exist() string {
	return rapid.SampledFrom([]string{"a", "b"}).Draw(a.t, "existing-id")
}
func (a argDraw) newid() string {
	return "n" + strconv.Itoa(rapid.IntRange(0, 999).Draw(a.t, "newid"))
}

// probesFor returns the argument shapes for one command label. The prepared
// state is described at prepare().
func probesFor(label string, a argDraw, closedPort, leaderPort int) []probe {
	P := func(shape string, mut bool, cmd ...string) probe {
		return probe{Label: label, Shape: shape, Cmd: cmd, WantMut: mut}
	}
	D := func(shape string, cmd ...string) probe {
		return probe{Label: label, Shape: shape, Cmd: cmd, Det: true}
	}
	withSetup := func(p probe, setup ...[]string) probe { p.Setup = setup; return p }
	hookArgs := []string{"NEARBY", "hk", "FENCE", "POINT", a.lat(), a.lon(), "100"}
	switch label {
	case "set":
		return []probe{
			P("overwrite", true, "SET", "k1", a.exist(), "POINT", a.lat(), a.lon()),
			P("new-id-fields-ex", true, "SET", "k1", a.newid(), "FIELD", "f", a.fval(), "EX", "100000", "POINT", a.lat(), a.lon()),
			P("new-key-string", true, "SET", "k3", a.newid(), "STRING", "v"+a.fval()),
			P("nx-refused", false, "SET", "k1", "a", "NX", "POINT", a.lat(), a.lon()),
		}
	case "fset":
		return []probe{
			P("one", true, "FSET", "k1", a.exist(), "f", a.fval()),
			P("xx-two", true, "FSET", "k1", "a", "XX", "g", a.fval(), "h", a.fval()),
		}
	case "del":
		return []probe{
			P("existing", true, "DEL", "k1", a.exist()),
			P("last-id", true, "DEL", "k2", "a"),
			P("missing", false, "DEL", "k1", "zz"),
		}
	case "pdel":
		return []probe{P("all", true, "PDEL", "k1", "*"), P("prefix", true, "PDEL", "k1", "a*")}
	case "drop":
		return []probe{P("existing", true, "DROP", "k1"), P("missing", false, "DROP", "nokey")}
	case "flushdb":
		return []probe{P("", true, "FLUSHDB")}
	case "rename":
		return []probe{P("to-new", true, "RENAME", "k1", "k3"), P("onto-existing", true, "RENAME", "k1", "k2")}
	case "renamenx":
		return []probe{P("to-new", true, "RENAMENX", "k1", "k3"), P("refused", false, "RENAMENX", "k1", "k2")}
	case "sethook":
		return []probe{P("", true, append([]string{"SETHOOK", "h2", "http://127.0.0.1:9/x"}, hookArgs...)...)}
	case "setchan":
		return []probe{P("", true, append([]string{"SETCHAN", "c2"}, hookArgs...)...)}
	case "delhook":
		return []probe{P("", true, "DELHOOK", "h1")}
	case "pdelhook":
		return []probe{P("", true, "PDELHOOK", "h*")}
	case "delchan":
		return []probe{P("", true, "DELCHAN", "c1")}
	case "pdelchan":
		return []probe{P("", true, "PDELCHAN", "c*")}
	case "hooks":
		return []probe{D("", "HOOKS", "*")}
	case "chans":
		return []probe{D("", "CHANS", "*")}
	case "expire":
		return []probe{P("", true, "EXPIRE", "k1", "a", "100000")}
	case "persist":
		return []probe{P("", true, "PERSIST", "k1", "b")}
	case "ttl":
		return []probe{P("", false, "TTL", "k1", "b"), D("no-ttl", "TTL", "k1", "a")}
	case "shutdown":
		return nil // exits the process (log.Fatal): not probed in-process
	case "massinsert":
		return []probe{P("", true, "MASSINSERT", "1", "2")}
	case "sleep":
		return []probe{P("", false, "SLEEP", "0.01")}
	case "follow":
		return []probe{
			P("no-one", false, "FOLLOW", "no", "one"),
			P("unreachable", false, "FOLLOW", "127.0.0.1", strconv.Itoa(closedPort)),
			{Label: label, Shape: "real-leader", Cmd: []string{"FOLLOW", "127.0.0.1", strconv.Itoa(leaderPort)}, WantMut: true, Poison: true},
		}
	case "slaveof":
		return []probe{P("no-one", false, "SLAVEOF", "no", "one")}
	case "replconf":
		return []probe{P("", false, "REPLCONF", "listening-port", "1234")}
	case "readonly":
		return []probe{P("yes", true, "READONLY", "yes"), P("no", false, "READONLY", "no")}
	case "stats":
		return []probe{P("", false, "STATS", "k1", "k2")}
	case "server":
		return []probe{P("", false, "SERVER"), P("ext", false, "SERVER", "EXT")}
	case "healthz":
		return []probe{P("", false, "HEALTHZ")}
	case "info":
		return []probe{P("", false, "INFO")}
	case "role":
		return []probe{P("", false, "ROLE")}
	case "scan":
		return []probe{D("", "SCAN", "k1"), D("ids-desc", "SCAN", "k1", "DESC", "IDS"), D("where", "SCAN", "k1", "WHERE", "f", "0", "100000", "COUNT")}
	case "nearby":
		return []probe{
			D("", "NEARBY", "k1", "POINT", "33", "-115", "100000"),
			P("live-fence", false, "NEARBY", "k1", "FENCE", "POINT", "33", "-115", "1000"),
		}
	case "within":
		return []probe{D("", "WITHIN", "k1", "BOUNDS", "30", "-120", "40", "-110")}
	case "intersects":
		return []probe{D("", "INTERSECTS", "k1", "IDS", "BOUNDS", "30", "-120", "40", "-110")}
	case "search":
		return []probe{D("", "SEARCH", "k1")}
	case "bounds":
		return []probe{D("", "BOUNDS", "k1")}
	case "get":
		return []probe{D("", "GET", "k1", "a", "WITHFIELDS"), D("string", "GET", "k1", "s")}
	case "fget":
		return []probe{D("", "FGET", "k1", "a", "f")}
	case "jget":
		return []probe{D("", "JGET", "k1", "s", "a.b"), D("feature", "JGET", "k1", "c", "properties.tag")}
	case "jset":
		return []probe{P("string-doc", true, "JSET", "k1", "s", "a.c", a.fval()), P("feature", true, "JSET", "k1", "c", "properties.speed", a.fval())}
	case "jdel":
		return []probe{
			{Label: label, Shape: "string-doc", Cmd: []string{"JDEL", "k1", "s", "a.b"}, WantMut: true, Finding: "jdel-not-a-write"},
			{Label: label, Shape: "feature", Cmd: []string{"JDEL", "k1", "c", "properties.tag"}, WantMut: true, Finding: "jdel-not-a-write"},
			P("missing-path", false, "JDEL", "k1", "s", "nope"),
		}
	case "type":
		return []probe{D("", "TYPE", "k1")}
	case "keys":
		return []probe{D("", "KEYS", "*")}
	case "exists":
		return []probe{D("", "EXISTS", "k1", "a")}
	case "fexists":
		return []probe{D("", "FEXISTS", "k1", "a", "f")}
	case "output":
		return []probe{P("json", false, "OUTPUT", "json"), P("get", false, "OUTPUT")}
	case "aof":
		return []probe{P("live", false, "AOF", "0")}
	case "aofmd5":
		return []probe{P("", false, "AOFMD5", "0", "10")}
	case "gc":
		return []probe{P("", false, "GC")}
	case "aofshrink":
		return []probe{P("", false, "AOFSHRINK")}
	case "config get":
		return []probe{P("", false, "CONFIG", "GET", "keepalive")}
	case "config set":
		return []probe{P("", true, "CONFIG", "SET", "keepalive", strconv.Itoa(301+rapid.IntRange(0, 500).Draw(a.t, "keepalive")))}
	case "config rewrite":
		return []probe{
			withSetup(P("after-set", true, "CONFIG", "REWRITE"), []string{"CONFIG", "SET", "keepalive", "299"}),
			P("unchanged", false, "CONFIG", "REWRITE"),
		}
	case "config":
		return []probe{P("bare", false, "CONFIG")}
	case "script":
		return []probe{P("bare", false, "SCRIPT")}
	case "client":
		return []probe{P("list", false, "CLIENT", "LIST"), P("setname", false, "CLIENT", "SETNAME", "probe"), P("getname", false, "CLIENT", "GETNAME")}
	case "eval":
		return []probe{
			P("write", true, "EVAL", scriptWrite, "1", "k1", a.newid(), a.lat(), a.lon()),
			P("read-then-write", true, "EVAL", scriptReadWrite, "1", "k1", "a"),
			P("pcall-write", true, "EVAL", scriptPWrite, "1", "k1", "b"),
			D("read", "EVAL", scriptRead, "1", "k1", "a"),
			P("pure", false, "EVAL", scriptPure, "0"),
		}
	case "evalro":
		return []probe{
			D("read", "EVALRO", scriptRead, "1", "k1", "a"),
			P("write-refused", false, "EVALRO", scriptPWrite, "1", "k1", "a"),
		}
	case "evalna":
		return []probe{
			P("write", true, "EVALNA", scriptWrite, "1", "k1", a.newid(), a.lat(), a.lon()),
			P("read-then-write", true, "EVALNA", scriptReadWrite, "1", "k1", "a"),
			D("read", "EVALNA", scriptRead, "1", "k1", "a"),
			P("pure", false, "EVALNA", scriptPure, "0"),
		}
	case "evalsha":
		return []probe{
			withSetup(P("write", true, "EVALSHA", sha1hex(scriptWrite), "1", "k1", a.newid(), a.lat(), a.lon()), []string{"SCRIPT", "LOAD", scriptWrite}),
		}
	case "evalrosha":
		return []probe{
			withSetup(D("read", "EVALROSHA", sha1hex(scriptRead), "1", "k1", "a"), []string{"SCRIPT", "LOAD", scriptRead}),
			withSetup(P("write-refused", false, "EVALROSHA", sha1hex(scriptPWrite), "1", "k1", "a"), []string{"SCRIPT", "LOAD", scriptPWrite}),
		}
	case "evalnasha":
		return []probe{
			withSetup(P("write", true, "EVALNASHA", sha1hex(scriptReadWrite), "1", "k1", "a"), []string{"SCRIPT", "LOAD", scriptReadWrite}),
		}
	case "script load":
		return []probe{P("", false, "SCRIPT", "LOAD", "return "+a.fval())}
	case "script exists":
		return []probe{P("", false, "SCRIPT", "EXISTS", sha1hex(scriptPure))}
	case "script flush":
		return []probe{P("", false, "SCRIPT", "FLUSH")}
	case "subscribe":
		return []probe{P("live", false, "SUBSCRIBE", "c1")}
	case "psubscribe":
		return []probe{P("live", false, "PSUBSCRIBE", "*")}
	case "publish":
		return []probe{P("", false, "PUBLISH", "c1", "hello")}
	case "test":
		return []probe{D("", "TEST", "POINT", "33", "-115", "INTERSECTS", "BOUNDS", "30", "-120", "40", "-110")}
	case "monitor":
		return []probe{P("live", false, "MONITOR")}
	}
	return nil
}

// extraProbes are shapes that are not labels of command(): prefixes and
// commands answered before the dispatch table.
func extraProbes(a argDraw) []probe {
	return []probe{
		{Label: "timeout", Shape: "read", Cmd: []string{"TIMEOUT", "1", "SCAN", "k1"}, Det: true},
		{Label: "timeout", Shape: "write-refused", Cmd: []string{"TIMEOUT", "1", "SET", "k1", "a", "POINT", a.lat(), a.lon()}},
		{Label: "timeout", Shape: "eval-write", Cmd: []string{"TIMEOUT", "1", "EVAL", scriptPWrite, "1", "k1", "a"}},
		{Label: "ping", Shape: "", Cmd: []string{"PING"}},
		{Label: "echo", Shape: "", Cmd: []string{"ECHO", "x"}},
		{Label: "unknown", Shape: "", Cmd: []string{"NOSUCHCOMMAND", "k1"}},
	}
}

// skippedLabels are labels deliberately not probed, with the reason.
var skippedLabels = map[string]string{
	"shutdown": "DevMode SHUTDOWN exits the process (log.Fatal); it takes the exclusive lock first by the table",
}

// ---- servers ---------------------------------------------------------------

type slot struct {
	srv    *t38.Srv
	spin   bool
	prep   *t38.Conn // set-up and quiescent snapshots
	snap   *t38.Conn // in-window snapshots
	holder *t38.Conn // connection A
	// overhead of the last lock holder: recv - send - hold
	overhead time.Duration
}

func newSlot(spin bool) *slot {
	srv, err := t38.Start(t38.Opts{DevMode: true, Spinlock: spin})
	must(err)
	s := &slot{srv: srv, spin: spin}
	s.prep = srv.MustDial()
	s.snap = srv.MustDial()
	s.holder = srv.MustDial()
	return s
}

func (s *slot) close() {
	s.prep.Close()
	s.snap.Close()
	s.holder.Close()
	s.srv.StopAsync()
}

var (
	poolMu    sync.Mutex
	pools     = map[bool][]*slot{}
	leaderSrv *t38.Srv
	stopFns   []func()
)

func stopPools() {
	poolMu.Lock()
	defer poolMu.Unlock()
	var wg sync.WaitGroup
	stop := func(s *t38.Srv) {
		wg.Add(1)
		go func() { defer wg.Done(); s.Stop() }()
	}
	for _, ss := range pools {
		for _, s := range ss {
			s.prep.Close()
			s.snap.Close()
			s.holder.Close()
			stop(s.srv)
		}
	}
	pools = map[bool][]*slot{}
	if leaderSrv != nil {
		stop(leaderSrv)
		leaderSrv = nil
	}
	for _, f := range stopFns {
		f()
	}
	stopFns = nil
	wg.Wait()
}

func getPool(spin bool, n int) []*slot {
	poolMu.Lock()
	defer poolMu.Unlock()
	for len(pools[spin]) < n {
		pools[spin] = append(pools[spin], newSlot(spin))
	}
	return pools[spin][:n]
}

func leader() *t38.Srv {
	poolMu.Lock()
	defer poolMu.Unlock()
	if leaderSrv == nil {
		s, err := t38.Start(t38.Opts{})
		must(err)
		leaderSrv = s
	}
	return leaderSrv
}

// prepare puts the server of a slot into the fixed initial state:
//
//	k1: a (point, f=1), b (point, g=2, TTL), c (Feature with properties.tag),
//	    s (string holding a JSON document)
//	k2: a (point)
//	hook h1 and channel c1 on the unused key hk
//	keepalive 300, read-write, no scripts cached
func (s *slot) prepare(p probe) error {
	cmds := [][]string{
		{"READONLY", "no"},
		{"FLUSHDB"},
		{"PDELHOOK", "*"},
		{"PDELCHAN", "*"},
		{"CONFIG", "SET", "keepalive", "300"},
		{"CONFIG", "REWRITE"},
		{"SCRIPT", "FLUSH"},
		{"SET", "k1", "a", "FIELD", "f", "1", "POINT", "33", "-115"},
		{"SET", "k1", "b", "FIELD", "g", "2", "EX", "100000", "POINT", "33.1", "-115.1"},
		{"SET", "k1", "c", "OBJECT", `{"type":"Feature","geometry":{"type":"Point","coordinates":[-115.2,33.2]},"properties":{"tag":"x"}}`},
		{"SET", "k1", "s", "STRING", `{"a":{"b":1},"n":5}`},
		{"SET", "k2", "a", "POINT", "10", "10"},
		{"SETHOOK", "h1", "http://127.0.0.1:9/h", "NEARBY", "hk", "FENCE", "POINT", "1", "2", "100"},
		{"SETCHAN", "c1", "NEARBY", "hk", "FENCE", "POINT", "1", "2", "100"},
	}
	cmds = append(cmds, p.Setup...)
	for _, c := range cmds {
		v, err := s.prep.Do(c...)
		if err != nil {
			return fmt.Errorf("prepare %s: %v", t38.CmdString(c), err)
		}
		if v.IsErr() {
			return fmt.Errorf("prepare %s: %s", t38.CmdString(c), v)
		}
	}
	return nil
}

// state is what a probe compares before / during / after.
type state struct {
	Dump   string // canonical visible dataset incl. hooks and channels
	Config string // bytes of the config file
	Props  string // CONFIG GET of the runtime properties (quiescent snapshots only)
	AOF    string // size:sha1 of appendonly.aof
}

func (s *slot) fileState() (cfg, aof string) {
	b, _ := os.ReadFile(filepath.Join(s.srv.Dir, "config"))
	cfg = string(b)
	a, _ := os.ReadFile(s.srv.AOFPath())
	aof = fmt.Sprintf("%d:%s", len(a), sha1hex(string(a)))
	return
}

// snapshot reads the state through conn. props additionally reads the
// runtime configuration (CONFIG GET takes the exclusive lock, so it is only
// used when nobody holds a lock on purpose).
func (s *slot) snapshot(conn *t38.Conn, props bool) (state, error) {
	var st state
	d, err := t38.TakeDumpOn(conn)
	if err != nil {
		return st, err
	}
	st.Dump = d.Canon()
	st.Config, st.AOF = s.fileState()
	if props {
		var b strings.Builder
		for _, name := range []string{"keepalive", "maxmemory", "autogc", "protected-mode", "requirepass", "leaderauth"} {
			v, err := conn.Do("CONFIG", "GET", name)
			if err != nil {
				return st, err
			}
			b.WriteString(v.String())
		}
		v, err := conn.Do("ROLE")
		if err != nil {
			return st, err
		}
		if len(v.Arr) > 0 {
			b.WriteString(v.Arr[0].String())
		}
		st.Props = b.String()
	}
	return st, nil
}

// quickPrint is a one-round-trip fingerprint of the dataset: the fixed
// commands below are written in one segment and answered in order. It is
// what the snapshots INSIDE the hold use (a full dump needs a dozen round
// trips, too slow to finish before a queued writer starts blocking readers
// on a loaded machine).
func (s *slot) quickPrint(conn *t38.Conn) (string, error) {
	cmds := [][]string{
		{"KEYS", "*"},
		{"SCAN", "k1", "LIMIT", "100000"}, {"SCAN", "k2", "LIMIT", "100000"}, {"SCAN", "k3", "LIMIT", "100000"},
		{"TTL", "k1", "a"}, {"TTL", "k1", "b"}, {"TTL", "k1", "c"}, {"TTL", "k1", "s"},
		{"HOOKS", "*"}, {"CHANS", "*"},
	}
	var buf []byte
	for _, c := range cmds {
		buf = append(buf, t38.EncodeCmd(c...)...)
	}
	if err := conn.SendRaw(buf); err != nil {
		return "", err
	}
	var b strings.Builder
	for _, c := range cmds {
		v, err := conn.RecvTimeout(15 * time.Second)
		if err != nil {
			return "", err
		}
		if c[0] == "TTL" && v.Kind == ':' && v.Int >= 0 {
			v.Int = 0 // remaining seconds tick
		}
		b.WriteString(v.String())
		b.WriteByte('\n')
	}
	cfg, _ := s.fileState()
	return b.String() + cfg, nil
}

func diffState(a, b state, withProps bool) []string {
	var out []string
	if a.Dump != b.Dump {
		out = append(out, "dataset")
	}
	if a.Config != b.Config {
		out = append(out, "config-file")
	}
	if withProps && a.Props != b.Props {
		out = append(out, "runtime-config")
	}
	return out
}

// ---- one probe -------------------------------------------------------------

type probeResult struct {
	Probe    probe    `json:"probe"`
	Spin     bool     `json:"spinlock"`
	Mode     string   `json:"mode"`
	Reply    string   `json:"reply"`
	Decisive bool     `json:"decisive"` // B was sent while A certainly held the lock
	BInside  bool     `json:"b_inside"` // B's reply arrived while A certainly still held the lock
	SnapIn   bool     `json:"snap_in"`  // an in-window snapshot was completed inside the window
	DiffIn   []string `json:"diff_in_window,omitempty"`
	DiffEnd  []string `json:"diff_final,omitempty"`
	AOFGrew  bool     `json:"aof_changed,omitempty"`
	// all offsets in ms relative to A's send
	ASendRecv [2]float64 `json:"a_ms"`
	BSendRecv [2]float64 `json:"b_ms"`
	HoldMs    float64    `json:"hold_ms"`
	Attempts  int        `json:"attempts"`
	Err       string     `json:"err,omitempty"`
	// exclusive mode
	RefReply string `json:"ref_reply,omitempty"`
}

const holdScript = `tile38.call('SET','k1','zmid','FIELD','f','9','POINT','33','-115') ` +
	`tile38.call('FSET','k1','a','f','99') ` +
	`tile38.call('SET','k9','z','STRING','v') ` +
	`tile38.call('EXPIRE','k1','a','100000') ` +
	`local t = os.clock() while os.clock() - t < tonumber(ARGV[1]) do end ` +
	`tile38.call('DEL','k1','zmid') ` +
	`tile38.call('FSET','k1','a','f','1') ` +
	`tile38.call('DROP','k9') ` +
	`tile38.call('PERSIST','k1','a') ` +
	`return 1`

func ms(d time.Duration) float64 { return float64(d.Microseconds()) / 1000 }

// runProbe executes one forced schedule. mode "shared": A = SLEEP (holds the
// shared lock); mode "exclusive": A = EVAL of holdScript (holds the
// exclusive lock around a half-applied change that it undoes at the end).
func (s *slot) runProbe(p probe, mode string) probeResult {
	res := probeResult{Probe: p, Spin: s.spin, Mode: mode}
	// B must be sent later than A's whole overhead (request, wake-up after
	// the hold, reply) to be provably inside the hold: the gap follows the
	// overhead last seen on this server
	gap := 60 * time.Millisecond
	if g := 2*s.overhead + 20*time.Millisecond; g > gap {
		gap = g
	}
	if gap > 600*time.Millisecond {
		gap = 600 * time.Millisecond
	}
	hold := gap + 240*time.Millisecond
	if p.Poison {
		// no second attempt on this server: be generous at once
		hold, gap = 800*time.Millisecond, 300*time.Millisecond
	}
	for attempt := 1; attempt <= 4; attempt++ {
		res.Attempts = attempt
		done := s.attempt(&res, p, mode, hold, gap)
		if res.Err != "" || done {
			return res
		}
		if p.Poison {
			return res
		}
		// A's reply was delayed so much that B's send is not provably
		// inside the hold (busy machine): widen
		hold += 200 * time.Millisecond
		gap *= 2
	}
	return res
}

func (s *slot) attempt(res *probeResult, p probe, mode string, hold, gap time.Duration) (decisive bool) {
	fail := func(f string, a ...any) bool { res.Err = fmt.Sprintf(f, a...); return false }
	if err := s.prepare(p); err != nil {
		return fail("%v", err)
	}
	if strings.HasSuffix(mode, "evalsha") {
		if v, err := s.prep.Do("SCRIPT", "LOAD", holdScript); err != nil || v.IsErr() {
			return fail("SCRIPT LOAD of the holder: %v %s", err, v)
		}
	}
	before, err := s.snapshot(s.prep, true)
	if err != nil {
		return fail("snapshot before: %v", err)
	}
	qBefore, err := s.quickPrint(s.prep)
	if err != nil {
		return fail("fingerprint before: %v", err)
	}
	if strings.HasPrefix(mode, "exclusive") {
		v, err := s.prep.Do(p.Cmd...)
		if err != nil {
			return fail("reference run: %v", err)
		}
		res.RefReply = v.String()
		// the reference run of a read must not have changed anything
		again, err := s.snapshot(s.prep, false)
		if err != nil {
			return fail("snapshot after reference: %v", err)
		}
		if d := diffState(before, again, false); len(d) > 0 {
			return fail("reference run of a read-only probe changed %v", d)
		}
	}
	b, err := s.srv.Dial()
	if err != nil {
		return fail("dial: %v", err)
	}
	defer b.Close()
	holdSec := strconv.FormatFloat(hold.Seconds(), 'f', 3, 64)

	var tAr time.Time
	var aErr error
	var aReply t38.Value
	aDone := make(chan struct{})
	tAs := time.Now()
	if mode == "shared" {
		aErr = s.holder.Send("SLEEP", holdSec)
	} else {
		// the four ways to run the holder script; all of them must hold
		// the exclusive lock (TIMEOUT n is a prefix that is stripped before
		// the command is dispatched)
		var hc []string
		switch mode {
		case "exclusive:timeout-eval":
			hc = []string{"TIMEOUT", "30", "EVAL", holdScript, "0", holdSec}
		case "exclusive:evalsha":
			hc = []string{"EVALSHA", sha1hex(holdScript), "0", holdSec}
		case "exclusive:timeout-evalsha":
			hc = []string{"TIMEOUT", "30", "EVALSHA", sha1hex(holdScript), "0", holdSec}
		default:
			hc = []string{"EVAL", holdScript, "0", holdSec}
		}
		aErr = s.holder.Send(hc...)
	}
	if aErr != nil {
		return fail("send A: %v", aErr)
	}
	go func() {
		aReply, aErr = s.holder.Recv()
		tAr = time.Now()
		close(aDone)
	}()
	time.Sleep(gap)
	tBs := time.Now()
	if err := b.Send(p.Cmd...); err != nil {
		<-aDone
		return fail("send B: %v", err)
	}
	var bv t38.Value
	var bErr error
	var tBr time.Time
	bDone := make(chan struct{})
	go func() {
		bv, bErr = b.RecvTimeout(10 * time.Second)
		tBr = time.Now()
		close(bDone)
	}()
	// early fingerprints, 8 and 30 ms after B was sent, whether or not B
	// has been answered: they see a change made under the shared lock by a
	// command whose reply is held up for another reason. They CANNOT see a
	// logged write made under the shared lock: once a write is buffered
	// (aofdirty) every connection's reply, the fingerprint's included, first
	// takes the exclusive lock to flush the log; such a fingerprint completes
	// after the window and is not used (that class is left to the history and
	// race sub-checks).
	var qEarly []string
	var tEarly []time.Time
	if mode == "shared" {
		for _, at := range []time.Duration{8 * time.Millisecond, 30 * time.Millisecond} {
			if d := time.Until(tBs.Add(at)); d > 0 {
				time.Sleep(d)
			}
			q, e := s.quickPrint(s.snap)
			if e != nil {
				break
			}
			qEarly = append(qEarly, q)
			tEarly = append(tEarly, time.Now())
		}
	}
	<-bDone
	// second in-window snapshot when B answered early
	var qIn string
	var tSnap time.Time
	tookSnap := false
	if mode == "shared" && bErr == nil && tBr.Before(tAs.Add(hold-20*time.Millisecond)) {
		var e error
		qIn, e = s.quickPrint(s.snap)
		tSnap = time.Now()
		tookSnap = e == nil
	}
	<-aDone
	if aErr != nil {
		return fail("A: %v", aErr)
	}
	if aReply.IsErr() {
		return fail("A answered %s", aReply)
	}
	if bErr != nil && bErr != t38.ErrHang {
		return fail("B: %v", bErr)
	}
	if bErr == t38.ErrHang {
		res.Reply = "(no reply within 10s)"
	} else {
		res.Reply = bv.String()
	}
	// A held its lock for at least `hold`, starting no earlier than tAs and
	// ending no later than tAr: it certainly held it during
	// [tAr-hold, tAs+hold].
	// (1 ms is taken off for the float conversion of the duration argument.)
	certain := hold - time.Millisecond
	winStart, winEnd := tAr.Add(-certain), tAs.Add(certain)
	s.overhead = tAr.Sub(tAs) - hold
	res.ASendRecv = [2]float64{0, ms(tAr.Sub(tAs))}
	res.BSendRecv = [2]float64{ms(tBs.Sub(tAs)), ms(tBr.Sub(tAs))}
	res.HoldMs = ms(hold)
	res.Decisive = !tBs.Before(winStart) && tBs.Before(winEnd)
	res.BInside = res.Decisive && bErr == nil && tBr.Before(winEnd)
	res.SnapIn = res.BInside && tookSnap && tSnap.Before(winEnd)
	if res.SnapIn && qIn != qBefore {
		res.DiffIn = []string{"dataset-or-config-file"}
	}
	for i, q := range qEarly {
		if res.Decisive && tEarly[i].Before(winEnd) {
			res.SnapIn = true
			if q != qBefore && len(res.DiffIn) == 0 {
				res.DiffIn = []string{"dataset-or-config-file"}
			}
		}
	}
	if p.Poison {
		// the server is a follower now; its dataset may be replaced at any
		// moment: compare the config file only
		cfg, _ := s.fileState()
		if cfg != before.Config {
			res.DiffEnd = []string{"config-file"}
		}
		return res.Decisive
	}
	if p.Label == "aofshrink" {
		// the shrink continues in the background and finally replaces the
		// log file: let it finish so that it cannot overlap the next probe
		for i := 0; i < 200; i++ {
			time.Sleep(10 * time.Millisecond)
			if _, err := os.Stat(s.srv.AOFPath() + "-shrink"); os.IsNotExist(err) {
				break
			}
		}
	}
	after, err := s.snapshot(s.prep, true)
	if err != nil {
		return fail("snapshot after: %v", err)
	}
	res.DiffEnd = diffState(before, after, true)
	res.AOFGrew = before.AOF != after.AOF
	return res.Decisive
}

func (r probeResult) name() string {
	n := r.Probe.Label
	if r.Probe.Shape != "" {
		n += "/" + r.Probe.Shape
	}
	return n
}

// judge applies the oracle of one probe. It returns a violation key and text
// or "".
func (r probeResult) judge() (key, what string) {
	lock := "mutex"
	if r.Spin {
		lock = "spinlock"
	}
	cmdName := strings.ReplaceAll(r.Probe.Label, " ", "-")
	switch r.Mode {
	case "shared":
		// sound in both forms: (1) a snapshot completed while A certainly held
		// the shared lock already shows the change; (2) B was answered while
		// A certainly held the shared lock and the dataset / configuration
		// differs afterwards (the append-only file alone may change later:
		// AOFSHRINK works in the background under its own locking).
		if r.SnapIn && len(r.DiffIn) > 0 {
			return "write-under-shared-lock:" + cmdName,
				fmt.Sprintf("%s (%s lock): %s changed %v while SLEEP held the shared lock: A=[0,%.1f]ms hold=%.0fms, B=[%.1f,%.1f]ms, reply %.200s",
					r.name(), lock, t38.CmdString(r.Probe.Cmd), r.DiffIn, r.ASendRecv[1], r.HoldMs, r.BSendRecv[0], r.BSendRecv[1], r.Reply)
		}
		if r.BInside && len(r.DiffEnd) > 0 {
			return "write-under-shared-lock:" + cmdName,
				fmt.Sprintf("%s (%s lock): %s was answered while SLEEP held the shared lock and changed %v: A=[0,%.1f]ms hold=%.0fms, B=[%.1f,%.1f]ms, reply %.200s",
					r.name(), lock, t38.CmdString(r.Probe.Cmd), r.DiffEnd, r.ASendRecv[1], r.HoldMs, r.BSendRecv[0], r.BSendRecv[1], r.Reply)
		}
	case "exclusive", "exclusive:timeout-eval", "exclusive:evalsha", "exclusive:timeout-evalsha":
		// the script restores the state it started from, so the only replies
		// of a deterministic read that the sequential model allows are the
		// one of the initial state
		if r.Probe.Det && r.Reply != r.RefReply {
			return "read-inside-exclusive-section:" + cmdName,
				fmt.Sprintf("%s (%s lock): %s answered %.300s while a script (holder started as %s) was half-way through its writes and must hold the exclusive lock; before and after the script the answer is %.300s",
					r.name(), lock, t38.CmdString(r.Probe.Cmd), r.Reply, strings.ToUpper(strings.TrimPrefix(strings.TrimPrefix(r.Mode, "exclusive"), ":")+" eval")[0:], r.RefReply)
		}
		if len(r.DiffEnd) > 0 {
			return "exclusive-probe-state", fmt.Sprintf("%s: state differs after the self-undoing script and a read: %v", r.name(), r.DiffEnd)
		}
	}
	return "", ""
}

// ---- the sweep -------------------------------------------------------------

type job struct {
	p    probe
	mode string
}

func runJobs(slots []*slot, jobs []job) []probeResult {
	ch := make(chan job)
	var mu sync.Mutex
	var out []probeResult
	var wg sync.WaitGroup
	for i := range slots {
		wg.Add(1)
		go func(i int) {
			defer wg.Done()
			for j := range ch {
				r := slots[i].runProbe(j.p, j.mode)
				if j.p.Poison || r.Err != "" {
					// replace the server
					spin := slots[i].spin
					slots[i].close()
					ns := newSlot(spin)
					poolMu.Lock()
					for k, s := range pools[spin] {
						if s == slots[i] {
							pools[spin][k] = ns
						}
					}
					poolMu.Unlock()
					slots[i] = ns
				}
				mu.Lock()
				out = append(out, r)
				mu.Unlock()
			}
		}(i)
	}
	for _, j := range jobs {
		ch <- j
	}
	close(ch)
	wg.Wait()
	sort.Slice(out, func(a, b int) bool {
		if out[a].name() != out[b].name() {
			return out[a].name() < out[b].name()
		}
		return !out[a].Spin && out[b].Spin
	})
	return out
}

func record(t *testing.T, c *ev.Collector, sub string, results []probeResult, reported map[string]bool) {
	for _, r := range results {
		c.Case()
		lock := "mutex"
		if r.Spin {
			lock = "spin"
		}
		if r.Err != "" {
			c.Inconclusive("%s %s: %s", r.name(), lock, r.Err)
			c.Label("probe-error")
			continue
		}
		if !r.Decisive {
			c.Inconclusive("%s %s: the lock holder started later than the probed command in %d attempts (busy machine)", r.name(), lock, r.Attempts)
			c.Label("not-decisive")
			continue
		}
		if r.Attempts > 1 {
			c.Label("retried")
		}
		mut := len(r.DiffEnd) > 0
		t.Logf("%-28s %-5s %-9s decisive=%v inside=%v B=[%.0f,%.0f]ms A=%.0fms diff=%v aof=%v reply=%.80s", r.name(), lock, r.Mode, r.Decisive, r.BInside, r.BSendRecv[0], r.BSendRecv[1], r.ASendRecv[1], r.DiffEnd, r.AOFGrew, r.Reply)
		switch {
		case r.Mode == "shared" && mut && !r.BInside:
			c.Label("mutator-waited-for-shared-holder")
			c.NonTrivial(sub + "|" + r.name() + "|" + lock)
		case r.Mode == "shared" && !mut && r.BInside:
			c.Label("non-mutator-ran-beside-shared-holder")
		case r.Mode == "shared" && !mut && !r.BInside:
			c.Label("non-mutator-waited")
		case strings.HasPrefix(r.Mode, "exclusive") && !r.BInside:
			c.Label("reader-waited-for-exclusive-holder")
			c.Label("holder:" + r.Mode)
			if r.Probe.Det {
				c.NonTrivial(sub + "|" + r.name() + "|" + lock + "|" + r.Mode)
			}
		case strings.HasPrefix(r.Mode, "exclusive") && r.BInside:
			c.Label("answered-beside-exclusive-holder")
		}
		if r.Mode == "shared" && r.AOFGrew && !mut {
			c.Label("aof-only-change")
		}
		if r.Mode == "shared" && r.Probe.WantMut && !mut {
			c.Inconclusive("%s %s: the probe arguments were expected to change the state but did not (reply %s)", r.name(), lock, r.Reply)
			c.Label("expected-mutation-missing")
		}
		if c.WantSample() && (mut || strings.HasPrefix(r.Mode, "exclusive")) {
			sr := r
			if len(sr.Reply) > 160 {
				sr.Reply = sr.Reply[:160] + "..."
			}
			if len(sr.RefReply) > 160 {
				sr.RefReply = sr.RefReply[:160] + "..."
			}
			c.Sample(sr)
		}
		key, what := r.judge()
		if key == "" {
			continue
		}
		if r.Probe.Finding != "" {
			key = r.Probe.Finding
		}
		if reported[key] {
			continue
		}
		reported[key] = true
		obs, _ := json.Marshal(r)
		rep := probeReplay{Probe: r.Probe, Spin: r.Spin, Mode: r.Mode, Obs: string(obs)}
		if r.Probe.Finding != "" && ev.KnownActive(r.Probe.Finding) {
			c.Known(r.Probe.Finding, what)
			continue
		}
		c.Violation(key, what, rep)
		t.Errorf("VIOLATION-CANDIDATE key=%s: %s", key, what)
	}
}

func closedPort() int { return t38.FreePort() }

// TestC07_LockTable: (a) with A = SLEEP holding the shared lock.
func TestC07_LockTable(t *testing.T) {
	if ev.Shards() > 1 && ev.Shard()%4 != 0 {
		t.Skip("lock-table sweep runs on shards 0,4,8,12 only")
	}
	c := ev.New("C07", "locktable", "exploration")
	t.Cleanup(c.Flush)
	c.Rule("forced schedule over the whole command table: for every case label of (*Server).command (enumerated from the source with go/parser; plus TIMEOUT-prefixed, PING/ECHO and unknown commands) and every argument shape of the probe table (values drawn by rapid) on a prepared state, under both lock implementations: connection A sends the DevMode command SLEEP d (holds the SHARED lock for >= d), 60 ms later connection B sends the command. A certainly holds the lock during [recv(A)-d, send(A)+d] on the monotonic clock; a probe is decisive when B was sent inside that window (otherwise it is repeated with a longer d). Violation: a snapshot (dataset, hooks, channels, config file) completed inside the window (one-round-trip fingerprints KEYS/SCAN/TTL/HOOKS/CHANS + config file, taken 8 and 30 ms after B was sent and after B's reply if that came early) differs from the one before, or B was answered inside the window and dataset/configuration differ afterwards. Non-trivial: the command changed the visible state and was answered only after the window (it waited); distinct by (label, shape, lock implementation).")
	c.Assume("time.Sleep in cmdSleep lasts at least its argument; client and in-process server share one monotonic clock")
	labels, err := commandLabels()
	if err != nil {
		t.Fatalf("cannot enumerate command labels: %v", err)
	}
	// every sweep probes the complete table; with parallel shards only every
	// fourth shard runs it (the probes are sensitive to CPU starvation: a
	// starved probe is repeated and finally counted as inconclusive)
	sweeps := ev.Pick(1, 3)
	reported := map[string]bool{}
	lead := leader()
	ev.Rapid("locktable", sweeps)
	rapid.Check(t, func(rt *rapid.T) {
		a := argDraw{rt}
		var jobsMutex, jobsSpin []job
		unprobed := []string{}
		for _, l := range labels {
			ps := probesFor(l, a, closedPort(), lead.Port)
			if len(ps) == 0 {
				if why, ok := skippedLabels[l]; ok {
					c.Label("skipped:" + l)
					c.Note("label %q not probed: %s", l, why)
				} else {
					unprobed = append(unprobed, l)
				}
				continue
			}
			for i, p := range ps {
				jobsMutex = append(jobsMutex, job{p, "shared"})
				// the spinlock build burns a core per waiting writer: probe
				// every mutating shape and the first shape of the others
				if p.WantMut || i == 0 {
					if !p.Poison {
						jobsSpin = append(jobsSpin, job{p, "shared"})
					}
				}
			}
		}
		for _, p := range extraProbes(a) {
			jobsMutex = append(jobsMutex, job{p, "shared"})
		}
		for _, l := range unprobed {
			c.Inconclusive("command label %q has no entry in the probe table", l)
			c.Label("unprobed:" + l)
		}
		var wg sync.WaitGroup
		var r1, r2 []probeResult
		wg.Add(2)
		go func() { defer wg.Done(); r1 = runJobs(getPool(false, 10), jobsMutex) }()
		go func() { defer wg.Done(); r2 = runJobs(getPool(true, 3), jobsSpin) }()
		wg.Wait()
		record(t, c, "shared", r1, reported)
		record(t, c, "shared", r2, reported)
	})
	c.Exhaustive(true)
}

// TestC07_Exclusive: the converse direction of (a): A = EVAL of a script that
// applies half of a multi-object change, spins, and undoes it, all under the
// exclusive lock; B = every command whose reply is a deterministic function
// of the dataset.
func TestC07_Exclusive(t *testing.T) {
	if ev.Shards() > 1 && ev.Shard()%4 != 2 {
		t.Skip("exclusive-lock sweep runs on shards 2,6,10,14 only")
	}
	c := ev.New("C07", "exclusive", "exploration")
	t.Cleanup(c.Flush)
	c.Rule("forced schedule: connection A runs a script (started as EVAL, TIMEOUT n EVAL, EVALSHA or TIMEOUT n EVALSHA, rotated over the shapes and lock variants) that inserts an object, changes a field, creates a key and sets a deadline, spins for d seconds, then undoes all four (exclusive lock for >= d, initial and final state identical); 60 ms later connection B sends a command whose reply is a function of the dataset (every read label of the command table, scripts included). Violation: B's reply differs from the reply of the same command on the initial state (it observed the half-applied script). Non-trivial: B was sent while A certainly held the lock and was answered after it; distinct by (label, shape, lock implementation).")
	labels, err := commandLabels()
	if err != nil {
		t.Fatalf("cannot enumerate command labels: %v", err)
	}
	reported := map[string]bool{}
	ev.Rapid("exclusive", ev.Pick(1, 2))
	rapid.Check(t, func(rt *rapid.T) {
		a := argDraw{rt}
		var dets []probe
		for _, l := range labels {
			for _, p := range probesFor(l, a, 1, 1) {
				if p.Det {
					dets = append(dets, p)
				}
			}
		}
		for _, p := range extraProbes(a) {
			if p.Det {
				dets = append(dets, p)
			}
		}
		// the holder script is started in four ways, rotated over the
		// shapes and shifted by two between the lock variants, so that every
		// shape meets a plain and a TIMEOUT-wrapped holder
		holders := []string{"exclusive", "exclusive:timeout-eval", "exclusive:evalsha", "exclusive:timeout-evalsha"}
		var jobs, jobsSpin []job
		for i, p := range dets {
			jobs = append(jobs, job{p, holders[i%4]})
			jobsSpin = append(jobsSpin, job{p, holders[(i+1)%4]})
		}
		var wg sync.WaitGroup
		var r1, r2 []probeResult
		wg.Add(2)
		go func() { defer wg.Done(); r1 = runJobs(getPool(false, 3), jobs) }()
		go func() { defer wg.Done(); r2 = runJobs(getPool(true, 2), jobsSpin) }()
		wg.Wait()
		record(t, c, "exclusive", r1, reported)
		record(t, c, "exclusive", r2, reported)
	})
	c.Exhaustive(true)
}

func replayProbe(t *testing.T, c *ev.Collector, r probeReplay) {
	s := newSlot(r.Spin)
	defer s.close()
	if r.Mode == "" {
		r.Mode = "shared"
	}
	reported := map[string]bool{}
	for i := 0; i < 3; i++ {
		res := s.runProbe(r.Probe, r.Mode)
		b, _ := json.Marshal(res)
		t.Logf("run %d: %s", i, bytes.TrimSpace(b))
		record(t, c, r.Mode, []probeResult{res}, reported)
	}
}

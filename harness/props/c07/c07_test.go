// C07: concurrent clients see one serial order, and it is the order in the
// log.
//
//	(a) locktable_test.go  forced-schedule probes over the whole command table:
//	    a connection holds the SHARED lock (DevMode SLEEP) or the EXCLUSIVE
//	    lock (a spinning EVAL) while a second connection issues the command
//	    under test.
//	(b) history_test.go    concurrent histories checked against the sequential
//	    model along the order recorded in appendonly.aof.
//	(c) race_test.go       the same workload with live fences and short TTLs in
//	    a -race build, run in a child process whose race reports are parsed.
package c07

import (
	"encoding/json"
	"fmt"
	"os"
	"strings"
	"testing"

	"github.com/tidwall/tile38/verif/harness/ev"
)

func TestMain(m *testing.M) {
	if os.Getenv(raceChildEnv) != "" {
		// child of TestC07_Race_*: no evidence, no journal noise
		os.Exit(m.Run())
	}
	code := m.Run()
	stopPools()
	os.Exit(code)
}

func TestReplay(t *testing.T) {
	doc, ok := ev.ReplayFile()
	if !ok {
		t.Skip("no replay file")
	}
	c := ev.New("C07", "replay", "exploration")
	t.Cleanup(c.Flush)
	switch {
	case doc.Check == "locktable" || doc.Check == "exclusive":
		var r probeReplay
		if err := json.Unmarshal(doc.Data, &r); err != nil {
			t.Fatalf("bad replay data: %v", err)
		}
		replayProbe(t, c, r)
	case doc.Check == "history" || doc.Check == "expiry":
		var r historyReplay
		if err := json.Unmarshal(doc.Data, &r); err != nil {
			t.Fatalf("bad replay data: %v", err)
		}
		replayHistory(t, c, r)
	case strings.HasPrefix(doc.Check, "race") || doc.Check == "fencestress":
		var r raceReplay
		if err := json.Unmarshal(doc.Data, &r); err != nil {
			t.Fatalf("bad replay data: %v", err)
		}
		replayRace(t, c, r)
	default:
		t.Fatalf("unknown check %q", doc.Check)
	}
}

func must(err error) {
	if err != nil {
		panic(fmt.Sprintf("harness: %v", err))
	}
}

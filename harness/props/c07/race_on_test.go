//go:build race

package c07

const raceBuild = true

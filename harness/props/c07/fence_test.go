package c07

import (
	"fmt"
	"strconv"
	"strings"
	"testing"

	"github.com/tidwall/tile38/verif/harness/ev"
	"pgregory.net/rapid"
)

// drawFenceStress draws a workload that makes every live fence produce an
// event for nearly every write: points of a small id pool jump between a
// position inside all fences and one outside, interleaved with deletes.
func drawFenceStress(rt *rapid.T, nfences, clients, ops int) raceWorkload {
	w := raceWorkload{Spin: rapid.Bool().Draw(rt, "spinlock")}
	w.Fences = append(w.Fences, fenceShapes[:nfences]...)
	for ci := 0; ci < clients; ci++ {
		var cl []rop
		for i := 0; i < ops; i++ {
			id := "p" + strconv.Itoa(ci) + "_" + strconv.Itoa(rapid.IntRange(0, 39).Draw(rt, "id"))
			switch rapid.IntRange(0, 4).Draw(rt, "kind") {
			case 0:
				cl = append(cl, rop{Cmd: []string{"DEL", "k1", id}})
			case 1, 2:
				cl = append(cl, rop{Cmd: []string{"SET", "k1", id, "POINT", "33.2", "-115"}})
			default:
				cl = append(cl, rop{Cmd: []string{"SET", "k1", id, "POINT", "33.001", "-115.001"}})
			}
		}
		w.Clients = append(w.Clients, cl)
	}
	return w
}

// TestC07_FenceStress runs live fences against concurrent writers in a child
// process of the NORMAL build: structures mutated by two goroutines at once
// show up as a crash of the child (or, in the -race build, as reports).
func TestC07_FenceStress(t *testing.T) {
	c := ev.New("C07", "fencestress", "exploration")
	t.Cleanup(c.Flush)
	c.Rule("child process of the test binary running an in-process server with 2 live fences on one collection (1 while the finding " + fenceGroupsID + " is listed as known) and 3-4 client goroutines that move points of a 40-id pool in and out of all fences and delete them, so that every fence goroutine evaluates nearly every write. Violation: the child dies with a panic / fatal error whose stack names a tile38 frame (a structure corrupted by unsynchronised mutation), keyed by root cause. Non-trivial: every run (fences and writers are concurrent by construction); distinct by workload.")
	known := ev.KnownActive(fenceGroupsID)
	seen := map[string]bool{}
	ops := ev.Pick(4000, 15000)
	ev.Rapid("fencestress", ev.Pick(2, 5))
	first := true
	rapid.Check(t, func(rt *rapid.T) {
		if known && first {
			// deterministic-shape probe of the known finding
			first = false
			w := drawFenceStress(rt, 2, 4, 3*ops)
			c.Case()
			reports, out, err := runRaceChild(w, "fsprobe")
			if err != nil {
				c.Inconclusive("known-finding probe: %v: %.300s", err, out)
			}
			for _, r := range reports {
				if classifyRace(r) == fenceGroupsID && !seen[fenceGroupsID] {
					seen[fenceGroupsID] = true
					c.Known(fenceGroupsID, "two live fences on one collection corrupt the group btrees: "+strings.SplitN(r.Text, "\n", 2)[0])
				}
			}
			reportRaces(t, c, w, reports, seen)
		}
		nf := 2
		if known {
			nf = 1
			c.Excluded(fenceGroupsID)
		}
		w := drawFenceStress(rt, nf, rapid.IntRange(3, 4).Draw(rt, "clients"), ops)
		c.Case()
		reports, out, err := runRaceChild(w, "fs")
		if err != nil {
			c.Inconclusive("fence stress child: %v: %.300s", err, out)
			return
		}
		c.NonTrivial(fmt.Sprintf("%v|%d|%v", w.Fences, len(w.Clients), w.Clients[0][:min(len(w.Clients[0]), 200)]))
		if len(reports) == 0 {
			c.Label("child-survived")
		}
		reportRaces(t, c, w, reports, seen)
	})
}

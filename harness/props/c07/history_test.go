package c07

import (
	"encoding/json"
	"fmt"
	"os"
	"path/filepath"
	"sort"
	"strconv"
	"strings"
	"sync"
	"testing"
	"time"
	"unicode"

	"github.com/anishathalye/porcupine"
	"github.com/tidwall/tile38/verif/harness/ev"
	"github.com/tidwall/tile38/verif/harness/gen"
	"github.com/tidwall/tile38/verif/harness/model"
	"github.com/tidwall/tile38/verif/harness/t38"
	"pgregory.net/rapid"
)

// ---- programs --------------------------------------------------------------

// hop is one client operation:
//
//	cmd    a plain command (Timeout: prefixed with TIMEOUT n; a TIMEOUT-wrapped
//	       write is refused by the server without any effect)
//	eval / evalna / evalro
//	       a script whose body is a sequence of tile38.pcall(...) of the inner
//	       commands, returning the last result; Sha: sent as EVALSHA & co of
//	       the pre-loaded text; Timeout: prefixed with TIMEOUT n; SpinUs: the
//	       script busy-waits that long between two calls (a slow script)
//	incr   a read-modify-write script: n = FGET kc c n; SET kc c FIELD n n+1
//	       POINT <Args>; return n+1 (EVAL or EVALSHA, possibly TIMEOUT-wrapped)
//	pipe   several reads written to the socket in ONE segment; their replies
//	       come back together after the last one was executed
//	pause  the client sleeps Args[0] milliseconds
type hop struct {
	Kind    string     `json:"kind"`
	Args    []string   `json:"args,omitempty"`
	Inner   [][]string `json:"inner,omitempty"`
	Reads   [][]string `json:"reads,omitempty"`
	Timeout bool       `json:"timeout,omitempty"`
	Sha     bool       `json:"sha,omitempty"`
	SpinUs  int        `json:"spin_us,omitempty"`
}

type hprogram struct {
	Spin bool `json:"spinlock"`
	// Expiry: objects carry deadlines of a fraction of a second; the
	// background sweeper's `del key id` records are writes of the log that
	// belong to no client (see TestC07_Expiry).
	Expiry  bool    `json:"expiry,omitempty"`
	Clients [][]hop `json:"clients"`
}

type hobs struct {
	Send    int64       `json:"send_ns"`
	Recv    int64       `json:"recv_ns"`
	Reply   t38.Value   `json:"reply"`
	Replies []t38.Value `json:"replies,omitempty"` // pipe
}

type historyReplay struct {
	Program hprogram   `json:"program"`
	Obs     [][]hobs   `json:"observed"`
	Log     [][]string `json:"log"`
	Final   *t38.Dump  `json:"final_dump,omitempty"`
}

// timeoutSec is the TIMEOUT budget of wrapped operations: far above anything
// a history needs, so the deadline itself never fires.
const timeoutSec = "25"

// counter object of the incr scripts; no generated command names this key.
const counterKey = "kc"

func spinText(us int) string {
	if us <= 0 {
		return ""
	}
	return fmt.Sprintf("do local t0 = os.clock() while os.clock() - t0 < %g do end end\n", float64(us)/1e6)
}

func scriptText(inner [][]string, spinUs int) string {
	var b strings.Builder
	b.WriteString("local r\n")
	idx := 1
	for n, c := range inner {
		if n > 0 {
			b.WriteString(spinText(spinUs))
		}
		b.WriteString("r = tile38.pcall(")
		for j := range c {
			if j > 0 {
				b.WriteByte(',')
			}
			fmt.Fprintf(&b, "ARGV[%d]", idx)
			idx++
		}
		b.WriteString(")\n")
	}
	b.WriteString("return r")
	return b.String()
}

func incrText(spinUs int) string {
	return "local r = tile38.pcall('FGET','" + counterKey + "','c','n')\n" +
		"local v = tonumber(r) or 0\n" + spinText(spinUs) +
		"v = v + 1\n" +
		"tile38.call(ARGV[1],'" + counterKey + "','c','FIELD','n',tostring(v),'POINT',ARGV[2],ARGV[3])\n" +
		"return v"
}

// text is the Lua source of a script operation ("" for the others).
func (o hop) text() string {
	switch o.Kind {
	case "eval", "evalna", "evalro":
		return scriptText(o.Inner, o.SpinUs)
	case "incr":
		return incrText(o.SpinUs)
	}
	return ""
}

// wire is the command as sent ("pipe" operations are sent by wirePipe).
func (o hop) wire() []string {
	var out []string
	if o.Timeout {
		out = append(out, "TIMEOUT", timeoutSec)
	}
	switch o.Kind {
	case "cmd":
		return append(out, o.Args...)
	case "pipe":
		for i, r := range o.Reads {
			if i > 0 {
				out = append(out, "|")
			}
			out = append(out, r...)
		}
		return out
	}
	verb := strings.ToUpper(o.Kind)
	if o.Kind == "incr" {
		verb = "EVAL"
	}
	txt := o.text()
	if o.Sha {
		out = append(out, verb+"SHA", sha1hex(txt), "0")
	} else {
		out = append(out, verb, txt, "0")
	}
	if o.Kind == "incr" {
		return append(out, o.Args...)
	}
	for _, c := range o.Inner {
		out = append(out, c...)
	}
	return out
}

// spell tags a command name: the case of letters 0..2 encodes the client
// (0..7), the case of the remaining letters the repetition count of this
// exact write within the client. Command names are case-insensitive for the
// server and are logged verbatim, so every logged write of a history is
// textually unique and names the operation it belongs to.
func spell(name string, client, dup int) (string, bool) {
	rs := []rune(strings.ToLower(name))
	if len(rs) < 3 || client > 7 {
		return "", false
	}
	if dup >= 1<<(len(rs)-3) {
		return "", false
	}
	for i := range rs {
		var bit int
		if i < 3 {
			bit = (client >> i) & 1
		} else {
			bit = (dup >> (i - 3)) & 1
		}
		if bit == 1 {
			rs[i] = unicode.ToUpper(rs[i])
		}
	}
	return string(rs), true
}

func clientOfName(name string) int {
	rs := []rune(name)
	c := 0
	for i := 0; i < 3 && i < len(rs); i++ {
		if unicode.IsUpper(rs[i]) {
			c |= 1 << i
		}
	}
	return c
}

func argsKey(args []string) string { return strings.Join(args, "\x00") }

func incrKey(name, lat, lon string) string { return "\x00incr\x00" + name + "\x00" + lat + "\x00" + lon }

type tagger struct {
	client int
	used   map[string]int
}

// tag returns the command with its name re-spelled; ok=false when the same
// write was already issued too often by this client to stay unique.
func (tg *tagger) tag(cmd []string) ([]string, bool) {
	out := append([]string(nil), cmd...)
	dup := 0
	if model.IsWrite(cmd[0]) {
		k := strings.ToLower(cmd[0]) + "\x00" + argsKey(cmd[1:])
		dup = tg.used[k]
		tg.used[k]++
	}
	n, ok := spell(cmd[0], tg.client, dup)
	if !ok {
		return nil, false
	}
	out[0] = n
	return out, true
}

func scriptable(cmd []string) bool {
	switch strings.ToLower(cmd[0]) {
	case "jdel", "flushdb": // not callable from scripts
		return false
	}
	for _, a := range cmd {
		if a == "" { // ARGV parsing rejects empty arguments
			return false
		}
	}
	return true
}

// jsonKey is a collection that only ever holds JSON documents created by
// JSET, so that the reference model covers every JSET/JDEL/JGET on it (on
// other collections their outcome depends on the kind of the stored object,
// which a concurrent client may have replaced). SET and RENAME never target
// it; deletes, field writes, deadlines and reads sometimes do.
const jsonKey = "kj"

func retarget(t *rapid.T, cmd []string) []string {
	switch strings.ToLower(cmd[0]) {
	case "jset", "jdel", "jget":
		cmd[1] = jsonKey
	case "del", "drop", "pdel", "get", "scan", "exists", "ttl", "expire", "persist", "fset", "fget", "fexists", "type":
		if rapid.IntRange(0, 5).Draw(t, "onjson") == 0 {
			cmd[1] = jsonKey
		}
	}
	return cmd
}

// modelled drops the state-independent shapes the model does not cover.
func modelled(cmd []string) bool {
	if strings.ToLower(cmd[0]) == "jset" {
		// the model keeps the literal text of a number, JGET with a path
		// answers it re-formatted ("-3e2" -> "-300", "1.50" -> "1.5"): a
		// gap of the sequential model, irrelevant to ordering
		if cmd[4] == "-3e2" || cmd[4] == "1.50" {
			return false
		}
		raw, str := false, false
		if len(cmd) == 6 {
			raw, str = strings.ToLower(cmd[5]) == "raw", strings.ToLower(cmd[5]) == "str"
		}
		if _, ok := model.JVal(cmd[4], raw, str); !ok {
			return false
		}
	}
	return !model.Exec(model.NewDB(), cmd).Unsupported
}

func isReadCmd(cmd []string) bool { return !model.IsWrite(cmd[0]) }

func drawHProgram(rt *rapid.T, maxClients, maxOps int) hprogram {
	var p hprogram
	p.Spin = rapid.Bool().Draw(rt, "spinlock")
	n := rapid.IntRange(2, maxClients).Draw(rt, "clients")
	plain := rapid.Custom(func(t *rapid.T) []string { return retarget(t, gen.KeyspaceCmd(t, gen.SmallNames)) }).Filter(modelled)
	inner := plain.Filter(scriptable)
	// (no rapid Filter here: reads are a third of the alphabet, and a filter
	// that gives up discards the whole case, which skews towards small ones)
	reads := rapid.Custom(func(t *rapid.T) []string {
		for i := 0; i < 40; i++ {
			if c := plain.Draw(t, "candidate"); isReadCmd(c) {
				return c
			}
		}
		return []string{"SCAN", "k1"}
	})
	chance := func(label string, outOf int) bool { return rapid.IntRange(0, outOf-1).Draw(rt, label) == 0 }
	spin := func() int {
		if chance("spin?", 8) {
			return rapid.SampledFrom([]int{200, 1000, 3000}).Draw(rt, "spin_us")
		}
		return 0
	}
	for ci := 0; ci < n; ci++ {
		tg := &tagger{client: ci, used: map[string]int{}}
		nops := rapid.IntRange(3, maxOps).Draw(rt, "nops")
		var ops []hop
		for i := 0; i < nops; i++ {
			kind := rapid.IntRange(0, 23).Draw(rt, "opkind")
			switch {
			case kind < 14:
				cmd := plain.Draw(rt, "cmd")
				if model.IsWrite(cmd[0]) && chance("timeout-write?", 12) {
					// refused without effect: never logged, needs no tag
					ops = append(ops, hop{Kind: "cmd", Args: cmd, Timeout: true})
					continue
				}
				if c, ok := tg.tag(cmd); ok {
					ops = append(ops, hop{Kind: "cmd", Args: c, Timeout: !model.IsWrite(cmd[0]) && chance("timeout-read?", 5)})
				}
			case kind < 16:
				o := hop{Kind: "pipe"}
				nr := rapid.IntRange(2, 4).Draw(rt, "nreads")
				for j := 0; j < nr; j++ {
					o.Reads = append(o.Reads, reads.Draw(rt, "read"))
				}
				ops = append(ops, o)
			case kind < 22:
				o := hop{Kind: map[int]string{16: "eval", 17: "eval", 18: "eval", 19: "eval", 20: "evalna", 21: "evalro"}[kind]}
				ni := rapid.IntRange(1, 4).Draw(rt, "ninner")
				for j := 0; j < ni; j++ {
					if c, ok := tg.tag(inner.Draw(rt, "inner")); ok {
						o.Inner = append(o.Inner, c)
					}
				}
				if len(o.Inner) == 0 {
					continue
				}
				o.Timeout = chance("timeout-script?", 2)
				if o.Kind == "evalna" {
					o.Timeout = chance("timeout-evalna?", 4)
				}
				o.Sha = chance("sha?", 3)
				o.SpinUs = spin()
				ops = append(ops, o)
			default:
				name, _ := spell("set", ci, 0)
				o := hop{Kind: "incr", Args: []string{name, fmt.Sprint(len(ops)), fmt.Sprint(ci)}}
				o.Timeout = !chance("plain-incr?", 3)
				o.Sha = chance("sha?", 3)
				o.SpinUs = spin()
				ops = append(ops, o)
			}
		}
		p.Clients = append(p.Clients, ops)
	}
	return p
}

// ---- execution -------------------------------------------------------------

type histServer struct {
	srv   *t38.Srv
	ctl   *t38.Conn
	conns []*t38.Conn
}

var (
	histMu   sync.Mutex
	histSrvs = map[bool]*histServer{}
)

func getHistServer(spin bool) *histServer {
	histMu.Lock()
	defer histMu.Unlock()
	if h := histSrvs[spin]; h != nil {
		return h
	}
	srv, err := t38.Start(t38.Opts{Spinlock: spin})
	must(err)
	h := &histServer{srv: srv, ctl: srv.MustDial()}
	for i := 0; i < 8; i++ {
		h.conns = append(h.conns, srv.MustDial())
	}
	histSrvs[spin] = h
	poolMu.Lock()
	stopFns = append(stopFns, func() { srv.Stop() })
	poolMu.Unlock()
	return h
}

func dropHistServer(spin bool) {
	histMu.Lock()
	h := histSrvs[spin]
	delete(histSrvs, spin)
	histMu.Unlock()
	if h != nil {
		h.ctl.Close()
		for _, c := range h.conns {
			c.Close()
		}
		h.srv.StopAsync()
	}
}

// histReplyBudget: an operation of a history that is not answered within
// this time ends the run without a verdict (machine stall) unless the server
// then proves to be stuck (see historyCase).
const histReplyBudget = 12 * time.Second

// runHistory executes the program with one goroutine per client and returns
// the observations, the commands appended to the log during the run and the
// final visible dataset.
func runHistory(p hprogram) (obs [][]hobs, log [][]string, final *t38.Dump, err error) {
	h := getHistServer(p.Spin)
	if v, e := h.ctl.Do("FLUSHDB"); e != nil || v.IsErr() {
		return nil, nil, nil, fmt.Errorf("FLUSHDB: %v %s", e, v)
	}
	// the texts of the operations that are sent by digest
	loaded := map[string]bool{}
	for _, cl := range p.Clients {
		for _, o := range cl {
			if txt := o.text(); o.Sha && !loaded[txt] {
				loaded[txt] = true
				if v, e := h.ctl.Do("SCRIPT", "LOAD", txt); e != nil || v.IsErr() {
					return nil, nil, nil, fmt.Errorf("SCRIPT LOAD: %v %s", e, v)
				}
			}
		}
	}
	st, e := os.Stat(h.srv.AOFPath())
	if e != nil {
		return nil, nil, nil, e
	}
	off := st.Size()
	obs = make([][]hobs, len(p.Clients))
	errs := make([]error, len(p.Clients))
	var wg sync.WaitGroup
	start := make(chan struct{})
	base := time.Now()
	for ci := range p.Clients {
		obs[ci] = make([]hobs, len(p.Clients[ci]))
		wg.Add(1)
		go func(ci int) {
			defer wg.Done()
			c := h.conns[ci]
			<-start
			for oi, o := range p.Clients[ci] {
				if o.Kind == "pause" {
					ms, _ := strconv.Atoi(o.Args[0])
					time.Sleep(time.Duration(ms) * time.Millisecond)
					continue
				}
				w := o.wire()
				if o.Kind == "pipe" {
					var buf []byte
					for _, rd := range o.Reads {
						buf = append(buf, t38.EncodeCmd(rd...)...)
					}
					t38.JournalNote("pipelined: " + t38.CmdString(w))
					s := time.Since(base)
					e := c.SendRaw(buf)
					var vs []t38.Value
					for range o.Reads {
						if e != nil {
							break
						}
						var v t38.Value
						v, e = c.RecvTimeout(histReplyBudget)
						vs = append(vs, v)
					}
					r := time.Since(base)
					if e != nil {
						errs[ci] = fmt.Errorf("client %d op %d %s: %v", ci, oi, t38.CmdString(w), e)
						return
					}
					obs[ci][oi] = hobs{Send: int64(s), Recv: int64(r), Replies: vs}
					continue
				}
				s := time.Since(base)
				e := c.Send(w...)
				var v t38.Value
				if e == nil {
					v, e = c.RecvTimeout(histReplyBudget)
				}
				r := time.Since(base)
				if e != nil {
					errs[ci] = fmt.Errorf("client %d op %d %s: %v", ci, oi, t38.CmdString(w), e)
					return
				}
				obs[ci][oi] = hobs{Send: int64(s), Recv: int64(r), Reply: v}
			}
		}(ci)
	}
	close(start)
	wg.Wait()
	for _, e := range errs {
		if e != nil {
			return nil, nil, nil, e
		}
	}
	b, e := os.ReadFile(h.srv.AOFPath())
	if e != nil {
		return nil, nil, nil, e
	}
	if int64(len(b)) < off {
		return nil, nil, nil, fmt.Errorf("aof shrank from %d to %d bytes during the run", off, len(b))
	}
	cmds, consumed, e := t38.ParseAOFBytes(b[off:])
	if e != nil {
		return nil, nil, nil, e
	}
	if consumed != int64(len(b))-off {
		return nil, nil, nil, fmt.Errorf("aof tail not parseable after offset %d", off+consumed)
	}
	for _, c := range cmds {
		log = append(log, c.Args)
	}
	if p.Expiry {
		// objects keep expiring after the log was read: no final comparison
		return obs, log, nil, nil
	}
	final, e = t38.TakeDumpOn(h.ctl)
	if e != nil {
		return nil, nil, nil, e
	}
	return obs, log, final, nil
}

// ---- checker ---------------------------------------------------------------

type unit struct {
	client, op, inner int // inner = -1 for a plain command
	args              []string
	pos               int // position in the log, -1 = not logged
}

type hstats struct {
	logged, reads, scripts      int
	wideWindows                 int // reads with >= 2 admissible prefixes
	overlapWritersSameKey       bool
	multiObjConcurrentWithRead  bool
	atomicGroups, evalnaSplit   int
	loggedNoop, unsupported     int
	timeoutOps, pipes, incrs    int
	sweeperDels, readsAroundDel int
	abstract                    string
}

// histDebug, when set, receives the decisions of the window search
// (development aid).
var histDebug func(string)

// unsup marks a prefix at which the model does not cover the command shape
// (state-dependent, e.g. GET ... POINT of a non-point object): undecided,
// accepted.
const unsup = "\x00unsupported"

type hviolation struct {
	Key, What string
}

func keysOf(cmd []string) []string {
	switch strings.ToLower(cmd[0]) {
	case "flushdb":
		return []string{"*"}
	case "keys":
		return []string{"*"}
	case "rename", "renamenx":
		if len(cmd) > 2 {
			return []string{cmd[1], cmd[2]}
		}
	}
	if len(cmd) > 1 {
		return []string{cmd[1]}
	}
	return nil
}

func shareKey(a, b []string) bool {
	for _, x := range a {
		for _, y := range b {
			if x == y || x == "*" || y == "*" {
				return true
			}
		}
	}
	return false
}

func multiObject(cmd []string) bool {
	switch strings.ToLower(cmd[0]) {
	case "pdel", "drop", "rename", "renamenx", "flushdb":
		return true
	}
	return false
}

// scriptReplyCheck compares the reply of a script with the model reply of its
// last inner command after the RESP -> Lua -> RESP round trip: scalars and
// errors survive it, arrays are not compared.
func scriptReplyCheck(r model.Reply, got t38.Value) string {
	if r.RESP.Kind == '-' {
		if !got.IsErr() {
			return fmt.Sprintf("got %s, model an error (%s)", got, r.RESP.Str)
		}
		return ""
	}
	if got.IsErr() {
		return fmt.Sprintf("got %s, model %s", got, r.RESP)
	}
	if r.RESP.Kind == '*' {
		return ""
	}
	return r.CheckRESP(got)
}

// execInner applies one inner command of a script to db under the rules of
// the script kind.
func execInner(kind string, db *model.DB, cmd []string) model.Reply {
	if kind == "evalro" && model.IsWrite(cmd[0]) {
		return model.Reply{RESP: t38.Err("ERR read only")}
	}
	return model.Exec(db, cmd)
}

// checkHistory decides one history. It returns nil when the history is
// explained by the log order.
func checkHistory(p hprogram, obs [][]hobs, log [][]string, final *t38.Dump) (*hviolation, hstats, error) {
	var st hstats
	n := len(log)
	viol := func(key, f string, a ...any) (*hviolation, hstats, error) {
		return &hviolation{Key: key, What: fmt.Sprintf(f, a...)}, st, nil
	}
	opName := func(ci, oi int) string {
		o := p.Clients[ci][oi]
		rep := obs[ci][oi].Reply.String()
		if o.Kind == "pipe" {
			rep = fmt.Sprint(obs[ci][oi].Replies)
		}
		return fmt.Sprintf("client %d op %d %s [%.3f,%.3f]ms -> %.300s", ci, oi, t38.CmdString(o.wire()), float64(obs[ci][oi].Send)/1e6, float64(obs[ci][oi].Recv)/1e6, rep)
	}
	// units that can be logged
	units := map[string]*unit{}
	opUnits := map[[2]int][]*unit{}
	for ci, ops := range p.Clients {
		for oi, o := range ops {
			add := func(inner int, args []string) {
				if !model.IsWrite(args[0]) {
					return
				}
				u := &unit{client: ci, op: oi, inner: inner, args: args, pos: -1}
				units[argsKey(args)] = u
				opUnits[[2]int{ci, oi}] = append(opUnits[[2]int{ci, oi}], u)
			}
			switch o.Kind {
			case "cmd":
				if !o.Timeout { // a TIMEOUT-wrapped write must never reach the log
					add(-1, o.Args)
				}
			case "eval", "evalna":
				for j, c := range o.Inner {
					add(j, c)
				}
			case "incr":
				u := &unit{client: ci, op: oi, inner: 0, pos: -1}
				units[incrKey(o.Args[0], o.Args[1], o.Args[2])] = u
				opUnits[[2]int{ci, oi}] = append(opUnits[[2]int{ci, oi}], u)
			}
			if o.Timeout {
				st.timeoutOps++
			}
		}
	}
	// 1. every log entry is one issued write, logged once
	owner := make([]*unit, n)
	for pos, e := range log {
		u := units[argsKey(e)]
		if u == nil && len(e) == 9 && e[1] == counterKey {
			// the write of an incr script: its value is computed by the script
			if u = units[incrKey(e[0], e[7], e[8])]; u != nil && u.pos == -1 {
				u.args = e
			}
		}
		if u == nil && p.Expiry && len(e) == 3 && e[0] == "del" {
			// the expiry sweeper's record: a write without a client and
			// without a real-time interval
			owner[pos] = &unit{client: -1, op: -1, inner: -1, args: e, pos: pos}
			st.sweeperDels++
			continue
		}
		if u == nil {
			return viol("log-entry-unknown", "log position %d holds %s, which no client issued as a write (client tag %d)", pos, t38.CmdString(e), clientOfName(e[0]))
		}
		if u.pos != -1 {
			return viol("log-entry-duplicate", "%s is in the log twice (positions %d and %d)", t38.CmdString(e), u.pos, pos)
		}
		u.pos = pos
		owner[pos] = u
	}
	st.logged = n
	// 2. model states along the log
	S := make([]*model.DB, n+1)
	R := make([]model.Reply, n)
	S[0] = model.NewDB()
	for pos, e := range log {
		db := S[pos].Clone()
		r := model.Exec(db, e)
		if r.Unsupported {
			return nil, st, fmt.Errorf("model does not support logged command %s", t38.CmdString(e))
		}
		if !r.Mutated {
			st.loggedNoop++
			if owner[pos].client < 0 {
				return viol("sweeper-del-of-missing-object", "log position %d holds the sweeper's %s, but replaying the log there is no such object at that point", pos, t38.CmdString(e))
			}
		}
		S[pos+1], R[pos] = db, r
	}
	// 3. log order respects real time (and thereby per-connection order)
	var maxSend int64 = -1
	var maxSendAt int
	for pos := 0; pos < n; pos++ {
		u := owner[pos]
		if u.client < 0 {
			continue
		}
		ob := obs[u.client][u.op]
		if ob.Recv < maxSend {
			w := owner[maxSendAt]
			return viol("log-order:real-time", "log position %d (%s) was acknowledged before the command at the earlier position %d was even sent (%s)", pos, opName(u.client, u.op), maxSendAt, opName(w.client, w.op))
		}
		if ob.Send > maxSend {
			maxSend, maxSendAt = ob.Send, pos
		}
	}
	// 4. scripts: inner order, atomic groups
	inside := make([]bool, n+1) // prefix lengths strictly inside an atomic script
	for ci, ops := range p.Clients {
		for oi, o := range ops {
			if o.Kind != "eval" && o.Kind != "evalna" {
				continue
			}
			st.scripts++
			var ps []int
			for _, u := range opUnits[[2]int{ci, oi}] {
				if u.pos >= 0 {
					ps = append(ps, u.pos)
				}
			}
			if !sort.IntsAreSorted(ps) {
				return viol("log-order:script-internal", "%s: its writes are logged at %v, not in script order", opName(ci, oi), ps)
			}
			if o.Kind == "eval" && len(ps) > 1 {
				st.atomicGroups++
				for i := 1; i < len(ps); i++ {
					if ps[i] != ps[i-1]+1 {
						f := owner[ps[i-1]+1]
						fn := "the expiry sweeper's " + t38.CmdString(f.args)
						if f.client >= 0 {
							fn = opName(f.client, f.op)
						}
						return viol("script-not-atomic", "%s: its writes are logged at %v with a foreign write in between (%s)", opName(ci, oi), ps, fn)
					}
					inside[ps[i]] = true
				}
			}
			if o.Kind == "evalna" && len(ps) > 1 && ps[len(ps)-1]-ps[0] >= len(ps) {
				st.evalnaSplit++
			}
		}
	}
	// real-time window of admissible prefix lengths for an operation
	window := func(ci, oi int) (lo, hi int) {
		ob := obs[ci][oi]
		lo, hi = 0, n
		for pos := 0; pos < n; pos++ {
			u := owner[pos]
			if u.client < 0 || (u.client == ci && u.op == oi) {
				continue
			}
			w := obs[u.client][u.op]
			if w.Recv < ob.Send && pos+1 > lo {
				lo = pos + 1
			}
			if w.Send > ob.Recv && pos < hi {
				hi = pos
			}
		}
		return
	}
	// Operations that are not in the log ("reads") are collected first and
	// placed afterwards, in the order of their send times: each one gets the
	// smallest admissible prefix length that lies in its window, is not
	// smaller than the one of any read that was ANSWERED before this one was
	// SENT (two reads in real-time order must not see the writes in opposite
	// orders), and not smaller than the one of its explicit predecessor (the
	// previous read of the same pipelined segment). Smallest-first is
	// complete: all constraints are lower bounds.
	type rtask struct {
		ci, oi     int
		send, recv int64
		lo, hi     int
		pred       int // index of the explicit predecessor task, -1 = none
		f          func(db *model.DB) string
		key, what  string
		k          int
	}
	var tasks []rtask
	addTask := func(ci, oi, lo, hi, pred int, f func(db *model.DB) string, key, what string) int {
		tasks = append(tasks, rtask{ci: ci, oi: oi, send: obs[ci][oi].Send, recv: obs[ci][oi].Recv, lo: lo, hi: hi, pred: pred, f: f, key: key, what: what, k: -1})
		return len(tasks) - 1
	}
	elsewhere := func(lo, hi int, f func(db *model.DB) string) string {
		for k := 0; k <= n; k++ {
			if k >= lo && k <= hi {
				continue
			}
			if f(S[k].Clone()) == "" {
				if inside[k] {
					return fmt.Sprintf("the reply is the model's only at prefix %d, which lies inside an atomic script", k)
				}
				return fmt.Sprintf("the reply is the model's at prefix %d, outside the window", k)
			}
		}
		return "no prefix of the log explains the reply"
	}
	// 5. every operation
	for ci, ops := range p.Clients {
		for oi, o := range ops {
			ob := obs[ci][oi]
			us := opUnits[[2]int{ci, oi}]
			switch o.Kind {
			case "pause":
			case "cmd":
				name := strings.ToLower(o.Args[0])
				if len(us) == 1 && us[0].pos >= 0 {
					pos := us[0].pos
					if d := R[pos].CheckRESP(ob.Reply); d != "" {
						return viol("reply-vs-log-order:"+name, "%s is logged at position %d; replaying the log, the model answers differently there: %s", opName(ci, oi), pos, d)
					}
					continue
				}
				st.reads++
				lo, hi := window(ci, oi)
				f := func(db *model.DB) string {
					if o.Timeout && model.IsWrite(o.Args[0]) {
						if !ob.Reply.IsErr() {
							return fmt.Sprintf("got %s, but TIMEOUT is not supported for a write", ob.Reply)
						}
						return ""
					}
					r := model.Exec(db, o.Args)
					if r.Unsupported {
						return unsup
					}
					if d := r.CheckRESP(ob.Reply); d != "" {
						return d
					}
					if r.Mutated {
						return "the model changes state here, but the command is not in the log"
					}
					return ""
				}
				addTask(ci, oi, lo, hi, -1, f, "no-linearization-point:"+name, "is not in the log")
			case "pipe":
				// the reads are executed one after the other: non-decreasing
				// prefix lengths, each admissible (the smallest feasible one
				// is chosen, which leaves the most room for the next read)
				st.pipes++
				st.reads += len(o.Reads)
				lo, hi := window(ci, oi)
				prev := -1
				for ri, rd := range o.Reads {
					got := ob.Replies[ri]
					f := func(db *model.DB) string {
						r := model.Exec(db, rd)
						if r.Unsupported {
							return unsup
						}
						return r.CheckRESP(got)
					}
					prev = addTask(ci, oi, lo, hi, prev, f, "no-linearization-point:pipelined-read", fmt.Sprintf("read %d (%s -> %.200s) of its pipelined segment", ri, t38.CmdString(rd), got.String()))
				}
			case "incr":
				st.incrs++
				u := us[0]
				if u.pos < 0 {
					return viol("incr-not-logged", "%s: the SET of the increment script is not in the log", opName(ci, oi))
				}
				before := 0
				if r := model.Exec(S[u.pos].Clone(), []string{"FGET", counterKey, "c", "n"}); r.RESP.Kind == '$' && !r.RESP.Null {
					fmt.Sscan(r.RESP.Str, &before)
				}
				want := fmt.Sprint(before + 1)
				if log[u.pos][5] != want || ob.Reply.Kind != ':' || fmt.Sprint(ob.Reply.Int) != want {
					return viol("lost-update", "%s: the read-modify-write script is logged at position %d, where the counter is %d: it must store and return %s, but it stored %s and returned %s", opName(ci, oi), u.pos, before, want, log[u.pos][5], ob.Reply)
				}
			case "eval", "evalro":
				var ps []int
				for _, u := range us {
					if u.pos >= 0 {
						ps = append(ps, u.pos)
					}
				}
				run := func(db *model.DB) (last model.Reply, mutated bool) {
					un := false
					for _, c := range o.Inner {
						last = execInner(o.Kind, db, c)
						mutated = mutated || last.Mutated
						un = un || last.Unsupported
					}
					last.Unsupported = un
					return
				}
				if len(ps) > 0 {
					db := S[ps[0]].Clone()
					last, _ := run(db)
					if last.Unsupported {
						st.unsupported++
						continue
					}
					if a, b := canonDB(db), canonDB(S[ps[len(ps)-1]+1]); a != b {
						return viol("script-effects-vs-log", "%s: running the whole script on the model at log position %d gives a dataset different from the one after its logged writes %v", opName(ci, oi), ps[0], ps)
					}
					if d := scriptReplyCheck(last, ob.Reply); d != "" {
						return viol("reply-vs-log-order:script", "%s has its writes at log positions %v; the model's result of the last call there differs: %s", opName(ci, oi), ps, d)
					}
					continue
				}
				st.reads++
				lo, hi := window(ci, oi)
				f := func(db *model.DB) string {
					last, mut := run(db)
					if last.Unsupported {
						return unsup
					}
					if d := scriptReplyCheck(last, ob.Reply); d != "" {
						return d
					}
					if mut {
						return "the model changes state here, but no write of the script is in the log"
					}
					return ""
				}
				addTask(ci, oi, lo, hi, -1, f, "no-linearization-point:script", "logged nothing")
			case "evalna":
				// only the last call is observable
				lastCmd := o.Inner[len(o.Inner)-1]
				var lastUnit *unit
				prev := -1
				for _, u := range us {
					if u.inner == len(o.Inner)-1 {
						lastUnit = u
					} else if u.pos > prev {
						prev = u.pos
					}
				}
				if lastUnit != nil && lastUnit.pos >= 0 {
					if d := scriptReplyCheck(R[lastUnit.pos], ob.Reply); d != "" {
						return viol("reply-vs-log-order:script", "%s: its last call is logged at position %d; the model answers differently there: %s", opName(ci, oi), lastUnit.pos, d)
					}
					continue
				}
				st.reads++
				lo, hi := window(ci, oi)
				if prev+1 > lo {
					lo = prev + 1
				}
				f := func(db *model.DB) string {
					r := model.Exec(db, lastCmd)
					if r.Unsupported {
						return unsup
					}
					if d := scriptReplyCheck(r, ob.Reply); d != "" {
						return d
					}
					if r.Mutated {
						return "the model changes state here, but the call is not in the log"
					}
					return ""
				}
				addTask(ci, oi, lo, hi, -1, f, "no-linearization-point:script", "(its last call is not in the log)")
			}
		}
	}
	// 5b. place the collected reads
	order := make([]int, len(tasks))
	for i := range order {
		order[i] = i
	}
	sort.SliceStable(order, func(a, b int) bool { return tasks[order[a]].send < tasks[order[b]].send })
	for _, ti := range order {
		tk := &tasks[ti]
		lower, lowerBy := tk.lo, -1
		if tk.pred >= 0 && tasks[tk.pred].k > lower {
			lower, lowerBy = tasks[tk.pred].k, tk.pred
		}
		for _, tj := range order {
			o := &tasks[tj]
			if o.k >= 0 && o.recv < tk.send && o.k > lower {
				lower, lowerBy = o.k, tj
			}
		}
		cands := 0
		why := ""
		for k := lower; k <= tk.hi; k++ {
			if inside[k] {
				continue
			}
			cands++
			d := tk.f(S[k].Clone())
			if d == "" || d == unsup {
				if d == unsup {
					st.unsupported++
				}
				if histDebug != nil {
					histDebug(fmt.Sprintf("read %s: window [%d,%d] lower bound %d accepted at prefix %d (unsupported=%v)", opName(tk.ci, tk.oi), tk.lo, tk.hi, lower, k, d == unsup))
				}
				tk.k = k
				break
			}
			why = fmt.Sprintf("at prefix %d: %s", k, d)
		}
		if tk.k >= 0 {
			if cands > 1 || tk.hi > lower {
				st.wideWindows++
			}
			for pos := tk.lo; pos < tk.hi && pos < n; pos++ {
				if owner[pos].client < 0 {
					st.readsAroundDel++
					break
				}
			}
			continue
		}
		if cands == 0 {
			why = fmt.Sprintf("[%d,%d] holds no admissible prefix", lower, tk.hi)
		}
		// would it fit without the bound set by the earlier read?
		if lowerBy >= 0 {
			for k := tk.lo; k < lower && k <= tk.hi; k++ {
				if !inside[k] && tk.f(S[k].Clone()) == "" {
					e := &tasks[lowerBy]
					return viol("reads-disagree-on-write-order", "%s %s and is explained by the log prefix %d only, but %s was answered before this one was sent and needs a prefix >= %d: the two replies see the %d logged writes in opposite orders (%s)", opName(tk.ci, tk.oi), tk.what, k, opName(e.ci, e.oi), lower, n, why)
				}
			}
		}
		return viol(tk.key, "%s %s; no prefix length in its real-time window [%d,%d] (lower bound %d after the reads answered before it) of the %d logged writes, outside atomic scripts, gives this reply (%s; %s)", opName(tk.ci, tk.oi), tk.what, tk.lo, tk.hi, lower, n, why, elsewhere(tk.lo, tk.hi, tk.f))
	}
	// 6. the visible dataset at the end is the one the log produces
	if final != nil {
		if d := S[n].DiffDump(final); d != "" {
			return viol("final-state-vs-log", "after all clients finished the visible dataset differs from the replay of the %d logged commands (A=model, B=server): %s", n, d)
		}
	}
	// non-triviality
	type span struct {
		ci          int
		send, recv  int64
		keys        []string
		multi, read bool
	}
	var spans []span
	for ci, ops := range p.Clients {
		for oi, o := range ops {
			ob := obs[ci][oi]
			us := opUnits[[2]int{ci, oi}]
			nlogged := 0
			for _, u := range us {
				if u.pos >= 0 {
					nlogged++
				}
			}
			sp := span{ci: ci, send: ob.Send, recv: ob.Recv}
			if o.Kind == "pause" {
				continue
			}
			if o.Kind == "cmd" {
				sp.keys = keysOf(o.Args)
				sp.multi = nlogged > 0 && multiObject(o.Args)
			} else if o.Kind == "incr" {
				sp.keys = []string{counterKey}
			} else if o.Kind == "pipe" {
				for _, c := range o.Reads {
					sp.keys = append(sp.keys, keysOf(c)...)
				}
			} else {
				for _, c := range o.Inner {
					sp.keys = append(sp.keys, keysOf(c)...)
				}
				sp.multi = nlogged > 1
			}
			sp.read = nlogged == 0
			spans = append(spans, sp)
		}
	}
	for i := range spans {
		for j := range spans {
			a, b := spans[i], spans[j]
			if a.ci == b.ci || a.recv < b.send || b.recv < a.send || !shareKey(a.keys, b.keys) {
				continue
			}
			if !a.read && !b.read {
				st.overlapWritersSameKey = true
			}
			if a.multi && b.read {
				st.multiObjConcurrentWithRead = true
			}
		}
	}
	var ab strings.Builder
	for _, u := range owner {
		what := strings.Join(keysOf(u.args), ",")
		if p.Expiry && len(u.args) > 2 {
			what = u.args[2]
		}
		fmt.Fprintf(&ab, "%d:%s:%s;", u.client, strings.ToLower(u.args[0]), what)
	}
	st.abstract = ab.String()
	return nil, st, nil
}

// canonDB is a canonical text of a model state. model.DB.Dump() leaves the
// object text of JSET documents (kept as decoded JSON in Sem) empty, so it
// cannot tell two such states apart.
func canonDB(db *model.DB) string {
	var b strings.Builder
	keys := make([]string, 0, len(db.Cols))
	for k := range db.Cols {
		keys = append(keys, k)
	}
	sort.Strings(keys)
	for _, k := range keys {
		col := db.Cols[k]
		ids := make([]string, 0, len(col))
		for id := range col {
			ids = append(ids, id)
		}
		sort.Strings(ids)
		for _, id := range ids {
			o := col[id]
			sem, _ := json.Marshal(o.Sem) // maps are written with sorted keys
			fmt.Fprintf(&b, "%q/%q sp=%v ttl=%v text=%q sem=%s fields=", k, id, o.Spatial, o.HasTTL, o.Text, sem)
			for _, n := range model.SortedFieldNames(o.Fields) {
				fmt.Fprintf(&b, "%q:%q,", n, o.Fields[n].Data)
			}
			b.WriteByte('\n')
		}
	}
	return b.String()
}

// ---- porcupine cross-check ---------------------------------------------------

type pcState struct {
	db    *model.DB
	canon string
}

type pcIn struct {
	op hop
}

func porcupineCheck(p hprogram, obs [][]hobs, log [][]string, timeout time.Duration) porcupine.CheckResult {
	m, ops := porcupineModel(p, obs)
	if p.Expiry {
		// the sweeper's records are writes of nobody: steps that may take
		// place at any time
		for _, e := range log {
			if len(e) == 3 && e[0] == "del" {
				ops = append(ops, porcupine.Operation{ClientId: len(p.Clients), Input: pcIn{hop{Kind: "cmd", Args: e}}, Call: -1, Return: 1 << 62})
			}
		}
	}
	return porcupine.CheckOperationsTimeout(m, ops, timeout)
}

func porcupineModel(p hprogram, obs [][]hobs) (porcupine.Model, []porcupine.Operation) {
	// the successor state is always taken from the executed copy (not from
	// the model's Mutated flag) and compared by canonical dump
	next := func(old pcState, db *model.DB) pcState {
		c := canonDB(db)
		if c == old.canon {
			return old
		}
		return pcState{db, c}
	}
	m := porcupine.Model{
		Init: func() interface{} { db := model.NewDB(); return pcState{db, canonDB(db)} },
		Step: func(state, input, output interface{}) (bool, interface{}) {
			s := state.(pcState)
			o := input.(pcIn).op
			db := s.db.Clone()
			if output == nil {
				// a call of an EVALNA script whose result is not returned
				r := model.Exec(db, o.Args)
				if r.Unsupported {
					return true, s
				}
				return true, next(s, db)
			}
			got := output.(t38.Value)
			if o.Kind == "cmd" && o.Timeout && model.IsWrite(o.Args[0]) {
				return got.IsErr(), s
			}
			if o.Kind == "incr" {
				before := 0
				if r := model.Exec(db, []string{"FGET", counterKey, "c", "n"}); r.RESP.Kind == '$' && !r.RESP.Null {
					fmt.Sscan(r.RESP.Str, &before)
				}
				if got.Kind != ':' || got.Int != int64(before+1) {
					return false, s
				}
				model.Exec(db, []string{"SET", counterKey, "c", "FIELD", "n", fmt.Sprint(before + 1), "POINT", o.Args[1], o.Args[2]})
				return true, next(s, db)
			}
			if o.Kind == "cmd" {
				r := model.Exec(db, o.Args)
				if r.Unsupported {
					return true, s
				}
				if r.CheckRESP(got) != "" {
					return false, s
				}
				return true, next(s, db)
			}
			var last model.Reply
			un := false
			for _, c := range o.Inner {
				last = execInner(o.Kind, db, c)
				un = un || last.Unsupported
			}
			if !un && scriptReplyCheck(last, got) != "" {
				return false, s
			}
			// (a shape the model does not cover leaves the copy untouched;
			// the other calls of the script still apply)
			return true, next(s, db)
		},
		Equal: func(a, b interface{}) bool { return a.(pcState).canon == b.(pcState).canon },
	}
	var ops []porcupine.Operation
	for ci, cl := range p.Clients {
		for oi, o := range cl {
			if o.Kind == "pause" {
				continue
			}
			if o.Kind == "pipe" {
				// every read is its own step inside the segment's interval
				// (their order is left free: a relaxation)
				for ri, rd := range o.Reads {
					ops = append(ops, porcupine.Operation{ClientId: ci, Input: pcIn{hop{Kind: "cmd", Args: rd}}, Call: obs[ci][oi].Send, Output: obs[ci][oi].Replies[ri], Return: obs[ci][oi].Recv})
				}
				continue
			}
			if o.Kind == "evalna" {
				// every call is its own step inside the script's interval;
				// the order among them is left free (a relaxation: porcupine
				// then accepts a superset of the legal histories)
				for j, c := range o.Inner {
					op := porcupine.Operation{ClientId: ci, Input: pcIn{hop{Kind: "cmd", Args: c}}, Call: obs[ci][oi].Send, Return: obs[ci][oi].Recv}
					if j == len(o.Inner)-1 {
						op.Input = pcIn{hop{Kind: "evalna", Inner: [][]string{c}}}
						op.Output = obs[ci][oi].Reply
					}
					ops = append(ops, op)
				}
				continue
			}
			ops = append(ops, porcupine.Operation{ClientId: ci, Input: pcIn{o}, Call: obs[ci][oi].Send, Output: obs[ci][oi].Reply, Return: obs[ci][oi].Recv})
		}
	}
	return m, ops
}

// ---- the test --------------------------------------------------------------

// hangReported: a hung server was reported; rapid's shrinking would re-run
// programs that hang for a minute each, so every later execution passes at
// once and the recorded (unshrunk) case stays the finding.
var hangReported bool

func historyCase(t ev.Failer, c *ev.Collector, p hprogram, porcu bool) {
	if hangReported {
		return
	}
	obs, log, final, err := runHistory(p)
	if err != nil {
		// transport problem or a stall beyond the reply budget: no verdict;
		// the connections may be out of step, so the server is replaced
		c.Inconclusive("history run: %v", err)
		c.Label("run-error")
		short := err.Error()
		if i := strings.LastIndex(short, ": "); i >= 0 {
			short = short[i+2:]
		}
		c.Label("run-error:" + short)
		// a stall of the machine, or a server that no longer answers? Ask a
		// fresh connection for something that needs the shared and the
		// exclusive lock, with a long budget.
		hung := ""
		if h := getHistServer(p.Spin); h != nil {
			time.Sleep(2 * time.Second)
			if pc, derr := h.srv.Dial(); derr == nil {
				for _, probe := range [][]string{{"SERVER"}, {"CONFIG", "GET", "keepalive"}} {
					if serr := pc.Send(probe...); serr != nil {
						break
					}
					if _, rerr := pc.RecvTimeout(45 * time.Second); rerr == t38.ErrHang {
						hung = probe[0]
						break
					}
				}
				pc.Close()
			}
		}
		dropHistServer(p.Spin)
		if hung != "" {
			hangReported = true
			c.Fail(t, "server-hang", fmt.Sprintf("after a concurrent history ended with %q the server did not answer %s on a fresh connection within 45 s although no client was active any more", err.Error(), hung), historyReplay{Program: p})
		}
		return
	}
	v, st, err := checkHistory(p, obs, log, final)
	if err != nil {
		c.Inconclusive("%v", err)
		return
	}
	nops := 0
	for _, cl := range p.Clients {
		nops += len(cl)
	}
	c.LabelN("ops", nops)
	c.LabelN("logged-writes", st.logged)
	c.LabelN("reads-checked", st.reads)
	c.LabelN("reads-with-several-admissible-prefixes", st.wideWindows)
	c.LabelN("atomic-script-groups", st.atomicGroups)
	c.LabelN("undecided-model-unsupported-shape", st.unsupported)
	c.LabelN("logged-but-model-noop", st.loggedNoop)
	c.LabelN("evalna-interleaved-with-foreign-writes", st.evalnaSplit)
	c.LabelN("timeout-wrapped-ops", st.timeoutOps)
	c.LabelN("pipelined-read-segments", st.pipes)
	c.LabelN("increment-scripts", st.incrs)
	c.Label(fmt.Sprintf("clients:%d", len(p.Clients)))
	if p.Spin {
		c.Label("lock:spin")
	} else {
		c.Label("lock:mutex")
	}
	if v != nil {
		what := v.What
		switch porcupineCheck(p, obs, log, 5*time.Second) {
		case porcupine.Illegal:
			what += " [porcupine: the replies have no linearization at all]"
		case porcupine.Ok:
			what += " [porcupine: the replies are linearizable in some other order than the log's]"
		}
		c.Fail(t, v.Key, what, historyReplay{Program: p, Obs: obs, Log: log, Final: final})
		return
	}
	if st.overlapWritersSameKey {
		c.Label("overlapping-writers-same-key")
	}
	if st.multiObjConcurrentWithRead {
		c.Label("multi-object-write-concurrent-with-read")
	}
	if p.Expiry {
		c.LabelN("sweeper-records", st.sweeperDels)
		c.LabelN("reads-whose-window-spans-a-sweeper-record", st.readsAroundDel)
		if st.sweeperDels > 0 && st.readsAroundDel > 0 {
			c.NonTrivial(st.abstract)
			if c.WantSample() {
				c.Sample(map[string]any{"clients": len(p.Clients), "ops": nops, "logged": st.logged, "sweeper_records": st.sweeperDels, "reads_around_a_sweeper_record": st.readsAroundDel})
			}
		}
	} else if st.overlapWritersSameKey && st.multiObjConcurrentWithRead {
		c.NonTrivial(st.abstract)
		if c.WantSample() {
			c.Sample(map[string]any{"clients": len(p.Clients), "ops": nops, "logged": st.logged, "reads": st.reads, "wide_windows": st.wideWindows, "log_head": gen.Describe(log[:min(len(log), 6)])})
		}
	}
	if porcu {
		switch porcupineCheck(p, obs, log, 3*time.Second) {
		case porcupine.Ok:
			c.Label("porcupine:ok")
		case porcupine.Unknown:
			c.Label("porcupine:unknown-or-skipped")
		case porcupine.Illegal:
			// the log order is a witness of linearizability: the two
			// searches disagree, which is a harness defect
			c.Inconclusive("porcupine rejects a history that the log-order check accepts")
			if b, err := json.Marshal(historyReplay{Program: p, Obs: obs, Log: log, Final: final}); err == nil {
				os.WriteFile(filepath.Join(os.TempDir(), "c07-porcupine-disagreement.json"), b, 0o644)
			}
			t.Fatalf("harness: porcupine rejects a history that the log-order check accepts")
		}
	}
}

func TestC07_History(t *testing.T) {
	c := ev.New("C07", "history", "exploration")
	t.Cleanup(c.Flush)
	c.Rule("2-8 client goroutines, each on its own connection, issue generated keyspace commands over the small name class (gen.KeyspaceCmd: SET/FSET/DEL/PDEL/DROP/RENAME(NX)/FLUSHDB/EXPIRE/PERSIST/JSET/JDEL and all reads) and EVAL / EVALNA / EVALRO scripts of 1-3 pcall'ed commands, against one in-process server (mutex or spinlock variant, drawn per case), with send/receive timestamps on the monotonic clock. Each write is spelled in a letter case that encodes its client and repetition, so the commands read back from appendonly.aof map one-to-one to operations. Oracle: replaying the log through the reference model, every logged write's reply is the model's at its position; log order respects real time; every non-logged operation has a prefix length inside [writes acknowledged before its send, writes sent after its reply) and outside atomic scripts at which the model gives its reply without changing state; an EVAL's writes are contiguous and the script run on the model reproduces them; EVALNA calls keep script order; final dataset = replay of the log. 5% of the histories are re-decided by porcupine without the log. Non-trivial: two writes of different clients on the same key overlap in time AND a multi-object write (PDEL/DROP/RENAME/FLUSHDB/multi-write script) overlaps a non-logged operation on the same collection; distinct by the log's sequence of (client, command, key).")
	c.Assume("object deadlines are >= 100000 s, so expiry never interferes inside a history")
	maxOps := ev.Pick(40, 60)
	ev.Rapid("history", ev.Pick(1000, 6000))
	i := 0
	rapid.Check(t, func(rt *rapid.T) {
		p := drawHProgram(rt, 8, maxOps)
		c.Case()
		i++
		historyCase(rt, c, p, i%20 == 0 || os.Getenv("C07_PORCUPINE_ALL") != "")
	})
}

// ---- expiring objects --------------------------------------------------------

const expKey = "ke"

var expIDs = []string{"e0", "e1", "e2", "e3", "e4", "e5", "e6", "e7"}

// drawExpiryProgram draws a history in which the objects of one collection
// live for 20-90 ms, so that the background sweeper deletes them while the
// clients read them with every kind of read and conditional write. Client
// numbers start at 1: the all-lower-case spelling "del" is the sweeper's.
func drawExpiryProgram(rt *rapid.T, maxClients, maxOps int) hprogram {
	p := hprogram{Expiry: true, Spin: rapid.Bool().Draw(rt, "spinlock")}
	n := rapid.IntRange(2, maxClients).Draw(rt, "clients")
	pick := func(label string, xs []string) string { return rapid.SampledFrom(xs).Draw(rt, label) }
	coord := func() string { return strconv.Itoa(rapid.IntRange(-80, 80).Draw(rt, "coord")) }
	ttl := func() string {
		return strconv.FormatFloat(float64(rapid.IntRange(20, 90).Draw(rt, "ttl_ms"))/1000, 'f', 3, 64)
	}
	read := func(id string) []string {
		switch rapid.IntRange(0, 7).Draw(rt, "readkind") {
		case 0, 1:
			return []string{"GET", expKey, id}
		case 2:
			return []string{"EXISTS", expKey, id}
		case 3:
			return []string{"TTL", expKey, id}
		case 4:
			return []string{"FGET", expKey, id, "f"}
		case 5:
			return []string{"SCAN", expKey, "IDS"}
		case 6:
			return []string{"GET", expKey, id, "WITHFIELDS"}
		default:
			return []string{"SCAN", expKey, "COUNT"}
		}
	}
	for ci := 0; ci < n; ci++ {
		tg := &tagger{client: ci + 1, used: map[string]int{}}
		nops := rapid.IntRange(maxOps/2, maxOps).Draw(rt, "nops")
		var ops []hop
		add := func(cmd []string) {
			if c, ok := tg.tag(cmd); ok {
				ops = append(ops, hop{Kind: "cmd", Args: c})
			}
		}
		for i := 0; i < nops; i++ {
			id := pick("id", expIDs)
			switch k := rapid.IntRange(0, 39).Draw(rt, "opkind"); {
			case k < 5:
				add([]string{"SET", expKey, id, "FIELD", "f", strconv.Itoa(rapid.IntRange(1, 99).Draw(rt, "f")), "EX", ttl(), "POINT", coord(), coord()})
			case k < 6:
				if rapid.IntRange(0, 3).Draw(rt, "permanent?") == 0 {
					add([]string{"SET", expKey, id, "POINT", coord(), coord()})
				} else {
					add([]string{"PERSIST", expKey, id})
				}
			case k < 9:
				// refused while the object exists, expired-but-unswept included
				add([]string{"SET", expKey, id, "EX", ttl(), "NX", "POINT", coord(), coord()})
			case k < 10:
				add([]string{"EXPIRE", expKey, id, ttl()})
			case k < 11:
				add([]string{"FSET", expKey, id, "f", strconv.Itoa(rapid.IntRange(100, 999).Draw(rt, "f2"))})
			case k < 12:
				add([]string{"DEL", expKey, id})
			case k < 19:
				ops = append(ops, hop{Kind: "cmd", Args: read(id)})
			case k < 26:
				// reads of ONE id in one segment: executed back to back
				o := hop{Kind: "pipe"}
				nr := rapid.IntRange(2, 3).Draw(rt, "nreads")
				for j := 0; j < nr; j++ {
					o.Reads = append(o.Reads, read(id))
				}
				ops = append(ops, o)
			default:
				ops = append(ops, hop{Kind: "pause", Args: []string{strconv.Itoa(rapid.IntRange(2, 20).Draw(rt, "pause_ms"))}})
			}
		}
		p.Clients = append(p.Clients, ops)
	}
	return p
}

// TestC07_Expiry: the histories of TestC07_History with short deadlines. The
// sweeper's DEL is just another write of the log; whatever a client is told
// about an object around its deadline, by whichever command, must fit one
// position relative to that record.
func TestC07_Expiry(t *testing.T) {
	c := ev.New("C07", "expiry", "exploration")
	t.Cleanup(c.Flush)
	c.Rule("2-4 clients work on eight ids of one collection whose objects are SET with deadlines of 20-90 ms (also EXPIRE, PERSIST, FSET, DEL, SET without deadline, SET NX) and read them with GET, GET WITHFIELDS, EXISTS, TTL, FGET, SCAN IDS and SCAN COUNT, singly and as 2-3 reads of one id written in one segment, with pauses of 2-20 ms (a third of the steps), while the background sweeper (every 100 ms) deletes what has expired. Oracle: the log-order check of the history sub-check, in which the sweeper's `del key id` records are writes without a client and without a real-time interval; in particular two reads in real-time order (or in one segment) must not place themselves on opposite sides of a logged write, and a sweeper record must delete an object that exists at its log position. Non-trivial: the log holds a sweeper record AND a read's real-time window spans one; distinct by the log's sequence of (client, command, id).")
	c.Assume("a history ends before its objects' deadlines are all past: no final-state comparison in this sub-check")
	ev.Rapid("expiry", ev.Pick(12, 100))
	rapid.Check(t, func(rt *rapid.T) {
		p := drawExpiryProgram(rt, 4, ev.Pick(220, 300))
		c.Case()
		historyCase(rt, c, p, os.Getenv("C07_PORCUPINE_ALL") != "")
	})
}

func replayHistory(t *testing.T, c *ev.Collector, r historyReplay) {
	c.Case()
	if len(r.Obs) > 0 {
		v, _, err := checkHistory(r.Program, r.Obs, r.Log, r.Final)
		switch {
		case err != nil:
			t.Logf("recorded history: %v", err)
		case v != nil:
			t.Logf("recorded history: %s: %s", v.Key, v.What)
			c.Violation(v.Key, v.What, r)
			t.Errorf("VIOLATION-CANDIDATE key=%s (recorded history)", v.Key)
			return
		default:
			t.Logf("recorded history passes the check")
		}
	}
	for i := 0; i < 50; i++ {
		c.Case()
		historyCase(t, c, r.Program, false)
	}
}

package c07

import (
	"encoding/json"
	"fmt"
	"os"
	"sort"
	"testing"
	"time"

	"github.com/anishathalye/porcupine"
	"github.com/tidwall/tile38/verif/harness/t38"
)

// TestDebugPorcupine explains a disagreement dump (development aid): it
// prints the operations that are missing from porcupine's longest partial
// linearization.
func TestDebugPorcupine(t *testing.T) {
	path := os.Getenv("C07_DISAGREEMENT")
	if path == "" {
		t.Skip("development aid")
	}
	b, err := os.ReadFile(path)
	if err != nil {
		t.Fatal(err)
	}
	var r historyReplay
	if err := json.Unmarshal(b, &r); err != nil {
		t.Fatal(err)
	}
	histDebug = func(m string) {
		if len(m) > 400 {
			m = m[:400]
		}
		t.Log(m)
	}
	defer func() { histDebug = nil }()
	for i, e := range r.Log {
		t.Logf("log %d: %.200s", i, t38.CmdString(e))
	}
	v, _, err := checkHistory(r.Program, r.Obs, r.Log, r.Final)
	t.Logf("log-order check: %v %v", v, err)
	m, ops := porcupineModel(r.Program, r.Obs)
	res, info := porcupine.CheckOperationsVerbose(m, ops, 20*time.Second)
	t.Logf("porcupine: %v, %d ops", res, len(ops))
	for _, part := range info.PartialLinearizations() {
		best := []int{}
		for _, lin := range part {
			if len(lin) > len(best) {
				best = lin
			}
		}
		in := map[int]bool{}
		for _, i := range best {
			in[i] = true
		}
		t.Logf("longest partial linearization: %d of %d", len(best), len(ops))
		var missing []int
		for i := range ops {
			if !in[i] {
				missing = append(missing, i)
			}
		}
		sort.Slice(missing, func(a, b int) bool { return ops[missing[a]].Call < ops[missing[b]].Call })
		for n, i := range missing {
			if n > 6 {
				break
			}
			o := ops[i]
			out := "(unobserved)"
			if o.Output != nil {
				out = o.Output.(t38.Value).String()
			}
			t.Logf("  not linearized: client %d [%.3f,%.3f]ms %s -> %.200s", o.ClientId, float64(o.Call)/1e6, float64(o.Return)/1e6, t38.CmdString(o.Input.(pcIn).op.wire()), out)
		}
		// replay the linearization through the model and show the state
		st := m.Init()
		for _, i := range best {
			ok, ns := m.Step(st, ops[i].Input, ops[i].Output)
			{
				out := "(unobserved)"
				if ops[i].Output != nil {
					out = ops[i].Output.(t38.Value).String()
				}
				t.Logf("  lin: client %d [%.3f,%.3f] %.110s -> %.40s | changed=%v", ops[i].ClientId, float64(ops[i].Call)/1e6, float64(ops[i].Return)/1e6, t38.CmdString(ops[i].Input.(pcIn).op.wire()), out, ns.(pcState).canon != st.(pcState).canon)
			}
			if !ok {
				t.Logf("  replay: step rejected at %s", t38.CmdString(ops[i].Input.(pcIn).op.wire()))
			}
			st = ns
		}
		t.Logf("  state after the partial linearization: %.1500s", st.(pcState).canon)
		minRet := int64(1) << 62
		for _, i := range missing {
			if ops[i].Return < minRet {
				minRet = ops[i].Return
			}
		}
		for _, i := range missing {
			if ops[i].Call > minRet {
				continue
			}
			ok, _ := m.Step(st, ops[i].Input, ops[i].Output)
			out := "(unobserved)"
			if ops[i].Output != nil {
				out = ops[i].Output.(t38.Value).String()
			}
			t.Logf("  candidate client %d [%.3f,%.3f] %s -> %.80s accepted=%v", ops[i].ClientId, float64(ops[i].Call)/1e6, float64(ops[i].Return)/1e6, fmt.Sprintf("%.100s", t38.CmdString(ops[i].Input.(pcIn).op.wire())), out, ok)
		}
		// the tail of the linearization
		for n := len(best) - 5; n < len(best); n++ {
			if n < 0 {
				continue
			}
			o := ops[best[n]]
			t.Logf("  tail %d: client %d [%.3f,%.3f]ms %s", n, o.ClientId, float64(o.Call)/1e6, float64(o.Return)/1e6, fmt.Sprintf("%.160s", t38.CmdString(o.Input.(pcIn).op.wire())))
		}
	}
}

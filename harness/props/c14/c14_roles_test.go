package c14

import (
	"encoding/json"
	"fmt"
	"strconv"
	"strings"
	"testing"
	"time"

	"github.com/tidwall/tile38/verif/harness/ev"
	"github.com/tidwall/tile38/verif/harness/t38"
	"pgregory.net/rapid"
)

// Role / life-cycle histories. Server A is a leader for the whole history;
// server B walks through a drawn sequence of transitions
//
//	F  FOLLOW A            (only while B is a leader)
//	P  FOLLOW no one       (promotion, only while B follows)
//	R  clean restart of B on the same data directory (role persists in its config)
//
// and after the start and after every transition a phase sets deadlines
// (objects and channels, short ones and "carry" ones that are still pending at
// the next transition) on whichever server is B's current source of writes.
// While B is a leader the witness oracle applies to B itself; while it follows,
// B must mirror A (and never run ahead of it).

type roleItem struct {
	hook    bool
	key, id string
	lo      time.Time // earliest possible deadline on any server (send + ttl)
	hiA     time.Time // latest possible deadline on A (only onA items)
	hiB     time.Time // latest possible deadline on B
	ttl     time.Duration
	onA     bool // written on A (replicated to B); otherwise B's own
	bPhase  int  // phase in which B's own item was written
	goneOnB bool
}

type roleRun struct {
	hist    []string
	t0      time.Time
	a, b    *t38.Srv
	ca, cb  *t38.Conn
	bDir    string
	bLeader bool
	items   []*roleItem
	n       int
	labels  map[string]int
	log     []string
	incon   []string
	// B's own writes are lost when it re-FOLLOWs (full resync); its log equals a
	// prefix of A's only while it has never written on its own since the last sync
	bOwnWrites  bool
	needResync  bool
	leaderSince int
}

func (h *roleRun) fail(key, format string, a ...any) {
	panic(&violation{Key: key, What: fmt.Sprintf(format, a...)})
}
func (h *roleRun) giveUp(format string, a ...any) {
	panic(&inconclusive{fmt.Sprintf(format, a...)})
}
func (h *roleRun) ms(t time.Time) int64 { return t.Sub(h.t0).Milliseconds() }

func (h *roleRun) do(c *t38.Conn, who string, args ...string) (t38.Value, time.Time, time.Time) {
	s := time.Now()
	v, err := c.Do(args...)
	a := time.Now()
	if err != nil {
		if err == t38.ErrHang {
			h.giveUp("%s: no reply to %s", who, t38.CmdString(args))
		}
		h.fail("transport", "%s %s: %v", who, t38.CmdString(args), err)
	}
	if len(h.log) < 3000 {
		h.log = append(h.log, fmt.Sprintf("%6d..%6dms %s %s => %s", h.ms(s), h.ms(a), who, t38.CmdString(args), clip(v.String())))
	}
	return v, s, a
}

func (h *roleRun) role() string {
	if h.bLeader {
		return "leader"
	}
	return "follower"
}

// visibleOnB reads one item on B.
func (h *roleRun) visibleOnB(it *roleItem) (bool, time.Time, time.Time) {
	if it.hook {
		v, s, a := h.do(h.cb, "B", "CHANS", it.id)
		return v.Kind == '*' && len(v.Arr) > 0, s, a
	}
	v, s, a := h.do(h.cb, "B", "GET", it.key, it.id)
	return !v.Null && !v.IsErr(), s, a
}

func (h *roleRun) visibleOnA(it *roleItem) (bool, time.Time, time.Time) {
	if it.hook {
		v, s, a := h.do(h.ca, "A", "CHANS", it.id)
		return v.Kind == '*' && len(v.Arr) > 0, s, a
	}
	v, s, a := h.do(h.ca, "A", "GET", it.key, it.id)
	return !v.Null && !v.IsErr(), s, a
}

func (it *roleItem) name() string {
	if it.hook {
		return "channel " + it.id
	}
	return it.key + "/" + it.id
}

// write creates one item with a deadline on the given server.
func (h *roleRun) write(onA bool, hook bool, tag string, ttlms int, phase int) *roleItem {
	h.n++
	c, who := h.cb, "B"
	if onA {
		c, who = h.ca, "A"
	}
	it := &roleItem{hook: hook, onA: onA, ttl: time.Duration(ttlms) * time.Millisecond, bPhase: phase}
	var v t38.Value
	var s, a time.Time
	if hook {
		it.id = fmt.Sprintf("h%s%d", tag, h.n)
		v, s, a = h.do(c, who, "SETCHAN", it.id, "EX", ttlSeconds(ttlms), "NEARBY", "hk", "FENCE", "POINT", "33", "-115", "1000")
		if v.Kind != ':' || v.Int != 1 {
			h.fail("reply", "%s SETCHAN %s: %s", who, it.id, v)
		}
	} else {
		// B's own objects live in a key that sorts after the replicated ones
		it.key = "ka"
		if !onA {
			it.key = "kb"
		}
		it.id = fmt.Sprintf("o%s%d", tag, h.n)
		v, s, a = h.do(c, who, "SET", it.key, it.id, "EX", ttlSeconds(ttlms), "POINT", "33", "-115")
		if v.Kind != '+' {
			h.fail("reply", "%s SET %s: %s", who, it.name(), v)
		}
	}
	it.lo = s.Add(it.ttl)
	it.hiA = a.Add(it.ttl)
	it.hiB = a.Add(it.ttl) // refined for replicated items by the next marker
	h.items = append(h.items, it)
	if !onA {
		h.bOwnWrites = true
	}
	return it
}

// syncMarker writes a marker on A and waits until B serves it: B has applied
// everything A logged before. Returns the instant at which B showed it.
func (h *roleRun) syncMarker() time.Time {
	h.n++
	id := "m" + strconv.Itoa(h.n)
	h.do(h.ca, "A", "SET", "km", id, "STRING", "x")
	start := time.Now()
	for {
		v, _, a := h.do(h.cb, "B", "EXISTS", "km", id)
		if v.Kind == ':' && v.Int == 1 {
			return a
		}
		if time.Since(start) > 10*time.Second {
			h.giveUp("B did not show A's marker within 10s (%s)", v)
		}
		time.Sleep(3 * time.Millisecond)
	}
}

func (h *roleRun) waitCaughtUp() {
	start := time.Now()
	for {
		v, _, _ := h.do(h.cb, "B", "SERVER")
		if serverField(v, "caught_up") == "true" {
			return
		}
		if time.Since(start) > 15*time.Second {
			h.giveUp("B did not catch up with A within 15s")
		}
		time.Sleep(5 * time.Millisecond)
	}
}

// canarySweep proves a sweep on srv (conn c) that is later than `after`.
// For B in the leader role the proof is differential: A lives in the same
// process and has been a leader with a running sweeper all along. If A removes
// refBudget successive canaries, each created only after the previous one was
// swept and all of them after B's canary was due, while B's canary is still
// served, B has no working sweeper. That verdict compares two servers under the
// same scheduler and load; no wall-clock threshold is involved. If A does not
// sweep either, the wait is inconclusive.
const refBudget = 10

func (h *roleRun) canarySweep(onB bool) time.Time {
	h.n++
	id := "c" + strconv.Itoa(h.n)
	c, who := h.ca, "A"
	if onB {
		c, who = h.cb, "B"
	}
	_, s, _ := h.do(c, who, "SET", canaryKey, id, "EX", "0.010", "STRING", "x")
	lo := s.Add(10 * time.Millisecond)
	start := time.Now()
	refs := 0
	refID := ""
	for {
		v, _, _ := h.do(c, who, "EXISTS", canaryKey, id)
		if !(v.Kind == ':' && v.Int == 1) {
			h.labels[fmt.Sprintf("sweep-proved-on-%s-as-%s", who, map[bool]string{true: h.role(), false: "leader"}[onB])]++
			return lo
		}
		if onB {
			if refID == "" {
				if time.Now().After(lo.Add(eps)) {
					h.n++
					refID = "r" + strconv.Itoa(h.n)
					h.do(h.ca, "A", "SET", canaryKey, refID, "EX", "0.010", "STRING", "x")
				}
			} else if rv, _, _ := h.do(h.ca, "A", "EXISTS", canaryKey, refID); !(rv.Kind == ':' && rv.Int == 1) {
				refs++
				refID = ""
				if refs >= refBudget {
					bv, bs, ba := h.do(h.cb, "B", "EXISTS", canaryKey, id)
					if bv.Kind == ':' && bv.Int == 1 {
						sv, _, _ := h.do(h.cb, "B", "SERVER")
						h.fail("leader-never-sweeps", "B (history %s, leader since transition %d, SERVER following=%q) still serves canary %s/%s at [%d,%d]ms, %dms after its deadline, while leader A in the same process swept %d canaries that were each created after B's was due: B runs no sweeper in its current role",
							strings.Join(h.hist, ""), h.leaderSince, serverField(sv, "following"), canaryKey, id, h.ms(bs), h.ms(ba), ba.Sub(lo).Milliseconds(), refs)
					}
				}
			}
		}
		if time.Since(start) > 3*(delta+repollMore) {
			h.giveUp("%s: canary not swept within %v (reference sweeps on A: %d)", who, 3*(delta+repollMore), refs)
		}
		time.Sleep(8 * time.Millisecond)
	}
}

func (h *roleRun) restartB() {
	h.cb.Close()
	begin := time.Now()
	if err := h.b.Stop(); err != nil {
		h.giveUp("B stop: %v", err)
	}
	b, err := startServer(h.bDir)
	if err != nil {
		h.giveUp("B restart: %v", err)
	}
	ready := time.Now()
	h.b = b
	h.cb = b.MustDial()
	h.log = append(h.log, fmt.Sprintf("%6d..%6dms B restarted as %s", h.ms(begin), h.ms(ready), h.role()))
	for _, it := range h.items {
		if it.goneOnB {
			continue
		}
		// relative TTLs in the log: deadlines are re-based at load time (implementation mirrored)
		if begin.Before(it.lo.Add(-eps)) && h.bLeader {
			// lower bound only matters for never-early on B; keep the weaker original bound while following
			it.lo = begin.Add(it.ttl)
		}
		it.hiB = ready.Add(it.ttl)
	}
	if !h.bLeader {
		h.needResync = true
	}
}

// phase sets deadlines and checks them in B's current role.
func (h *roleRun) phase(k int) {
	short, carry := 250, 900
	tag := fmt.Sprintf("p%d", k)
	if h.bLeader {
		h.labels["phase-as-leader"]++
		var fresh []*roleItem
		fresh = append(fresh, h.write(false, false, tag, short, k), h.write(false, true, tag, short+50, k),
			h.write(false, false, tag+"c", carry, k), h.write(false, true, tag+"c", carry, k))
		// never early on B: everything pending must be served
		for _, it := range h.items {
			if it.goneOnB {
				continue
			}
			vis, s, a := h.visibleOnB(it)
			if !vis && a.Before(it.lo.Add(-eps)) {
				h.fail("expired-early", "B as %s: %s (deadline not before %dms) is not served at [%d,%d]ms", h.role(), it.name(), h.ms(it.lo), h.ms(s), h.ms(a))
			}
			if !vis {
				it.goneOnB = true
			}
		}
		// let the short ones and every older pending deadline pass, then prove a sweep on B
		var wait time.Time
		for _, it := range h.items {
			if !it.goneOnB && (it.ttl <= time.Duration(short+50)*time.Millisecond || it.bPhase < k || it.onA) && it.hiB.After(wait) {
				wait = it.hiB
			}
		}
		if d := time.Until(wait.Add(2 * eps)); d > 0 {
			time.Sleep(d)
		}
		proof := h.canarySweep(true)
		for _, it := range h.items {
			if it.goneOnB {
				continue
			}
			vis, s, a := h.visibleOnB(it)
			if vis && it.hiB.Add(eps).Before(proof) {
				h.fail("survived-sweep", "B as leader (history %s, leader since transition %d): %s (deadline in [%d,%d]ms, written on %s) is still served at [%d,%d]ms although B swept a canary whose deadline is not before %dms",
					strings.Join(h.hist, ""), h.leaderSince, it.name(), h.ms(it.lo), h.ms(it.hiB), map[bool]string{true: "A and replicated", false: "B"}[it.onA], h.ms(s), h.ms(a), h.ms(proof))
			}
			if !vis {
				if a.Before(it.lo.Add(-eps)) {
					h.fail("expired-early", "B as leader: %s (deadline not before %dms) is not served at [%d,%d]ms", it.name(), h.ms(it.lo), h.ms(s), h.ms(a))
				}
				it.goneOnB = true
				h.labels["expired-on-B-as-leader:"+map[bool]string{true: "replicated", false: "own"}[it.onA]+map[bool]string{true: "-channel", false: "-object"}[it.hook]]++
			}
		}
		_ = fresh
		h.checkBLog()
		return
	}
	h.labels["phase-as-follower"]++
	h.write(true, false, tag, short, k)
	h.write(true, true, tag, short+50, k)
	h.write(true, false, tag+"c", carry, k)
	h.write(true, true, tag+"c", carry, k)
	m := h.syncMarker()
	for _, it := range h.items {
		if !it.onA || it.goneOnB {
			continue
		}
		if h.needResync || it.bPhase == k {
			// B applied the write (or re-loaded it) no later than m
			if hb := m.Add(it.ttl); hb.After(it.hiB) || it.bPhase == k {
				it.hiB = hb
			}
		}
		vis, s, a := h.visibleOnB(it)
		if !vis && a.Before(it.lo.Add(-eps)) {
			h.fail("expired-early", "B as follower: %s (deadline not before %dms) is not served at [%d,%d]ms although B applied A's log up to the marker", it.name(), h.ms(it.lo), h.ms(s), h.ms(a))
		}
	}
	h.needResync = false
	// A expires the short ones; B must follow
	var wait time.Time
	for _, it := range h.items {
		if it.onA && !it.goneOnB && it.ttl <= time.Duration(short+50)*time.Millisecond && it.hiA.After(wait) {
			wait = it.hiA
		}
	}
	if d := time.Until(wait.Add(2 * eps)); d > 0 {
		time.Sleep(d)
	}
	proof := h.canarySweep(false)
	var goneOnA []*roleItem
	for _, it := range h.items {
		if !it.onA || it.goneOnB {
			continue
		}
		vis, s, a := h.visibleOnA(it)
		if vis && it.hiA.Add(eps).Before(proof) {
			h.fail("survived-sweep", "leader A: %s (deadline in [%d,%d]ms) still served at [%d,%d]ms after a proven sweep", it.name(), h.ms(it.lo), h.ms(it.hiA), h.ms(s), h.ms(a))
		}
		if !vis {
			goneOnA = append(goneOnA, it)
		}
	}
	h.syncMarker()
	for _, it := range goneOnA {
		vis, s, a := h.visibleOnB(it)
		if vis {
			h.fail("follower-diverged", "B as follower (history %s) still serves %s at [%d,%d]ms although A expired it and B applied A's log up to a later marker", strings.Join(h.hist, ""), it.name(), h.ms(s), h.ms(a))
		}
		it.goneOnB = true
		h.labels["expired-on-B-as-follower"]++
	}
	// while B has no writes of its own its file is a prefix of A's
	if !h.bOwnWrites {
		la, err1 := readFile(h.a.AOFPath())
		lb, err2 := readFile(h.b.AOFPath())
		if err1 == nil && err2 == nil {
			ca, _, _ := t38.ParseAOFBytes(la)
			cb, _, _ := t38.ParseAOFBytes(lb)
			i := 0
			for i < len(ca) && i < len(cb) && sameArgs(ca[i].Args, cb[i].Args) {
				i++
			}
			if i < len(cb) {
				h.fail(findingFollower, "B as follower (history %s): its log differs from A's at entry %d: A %v, B %v", strings.Join(h.hist, ""), i, argsAt(ca, i), argsAt(cb, i))
			}
			h.labels["follower-log-prefix-checked"]++
		}
	}
}

func argsAt(l []t38.AOFCmd, i int) string {
	if i < len(l) {
		return t38.CmdString(l[i].Args)
	}
	return "(end)"
}

// checkBLog: every own or replicated item that expired while B was a leader
// has its del/delchan in B's log behind its last write.
func (h *roleRun) checkBLog() {
	h.do(h.cb, "B", "PING")
	cmds, _, err := t38.ParseAOF(h.b.AOFPath())
	if err != nil {
		return
	}
	last := map[string]string{}
	for _, c := range cmds {
		a := c.Args
		switch {
		case len(a) >= 3 && (a[0] == "SET" || a[0] == "del"):
			last[a[1]+"/"+a[2]] = a[0]
		case len(a) >= 2 && (a[0] == "SETCHAN" || a[0] == "delchan"):
			last["chan/"+a[1]] = a[0]
		}
	}
	for _, it := range h.items {
		if !it.goneOnB {
			continue
		}
		k := it.key + "/" + it.id
		if it.hook {
			k = "chan/" + it.id
		}
		if op, ok := last[k]; ok && (op == "SET" || op == "SETCHAN") {
			h.fail("aof-expiry-not-logged", "B as leader: %s is gone but the last entry for it in B's log is %s: its expiry was not logged", it.name(), op)
		}
	}
	h.labels["leader-log-checked"]++
}

type roleResult struct {
	V      *violation
	Incon  []string
	Labels map[string]int
	Log    []string
	Wall   time.Duration
}

func runRoleHistory(hist []string) (res roleResult) {
	start := time.Now()
	h := &roleRun{hist: hist, t0: start, bLeader: true, labels: map[string]int{}}
	defer func() {
		if p := recover(); p != nil {
			switch x := p.(type) {
			case *violation:
				res.V = x
			case *inconclusive:
				h.incon = append(h.incon, x.what)
			default:
				panic(p)
			}
		}
		if h.ca != nil {
			h.ca.Close()
		}
		if h.cb != nil {
			h.cb.Close()
		}
		if h.b != nil {
			h.b.Stop()
		}
		if h.a != nil {
			h.a.Stop()
		}
		res.Labels, res.Incon, res.Log, res.Wall = h.labels, h.incon, h.log, time.Since(start)
	}()
	var err error
	if h.a, err = startServer(""); err != nil {
		h.giveUp("A start: %v", err)
	}
	if h.b, err = startServer(""); err != nil {
		h.giveUp("B start: %v", err)
	}
	h.bDir = h.b.Dir
	h.ca, h.cb = h.a.MustDial(), h.b.MustDial()
	h.phase(0)
	for k, tr := range hist {
		h.labels["transition:"+tr+"-as-"+h.role()]++
		switch tr {
		case "F":
			if v, _, _ := h.do(h.cb, "B", "FOLLOW", "127.0.0.1", strconv.Itoa(h.a.Port)); v.IsErr() {
				h.giveUp("FOLLOW: %s", v)
			}
			h.bLeader = false
			h.waitCaughtUp()
			// B's dataset is A's now: its own items are gone with the resync
			for _, it := range h.items {
				if !it.onA {
					it.goneOnB = true
				}
			}
			h.needResync = true
			if h.bOwnWrites {
				h.labels["refollow-after-own-writes(full-resync)"]++
			}
			h.bOwnWrites = false
		case "P":
			if v, _, _ := h.do(h.cb, "B", "FOLLOW", "no", "one"); v.IsErr() {
				h.fail("reply", "FOLLOW no one: %s", v)
			}
			h.bLeader = true
			h.leaderSince = k + 1
		case "R":
			h.restartB()
			if !h.bLeader {
				h.waitCaughtUp()
			}
		}
		h.phase(k + 1)
	}
	return res
}

// roleHistories enumerates every valid transition sequence up to maxLen
// (no two restarts in a row).
func roleHistories(maxLen int) [][]string {
	var out [][]string
	var rec func(cur []string, leader bool)
	rec = func(cur []string, leader bool) {
		if len(cur) > 0 {
			out = append(out, append([]string{}, cur...))
		}
		if len(cur) == maxLen {
			return
		}
		if leader {
			rec(append(cur, "F"), false)
		} else {
			rec(append(cur, "P"), true)
		}
		if len(cur) == 0 || cur[len(cur)-1] != "R" {
			rec(append(cur, "R"), leader)
		}
	}
	rec(nil, true)
	return out
}

const rolesRule = "role histories of a replica B next to a permanent leader A: every valid sequence of {F = FOLLOW A, P = FOLLOW no one, R = clean restart on the same directory (role persisted in the config file)} up to length 3 (thorough 5, split over shards) plus longer drawn ones; " +
	"at the start and after each transition a phase writes an object and a channel with EX 0.25/0.3 s and an object and a channel with EX 0.9 s (still pending at the next transition) on B itself while it is a leader, on A while B follows. " +
	"Oracle while B leads: never-early, and a canary set on B after all due deadlines must be swept - then every due own or replicated object/channel must be gone and its del/delchan logged; B is convicted of having no sweeper (leader-never-sweeps) when leader A, in the same process, sweeps 10 successive canaries each created after B's was due while B still serves its own. " +
	"While B follows: it serves what is not yet due, drops what A expired once it applied A's log up to a later marker, and its log stays a prefix of A's. Non-trivial: the history contains a promotion or a restart and B expired something in a leader phase after it; distinct by history."

func TestC14_Roles(t *testing.T) {
	c := ev.New("C14", "roles", "exploration")
	t.Cleanup(c.Flush)
	c.Rule(rolesRule)
	c.Assume("two sweeper goroutines of the same process are scheduled comparably: one cannot complete 10 sleep/sweep cycles while the other, runnable, completes none")
	hists := roleHistories(ev.Pick(3, 5))
	// longer, drawn histories
	ev.Rapid("roles", len(hists))
	g := rapid.Custom(func(rt *rapid.T) []string {
		n := 4 + int(rapid.Uint32().Draw(rt, "len")%4)
		var h []string
		leader := true
		for len(h) < n {
			switch rapid.Uint32().Draw(rt, "tr") % 3 {
			case 0:
				if leader {
					h, leader = append(h, "F"), false
				} else {
					h, leader = append(h, "P"), true
				}
			case 1:
				if len(h) > 0 && h[len(h)-1] != "R" {
					h = append(h, "R")
				}
			default:
				if !leader {
					h, leader = append(h, "P"), true
				} else {
					h, leader = append(h, "F"), false
				}
			}
		}
		return h
	})
	base := int(ev.Seed("roles") >> 16)
	for i := 0; i < ev.Pick(4, 24); i++ {
		hists = append(hists, g.Example(base+i))
	}
	if ev.Shards() > 1 {
		var h2 [][]string
		for i, h := range hists {
			if i%ev.Shards() == ev.Shard() {
				h2 = append(h2, h)
			}
		}
		hists = h2
	}
	type out struct {
		hist []string
		res  roleResult
	}
	outs := make([]out, len(hists))
	done := make(chan int)
	sem := make(chan struct{}, ev.Pick(24, 8))
	for i := range hists {
		go func(i int) {
			sem <- struct{}{}
			outs[i] = out{hists[i], runRoleHistory(hists[i])}
			<-sem
			done <- i
		}(i)
	}
	for range hists {
		<-done
	}
	reported := map[string]bool{}
	for _, o := range outs {
		c.Case()
		name := strings.Join(o.hist, "")
		for l, n := range o.res.Labels {
			c.LabelN(l, n)
		}
		for _, s := range o.res.Incon {
			c.Inconclusive("history %s: %s", name, s)
		}
		nt := false
		for l := range o.res.Labels {
			if strings.HasPrefix(l, "expired-on-B-as-leader") && (strings.Contains(name, "P") || strings.Contains(name, "R")) {
				nt = true
			}
		}
		if nt && o.res.V == nil && len(o.res.Incon) == 0 {
			c.NonTrivial(name)
			if c.WantSample() {
				c.Sample(map[string]any{"history": name, "wall_ms": o.res.Wall.Milliseconds(), "labels": keysOf(o.res.Labels)})
			}
		}
		if o.res.V != nil && !reported[o.res.V.Key] && len(reported) < 3 {
			reported[o.res.V.Key] = true
			// confirm alone (same history, fresh servers)
			again := runRoleHistory(o.hist)
			note := "solo re-run did not reproduce (kept: interval/differential oracle)"
			res := o.res
			if again.V != nil && again.V.Key == o.res.V.Key {
				note, res = "solo re-run reproduced", again
			}
			path := c.Violation(res.V.Key, "history "+name+": "+res.V.What+" ["+note+"]", map[string]any{"history": o.hist, "log": tail(res.Log, 100)})
			t.Errorf("VIOLATION-CANDIDATE key=%s: history %s: %s (replay %s)", res.V.Key, name, res.V.What, path)
		}
	}
}

func replayRoles(t *testing.T, c *ev.Collector, data json.RawMessage) {
	var d struct {
		History []string `json:"history"`
	}
	if err := json.Unmarshal(data, &d); err != nil || len(d.History) == 0 {
		t.Fatalf("bad replay data: %v", err)
	}
	for i := 0; i < 3; i++ {
		c.Case()
		res := runRoleHistory(d.History)
		for _, s := range res.Incon {
			c.Inconclusive("%s", s)
		}
		if res.V != nil {
			c.Violation(res.V.Key, res.V.What, map[string]any{"history": d.History, "log": tail(res.Log, 100)})
			t.Errorf("VIOLATION-CANDIDATE key=%s: %s", res.V.Key, res.V.What)
			return
		}
	}
}

package c14

import (
	"fmt"
	"strconv"

	"pgregory.net/rapid"
)

// Step is one step of a timed case. All choices are drawn through rapid; the
// only thing a case does not fix is the real time at which each step runs.
type Step struct {
	Op   string `json:"op"`
	Key  string `json:"key,omitempty"`
	ID   string `json:"id,omitempty"`
	Kind string `json:"kind,omitempty"` // point | string
	TTL  int    `json:"ttl_ms,omitempty"`
	Ms   int    `json:"ms,omitempty"`   // wait length
	Poll string `json:"poll,omitempty"` // poll kind
	Name string `json:"name,omitempty"` // hook / channel name
	N    int    `json:"n,omitempty"`    // variant (coordinates, field value, polling wait)
}

// Case is one generated history.
type Case struct {
	Steps    []Step `json:"steps"`
	Follower bool   `json:"follower,omitempty"`
}

func (s Step) String() string {
	switch s.Op {
	case "wait":
		if s.N == 1 {
			return fmt.Sprintf("wait+poll %dms", s.Ms)
		}
		return fmt.Sprintf("wait %dms", s.Ms)
	case "poll":
		return fmt.Sprintf("poll %s %s %s", s.Poll, s.Key, s.ID)
	case "setchan", "sethook", "delchan", "delhook":
		return fmt.Sprintf("%s %s ttl=%dms", s.Op, s.Name, s.TTL)
	}
	return fmt.Sprintf("%s %s %s %s ttl=%dms", s.Op, s.Key, s.ID, s.Kind, s.TTL)
}

var (
	objKeys   = []string{"ka", "kb"}
	objIDs    = []string{"a", "b"}
	chanNames = []string{"c1", "c2"}
	hookNames = []string{"h1"}
	longTTLs  = []int{3000, 7500, 30000, 100000}
	objPolls  = []string{"get", "ttl", "exists"}
	keyPolls  = []string{"scancount", "scanids", "nearbycount", "nearbyids", "searchcount", "searchids"}
)

func ttlSeconds(ms int) string {
	return strconv.FormatFloat(float64(ms)/1000, 'f', 3, 64)
}

func otherKey(k string) string {
	if k == "ka" {
		return "kb"
	}
	return "ka"
}

type weighted struct {
	op string
	w  int
}

func drawOp(t *rapid.T, ops []weighted) string {
	total := 0
	for _, o := range ops {
		total += o.w
	}
	n := uniform(t, "op", 0, total-1)
	for _, o := range ops {
		if n < o.w {
			return o.op
		}
		n -= o.w
	}
	return ops[0].op
}

// uniform draws an integer of [lo, hi] without rapid's bias towards small
// values and range bounds (which would make most operations the first of the
// table and most TTLs 150 ms); shrinking by rapid is not used for timed cases.
func uniform(t *rapid.T, label string, lo, hi int) int {
	return lo + int(rapid.Uint32().Draw(t, label)%uint32(hi-lo+1))
}

func drawShortTTL(t *rapid.T) int { return uniform(t, "ttl", 150, 1200) }

func drawTTL(t *rapid.T) int {
	if rapid.IntRange(0, 9).Draw(t, "ttlclass") < 7 {
		return drawShortTTL(t)
	}
	return rapid.SampledFrom(longTTLs).Draw(t, "longttl")
}

func drawSlot(t *rapid.T, nslots int) (string, string) {
	n := uniform(t, "slot", 0, nslots-1)
	return objKeys[n%2], objIDs[n/2]
}

func drawKind(t *rapid.T) string {
	if rapid.IntRange(0, 3).Draw(t, "kind") == 0 {
		return "string"
	}
	return "point"
}

// drawCase draws one history: an optional scripted prefix that builds the
// "successor outlives the old timer" shape, then random steps.
func drawCase(t *rapid.T, maxSteps int) Case {
	var cs Case
	cs.Follower = rapid.IntRange(0, 3).Draw(t, "follower") == 0
	withHooks := rapid.IntRange(0, 2).Draw(t, "hooks") == 0
	nslots := rapid.IntRange(1, 4).Draw(t, "nslots")

	if rapid.IntRange(0, 1).Draw(t, "prefix") == 1 {
		key, id := drawSlot(t, nslots)
		kind := drawKind(t)
		t1 := drawShortTTL(t)
		cs.Steps = append(cs.Steps, Step{Op: "setex", Key: key, ID: id, Kind: kind, TTL: t1, N: 1})
		w := uniform(t, "prewait", 0, t1-50)
		cs.Steps = append(cs.Steps, Step{Op: "wait", Ms: w, N: rapid.IntRange(0, 1).Draw(t, "pw")})
		switch uniform(t, "successor", 0, 6) {
		case 0:
			cs.Steps = append(cs.Steps, Step{Op: "set", Key: key, ID: id, Kind: drawKind(t), N: 2})
		case 1:
			cs.Steps = append(cs.Steps, Step{Op: "persist", Key: key, ID: id})
		case 2:
			cs.Steps = append(cs.Steps, Step{Op: "expire", Key: key, ID: id, TTL: rapid.SampledFrom(longTTLs).Draw(t, "longer")})
		case 3:
			cs.Steps = append(cs.Steps, Step{Op: "expire", Key: key, ID: id, TTL: rapid.IntRange(150, 400).Draw(t, "shorter")})
		case 4:
			cs.Steps = append(cs.Steps, Step{Op: "del", Key: key, ID: id},
				Step{Op: "set", Key: key, ID: id, Kind: drawKind(t), N: 3})
		case 5:
			cs.Steps = append(cs.Steps, Step{Op: "setex", Key: key, ID: id, Kind: drawKind(t), TTL: rapid.SampledFrom(longTTLs).Draw(t, "longer"), N: 4})
		case 6:
			cs.Steps = append(cs.Steps, Step{Op: "rename", Key: key},
				Step{Op: "persist", Key: otherKey(key), ID: id})
		}
	}

	ops := []weighted{
		{"setex", 18}, {"set", 8}, {"expire", 10}, {"persist", 6}, {"fset", 4}, {"del", 5},
		{"rename", 4}, {"renamenx", 1}, {"wait", 14}, {"poll", 14}, {"sweepwait", 4},
	}
	if !cs.Follower {
		ops = append(ops, weighted{"restart", 1})
	}
	if withHooks {
		ops = append(ops, weighted{"setchan", 12}, weighted{"delchan", 2}, weighted{"sethook", 6},
			weighted{"delhook", 2}, weighted{"pollhooks", 6})
	}
	n := uniform(t, "nsteps", 2, maxSteps)
	for i := 0; i < n; i++ {
		op := drawOp(t, ops)
		st := Step{Op: op}
		switch op {
		case "setex":
			st.Key, st.ID = drawSlot(t, nslots)
			st.Kind = drawKind(t)
			st.TTL = drawTTL(t)
			st.N = rapid.IntRange(0, 9).Draw(t, "n")
		case "set":
			st.Key, st.ID = drawSlot(t, nslots)
			st.Kind = drawKind(t)
			st.N = rapid.IntRange(0, 9).Draw(t, "n")
		case "expire":
			st.Key, st.ID = drawSlot(t, nslots)
			st.TTL = drawTTL(t)
		case "persist", "del":
			st.Key, st.ID = drawSlot(t, nslots)
		case "fset":
			st.Key, st.ID = drawSlot(t, nslots)
			st.N = rapid.IntRange(0, 3).Draw(t, "n")
		case "rename", "renamenx":
			st.Key = rapid.SampledFrom(objKeys).Draw(t, "key")
		case "wait":
			st.Ms = uniform(t, "ms", 0, 700)
			st.N = rapid.IntRange(0, 1).Draw(t, "pollwait")
		case "poll":
			if rapid.IntRange(0, 1).Draw(t, "pollclass") == 0 {
				st.Poll = rapid.SampledFrom(objPolls).Draw(t, "poll")
				st.Key, st.ID = drawSlot(t, nslots)
			} else {
				st.Poll = rapid.SampledFrom(keyPolls).Draw(t, "poll")
				st.Key = rapid.SampledFrom(objKeys).Draw(t, "key")
			}
		case "setchan":
			st.Name = rapid.SampledFrom(chanNames).Draw(t, "name")
			if rapid.IntRange(0, 3).Draw(t, "noex") != 0 {
				st.TTL = drawTTL(t)
			}
		case "sethook":
			st.Name = rapid.SampledFrom(hookNames).Draw(t, "name")
			if rapid.IntRange(0, 3).Draw(t, "noex") != 0 {
				st.TTL = drawTTL(t)
			}
		case "delchan":
			st.Name = rapid.SampledFrom(chanNames).Draw(t, "name")
		case "delhook":
			st.Name = rapid.SampledFrom(hookNames).Draw(t, "name")
		}
		cs.Steps = append(cs.Steps, st)
	}
	return cs
}

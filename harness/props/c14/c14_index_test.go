package c14

import (
	"fmt"
	"sort"
	"strings"
	"testing"

	"github.com/tidwall/geojson"
	"github.com/tidwall/geojson/geometry"
	"github.com/tidwall/tile38/internal/collection"
	"github.com/tidwall/tile38/internal/field"
	"github.com/tidwall/tile38/internal/object"
	"github.com/tidwall/tile38/verif/harness/ev"
	"pgregory.net/rapid"
)

// indexOp is one operation on a bare collection.
type indexOp struct {
	Op      string `json:"op"` // set | del
	ID      string `json:"id"`
	Expires int64  `json:"expires,omitempty"`
	Str     bool   `json:"str,omitempty"`
	N       int    `json:"n,omitempty"`
}

type indexProgram struct {
	Ops []indexOp `json:"ops"`
}

type failer interface {
	Fatalf(format string, args ...any)
	Helper()
}

var indexIDs = []string{"a", "b", "c", "d", "\x80\x01", "\xff"}

func drawIndexProgram(rt *rapid.T) indexProgram {
	exGen := rapid.OneOf(
		rapid.Just(int64(0)),
		rapid.Int64Range(1, 4), // collisions: ordering falls back to the id
		rapid.Int64Range(-3, -1),
		rapid.Int64Range(1_700_000_000_000_000_000, 1_700_000_000_000_000_003),
		rapid.Int64(),
	)
	opGen := rapid.Custom(func(t *rapid.T) indexOp {
		o := indexOp{ID: rapid.SampledFrom(indexIDs).Draw(t, "id")}
		if rapid.IntRange(0, 4).Draw(t, "del") == 0 {
			o.Op = "del"
			return o
		}
		o.Op = "set"
		o.Expires = exGen.Draw(t, "ex")
		o.Str = rapid.Bool().Draw(t, "str")
		o.N = rapid.IntRange(0, 3).Draw(t, "n")
		return o
	})
	return indexProgram{Ops: rapid.SliceOfN(opGen, 1, 40).Draw(rt, "ops")}
}

// runIndexProgram applies the program to a collection and a map model; after
// every step the expiry index (ScanExpires) must hold exactly the live objects
// that carry a deadline, ordered by (deadline, id), and must hold the very
// object the id map holds (not a replaced predecessor).
func runIndexProgram(t failer, c *ev.Collector, p indexProgram) (nontrivial bool, sig string) {
	t.Helper()
	col := collection.New()
	model := map[string]*object.Object{}
	var sb strings.Builder
	for i, op := range p.Ops {
		switch op.Op {
		case "set":
			var g geojson.Object
			if op.Str {
				g = collection.String(fmt.Sprintf("v%d", op.N))
			} else {
				g = geojson.NewPoint(geometry.Point{X: -115, Y: 33 + float64(op.N)})
			}
			o := object.New(op.ID, g, op.Expires, field.List{})
			if o.ID() != op.ID || o.Expires() != op.Expires {
				c.Fail(t, "object-head-roundtrip", fmt.Sprintf("object.New(%q, expires=%d) reads back id=%q expires=%d", op.ID, op.Expires, o.ID(), o.Expires()), p)
			}
			prev := col.Set(o)
			if prev != model[op.ID] {
				c.Fail(t, "index-model:set-prev", fmt.Sprintf("step %d: Set(%q) returned a different predecessor than the model holds", i, op.ID), p)
			}
			if prev != nil && prev.Expires() != 0 && prev.Expires() != op.Expires {
				nontrivial = true
			}
			model[op.ID] = o
			fmt.Fprintf(&sb, "s%s:%d:%v;", op.ID, classEx(op.Expires), prev != nil && prev.Expires() != 0)
		case "del":
			prev := col.Delete(op.ID)
			if prev != model[op.ID] {
				c.Fail(t, "index-model:del-prev", fmt.Sprintf("step %d: Delete(%q) returned a different object than the model holds", i, op.ID), p)
			}
			delete(model, op.ID)
			fmt.Fprintf(&sb, "d%s:%v;", op.ID, prev != nil && prev.Expires() != 0)
		}
		var want []*object.Object
		for _, o := range model {
			if o.Expires() != 0 {
				want = append(want, o)
			}
		}
		sort.Slice(want, func(a, b int) bool {
			if want[a].Expires() != want[b].Expires() {
				return want[a].Expires() < want[b].Expires()
			}
			return want[a].ID() < want[b].ID()
		})
		var got []*object.Object
		col.ScanExpires(func(o *object.Object) bool {
			got = append(got, o)
			return true
		})
		desc := func(l []*object.Object) string {
			var s []string
			for _, o := range l {
				s = append(s, fmt.Sprintf("%q@%d", o.ID(), o.Expires()))
			}
			return "[" + strings.Join(s, " ") + "]"
		}
		if len(got) != len(want) {
			c.Fail(t, "expiry-index:content", fmt.Sprintf("step %d (%s %q): expiry index holds %s, objects with a deadline are %s", i, op.Op, op.ID, desc(got), desc(want)), p)
		}
		for k := range got {
			if got[k] != want[k] {
				key := "expiry-index:content"
				if got[k].ID() == want[k].ID() || col.Get(got[k].ID()) != got[k] {
					key = "expiry-index:stale-entry"
				}
				c.Fail(t, key, fmt.Sprintf("step %d (%s %q): expiry index holds %s, objects with a deadline are %s", i, op.Op, op.ID, desc(got), desc(want)), p)
			}
		}
		if col.Count() != len(model) {
			c.Fail(t, "index-model:count", fmt.Sprintf("step %d: Count()=%d, model %d", i, col.Count(), len(model)), p)
		}
	}
	return nontrivial, sb.String()
}

func classEx(ex int64) int {
	switch {
	case ex == 0:
		return 0
	case ex < 0:
		return -1
	case ex < 10:
		return int(ex)
	}
	return 9
}

func TestC14_Index(t *testing.T) {
	c := ev.New("C14", "index", "exploration")
	t.Cleanup(c.Flush)
	c.Rule("random Set/Delete programs on a bare collection.Collection over 6 ids (two with bytes >= 0x80) with deadlines from {0, colliding small, negative, large adjacent, arbitrary int64}, points and strings; after every step ScanExpires must equal the model's live objects with a deadline in (deadline,id) order, by pointer identity, and object.New must read back id and deadline. Non-trivial: a Set replaced an object that had a different non-zero deadline; distinct by the sequence of (op, id, deadline class, predecessor had deadline).")
	ev.Rapid("index", ev.Pick(4000, 40000))
	rapid.Check(t, func(rt *rapid.T) {
		p := drawIndexProgram(rt)
		c.Case()
		nt, sig := runIndexProgram(rt, c, p)
		if nt {
			c.NonTrivial(sig)
			c.Label("replaced-deadline")
			if c.WantSample() {
				c.Sample(p)
			}
		}
	})
}

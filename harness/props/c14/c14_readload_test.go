package c14

import (
	"encoding/json"
	"fmt"
	"sort"
	"strconv"
	"sync"
	"testing"
	"time"

	"github.com/tidwall/tile38/verif/harness/ev"
	"github.com/tidwall/tile38/verif/harness/t38"
)

// "Eventual" under read load (regression of expiry-starved-by-readers): the
// sweeper needs the exclusive lock; overlapping slow readers must not keep it
// out. This is the one place where the verdict rests on a stated time bound
// (no witness is possible: nothing expires at all when the sweeper is starved),
// so it is hedged twice: the probe connection's own reads must be answered
// promptly during the whole wait, and an idle reference server in the same
// process must have swept refBudget successive canaries meanwhile.

type readLoadParams struct {
	Big      int  `json:"big"`      // objects in the large collection
	Readers  int  `json:"readers"`  // connections looping slow reads
	Spinlock bool `json:"spinlock"` // server runs with --spinlock
}

type readLoadResult struct {
	V      *violation
	Incon  []string
	Labels map[string]int
	Notes  []string
}

func median(d []time.Duration) time.Duration {
	if len(d) == 0 {
		return 0
	}
	s := append([]time.Duration{}, d...)
	sort.Slice(s, func(i, j int) bool { return s[i] < s[j] })
	return s[len(s)/2]
}

func maxDur(d []time.Duration) time.Duration {
	var m time.Duration
	for _, x := range d {
		if x > m {
			m = x
		}
	}
	return m
}

func runReadLoad(p readLoadParams) (res readLoadResult) {
	res.Labels = map[string]int{}
	srv, err := startServerOpts("", t38.Opts{Spinlock: p.Spinlock})
	if err != nil {
		res.Incon = append(res.Incon, "server start: "+err.Error())
		return
	}
	defer srv.Stop()
	key, lock, floor := "expiry-starved-by-readers", "default lock", 5*time.Second
	if p.Spinlock {
		key, lock, floor = "spinlock-readers-starve-writers", "--spinlock", 10*time.Second
	}
	ref, err := startServer("")
	if err != nil {
		res.Incon = append(res.Incon, "reference server start: "+err.Error())
		return
	}
	defer ref.Stop()
	main := srv.MustDial()
	defer main.Close()
	rc := ref.MustDial()
	defer rc.Close()

	// ---- the large collection (before any deadline exists)
	const batch = 5000
	for off := 0; off < p.Big; off += batch {
		var buf []byte
		n := batch
		if off+n > p.Big {
			n = p.Big - off
		}
		for i := off; i < off+n; i++ {
			lat := 33 + float64(i%1000)*0.0001
			lon := -115 + float64(i/1000)*0.0001
			buf = append(buf, t38.EncodeCmd("SET", "big", "b"+strconv.Itoa(i), "FIELD", "f", strconv.Itoa(i%97),
				"POINT", strconv.FormatFloat(lat, 'f', -1, 64), strconv.FormatFloat(lon, 'f', -1, 64))...)
		}
		if err := main.SendRaw(buf); err != nil {
			res.Incon = append(res.Incon, "load: "+err.Error())
			return
		}
		for i := 0; i < n; i++ {
			if v, err := main.Recv(); err != nil || v.Kind != '+' {
				res.Incon = append(res.Incon, fmt.Sprintf("load: %v %v", v, err))
				return
			}
		}
	}

	// ---- objects and channels with short deadlines, in another collection
	type exp struct {
		hook   bool
		id     string
		lo, hi time.Time
		gone   time.Time
	}
	var exps []*exp
	for i, ttl := range []int{600, 600, 1000, 1000, 1400, 1400, 1800} {
		e := &exp{id: "e" + strconv.Itoa(i)}
		s := time.Now()
		v, err := main.Do("SET", "exp", e.id, "EX", ttlSeconds(ttl), "POINT", "33", "-115")
		a := time.Now()
		if err != nil || v.Kind != '+' {
			res.Incon = append(res.Incon, fmt.Sprintf("SET EX: %v %v", v, err))
			return
		}
		d := time.Duration(ttl) * time.Millisecond
		e.lo, e.hi = s.Add(d), a.Add(d)
		exps = append(exps, e)
	}
	{
		e := &exp{hook: true, id: "hx"}
		s := time.Now()
		v, err := main.Do("SETCHAN", e.id, "EX", "1.200", "NEARBY", "hk", "FENCE", "POINT", "33", "-115", "1000")
		a := time.Now()
		if err != nil || v.Kind != ':' {
			res.Incon = append(res.Incon, fmt.Sprintf("SETCHAN EX: %v %v", v, err))
			return
		}
		e.lo, e.hi = s.Add(1200*time.Millisecond), a.Add(1200*time.Millisecond)
		exps = append(exps, e)
	}
	lastHi := exps[0].hi
	for _, e := range exps {
		if e.hi.After(lastHi) {
			lastHi = e.hi
		}
	}

	// ---- readers: slow reads over the large collection, no writes from here on
	reads := [][]string{
		{"SCAN", "big", "WHERE", "f", "200", "300", "COUNT"},
		{"NEARBY", "big", "LIMIT", "1000000", "WHERE", "f", "96", "96", "IDS", "POINT", "33.05", "-115", "1000000"},
		{"SCAN", "big", "WHEREEVAL", "return (FIELDS.f or 0) > 1000", "0", "COUNT"},
		{"SCAN", "big", "WHERE", "f", "0", "0", "LIMIT", "1000000", "IDS"},
	}
	stop := make(chan struct{})
	var wg sync.WaitGroup
	var dmu sync.Mutex
	var readDur []time.Duration
	readErr := ""
	for r := 0; r < p.Readers; r++ {
		wg.Add(1)
		go func(r int) {
			defer wg.Done()
			c, err := srv.Dial()
			if err != nil {
				return
			}
			defer c.Close()
			for i := r; ; i++ {
				select {
				case <-stop:
					return
				default:
				}
				s := time.Now()
				v, err := c.Do(reads[i%len(reads)]...)
				d := time.Since(s)
				dmu.Lock()
				if err != nil || v.IsErr() {
					readErr = fmt.Sprintf("%v: %v %v", reads[i%len(reads)], v, err)
					dmu.Unlock()
					return
				}
				readDur = append(readDur, d)
				dmu.Unlock()
			}
		}(r)
	}
	defer func() {
		select {
		case <-stop:
		default:
			close(stop)
		}
		wg.Wait()
	}()

	// ---- probe: reads only
	var probeRTT []time.Duration
	refSwept, refID, refN := 0, "", 0
	var bound time.Duration
	t0 := time.Now()
	for {
		pending := 0
		for _, e := range exps {
			if !e.gone.IsZero() {
				continue
			}
			s := time.Now()
			var vis bool
			if e.hook {
				v, err := main.Do("CHANS", e.id)
				if err != nil {
					res.Incon = append(res.Incon, "probe: "+err.Error())
					return
				}
				vis = v.Kind == '*' && len(v.Arr) > 0
			} else {
				v, err := main.Do("GET", "exp", e.id)
				if err != nil {
					res.Incon = append(res.Incon, "probe: "+err.Error())
					return
				}
				vis = !v.Null && !v.IsErr()
			}
			a := time.Now()
			probeRTT = append(probeRTT, a.Sub(s))
			if !vis {
				if a.Before(e.lo.Add(-eps)) {
					res.V = &violation{Key: "expired-early", What: fmt.Sprintf("under read load: %s not served %v before its earliest deadline", e.id, e.lo.Sub(a))}
					return
				}
				e.gone = a
				continue
			}
			pending++
		}
		if pending == 0 {
			break
		}
		// reference sweeps on the idle server, each canary created after the last deadline passed
		if time.Now().After(lastHi.Add(eps)) {
			if refID == "" {
				refN++
				refID = "r" + strconv.Itoa(refN)
				rc.Do("SET", canaryKey, refID, "EX", "0.010", "STRING", "x")
			} else if v, err := rc.Do("EXISTS", canaryKey, refID); err == nil && !(v.Kind == ':' && v.Int == 1) {
				refSwept++
				refID = ""
			}
		}
		dmu.Lock()
		mr := maxDur(readDur)
		nread := len(readDur)
		re := readErr
		dmu.Unlock()
		if re != "" {
			res.Incon = append(res.Incon, "reader failed: "+re)
			return
		}
		// the bound: sweep loop period (sleeps 200 ms) + 250 ms spin before the
		// sweeper queues as a writer + the longest reader command it then has to
		// wait for, times 10; never less than 5 s
		bound = 10 * (200*time.Millisecond + 250*time.Millisecond + mr)
		if bound < floor {
			bound = floor
		}
		if over := time.Since(lastHi); over > bound {
			prompt := median(probeRTT) <= 100*time.Millisecond && maxDur(probeRTT) <= time.Second
			if !prompt || refSwept < refBudget || nread < 20 {
				res.Incon = append(res.Incon, fmt.Sprintf("objects still served %v after the last deadline, but the machine looks overloaded (probe RTT median %v max %v, reference sweeps %d, reads completed %d)",
					over.Round(time.Millisecond), median(probeRTT), maxDur(probeRTT), refSwept, nread))
				return
			}
			var left []string
			for _, e := range exps {
				if e.gone.IsZero() {
					left = append(left, e.id)
				}
			}
			res.V = &violation{Key: key, What: fmt.Sprintf(
				"server with %s: %d reader connections loop slow reads over a %d-object collection (no writes; %d reads completed, longest %v): %v are still served %v after the last deadline (bound %v = 10 x (200 ms sweep period + 250 ms spin + longest read), at least %v), although the probe connection's own %d reads were answered promptly (median %v, max %v) and an idle server in the same process swept %d successive canaries meanwhile",
				lock, p.Readers, p.Big, nread, mr.Round(time.Millisecond), left, over.Round(time.Millisecond), bound, floor, len(probeRTT), median(probeRTT).Round(time.Microsecond), maxDur(probeRTT).Round(time.Millisecond), refSwept)}
			return
		}
		time.Sleep(10 * time.Millisecond)
	}
	close(stop)
	wg.Wait()
	dmu.Lock()
	defer dmu.Unlock()
	var worst time.Duration
	for _, e := range exps {
		if l := e.gone.Sub(e.hi); l > worst {
			worst = l
		}
		switch l := e.gone.Sub(e.hi); {
		case l <= 700*time.Millisecond:
			res.Labels["gone-within-0.7s-of-deadline"]++
		case l <= 2*time.Second:
			res.Labels["gone-within-2s-of-deadline"]++
		default:
			res.Labels["gone-later-than-2s"]++
		}
	}
	res.Labels["reads-completed-during-the-wait"] = len(readDur)
	res.Notes = append(res.Notes, fmt.Sprintf("%s: %d objects, %d readers: %d reads in %v (median %v, longest %v); expiry seen at most %v after the deadline; probe RTT median %v max %v",
		lock, p.Big, p.Readers, len(readDur), time.Since(t0).Round(time.Millisecond), median(readDur).Round(time.Millisecond), maxDur(readDur).Round(time.Millisecond), worst.Round(time.Millisecond), median(probeRTT).Round(time.Microsecond), maxDur(probeRTT).Round(time.Millisecond)))
	if len(readDur) < 20 {
		res.Incon = append(res.Incon, "fewer than 20 reads completed: no read load to speak of")
	}
	return
}

const readLoadRule = "two servers, one with the default lock and one with --spinlock, each: a collection of 40 000 (thorough 120 000) points with a field, 7 objects with EX 0.6-1.8 s and a channel with EX 1.2 s elsewhere, then 6 (thorough 4-8 by shard) connections loop slow reads over the large collection (SCAN WHERE COUNT, NEARBY WHERE LIMIT IDS, SCAN WHEREEVAL COUNT, SCAN WHERE IDS) and nothing writes; a probe connection only reads. " +
	"Oracle: never-early as everywhere; every deadline must have been honoured within 10 x (200 ms sweep period + 250 ms low-priority spin + longest measured read), at least 5 s (10 s with --spinlock), after the last deadline - a time bound, stated as such: it is a violation (expiry-starved-by-readers, with --spinlock spinlock-readers-starve-writers) only if a second run reproduces it, the probe's own reads were answered promptly (median <= 100 ms, max <= 1 s) and an idle reference server in the same process swept 10 successive canaries meanwhile; otherwise inconclusive. Non-trivial: at least 20 reads completed while the deadlines passed."

func TestC14_ReadLoad(t *testing.T) {
	c := ev.New("C14", "readload", "exploration")
	t.Cleanup(c.Flush)
	c.Rule(readLoadRule)
	c.Assume("eventual-under-read-load is decided by a stated time bound (>= 5 s, with --spinlock >= 10 s, against an expected <= 0.7 s), guarded by probe promptness and a same-process reference sweeper; a violation is reported only when a second run reproduces it")
	readers := 6
	if ev.Thorough() {
		readers = 4 + ev.Shard()%5
	}
	ps := []readLoadParams{
		{Big: ev.Pick(40000, 120000), Readers: readers},
		{Big: ev.Pick(40000, 120000), Readers: readers, Spinlock: true},
	}
	results := make([]readLoadResult, len(ps))
	var wg sync.WaitGroup
	for i := range ps {
		wg.Add(1)
		go func(i int) {
			defer wg.Done()
			results[i] = runReadLoad(ps[i])
		}(i)
	}
	wg.Wait()
	for i, p := range ps {
		res := results[i]
		c.Case()
		tag := map[bool]string{false: "default-lock", true: "spinlock"}[p.Spinlock]
		if res.V != nil && res.V.Key != "expired-early" {
			// a time bound decides: report only what a second, solo run reproduces
			again := runReadLoad(p)
			c.Case()
			if again.V == nil || again.V.Key != res.V.Key {
				c.Inconclusive("%s: %s [not reproduced by a second run: %v]", tag, res.V.What, again.Incon)
				res.V = nil
				res.Incon = append(res.Incon, "first run exceeded the bound, second did not")
			} else {
				res = again
			}
		}
		for l, n := range res.Labels {
			c.LabelN(tag+":"+l, n)
		}
		for _, s := range res.Notes {
			c.Note("%s", s)
		}
		for _, s := range res.Incon {
			c.Inconclusive("%s: %s", tag, s)
		}
		if res.V == nil && len(res.Incon) == 0 {
			c.NonTrivial(fmt.Sprintf("%s/big%d/readers%d", tag, p.Big, p.Readers))
			c.Sample(map[string]any{"params": p, "notes": res.Notes})
		}
		if res.V != nil {
			path := c.Violation(res.V.Key, res.V.What+" [reproduced by a second run]", map[string]any{"params": p})
			t.Errorf("VIOLATION-CANDIDATE key=%s: %s (replay %s)", res.V.Key, res.V.What, path)
		}
	}
}

func replayReadLoad(t *testing.T, c *ev.Collector, data json.RawMessage) {
	var d struct {
		Params readLoadParams `json:"params"`
	}
	if err := json.Unmarshal(data, &d); err != nil || d.Params.Big == 0 {
		t.Fatalf("bad replay data: %v", err)
	}
	c.Case()
	res := runReadLoad(d.Params)
	for _, s := range res.Incon {
		c.Inconclusive("%s", s)
	}
	if res.V != nil {
		c.Violation(res.V.Key, res.V.What, map[string]any{"params": d.Params})
		t.Errorf("VIOLATION-CANDIDATE key=%s: %s", res.V.Key, res.V.What)
	}
}

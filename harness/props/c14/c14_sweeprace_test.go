package c14

import (
	"encoding/json"
	"fmt"
	"os"
	"sort"
	"strconv"
	"strings"
	"sync"
	"testing"
	"time"

	"github.com/tidwall/tile38/verif/harness/ev"
	"github.com/tidwall/tile38/verif/harness/t38"
	"pgregory.net/rapid"
)

// The sweep-race sub-check: the sweeper must be one atomic step with respect
// to client writes. Thousands of objects share a deadline, so that one sweep
// removes hundreds to thousands of them, while several connections lift the
// deadline of individual objects (SET without EX, PERSIST, EXPIRE/SET EX far
// in the future) right around it. An acknowledged deadline-removing write must
// never be undone: the object is served by every later read and the log holds
// no `del key id` behind that write.

type raceParams struct {
	Seed     int `json:"seed"`
	Rounds   int `json:"rounds"`
	PerWave  int `json:"per_wave"`
	Waves    int `json:"waves"`
	Writers  int `json:"writers"`
	Ballast  int `json:"ballast"`
	BaseTTL  int `json:"base_ttl_ms"`
	WaveStep int `json:"wave_step_ms"`
}

type raceChoices struct {
	Order [][]uint32 // per wave: sort keys that order the ids of the wave
	Ops   [][]uint32 // per wave: operation kind per id
}

type raceOp struct {
	id      string
	kind    string // set | persist | expire | setex
	s, a    time.Time
	applied bool // acknowledged with success: the object has no short deadline from a on
}

type raceWave struct {
	ids    []string
	lo, hi time.Time
	next   []int // per writer: next index into its share
	share  [][]int
	ops    []uint32
}

func bigPolygon(n int) string {
	var b strings.Builder
	b.WriteString(`{"type":"Polygon","coordinates":[[`)
	for i := 0; i < n; i++ {
		// a zig-zag ring; validity of the shape does not matter for parsing cost
		x := -115 + float64(i%2)*0.01 + float64(i)*1e-6
		y := 33 + float64(i)*1e-5
		fmt.Fprintf(&b, "[%s,%s],", strconv.FormatFloat(x, 'f', -1, 64), strconv.FormatFloat(y, 'f', -1, 64))
	}
	b.WriteString(`[-115,33]]]}`)
	return b.String()
}

type raceRound struct {
	Objects, Writes, Applied, AppliedInWindow, Late int
}

type raceResult struct {
	V      *violation
	Incon  []string
	Labels map[string]int
	Rounds []raceRound
}

func runSweepRace(p raceParams) (res raceResult) {
	res.Labels = map[string]int{}
	var vmu sync.Mutex
	setV := func(key, format string, a ...any) {
		vmu.Lock()
		if res.V == nil {
			res.V = &violation{Key: key, What: fmt.Sprintf(format, a...)}
		}
		vmu.Unlock()
	}
	label := func(l string, n int) {
		vmu.Lock()
		res.Labels[l] += n
		vmu.Unlock()
	}
	srv, err := startServer("")
	if err != nil {
		res.Incon = append(res.Incon, "server start: "+err.Error())
		return
	}
	defer srv.Stop()
	t0 := time.Now()
	ms := func(t time.Time) int64 { return t.Sub(t0).Milliseconds() }
	main := srv.MustDial()
	defer main.Close()
	poly := bigPolygon(3000)

	gen := rapid.Custom(func(t *rapid.T) raceChoices {
		var c raceChoices
		for w := 0; w < p.Waves; w++ {
			c.Order = append(c.Order, rapid.SliceOfN(rapid.Uint32(), p.PerWave, p.PerWave).Draw(t, "order"))
			c.Ops = append(c.Ops, rapid.SliceOfN(rapid.Uint32(), p.PerWave, p.PerWave).Draw(t, "ops"))
		}
		return c
	})

	type protected struct {
		op  raceOp
		key string
	}
	var allProtected []protected
	unprotectedMustBeGone := map[string][]string{} // key -> ids never touched

	for round := 0; round < p.Rounds && res.V == nil; round++ {
		ch := gen.Example(p.Seed*1000 + round)
		key := fmt.Sprintf("r%d", round)
		waves := make([]*raceWave, p.Waves)
		// ---- load: every wave is one pipelined batch with one TTL
		for w := 0; w < p.Waves; w++ {
			wv := &raceWave{ops: ch.Ops[w]}
			ttl := p.BaseTTL + w*p.WaveStep
			idx := make([]int, p.PerWave)
			for i := range idx {
				idx[i] = i
			}
			sort.SliceStable(idx, func(a, b int) bool { return ch.Order[w][idx[a]] < ch.Order[w][idx[b]] })
			var buf []byte
			for i := 0; i < p.PerWave; i++ {
				id := fmt.Sprintf("w%d_%05d", w, i)
				wv.ids = append(wv.ids, id)
				buf = append(buf, t38.EncodeCmd("SET", key, id, "EX", ttlSeconds(ttl), "POINT", "33", "-115")...)
			}
			s := time.Now()
			if err := main.SendRaw(buf); err != nil {
				res.Incon = append(res.Incon, "load: "+err.Error())
				return
			}
			for i := 0; i < p.PerWave; i++ {
				v, err := main.Recv()
				if err != nil || v.Kind != '+' {
					res.Incon = append(res.Incon, fmt.Sprintf("load reply: %v %v", v, err))
					return
				}
			}
			a := time.Now()
			d := time.Duration(ttl) * time.Millisecond
			wv.lo, wv.hi = s.Add(d), a.Add(d)
			wv.share = make([][]int, p.Writers)
			for k, i := range idx {
				wv.share[k%p.Writers] = append(wv.share[k%p.Writers], i)
			}
			wv.next = make([]int, p.Writers)
			waves[w] = wv
		}
		firstLo, lastHi := waves[0].lo, waves[0].hi
		for _, wv := range waves {
			if wv.lo.Before(firstLo) {
				firstLo = wv.lo
			}
			if wv.hi.After(lastHi) {
				lastHi = wv.hi
			}
		}
		startAt := firstLo.Add(-150 * time.Millisecond)
		stopAt := lastHi.Add(300 * time.Millisecond)
		if time.Now().After(startAt) {
			label("round-loaded-too-slowly(writers-start-late)", 1)
		}

		// ---- ballast: keep the exclusive lock busy without logging anything
		// (SET ... XX on a missing id parses a large polygon under the write lock
		// and then changes nothing)
		var wg sync.WaitGroup
		stopBallast := make(chan struct{})
		for b := 0; b < p.Ballast; b++ {
			wg.Add(1)
			go func() {
				defer wg.Done()
				c, err := srv.Dial()
				if err != nil {
					return
				}
				defer c.Close()
				cmd := t38.EncodeCmd("SET", "ballast", "x", "XX", "OBJECT", poly)
				for {
					select {
					case <-stopBallast:
						return
					default:
					}
					if c.SendRaw(cmd) != nil {
						return
					}
					if _, err := c.Recv(); err != nil {
						return
					}
				}
			}()
		}

		// ---- writers
		perWriter := make([][]raceOp, p.Writers)
		var wwg sync.WaitGroup
		for wi := 0; wi < p.Writers; wi++ {
			wwg.Add(1)
			go func(wi int) {
				defer wwg.Done()
				c, err := srv.Dial()
				if err != nil {
					return
				}
				defer c.Close()
				if d := time.Until(startAt); d > 0 {
					time.Sleep(d)
				}
				var mine []raceOp
				var prot []int // indexes into mine of applied ops
				n := 0
				for {
					now := time.Now()
					if now.After(stopAt) {
						break
					}
					// the wave whose deadline is closest to now and that still has ids for this writer
					best := -1
					var bestD time.Duration
					for w, wv := range waves {
						if wv.next[wi] >= len(wv.share[wi]) {
							continue
						}
						d := now.Sub(wv.lo)
						if d < -150*time.Millisecond || d > 300*time.Millisecond {
							continue
						}
						if d < 0 {
							d = -d
						}
						if best < 0 || d < bestD {
							best, bestD = w, d
						}
					}
					if best < 0 {
						time.Sleep(500 * time.Microsecond)
						continue
					}
					wv := waves[best]
					i := wv.share[wi][wv.next[wi]]
					wv.next[wi]++
					id := wv.ids[i]
					op := raceOp{id: id}
					var args []string
					switch wv.ops[i] % 8 {
					case 0, 1, 2, 3:
						op.kind = "set"
						args = []string{"SET", key, id, "POINT", "33.001", "-115"}
					case 4, 5:
						op.kind = "persist"
						args = []string{"PERSIST", key, id}
					case 6:
						op.kind = "expire"
						args = []string{"EXPIRE", key, id, "1000"}
					default:
						op.kind = "setex"
						args = []string{"SET", key, id, "EX", "1000", "POINT", "33.001", "-115"}
					}
					op.s = time.Now()
					v, err := c.Do(args...)
					op.a = time.Now()
					if err != nil {
						setV("transport", "%s: %v", t38.CmdString(args), err)
						return
					}
					switch {
					case (op.kind == "set" || op.kind == "setex") && v.Kind == '+':
						op.applied = true
					case (op.kind == "persist" || op.kind == "expire") && v.Kind == ':' && v.Int == 1:
						op.applied = true
					case (op.kind == "persist" || op.kind == "expire") && v.Kind == ':' && v.Int == 0:
						// lost the race the lawful way: already swept. Never early:
						if op.a.Before(wv.lo.Add(-eps)) {
							setV("expired-early", "%s answered 0 at %dms, before the earliest deadline %dms of %s/%s", t38.CmdString(args), ms(op.a), ms(wv.lo), key, id)
						}
					default:
						setV("reply", "%s: %s", t38.CmdString(args), v)
						return
					}
					mine = append(mine, op)
					if op.applied {
						prot = append(prot, len(mine)-1)
					}
					n++
					// every later read must serve an object whose deadline was lifted
					if n%6 == 0 && len(prot) > 3 {
						k := prot[len(prot)-1-int(wv.ops[i]>>8)%min(len(prot), 200)]
						po := mine[k]
						rs := time.Now()
						gv, err := c.Do("GET", key, po.id)
						ra := time.Now()
						if err == nil && gv.Null {
							setV("stale-timer", "%s %s %s was acknowledged at %dms (sent %dms; the initial deadline of the object lies in [%d,%d]ms) and nothing deleted it afterwards, yet GET sent at %dms (answered %dms) does not find it: the sweeper removed the successor",
								strings.ToUpper(po.kind), key, po.id, ms(po.a), ms(po.s), ms(waveOf(waves, po.id).lo), ms(waveOf(waves, po.id).hi), ms(rs), ms(ra))
						}
						label("mid-run-reads-of-lifted-objects", 1)
					}
				}
				perWriter[wi] = mine
			}(wi)
		}
		wwg.Wait()
		close(stopBallast)
		wg.Wait()

		// ---- witness: a sweep that ran after every deadline of the round
		if d := time.Until(lastHi.Add(2 * eps)); d > 0 {
			time.Sleep(d)
		}
		cid := fmt.Sprintf("c%d", round)
		main.MustDo("SET", canaryKey, cid, "EX", "0.010", "STRING", "x")
		cstart := time.Now()
		for {
			v, err := main.Do("EXISTS", canaryKey, cid)
			if err != nil {
				res.Incon = append(res.Incon, "canary: "+err.Error())
				return
			}
			if !(v.Kind == ':' && v.Int == 1) {
				break
			}
			if time.Since(cstart) > delta+repollMore {
				res.Incon = append(res.Incon, fmt.Sprintf("round %d: canary not swept within %v", round, delta+repollMore))
				return
			}
			time.Sleep(5 * time.Millisecond)
		}

		// ---- final read of the round
		rs := time.Now()
		v, err := main.Do("SCAN", key, "LIMIT", "100000000", "IDS")
		ra := time.Now()
		if err != nil || v.Kind != '*' || len(v.Arr) != 2 {
			res.Incon = append(res.Incon, fmt.Sprintf("SCAN: %v %v", v, err))
			return
		}
		present := map[string]bool{}
		for _, e := range v.Arr[1].Arr {
			present[e.Str] = true
		}
		touched := map[string]bool{}
		nApplied, nLate, inWindow, appliedInWindow := 0, 0, 0, 0
		for _, ops := range perWriter {
			for _, op := range ops {
				touched[op.id] = true
				wv := waveOf(waves, op.id)
				if !op.a.Before(wv.lo.Add(-eps)) {
					inWindow++
				}
				if op.applied {
					nApplied++
					if !op.a.Before(wv.lo.Add(-eps)) {
						appliedInWindow++
					}
					allProtected = append(allProtected, protected{op: op, key: key})
					if !present[op.id] {
						setV("stale-timer", "%s %s %s was acknowledged at %dms (sent %dms; the initial deadline of the object lies in [%d,%d]ms) and nothing deleted it afterwards, yet SCAN %s IDS at [%d,%d]ms does not list it: the sweeper removed the successor",
							strings.ToUpper(op.kind), key, op.id, ms(op.a), ms(op.s), ms(wv.lo), ms(wv.hi), key, ms(rs), ms(ra))
					}
				} else {
					nLate++
					if present[op.id] {
						setV("resurrected", "%s %s %s answered 0 (object already expired) at %dms but SCAN at [%d,%d]ms lists it", strings.ToUpper(op.kind), key, op.id, ms(op.a), ms(rs), ms(ra))
					}
				}
			}
		}
		for _, wv := range waves {
			for _, id := range wv.ids {
				if !touched[id] {
					unprotectedMustBeGone[key] = append(unprotectedMustBeGone[key], id)
					if present[id] {
						setV("survived-sweep", "%s/%s (deadline in [%d,%d]ms, never touched again) is still listed at [%d,%d]ms although a canary set after %dms has been swept", key, id, ms(wv.lo), ms(wv.hi), ms(rs), ms(ra), ms(lastHi))
					}
				}
			}
		}
		label("writes-acknowledged-lifting-a-deadline", nApplied)
		label("writes-at-or-after-the-earliest-deadline", inWindow)
		label("writes-that-found-the-object-already-swept", nLate)
		label("objects-loaded", p.Waves*p.PerWave)
		label("rounds", 1)
		label("deadline-lifting-writes-acknowledged-at-or-after-the-earliest-deadline", appliedInWindow)
		res.Rounds = append(res.Rounds, raceRound{Objects: p.Waves * p.PerWave, Writes: nApplied + nLate, Applied: nApplied, AppliedInWindow: appliedInWindow, Late: nLate})
	}
	if res.V != nil {
		return
	}

	// ---- the log: no expiry delete behind an acknowledged deadline-lifting write
	main.MustDo("PING")
	cmds, _, err := t38.ParseAOF(srv.AOFPath())
	if err != nil {
		res.Incon = append(res.Incon, "aof: "+err.Error())
		return
	}
	lastWrite := map[string]int{}
	delAfter := map[string]int{}
	nDel := 0
	for i, c := range cmds {
		a := c.Args
		if len(a) < 3 {
			continue
		}
		sk := a[1] + "\x00" + a[2]
		switch a[0] {
		case "SET", "PERSIST", "EXPIRE":
			lastWrite[sk] = i + 1
			delete(delAfter, sk)
		case "del":
			nDel++
			delAfter[sk] = i + 1
		}
	}
	for _, pr := range allProtected {
		sk := pr.key + "\x00" + pr.op.id
		if lastWrite[sk] == 0 {
			setV("aof-missing-command", "acknowledged %s %s %s is not in the log", strings.ToUpper(pr.op.kind), pr.key, pr.op.id)
			return
		}
		if pos, ok := delAfter[sk]; ok {
			setV("aof-spurious-del", "the log holds the expiry `del %s %s` at entry %d, behind the acknowledged %s at entry %d that lifted the object's deadline", pr.key, pr.op.id, pos, strings.ToUpper(pr.op.kind), lastWrite[sk])
			return
		}
	}
	label("aof-expiry-deletes", nDel)
	label("aof-checked", 1)
	return
}

func waveOf(waves []*raceWave, id string) *raceWave {
	// ids are "w<wave>_<n>"
	w, _ := strconv.Atoi(id[1:strings.IndexByte(id, '_')])
	return waves[w]
}

func raceDefaults() raceParams {
	return raceParams{
		Seed:     int(ev.Seed("sweeprace") >> 40),
		Rounds:   ev.Pick(6, 14),
		PerWave:  ev.Pick(800, 2500),
		Waves:    8,
		Writers:  envInt("C14_WRITERS", 8),
		Ballast:  envInt("C14_BALLAST", 2),
		BaseTTL:  ev.Pick(600, 1200),
		WaveStep: 110,
	}
}

const raceRule = "rounds of 8 waves x 800 (thorough 2500) points, each wave loaded as one pipelined batch with one TTL (0.6 s, thorough 1.2 s, + 0.11 s per wave) so that single sweeps remove hundreds to thousands of objects; " +
	"from 150 ms before the first deadline until 300 ms after the last, 8 connections lift the deadline of objects of the wave whose deadline is nearest (disjoint shares, order and operation drawn through rapid: SET without EX 50 %, PERSIST 25 %, EXPIRE 1000 12 %, SET EX 1000 12 %), " +
	"and 2 connections keep the exclusive lock busy with unlogged SET ... XX of a 3000-point polygon; every 6th write re-reads an object whose deadline was lifted earlier. After a canary-proved sweep the key is listed and the append-only file parsed. " +
	"Oracle: an acknowledged deadline-lifting write is never undone (object served by every later read: stale-timer; no expiry del behind it in the log: aof-spurious-del); a PERSIST/EXPIRE answered 0 must not precede the earliest deadline; untouched objects are gone after the witness sweep. " +
	"Non-trivial: a round with at least 50 acknowledged deadline-lifting writes at or after the earliest deadline of their object; distinct by round."

func TestC14_SweepAtomicity(t *testing.T) {
	c := ev.New("C14", "sweeprace", "exploration")
	t.Cleanup(c.Flush)
	c.Rule(raceRule)
	c.Assume("the machine's wall clock does not step during a round; a canary that is not swept within 4.5 s makes the run inconclusive")
	p := raceDefaults()
	ev.Rapid("sweeprace", p.Rounds)
	res := runSweepRace(p)
	c.Cases(res.Labels["rounds"])
	for l, n := range res.Labels {
		c.LabelN(l, n)
	}
	for _, s := range res.Incon {
		c.Inconclusive("%s", s)
	}
	for i, rd := range res.Rounds {
		c.Note("round %d: %d objects, %d writes: %d lifted a deadline (%d of them acknowledged at/after the earliest deadline), %d found the object already swept", i, rd.Objects, rd.Writes, rd.Applied, rd.AppliedInWindow, rd.Late)
		if rd.AppliedInWindow >= 50 {
			c.NonTrivial(fmt.Sprintf("seed%d/round%d", p.Seed, i))
		}
	}
	if c.WantSample() {
		c.Sample(map[string]any{"params": p, "rounds": res.Rounds})
	}
	if res.V != nil {
		path := c.Violation(res.V.Key, res.V.What, map[string]any{"params": p})
		t.Errorf("VIOLATION-CANDIDATE key=%s: %s (replay %s)", res.V.Key, res.V.What, path)
	}
}

func replaySweepRace(t *testing.T, c *ev.Collector, data json.RawMessage) {
	var d struct {
		Params raceParams `json:"params"`
	}
	if err := json.Unmarshal(data, &d); err != nil || d.Params.Rounds == 0 {
		t.Fatalf("bad replay data: %v", err)
	}
	// a race: give it a few attempts
	for i := 0; i < 3; i++ {
		res := runSweepRace(d.Params)
		c.Cases(res.Labels["rounds"])
		for _, s := range res.Incon {
			c.Inconclusive("%s", s)
		}
		if res.V != nil {
			c.Violation(res.V.Key, res.V.What, map[string]any{"params": d.Params})
			t.Errorf("VIOLATION-CANDIDATE key=%s: %s", res.V.Key, res.V.What)
			return
		}
	}
}

// hugeEXProbe is the regression probe of expiry-overflow-huge-ex: a TTL whose
// nanosecond value overflows int64 must not wrap into the past.
func hugeEXProbe() (bad string, err error) {
	srv, err := startServer("")
	if err != nil {
		return "", err
	}
	defer srv.Stop()
	c := srv.MustDial()
	defer c.Close()
	j := srv.MustDial()
	defer j.Close()
	if err := j.SetJSON(true); err != nil {
		return "", err
	}
	must := func(args ...string) t38.Value { return c.MustDo(args...) }
	if v := must("SET", "k", "a", "EX", "9999999999999999999999", "POINT", "1", "2"); v.Kind != '+' {
		return "SET k a EX 9999999999999999999999 POINT 1 2 => " + v.String(), nil
	}
	must("SET", "k", "b", "POINT", "1", "2")
	if v := must("EXPIRE", "k", "b", "1e30"); v.Kind != ':' || v.Int != 1 {
		return "EXPIRE k b 1e30 => " + v.String(), nil
	}
	if v := must("SETCHAN", "hc", "EX", "1e22", "NEARBY", "hk", "FENCE", "POINT", "33", "-115", "1000"); v.Kind != ':' || v.Int != 1 {
		return "SETCHAN hc EX 1e22 ... => " + v.String(), nil
	}
	// a sweep certainly ran: canary
	must("SET", canaryKey, "c", "EX", "0.010", "STRING", "x")
	start := time.Now()
	for {
		v := must("EXISTS", canaryKey, "c")
		if !(v.Kind == ':' && v.Int == 1) {
			break
		}
		if time.Since(start) > delta+repollMore {
			return "", fmt.Errorf("canary not swept")
		}
		time.Sleep(5 * time.Millisecond)
	}
	const huge = 1_000_000_000 // seconds
	for _, id := range []string{"a", "b"} {
		if v := must("GET", "k", id); v.Null || v.IsErr() {
			return fmt.Sprintf("GET k %s => %s after a sweep: the object with a huge TTL was removed", id, v), nil
		}
		if v := must("TTL", "k", id); v.Kind != ':' || v.Int < huge {
			return fmt.Sprintf("TTL k %s => %s, expected at least %d", id, v, huge), nil
		}
	}
	r, err := j.DoJSON("CHANS", "*")
	if err != nil {
		return "CHANS *: " + err.Error(), nil
	}
	var list []struct {
		Name string `json:"name"`
		TTL  int64  `json:"ttl"`
	}
	if json.Unmarshal(r.M["chans"], &list) != nil || len(list) != 1 || list[0].Name != "hc" || list[0].TTL < huge {
		return "CHANS * after a sweep => " + r.Raw + ": channel with EX 1e22 missing or without a huge ttl", nil
	}
	return "", nil
}

func envInt(name string, def int) int {
	if n, err := strconv.Atoi(os.Getenv(name)); err == nil && n > 0 {
		return n
	}
	return def
}

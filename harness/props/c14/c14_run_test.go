package c14

import (
	"encoding/json"
	"fmt"
	"math"
	"os"
	"path/filepath"
	"sort"
	"strconv"
	"strings"
	"sync"
	"time"

	"github.com/tidwall/tile38/verif/harness/t38"
)

// Interval oracle constants. eps absorbs the difference between the client's
// monotonic clock and the server's wall clock readings (slew) and float
// rounding of the TTL text; it never decides a case on its own.
const (
	eps        = 5 * time.Millisecond
	delta      = 1500 * time.Millisecond // expected bound of the sweep delay (statistics only)
	repollMore = 3 * time.Second         // additional budget before a wait is given up as inconclusive
)

// canaryKey sorts before every other key of a case: the sweeper walks the
// collections in key order, so a sweep that stops early (e.g. at a collection
// whose next deadline is still far away) still removes the canary and the
// witness argument then convicts it for everything it left behind.
const canaryKey = "a0c"

type violation struct {
	Key  string
	What string
}

type deadline struct {
	lo, hi time.Time // the server-side deadline lies in [lo, hi]
	ttl    time.Duration
	long   bool
}

type mobj struct {
	kind string // point | string | chan | hook
	dl   *deadline
}

// lcmd is a client command that the server must have logged.
type lcmd struct {
	args   []string
	op     string // set expire persist fset del rename sethook delhook
	key    string
	id     string
	kind   string
	newKey string
	ex     bool
	s      time.Time
	ttl    time.Duration
}

type obsRec struct {
	p       int // number of logged client commands issued before the observation
	hook    bool
	key, id string
	present bool
	src     string
}

type fenceMsg struct {
	key, id string
	t       time.Time
}

type watch struct {
	hook    bool
	key, id string
	oldHi   time.Time
	how     string
}

type result struct {
	V          *violation
	Labels     map[string]int
	Incon      []string
	Sig        string
	NonTrivial bool
	History    []string
	Notes      []string
	Wall       time.Duration
}

type runner struct {
	cs  Case
	t0  time.Time
	srv *t38.Srv
	dir string
	c   *t38.Conn
	j   *t38.Conn
	fol *t38.Srv
	fc  *t38.Conn

	cols      map[string]map[string]*mobj
	hooks     map[string]*mobj
	gone      map[string]string     // slot -> why the model holds no object there
	slotStale map[string][]deadline // superseded deadlines per slot

	sweepProof time.Time // a sweep pass at or after this instant is known to have completed
	L          []lcmd
	obs        []obsRec
	restarts   []int // len(L) at each restart

	fmu        sync.Mutex
	fdel       map[string][]fenceMsg
	fsubs      []*t38.Conn
	markers    map[string]int
	fenceOK    bool
	fenceEpoch int

	followerTaint string // first write that would make a self-expiring follower diverge

	hist    []string
	notes   []string
	labels  map[string]int
	incon   []string
	sig     strings.Builder
	nt      bool
	watches []watch
	canaryN int
}

func slotKey(hook bool, key, id string) string {
	if hook {
		return "hook\x00" + id
	}
	return key + "\x00" + id
}

func (r *runner) fail(key, format string, a ...any) {
	panic(&violation{Key: key, What: fmt.Sprintf(format, a...)})
}

type inconclusive struct{ what string }

func (r *runner) giveUp(format string, a ...any) {
	panic(&inconclusive{fmt.Sprintf(format, a...)})
}

func (r *runner) label(s string) { r.labels[s]++ }

func (r *runner) ms(t time.Time) int64 { return t.Sub(r.t0).Milliseconds() }

func (r *runner) logf(format string, a ...any) {
	if len(r.hist) < 4000 {
		r.hist = append(r.hist, fmt.Sprintf(format, a...))
	}
}

// do sends one command on the main connection and returns the reply with the
// send/receive instants.
func (r *runner) do(args ...string) (t38.Value, time.Time, time.Time) {
	return r.doOn(r.c, args...)
}

func (r *runner) doOn(c *t38.Conn, args ...string) (t38.Value, time.Time, time.Time) {
	s := time.Now()
	v, err := c.Do(args...)
	a := time.Now()
	if err != nil {
		if err == t38.ErrHang {
			r.giveUp("no reply to %s within the hang budget", t38.CmdString(args))
		}
		r.fail("transport", "%s: %v", t38.CmdString(args), err)
	}
	r.logf("%6d..%6dms %s => %s", r.ms(s), r.ms(a), t38.CmdString(args), clip(v.String()))
	return v, s, a
}

func clip(s string) string {
	if len(s) > 300 {
		return s[:300] + "..."
	}
	return s
}

func (r *runner) lookup(hook bool, key, id string) *mobj {
	if hook {
		return r.hooks[id]
	}
	return r.cols[key][id]
}

func (r *runner) remove(hook bool, key, id, why string) {
	if hook {
		delete(r.hooks, id)
	} else {
		delete(r.cols[key], id)
		if len(r.cols[key]) == 0 {
			delete(r.cols, key)
		}
	}
	r.gone[slotKey(hook, key, id)] = why
}

func (r *runner) proven(o *mobj) bool {
	return o.dl != nil && !r.sweepProof.IsZero() && o.dl.hi.Add(eps).Before(r.sweepProof)
}

func certainlyPresent(o *mobj, a time.Time) bool {
	return o.dl == nil || a.Before(o.dl.lo.Add(-eps))
}

// lossClass names the root cause class when an object that must be visible is not.
func (r *runner) lossClass(hook bool, key, id string, o *mobj, a time.Time) string {
	for _, d := range r.slotStale[slotKey(hook, key, id)] {
		if !a.Before(d.lo.Add(-eps)) {
			return "stale-timer"
		}
	}
	if o.dl != nil {
		return "expired-early"
	}
	return "vanished"
}

func (r *runner) describe(hook bool, key, id string, o *mobj) string {
	what := fmt.Sprintf("%s/%s", key, id)
	if hook {
		what = o.kind + " " + id
	}
	if o.dl == nil {
		what += " (no TTL"
	} else {
		what += fmt.Sprintf(" (deadline in [%d,%d]ms", r.ms(o.dl.lo), r.ms(o.dl.hi))
	}
	for _, d := range r.slotStale[slotKey(hook, key, id)] {
		what += fmt.Sprintf(", superseded deadline in [%d,%d]ms", r.ms(d.lo), r.ms(d.hi))
	}
	return what + ")"
}

// observe feeds one presence/absence observation of a slot, made by a command
// sent at s and answered at a, into the interval oracle.
func (r *runner) observe(hook bool, key, id string, present bool, s, a time.Time, src string) {
	r.obs = append(r.obs, obsRec{p: len(r.L), hook: hook, key: key, id: id, present: present, src: src})
	o := r.lookup(hook, key, id)
	name := key + "/" + id
	if hook {
		name = "hook/channel " + id
	}
	if o == nil {
		if present {
			why := r.gone[slotKey(hook, key, id)]
			if why == "" {
				r.fail("phantom", "%s: %s is visible at [%d,%d]ms but was never created", src, name, r.ms(s), r.ms(a))
			}
			r.fail("resurrected", "%s: %s is visible at [%d,%d]ms after it was %s", src, name, r.ms(s), r.ms(a), why)
		}
		return
	}
	if present {
		if r.proven(o) {
			r.fail("survived-sweep", "%s: %s still visible at [%d,%d]ms although an object whose deadline is not before %dms has already been expired by the sweeper",
				src, r.describe(hook, key, id, o), r.ms(s), r.ms(a), r.ms(r.sweepProof))
		}
		if o.dl == nil {
			r.label("read:persistent-seen")
		} else if certainlyPresent(o, a) {
			r.label("read:before-deadline-seen")
		} else {
			r.label("read:in-window-seen")
		}
		for i := range r.watches {
			w := &r.watches[i]
			if w.how != "" && w.hook == hook && w.key == key && w.id == id && !r.sweepProof.IsZero() && w.oldHi.Add(eps).Before(r.sweepProof) {
				r.nt = true
				r.label("nt:successor-outlived-old-timer:" + w.how)
				w.how = ""
			}
		}
		return
	}
	if !(o.dl != nil && !a.Before(o.dl.lo.Add(-eps))) {
		class := r.lossClass(hook, key, id, o, a)
		r.fail(class, "%s: %s is not visible in a reply received at %dms (sent %dms)", src, r.describe(hook, key, id, o), r.ms(a), r.ms(s))
	}
	// legitimate expiry
	lat := a.Sub(o.dl.hi)
	switch {
	case lat <= 300*time.Millisecond:
		r.label("expiry-seen-within:300ms")
	case lat <= delta:
		r.label("expiry-seen-within:1.5s")
	default:
		r.label("expiry-seen-later-than-delta(includes-poll-gaps)")
	}
	if o.dl.lo.After(r.sweepProof) {
		r.sweepProof = o.dl.lo
	}
	r.label("expired:" + o.kind)
	r.remove(hook, key, id, "expired")
}

func sortedIDs(m map[string]*mobj) []string {
	var ids []string
	for id := range m {
		ids = append(ids, id)
	}
	sort.Strings(ids)
	return ids
}

func kindMatch(filter, kind string) bool { return filter == "" || filter == kind }

func (r *runner) checkCount(key, filter string, n int, s, a time.Time, src string) {
	lower, upper := 0, 0
	var unsure []string
	var provenAny bool
	var lossOf string
	for _, id := range sortedIDs(r.cols[key]) {
		o := r.cols[key][id]
		if !kindMatch(filter, o.kind) {
			continue
		}
		switch {
		case certainlyPresent(o, a):
			lower++
			upper++
			if lossOf == "" || r.lossClass(false, key, id, o, a) == "stale-timer" {
				lossOf = id
			}
		case r.proven(o):
			provenAny = true
			unsure = append(unsure, id)
		default:
			upper++
			unsure = append(unsure, id)
		}
	}
	if n < lower {
		o := r.cols[key][lossOf]
		r.fail(r.lossClass(false, key, lossOf, o, a), "%s = %d at [%d,%d]ms but %d objects of %s must still be visible (e.g. %s)",
			src, n, r.ms(s), r.ms(a), lower, key, r.describe(false, key, lossOf, o))
	}
	if n > upper {
		if provenAny {
			r.fail("survived-sweep", "%s = %d at [%d,%d]ms but at most %d objects of %s can be visible: the sweeper already expired an object with a later deadline", src, n, r.ms(s), r.ms(a), upper, key)
		}
		r.fail("resurrected", "%s = %d at [%d,%d]ms but at most %d objects of %s exist", src, n, r.ms(s), r.ms(a), upper, key)
	}
	if n == lower {
		for _, id := range unsure {
			r.observe(false, key, id, false, s, a, src)
		}
	}
	r.label("count-checked")
}

func (r *runner) checkIDs(key, filter string, v t38.Value, s, a time.Time, src string) {
	if v.Kind != '*' || len(v.Arr) != 2 || v.Arr[1].Kind != '*' {
		r.fail("reply", "%s: unexpected reply %s", src, v)
	}
	seen := map[string]bool{}
	for _, e := range v.Arr[1].Arr {
		id := e.Str
		if seen[id] {
			r.fail("reply", "%s lists id %q twice", src, id)
		}
		seen[id] = true
		if o := r.cols[key][id]; o != nil && !kindMatch(filter, o.kind) {
			r.fail("reply", "%s lists %s/%s which is a %s", src, key, id, o.kind)
		}
		if r.cols[key][id] == nil {
			r.observe(false, key, id, true, s, a, src)
		}
	}
	for _, id := range sortedIDs(r.cols[key]) {
		if kindMatch(filter, r.cols[key][id].kind) {
			r.observe(false, key, id, seen[id], s, a, src)
		}
	}
}

func intReply(v t38.Value) (int, bool) {
	if v.Kind == ':' {
		return int(v.Int), true
	}
	return 0, false
}

func notFound(v t38.Value) bool {
	return v.IsErr() && (strings.Contains(v.Str, "key not found") || strings.Contains(v.Str, "id not found"))
}

func (r *runner) checkTTLValue(hook bool, key, id string, o *mobj, n int, s, a time.Time, src string) {
	if o.dl == nil {
		if n != -1 {
			r.fail("ttl-out-of-range", "%s = %d for %s", src, n, r.describe(hook, key, id, o))
		}
		return
	}
	if n < 0 {
		r.fail("ttl-lost", "%s = %d for %s", src, n, r.describe(hook, key, id, o))
	}
	lo := math.Floor(float64(o.dl.lo.Sub(a)-eps) / float64(time.Second))
	// whole remaining seconds, truncated (implementation mirrored: the reply is int(seconds left))
	hi := math.Floor(float64(o.dl.hi.Sub(s)+eps) / float64(time.Second))
	if lo < 0 {
		lo = 0
	}
	if hi < 0 {
		hi = 0
	}
	if float64(n) < lo || float64(n) > hi {
		r.fail("ttl-out-of-range", "%s = %d at [%d,%d]ms for %s: remaining seconds must be in [%v,%v]", src, n, r.ms(s), r.ms(a), r.describe(hook, key, id, o), lo, hi)
	}
	r.label("ttl-value-checked")
}

// poll performs one read and checks it.
func (r *runner) poll(kind, key, id string) {
	switch kind {
	case "get":
		v, s, a := r.do("GET", key, id)
		if v.IsErr() {
			r.fail("reply", "GET %s %s: %s", key, id, v)
		}
		r.observe(false, key, id, !v.Null, s, a, "GET")
	case "exists":
		v, s, a := r.do("EXISTS", key, id)
		n, ok := intReply(v)
		if !ok && !notFound(v) {
			r.fail("reply", "EXISTS %s %s: %s", key, id, v)
		}
		r.observe(false, key, id, ok && n == 1, s, a, "EXISTS")
	case "ttl":
		v, s, a := r.do("TTL", key, id)
		n, ok := intReply(v)
		if !ok {
			r.fail("reply", "TTL %s %s: %s", key, id, v)
		}
		r.observe(false, key, id, n != -2, s, a, "TTL")
		if o := r.cols[key][id]; o != nil && n != -2 {
			r.checkTTLValue(false, key, id, o, n, s, a, "TTL "+key+" "+id)
		}
	case "scancount", "nearbycount", "searchcount":
		var v t38.Value
		var s, a time.Time
		filter := ""
		switch kind {
		case "scancount":
			v, s, a = r.do("SCAN", key, "COUNT")
		case "nearbycount":
			v, s, a = r.do("NEARBY", key, "COUNT", "POINT", "33", "-115", "100000")
			filter = "point"
		case "searchcount":
			v, s, a = r.do("SEARCH", key, "COUNT")
			filter = "string"
		}
		n, ok := intReply(v)
		if !ok {
			r.fail("reply", "%s %s: %s", kind, key, v)
		}
		r.checkCount(key, filter, n, s, a, kind+" "+key)
	case "scanids":
		v, s, a := r.do("SCAN", key, "IDS")
		r.checkIDs(key, "", v, s, a, "SCAN "+key+" IDS")
	case "nearbyids":
		v, s, a := r.do("NEARBY", key, "IDS", "POINT", "33", "-115", "100000")
		r.checkIDs(key, "point", v, s, a, "NEARBY "+key+" IDS")
	case "searchids":
		v, s, a := r.do("SEARCH", key, "IDS")
		r.checkIDs(key, "string", v, s, a, "SEARCH "+key+" IDS")
	case "hooks":
		r.pollHooks("CHANS", "chan")
		r.pollHooks("HOOKS", "hook")
	default:
		panic("unknown poll " + kind)
	}
}

func (r *runner) pollHooks(cmd, kind string) {
	s := time.Now()
	jr, err := r.j.DoJSON(cmd, "*")
	a := time.Now()
	if err != nil {
		r.fail("reply", "%s *: %v", cmd, err)
	}
	r.logf("%6d..%6dms %s * => %s", r.ms(s), r.ms(a), cmd, clip(jr.Raw))
	var list []struct {
		Name string `json:"name"`
		TTL  int    `json:"ttl"`
	}
	if !jr.OK || json.Unmarshal(jr.M[strings.ToLower(cmd)], &list) != nil {
		r.fail("reply", "%s *: %s", cmd, jr.Raw)
	}
	seen := map[string]int{}
	for _, h := range list {
		seen[h.Name] = h.TTL
		if o := r.hooks[h.Name]; o == nil || o.kind != kind {
			r.observe(true, "", h.Name, true, s, a, cmd)
		}
	}
	for _, name := range sortedIDs(r.hooks) {
		o := r.hooks[name]
		if o.kind != kind {
			continue
		}
		ttl, ok := seen[name]
		r.observe(true, "", name, ok, s, a, cmd)
		if ok {
			if o := r.hooks[name]; o != nil {
				r.checkTTLValue(true, "", name, o, ttl, s, a, cmd+" ttl of "+name)
			}
		}
	}
}

func (r *runner) supersede(hook bool, key, id string, o *mobj, how string) {
	if o == nil || o.dl == nil {
		return
	}
	sk := slotKey(hook, key, id)
	r.slotStale[sk] = append(r.slotStale[sk], *o.dl)
	if !o.dl.long {
		r.watches = append(r.watches, watch{hook: hook, key: key, id: id, oldHi: o.dl.hi, how: how})
		r.label("superseded-deadline:" + how)
	}
}

func newDeadline(s, a time.Time, ttlms int) *deadline {
	d := time.Duration(ttlms) * time.Millisecond
	return &deadline{lo: s.Add(d), hi: a.Add(d), ttl: d, long: ttlms > 1200}
}

func (r *runner) doSet(key, id, kind string, ttlms, n int) {
	args := []string{"SET", key, id}
	if n%3 == 1 {
		args = append(args, "FIELD", "f", strconv.Itoa(n))
	}
	if ttlms > 0 {
		args = append(args, "EX", ttlSeconds(ttlms))
	}
	if kind == "string" {
		args = append(args, "STRING", "v"+strconv.Itoa(n))
	} else {
		args = append(args, "POINT", strconv.FormatFloat(33+float64(n)*0.0001, 'f', -1, 64), "-115")
	}
	v, s, a := r.do(args...)
	if v.Kind != '+' || v.Str != "OK" {
		r.fail("reply", "%s: %s", t38.CmdString(args), v)
	}
	old := r.cols[key][id]
	how := "set-without-ex"
	if ttlms > 0 {
		how = "set-ex"
	}
	r.supersede(false, key, id, old, how)
	o := &mobj{kind: kind}
	if ttlms > 0 {
		o.dl = newDeadline(s, a, ttlms)
	}
	if r.cols[key] == nil {
		r.cols[key] = map[string]*mobj{}
	}
	r.cols[key][id] = o
	delete(r.gone, slotKey(false, key, id))
	r.L = append(r.L, lcmd{args: args, op: "set", key: key, id: id, kind: kind, ex: ttlms > 0, s: s, ttl: time.Duration(ttlms) * time.Millisecond})
}

func (r *runner) doDel(key, id string) {
	args := []string{"DEL", key, id}
	v, s, a := r.do(args...)
	n, ok := intReply(v)
	if !ok || n < 0 || n > 1 {
		r.fail("reply", "DEL: %s", v)
	}
	r.observe(false, key, id, n == 1, s, a, "DEL reply")
	if n == 1 {
		o := r.cols[key][id]
		r.supersede(false, key, id, o, "del")
		r.remove(false, key, id, "deleted")
		r.L = append(r.L, lcmd{args: args, op: "del", key: key, id: id})
	}
}

func (r *runner) step(st Step) {
	fmt.Fprintf(&r.sig, "%s", st.Op)
	switch st.Op {
	case "setex":
		r.doSet(st.Key, st.ID, st.Kind, st.TTL, st.N)
	case "set":
		r.doSet(st.Key, st.ID, st.Kind, 0, st.N)
	case "del":
		r.doDel(st.Key, st.ID)
	case "expire":
		args := []string{"EXPIRE", st.Key, st.ID, ttlSeconds(st.TTL)}
		v, s, a := r.do(args...)
		n, ok := intReply(v)
		if !ok || n < 0 || n > 1 {
			r.fail("reply", "EXPIRE: %s", v)
		}
		r.observe(false, st.Key, st.ID, n == 1, s, a, "EXPIRE reply")
		if n == 1 {
			o := r.cols[st.Key][st.ID]
			r.taintIfInWindow(o, a, "EXPIRE", st.Key, st.ID)
			nd := newDeadline(s, a, st.TTL)
			if o.dl != nil {
				if nd.lo.After(o.dl.hi) {
					r.nt = true
					r.label("nt:expire-lengthens")
					r.supersede(false, st.Key, st.ID, o, "expire-longer")
				} else if nd.hi.Before(o.dl.lo) {
					r.nt = true
					r.label("nt:expire-shortens")
				}
			}
			o.dl = nd
			r.L = append(r.L, lcmd{args: args, op: "expire", key: st.Key, id: st.ID, ex: true, s: s, ttl: nd.ttl})
		}
		fmt.Fprintf(&r.sig, "=%d", n)
	case "persist":
		args := []string{"PERSIST", st.Key, st.ID}
		v, s, a := r.do(args...)
		n, ok := intReply(v)
		if !ok || n < 0 || n > 1 {
			r.fail("reply", "PERSIST: %s", v)
		}
		o := r.cols[st.Key][st.ID]
		if n == 1 {
			r.observe(false, st.Key, st.ID, true, s, a, "PERSIST reply")
			if o.dl == nil {
				r.fail("reply", "PERSIST answered 1 for %s", r.describe(false, st.Key, st.ID, o))
			}
			r.taintIfInWindow(o, a, "PERSIST", st.Key, st.ID)
			r.supersede(false, st.Key, st.ID, o, "persist")
			o.dl = nil
			r.L = append(r.L, lcmd{args: args, op: "persist", key: st.Key, id: st.ID})
		} else if o != nil && o.dl != nil {
			r.observe(false, st.Key, st.ID, false, s, a, "PERSIST reply")
		}
		fmt.Fprintf(&r.sig, "=%d", n)
	case "fset":
		args := []string{"FSET", st.Key, st.ID, "g", strconv.Itoa(st.N)}
		v, s, a := r.do(args...)
		n, ok := intReply(v)
		switch {
		case ok && (n == 0 || n == 1):
			r.observe(false, st.Key, st.ID, true, s, a, "FSET reply")
			if n == 1 {
				r.L = append(r.L, lcmd{args: args, op: "fset", key: st.Key, id: st.ID})
				if o := r.cols[st.Key][st.ID]; o != nil && o.dl != nil {
					r.label("fset-on-ttl-object")
				}
			}
		case notFound(v):
			r.observe(false, st.Key, st.ID, false, s, a, "FSET reply")
		default:
			r.fail("reply", "FSET: %s", v)
		}
	case "rename", "renamenx":
		r.doRename(st.Op, st.Key, otherKey(st.Key))
	case "wait":
		r.wait(time.Duration(st.Ms)*time.Millisecond, st.N == 1)
	case "poll":
		r.poll(st.Poll, st.Key, st.ID)
		fmt.Fprintf(&r.sig, ":%s", st.Poll)
	case "pollhooks":
		r.poll("hooks", "", "")
	case "sweepwait":
		r.sweepWait()
	case "setchan", "sethook":
		r.doSetHook(st)
	case "delchan", "delhook":
		args := []string{strings.ToUpper(st.Op), st.Name}
		v, s, a := r.do(args...)
		n, ok := intReply(v)
		if !ok || n < 0 || n > 1 {
			r.fail("reply", "%s: %s", st.Op, v)
		}
		r.observe(true, "", st.Name, n == 1, s, a, st.Op+" reply")
		if n == 1 {
			r.supersede(true, "", st.Name, r.hooks[st.Name], "delhook")
			r.remove(true, "", st.Name, "deleted")
			r.L = append(r.L, lcmd{args: args, op: "delhook", id: st.Name})
		}
	case "restart":
		r.restart()
	default:
		panic("unknown op " + st.Op)
	}
	r.sig.WriteByte(';')
	r.audit()
}

// taintIfInWindow notes a write that was acknowledged with success although
// the object's deadline may already have passed (the leader had not swept it
// yet). A follower that sweeps on its own clock may have removed the object
// before this write reached it.
func (r *runner) taintIfInWindow(o *mobj, a time.Time, what, key, id string) {
	// the margin covers replication lag: the follower applies the write later
	// than the leader acknowledged it
	if o != nil && o.dl != nil && !a.Before(o.dl.lo.Add(-300*time.Millisecond)) && r.followerTaint == "" {
		r.followerTaint = fmt.Sprintf("%s %s %s succeeded at %dms, close to or inside the window between the deadline [%d,%d]ms and the leader's sweep", what, key, id, r.ms(a), r.ms(o.dl.lo), r.ms(o.dl.hi))
		if r.fol != nil {
			r.label("follower-case-with-write-in-expiry-window")
		}
	}
}

func (r *runner) doSetHook(st Step) {
	kind := "chan"
	args := []string{"SETCHAN", st.Name}
	if st.Op == "sethook" {
		kind = "hook"
		args = []string{"SETHOOK", st.Name, "http://127.0.0.1:9/c14"}
	}
	if st.TTL > 0 {
		args = append(args, "EX", ttlSeconds(st.TTL))
	}
	args = append(args, "NEARBY", "hk", "FENCE", "POINT", "33", "-115", "1000")
	v, s, a := r.do(args...)
	n, ok := intReply(v)
	if !ok || n < 0 || n > 1 {
		r.fail("reply", "%s: %s", t38.CmdString(args), v)
	}
	old := r.hooks[st.Name]
	if n == 0 {
		// identical definition already present: only possible without EX on both sides
		r.observe(true, "", st.Name, true, s, a, st.Op+" reply 0")
		if st.TTL > 0 || old.dl != nil {
			r.fail("reply", "%s answered 0 (unchanged) although the deadline differs: %s", t38.CmdString(args), r.describe(true, "", st.Name, old))
		}
		return
	}
	if st.TTL == 0 && old != nil && old.dl == nil {
		// an identical hook without TTL existed, yet the server created a new one
		r.observe(true, "", st.Name, false, s, a, st.Op+" reply 1")
	}
	how := "sethook-without-ex"
	if st.TTL > 0 {
		how = "sethook-ex"
	}
	r.supersede(true, "", st.Name, old, how)
	o := &mobj{kind: kind}
	if st.TTL > 0 {
		o.dl = newDeadline(s, a, st.TTL)
		r.label("hook-with-ex:" + kind)
	}
	r.hooks[st.Name] = o
	delete(r.gone, slotKey(true, "", st.Name))
	r.L = append(r.L, lcmd{args: args, op: "sethook", id: st.Name, kind: kind, ex: st.TTL > 0, s: s, ttl: time.Duration(st.TTL) * time.Millisecond})
}

func (r *runner) doRename(op, key, nk string) {
	args := []string{strings.ToUpper(op), key, nk}
	v, s, a := r.do(args...)
	absentAll := func(k, src string) {
		for _, id := range sortedIDs(r.cols[k]) {
			r.observe(false, k, id, false, s, a, src)
		}
	}
	mustExist := func(k string) {
		if len(r.cols[k]) == 0 {
			r.fail("phantom", "%s: key %s exists at [%d,%d]ms but the model holds no object in it", t38.CmdString(args), k, r.ms(s), r.ms(a))
		}
		all := true
		for _, o := range r.cols[k] {
			if !r.proven(o) {
				all = false
			}
		}
		if all {
			r.fail("survived-sweep", "%s: key %s still exists at [%d,%d]ms although every object in it had a deadline before a completed sweep", t38.CmdString(args), k, r.ms(s), r.ms(a))
		}
	}
	renamed := false
	switch {
	case notFound(v):
		absentAll(key, op+" (key not found)")
	case op == "rename" && v.Kind == '+' && v.Str == "OK":
		mustExist(key)
		renamed = true
	case op == "renamenx" && v.Kind == ':' && v.Int == 1:
		mustExist(key)
		absentAll(nk, "RENAMENX reply 1 (destination free)")
		renamed = true
	case op == "renamenx" && v.Kind == ':' && v.Int == 0:
		mustExist(key)
		mustExist(nk)
	default:
		r.fail("reply", "%s: %s", t38.CmdString(args), v)
	}
	if !renamed {
		return
	}
	for _, k := range []string{key, nk} {
		for _, id := range sortedIDs(r.cols[k]) {
			r.taintIfInWindow(r.cols[k][id], a, strings.ToUpper(op)+" "+key+" "+nk+" with", k, id)
		}
	}
	for _, id := range sortedIDs(r.cols[nk]) {
		r.gone[slotKey(false, nk, id)] = "replaced by RENAME"
	}
	for _, id := range objIDs {
		delete(r.slotStale, slotKey(false, nk, id))
	}
	delete(r.slotStale, slotKey(false, nk, "__m"))
	r.cols[nk] = r.cols[key]
	delete(r.cols, key)
	for id, o := range r.cols[nk] {
		r.gone[slotKey(false, key, id)] = "renamed away"
		delete(r.gone, slotKey(false, nk, id))
		if o.dl != nil {
			r.label("rename-moves-ttl-object")
		}
	}
	for _, id := range objIDs {
		if st, ok := r.slotStale[slotKey(false, key, id)]; ok {
			r.slotStale[slotKey(false, nk, id)] = st
			delete(r.slotStale, slotKey(false, key, id))
		}
	}
	for i := range r.watches {
		w := &r.watches[i]
		if !w.hook && w.key == nk {
			w.how = ""
		}
		if !w.hook && w.key == key {
			w.key = nk
		}
	}
	r.L = append(r.L, lcmd{args: args, op: "rename", key: key, newKey: nk})
}

func (r *runner) audit() {
	if os.Getenv("C14_NO_AUDIT") == "1" { // sensitivity experiments: behavioural oracle only
		return
	}
	v, _, _ := r.do("VERIFAUDIT")
	if v.Kind != '*' {
		return // build without the verif tag
	}
	var bad []string
	for _, e := range v.Arr {
		// only the expiry structures belong to this property; live (connection)
		// fences leave group items under the empty hook name that the audit
		// reports (also after RENAME), which is another property's business
		if !strings.Contains(e.Str, "expires") && !strings.Contains(e.Str, "deadline") && !strings.Contains(e.Str, "hookExpires") {
			r.label("audit-line-outside-this-property")
			continue
		}
		bad = append(bad, e.Str)
	}
	if len(bad) > 0 {
		r.fail("audit", "VERIFAUDIT: %s", strings.Join(bad, "; "))
	}
}

// pollCycle is the fixed rotation of reads used while waiting.
func (r *runner) pollCycle(i int) {
	type pc struct{ kind, key, id string }
	var cyc []pc
	for _, k := range objKeys {
		for _, id := range objIDs {
			cyc = append(cyc, pc{"get", k, id})
		}
		cyc = append(cyc, pc{"scancount", k, ""})
		for _, id := range objIDs {
			cyc = append(cyc, pc{"ttl", k, id})
		}
		cyc = append(cyc, pc{"nearbyids", k, ""}, pc{"searchcount", k, ""})
		for _, id := range objIDs {
			cyc = append(cyc, pc{"exists", k, id})
		}
		cyc = append(cyc, pc{"scanids", k, ""}, pc{"nearbycount", k, ""}, pc{"searchids", k, ""})
	}
	if len(r.hooks) > 0 {
		cyc = append(cyc, pc{"hooks", "", ""})
	}
	p := cyc[i%len(cyc)]
	r.poll(p.kind, p.key, p.id)
}

func (r *runner) wait(d time.Duration, polling bool) {
	end := time.Now().Add(d)
	if !polling {
		time.Sleep(d)
		return
	}
	for i := 0; time.Now().Before(end); i++ {
		r.pollCycle(r.canaryN*7 + i)
		rest := time.Until(end)
		if rest > 12*time.Millisecond {
			rest = 12 * time.Millisecond
		}
		if rest > 0 {
			time.Sleep(rest)
		}
	}
}

// sweepWait proves that a complete sweep pass ran after this instant: it
// creates a canary with a tiny TTL and waits until the sweeper removed it.
// Every deadline that was certainly in the past when the canary was created
// must have been honoured by that pass (the sweeper removes everything due in
// one critical section), which turns "eventually" into a load-independent
// statement. If the canary does not disappear within the budget the case is
// inconclusive, never a violation.
func (r *runner) sweepWait() {
	r.canaryN++
	id := "c" + strconv.Itoa(r.canaryN)
	r.doSet(canaryKey, id, "string", 10, 0)
	o := r.cols[canaryKey][id]
	start := time.Now()
	for {
		r.poll("exists", canaryKey, id)
		if r.cols[canaryKey][id] != o {
			break
		}
		if time.Since(start) > delta+repollMore {
			r.giveUp("canary kc/%s still visible %v after its deadline: sweeper not scheduled (machine stalled?)", id, time.Since(start))
		}
		time.Sleep(8 * time.Millisecond)
	}
	el := time.Since(start)
	switch {
	case el <= 350*time.Millisecond:
		r.label("sweep-latency<=350ms")
	case el <= delta:
		r.label("sweep-latency<=1.5s")
	default:
		r.label("sweep-latency>1.5s")
	}
}

// ---- fences -----------------------------------------------------------------

func (r *runner) subscribe() {
	r.fenceEpoch++
	for _, key := range objKeys {
		conn, err := r.srv.Dial()
		if err != nil {
			r.giveUp("dial: %v", err)
		}
		v, err := conn.Do("NEARBY", key, "FENCE", "POINT", "33", "-115", "100000")
		if err != nil || v.Kind != '+' {
			r.fail("reply", "NEARBY FENCE: %v %v", v, err)
		}
		r.fsubs = append(r.fsubs, conn)
		go func(conn *t38.Conn, key string) {
			for {
				v, err := conn.RecvTimeout(time.Hour)
				if err != nil {
					return
				}
				var m struct {
					Command string `json:"command"`
					Key     string `json:"key"`
					ID      string `json:"id"`
					Time    string `json:"time"`
				}
				if json.Unmarshal([]byte(v.Str), &m) != nil || m.Command != "del" {
					continue
				}
				tm, _ := time.Parse(time.RFC3339Nano, m.Time)
				r.fmu.Lock()
				r.fdel[key] = append(r.fdel[key], fenceMsg{key: m.Key, id: m.ID, t: tm})
				r.fmu.Unlock()
			}
		}(conn, key)
	}
}

func (r *runner) closeFences() {
	for _, c := range r.fsubs {
		c.Close()
	}
	r.fsubs = nil
}

// drainFences writes and deletes a marker object in every fenced key and waits
// until each subscriber has received the marker's del message: everything the
// server logged before is then known to have been delivered.
func (r *runner) drainFences() {
	for _, key := range objKeys {
		r.doSet(key, "__m", "point", 0, 0)
		r.doDel(key, "__m")
		r.markers[key]++
	}
	start := time.Now()
	for {
		ok := true
		r.fmu.Lock()
		for _, key := range objKeys {
			n := 0
			for _, m := range r.fdel[key] {
				if m.id == "__m" {
					n++
				}
			}
			if n < r.markers[key] {
				ok = false
			}
		}
		r.fmu.Unlock()
		if ok {
			return
		}
		if time.Since(start) > 10*time.Second {
			r.fenceOK = false
			r.incon = append(r.incon, "fence subscriber did not receive the marker del within 10s")
			return
		}
		time.Sleep(3 * time.Millisecond)
	}
}

// ---- restart ----------------------------------------------------------------

func (r *runner) connect() {
	var err error
	if r.c, err = r.srv.Dial(); err != nil {
		r.giveUp("dial: %v", err)
	}
	if r.j, err = r.srv.Dial(); err != nil {
		r.giveUp("dial: %v", err)
	}
	if err := r.j.SetJSON(true); err != nil {
		r.giveUp("OUTPUT json: %v", err)
	}
	r.subscribe()
}

func (r *runner) disconnect() {
	r.closeFences()
	if r.c != nil {
		r.c.Close()
	}
	if r.j != nil {
		r.j.Close()
	}
}

// restart stops the server cleanly and starts a new one on the same data
// directory. The log holds relative TTLs, so every surviving deadline is
// re-based to load time + ttl (implementation mirrored); objects whose expiry
// was logged must stay gone.
func (r *runner) restart() {
	r.drainFences()
	r.disconnect()
	// whatever a completed sweep should have removed is absent from the log
	for _, key := range []string{"ka", "kb", canaryKey} {
		for _, id := range sortedIDs(r.cols[key]) {
			if r.proven(r.cols[key][id]) {
				r.remove(false, key, id, "expired (proven by a later sweep) before the restart")
			}
		}
	}
	for _, name := range sortedIDs(r.hooks) {
		if r.proven(r.hooks[name]) {
			r.remove(true, "", name, "expired (proven by a later sweep) before the restart")
		}
	}
	begin := time.Now()
	r.logf("%6dms restart begins", r.ms(begin))
	if err := r.srv.Stop(); err != nil {
		r.giveUp("server stop: %v", err)
	}
	srv, err := startServer(r.dir)
	if err != nil {
		r.giveUp("server restart: %v", err)
	}
	ready := time.Now()
	r.srv = srv
	r.logf("%6dms restart done", r.ms(ready))
	rebase := func(o *mobj) {
		if o.dl == nil {
			return
		}
		if begin.Before(o.dl.lo.Add(-eps)) {
			o.dl.lo = begin.Add(o.dl.ttl)
		}
		o.dl.hi = ready.Add(o.dl.ttl)
		r.label("impl-mirrored:deadline-rebased-at-restart")
	}
	for _, m := range r.cols {
		for _, o := range m {
			rebase(o)
		}
	}
	for _, o := range r.hooks {
		rebase(o)
	}
	// superseded deadlines died with the process image; a stale timer cannot
	// come back from the log, so nothing to carry over
	r.restarts = append(r.restarts, len(r.L))
	r.connect()
	r.label("restart")
}

// ---- log (AOF) oracle ---------------------------------------------------------

type simObj struct {
	ttl     bool
	spatial bool
	dlL     int
}

type simState struct {
	cols  map[string]map[string]*simObj
	hooks map[string]*simObj
}

func (st *simState) snapshot() map[string]bool {
	m := map[string]bool{}
	for k, c := range st.cols {
		for id := range c {
			m[slotKey(false, k, id)] = true
		}
	}
	for n := range st.hooks {
		m[slotKey(true, "", n)] = true
	}
	return m
}

type expectedDel struct {
	key, id  string
	expiry   bool
	dlL      int
	optional bool
}

func sameArgs(a, b []string) bool {
	if len(a) != len(b) {
		return false
	}
	for i := range a {
		if a[i] != b[i] {
			return false
		}
	}
	return true
}

// checkLog parses the append-only file and checks that it is the client's
// acknowledged writes, in order, interleaved only with expiry deletes of
// objects that (in log order) exist and carry a deadline, and that every
// presence/absence observation agrees with the state the log implies at that
// point.
func (r *runner) checkLog() {
	cmds, _, err := t38.ParseAOF(r.srv.AOFPath())
	if err != nil {
		r.fail("aof-unreadable", "%v", err)
	}
	st := &simState{cols: map[string]map[string]*simObj{}, hooks: map[string]*simObj{}}
	after := make([]map[string]bool, len(r.L)+1)
	before := make([]map[string]bool, len(r.L)+1)
	after[0] = st.snapshot()
	restartAt := map[int]bool{}
	for _, p := range r.restarts {
		restartAt[p] = true
	}
	fenceExp := map[string][]expectedDel{}
	j := 0
	nExpiry := 0
	for _, cmd := range cmds {
		if j < len(r.L) && sameArgs(cmd.Args, r.L[j].args) {
			before[j] = st.snapshot()
			l := r.L[j]
			bad := func() {
				r.fail("aof-order", "log entry #%d %s applies to something the log order says does not exist", j, t38.CmdString(l.args))
			}
			switch l.op {
			case "set":
				if st.cols[l.key] == nil {
					st.cols[l.key] = map[string]*simObj{}
				}
				st.cols[l.key][l.id] = &simObj{ttl: l.ex, spatial: l.kind == "point", dlL: j}
			case "expire":
				o := st.cols[l.key][l.id]
				if o == nil {
					bad()
				}
				o.ttl, o.dlL = true, j
			case "persist":
				o := st.cols[l.key][l.id]
				if o == nil {
					bad()
				}
				o.ttl = false
			case "fset":
				if st.cols[l.key][l.id] == nil {
					bad()
				}
			case "del":
				o := st.cols[l.key][l.id]
				if o == nil {
					bad()
				}
				if o.spatial {
					fenceExp[l.key] = append(fenceExp[l.key], expectedDel{key: l.key, id: l.id})
				}
				delete(st.cols[l.key], l.id)
				if len(st.cols[l.key]) == 0 {
					delete(st.cols, l.key)
				}
			case "rename":
				if len(st.cols[l.key]) == 0 {
					bad()
				}
				st.cols[l.newKey] = st.cols[l.key]
				delete(st.cols, l.key)
			case "sethook":
				st.hooks[l.id] = &simObj{ttl: l.ex, dlL: j}
			case "delhook":
				if st.hooks[l.id] == nil {
					bad()
				}
				delete(st.hooks, l.id)
			}
			j++
			after[j] = st.snapshot()
			continue
		}
		a := cmd.Args
		switch {
		case len(a) == 3 && a[0] == "del":
			o := st.cols[a[1]][a[2]]
			if o == nil || !o.ttl {
				r.fail("aof-spurious-del", "log holds an expiry %s after %d client writes, but in log order that object %s", t38.CmdString(a), j,
					map[bool]string{true: "does not exist", false: "has no deadline"}[o == nil])
			}
			if o.spatial {
				fenceExp[a[1]] = append(fenceExp[a[1]], expectedDel{key: a[1], id: a[2], expiry: true, dlL: o.dlL, optional: restartAt[j]})
			}
			delete(st.cols[a[1]], a[2])
			if len(st.cols[a[1]]) == 0 {
				delete(st.cols, a[1])
			}
			nExpiry++
		case len(a) == 2 && (a[0] == "delchan" || a[0] == "delhook"):
			o := st.hooks[a[1]]
			if o == nil || !o.ttl {
				r.fail("aof-spurious-del", "log holds an expiry %s after %d client writes, but in log order that hook %s", t38.CmdString(a), j,
					map[bool]string{true: "does not exist", false: "has no deadline"}[o == nil])
			}
			delete(st.hooks, a[1])
			nExpiry++
		default:
			next := "(none left)"
			if j < len(r.L) {
				next = t38.CmdString(r.L[j].args)
			}
			r.fail("aof-unexpected-entry", "log entry %s at offset %d is neither the next acknowledged client write %s nor an expiry delete", t38.CmdString(a), cmd.Start, next)
		}
	}
	if j < len(r.L) {
		r.fail("aof-missing-command", "acknowledged write #%d %s is not in the log (%d entries)", j, t38.CmdString(r.L[j].args), len(cmds))
	}
	before[len(r.L)] = st.snapshot()
	for _, ob := range r.obs {
		sk := slotKey(ob.hook, ob.key, ob.id)
		name := ob.key + "/" + ob.id
		if ob.hook {
			name = "hook/channel " + ob.id
		}
		if ob.present {
			if !after[ob.p][sk] {
				r.fail("aof-order", "%s saw %s after %d logged client writes, but the log deletes it before that point and never re-creates it", ob.src, name, ob.p)
			}
		} else {
			if before[ob.p][sk] {
				r.fail("aof-expiry-not-logged", "%s saw %s gone after %d logged client writes, but in the log it still exists when the next client write is applied: the removal was not logged (or logged late)", ob.src, name, ob.p)
			}
		}
	}
	r.labels["aof-expiry-deletes"] += nExpiry
	r.label("aof-checked")
	if r.fenceOK {
		r.checkFences(fenceExp)
	}
}

func (r *runner) checkFences(exp map[string][]expectedDel) {
	r.fmu.Lock()
	defer r.fmu.Unlock()
	for _, key := range objKeys {
		got := r.fdel[key]
		ex := exp[key]
		same := func(i, j int) bool { return got[j].key == ex[i].key && got[j].id == ex[i].id }
		// can[i][j]: ex[i:] can be aligned with got[j:] (optional entries may be
		// skipped, everything received must be accounted for). An optional entry
		// must not be matched greedily: it may steal the message of a later,
		// required delete of the same id.
		can := make([][]bool, len(ex)+1)
		for i := range can {
			can[i] = make([]bool, len(got)+1)
		}
		can[len(ex)][len(got)] = true
		for i := len(ex) - 1; i >= 0; i-- {
			for j := len(got); j >= 0; j-- {
				ok := false
				if j < len(got) && same(i, j) && can[i+1][j+1] {
					ok = true
				}
				if ex[i].optional && can[i+1][j] {
					ok = true
				}
				can[i][j] = ok
			}
		}
		if !can[0][0] {
			// diagnose with a greedy walk that prefers skipping optional entries last
			var es, gs []string
			for _, x := range ex {
				es = append(es, fmt.Sprintf("%s/%s%s%s", x.key, x.id, map[bool]string{true: "(expiry)", false: ""}[x.expiry], map[bool]string{true: "(optional)", false: ""}[x.optional]))
			}
			for _, x := range got {
				gs = append(gs, fmt.Sprintf("%s/%s@%s", x.key, x.id, x.t.Format("05.000")))
			}
			i, j := 0, 0
			for i < len(ex) {
				if j < len(got) && same(i, j) {
					i, j = i+1, j+1
				} else if ex[i].optional {
					i++
				} else {
					break
				}
			}
			if i < len(ex) {
				r.fail("fence-missed-del", "fence on %s: the log deletes %s/%s (expiry=%v) but the subscriber has no del message for it in order; log deletes of spatial objects: %v; received: %v", key, ex[i].key, ex[i].id, ex[i].expiry, es, gs)
			}
			r.fail("fence-extra-del", "fence on %s received del %s/%s that has no counterpart in the log; log deletes of spatial objects: %v; received: %v", key, got[j].key, got[j].id, es, gs)
		}
		i, j := 0, 0
		for i < len(ex) {
			e := ex[i]
			if j < len(got) && same(i, j) && can[i+1][j+1] {
				if e.expiry {
					l := r.L[e.dlL]
					lo := l.s.Add(l.ttl)
					if got[j].t.Before(lo.Add(-eps)) && !e.optional {
						r.fail("fence-del-before-deadline", "fence on %s: expiry del of %s/%s is stamped %s, before the earliest possible deadline %s (TTL %v set by write #%d)",
							key, e.key, e.id, got[j].t.Format(time.RFC3339Nano), lo.Format(time.RFC3339Nano), l.ttl, e.dlL)
					}
					r.label("fence-expiry-del-delivered")
				}
				i, j = i+1, j+1
				continue
			}
			r.label("fence-del-around-restart-not-required")
			i++
		}
	}
	r.label("fence-checked")
}

// ---- follower ---------------------------------------------------------------

func serverField(v t38.Value, name string) string {
	for i := 0; i+1 < len(v.Arr); i += 2 {
		if v.Arr[i].Str == name {
			if v.Arr[i+1].Kind == ':' {
				return strconv.FormatInt(v.Arr[i+1].Int, 10)
			}
			return v.Arr[i+1].Str
		}
	}
	return ""
}

func (r *runner) startFollower() {
	fol, err := startServer("")
	if err != nil {
		r.giveUp("follower start: %v", err)
	}
	r.fol = fol
	r.fc = fol.MustDial()
	v, _, _ := r.doOn(r.fc, "FOLLOW", "127.0.0.1", strconv.Itoa(r.srv.Port))
	if v.IsErr() {
		r.giveUp("FOLLOW: %s", v)
	}
	start := time.Now()
	for {
		v, err := r.fc.Do("SERVER")
		if err == nil && serverField(v, "caught_up") == "true" {
			return
		}
		if time.Since(start) > 10*time.Second {
			r.giveUp("follower did not catch up within 10s")
		}
		time.Sleep(5 * time.Millisecond)
	}
}

// findingFollower: a follower runs the expiry sweeper itself instead of
// applying only the leader's logged deletes.
const findingFollower = "follower-expires-independently"

// checkFollower waits until the follower has applied everything the leader
// logged so far (a marker written on the leader becomes visible on the
// follower; replication is ordered) and then requires that everything the
// leader removed is gone there too and everything that must be visible on the
// leader is visible on the follower.
func (r *runner) checkFollower() {
	r.canaryN++
	mid := "__s" + strconv.Itoa(r.canaryN)
	r.doSet("kf", mid, "string", 0, 0)
	start := time.Now()
	for {
		v, err := r.fc.Do("EXISTS", "kf", mid)
		if err != nil {
			r.giveUp("follower EXISTS: %v", err)
		}
		if v.Kind == ':' && v.Int == 1 {
			break
		}
		if time.Since(start) > 8*time.Second {
			r.giveUp("follower did not show the leader's marker within 8s (%s)", v)
		}
		time.Sleep(3 * time.Millisecond)
	}
	// a regression of the repaired finding shows up in cases with a write close
	// to the expiry window; key those with the finding's id
	failKey := "follower-diverged"
	if r.followerTaint != "" {
		failKey = findingFollower
	}
	taint := ""
	if r.followerTaint != "" {
		taint = "; earlier in this case " + r.followerTaint
	}
	hs, ha := time.Now(), time.Now()
	seenHooks := map[string]bool{}
	for _, cmd := range []string{"CHANS", "HOOKS"} {
		v, err := r.fc.Do(cmd, "*")
		ha = time.Now()
		if err != nil || v.Kind != '*' {
			r.fail("reply", "follower %s *: %v %v", cmd, v, err)
		}
		for _, e := range v.Arr {
			if len(e.Arr) > 0 {
				seenHooks[e.Arr[0].Str] = true
			}
		}
	}
	for name := range seenHooks {
		if r.hooks[name] == nil {
			r.fail(failKey, "follower still lists hook/channel %s at [%d,%d]ms although it applied the leader's whole log; on the leader it was %s%s", name, r.ms(hs), r.ms(ha), r.gone[slotKey(true, "", name)], taint)
		}
	}
	for _, name := range sortedIDs(r.hooks) {
		if o := r.hooks[name]; !seenHooks[name] && certainlyPresent(o, ha) {
			r.fail(failKey, "follower does not list %s at %dms although the leader must%s", r.describe(true, "", name, o), r.ms(ha), taint)
		}
	}
	for _, key := range []string{"ka", "kb", canaryKey} {
		s := time.Now()
		v, err := r.fc.Do("SCAN", key, "IDS")
		a := time.Now()
		if err != nil || v.Kind != '*' || len(v.Arr) != 2 {
			r.fail("reply", "follower SCAN %s IDS: %v %v", key, v, err)
		}
		r.logf("%6d..%6dms follower SCAN %s IDS => %s", r.ms(s), r.ms(a), key, v)
		seen := map[string]bool{}
		for _, e := range v.Arr[1].Arr {
			seen[e.Str] = true
			if r.cols[key][e.Str] == nil {
				why := r.gone[slotKey(false, key, e.Str)]
				r.fail(failKey, "follower still serves %s/%s at [%d,%d]ms although it applied the leader's whole log; on the leader it was %s%s", key, e.Str, r.ms(s), r.ms(a), why, taint)
			}
		}
		for _, id := range sortedIDs(r.cols[key]) {
			o := r.cols[key][id]
			if !seen[id] && certainlyPresent(o, a) {
				r.fail(failKey, "follower does not serve %s at %dms although the leader must%s", r.describe(false, key, id, o), r.ms(a), taint)
			}
		}
	}
	// the follower writes what it applies, in the leader's order: its file (which
	// may lag by a buffered tail) must be a prefix of the leader's
	lb, err1 := readFile(r.srv.AOFPath())
	fb, err2 := readFile(r.fol.AOFPath())
	if err1 == nil && err2 == nil {
		la, _, _ := t38.ParseAOFBytes(lb)
		fa, _, _ := t38.ParseAOFBytes(fb)
		i := 0
		for i < len(la) && i < len(fa) && sameArgs(la[i].Args, fa[i].Args) {
			i++
		}
		if i < len(fa) {
			show := func(l []t38.AOFCmd) string {
				var out []string
				for k := i; k < len(l) && k < i+4; k++ {
					out = append(out, t38.CmdString(l[k].Args))
				}
				return strings.Join(out, " | ")
			}
			r.fail(findingFollower, "follower log differs from the leader's from entry %d on (leader %d entries, follower %d entries): leader [%s] follower [%s]", i, len(la), len(fa), show(la), show(fa))
		}
		if len(fa) == len(la) {
			r.label("follower-log-identical")
		} else {
			r.label("follower-log-is-prefix(tail-buffered)")
		}
	}
	r.label("follower-checked")
}

// ---- server start -------------------------------------------------------------

var startMu sync.Mutex

// startServer wraps t38.Start. t38.Start picks a free port by binding and
// releasing it, so two servers started at the same time (in this process or
// in another test process on the machine) can be handed the same port; the
// loser fails to bind while its readiness probe is answered by the winner.
// Starts are therefore serialised here and the identity of the server that
// answers is compared with the server_id in the data directory's config file.
func startServer(dir string) (*t38.Srv, error) { return startServerOpts(dir, t38.Opts{}) }

func startServerOpts(dir string, opts t38.Opts) (*t38.Srv, error) {
	startMu.Lock()
	defer startMu.Unlock()
	var last error
	for attempt := 0; attempt < 10; attempt++ {
		if dir == "" {
			dir = t38.NewDir("c14")
		}
		opts.Dir = dir
		srv, err := t38.Start(opts)
		if err != nil {
			last = err
			continue
		}
		if err := verifyIdentity(srv); err != nil {
			last = err
			srv.Stop()
			time.Sleep(20 * time.Millisecond)
			continue
		}
		return srv, nil
	}
	return nil, last
}

func verifyIdentity(srv *t38.Srv) error {
	b, err := os.ReadFile(filepath.Join(srv.Dir, "config"))
	if err != nil {
		return err
	}
	var cfg struct {
		ServerID string `json:"server_id"`
	}
	if err := json.Unmarshal(b, &cfg); err != nil || cfg.ServerID == "" {
		return fmt.Errorf("no server_id in %s/config", srv.Dir)
	}
	c, err := srv.Dial()
	if err != nil {
		return err
	}
	defer c.Close()
	v, err := c.Do("SERVER")
	if err != nil {
		return err
	}
	if v.IsErr() && strings.Contains(v.Str, "catching up") {
		// a server that comes up as a follower refuses SERVER until it has caught
		// up; t38.Start itself verifies that this process owns the listening socket
		return nil
	}
	if got := serverField(v, "id"); got != cfg.ServerID {
		return fmt.Errorf("server at %s has id %q, expected %q: port taken by another server", srv.Addr, got, cfg.ServerID)
	}
	return nil
}

// ---- whole case ---------------------------------------------------------------

func (r *runner) latestShortDeadline() time.Time {
	var t time.Time
	upd := func(d *deadline) {
		if d != nil && !d.long && d.hi.After(t) {
			t = d.hi
		}
	}
	for _, m := range r.cols {
		for _, o := range m {
			upd(o.dl)
		}
	}
	for _, o := range r.hooks {
		upd(o.dl)
	}
	for _, ds := range r.slotStale {
		for i := range ds {
			upd(&ds[i])
		}
	}
	return t
}

func (r *runner) pollEverything() {
	for _, key := range objKeys {
		for _, id := range objIDs {
			r.poll("get", key, id)
			r.poll("ttl", key, id)
			r.poll("exists", key, id)
		}
		for _, k := range keyPolls {
			r.poll(k, key, "")
		}
	}
	r.poll("scanids", canaryKey, "")
	r.poll("hooks", "", "")
}

func (r *runner) finalPhase() {
	// let every short deadline (current or superseded) pass, watching meanwhile
	if t := r.latestShortDeadline(); !t.IsZero() {
		if d := time.Until(t.Add(2 * eps)); d > 0 {
			r.wait(d, true)
		}
	}
	r.sweepWait()
	r.pollEverything()
	r.audit()
	r.drainFences()
	r.do("PING") // its reply is written after every earlier log entry reached the file
	r.checkLog()
	if r.fol != nil {
		r.checkFollower()
	}
	// restart: nothing that expired may come back, nothing without a deadline may be lost
	r.restart()
	r.pollEverything()
	r.label("final-restart-checked")
}

func runCase(cs Case) (res result) {
	start := time.Now()
	r := &runner{
		cs: cs, t0: start,
		cols: map[string]map[string]*mobj{}, hooks: map[string]*mobj{},
		gone: map[string]string{}, slotStale: map[string][]deadline{},
		fdel: map[string][]fenceMsg{}, markers: map[string]int{},
		labels: map[string]int{}, fenceOK: true,
	}
	defer func() {
		if p := recover(); p != nil {
			switch x := p.(type) {
			case *violation:
				res.V = x
			case *inconclusive:
				r.incon = append(r.incon, x.what)
			default:
				panic(p)
			}
		}
		r.disconnect()
		if r.fc != nil {
			r.fc.Close()
		}
		if r.fol != nil {
			r.fol.Stop()
		}
		if r.srv != nil {
			r.srv.Stop()
		}
		res.Labels = r.labels
		res.Incon = r.incon
		res.Sig = r.sig.String()
		res.NonTrivial = r.nt
		res.History = r.hist
		res.Notes = r.notes
		res.Wall = time.Since(start)
	}()
	srv, err := startServer("")
	if err != nil {
		r.giveUp("server start: %v", err)
	}
	r.srv = srv
	r.dir = srv.Dir
	r.connect()
	if cs.Follower {
		r.startFollower()
		r.label("with-follower")
	}
	for _, st := range cs.Steps {
		r.label("op:" + st.Op)
		r.step(st)
	}
	r.finalPhase()
	return res
}

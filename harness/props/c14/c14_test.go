// C14: expiration is never early, always eventual, and visible as a delete
// everywhere. Timed state-machine cases against real in-process servers with
// interval oracles on the monotonic clock, plus a pure model check of the
// per-collection expiry index.
package c14

import (
	"encoding/json"
	"fmt"
	"os"
	"sort"
	"strings"
	"sync"
	"testing"
	"time"

	"github.com/tidwall/tile38/verif/harness/ev"
	"pgregory.net/rapid"
)

func readFile(p string) ([]byte, error) { return os.ReadFile(p) }

const timedRule = "timed histories of SET EX / SET without EX / EXPIRE / PERSIST / FSET / DEL / RENAME(NX) on 1-4 slots (2 keys x 2 ids, points and strings), " +
	"SETCHAN/SETHOOK with and without EX, DELCHAN/DELHOOK, short TTLs 0.15-1.2 s and long TTLs 3-100 s, silent and polling waits of 0-0.7 s, single reads " +
	"(GET, TTL, EXISTS, SCAN/NEARBY/SEARCH COUNT and IDS, CHANS/HOOKS), canary-proved sweeps, clean restarts and (1 in 4) a follower; every case ends by " +
	"letting all short deadlines pass, proving a later sweep with a canary, reading everything, draining two fence subscribers, checking the append-only file, " +
	"the follower and a restart. Each case runs on its own in-process server; many run concurrently. Oracle: a deadline set by a command sent at s and " +
	"acknowledged at a with TTL t lies in [s+t, a+t]; a read answered before s+t must see the object, a read sent after the sweeper has removed an object " +
	"whose earliest deadline is later than this object's latest deadline must not. Non-trivial: a TTL'd object was overwritten / PERSISTed / DEL+re-SET / " +
	"EXPIREd to a longer deadline and its successor was read after a sweep proven to be later than the old deadline, or an EXPIRE moved an existing deadline; " +
	"distinct by the sequence of operations with their reply classes."

func declare(c *ev.Collector) {
	c.Rule(timedRule)
	c.Assume("the machine's wall clock does not step during a case and slews by less than 5 ms against the monotonic clock over a few seconds")
	c.Assume("the sweeper removes everything that is due in one critical section (read from expire.go); a visible object whose deadline precedes the deadline of an object already removed by expiry is therefore a violation independent of load")
	c.Assume("bounded delay is measured (labels expiry-seen-within / sweep-latency) but never asserted: a canary that does not expire within 4.5 s makes the case inconclusive")
}

type outcome struct {
	idx int
	cs  Case
	res result
}

// runParallel executes the cases on `workers` goroutines, each case on its own
// server, and returns the results in case order.
func runParallel(cases []Case, workers int) []outcome {
	out := make([]outcome, len(cases))
	var wg sync.WaitGroup
	ch := make(chan int)
	for w := 0; w < workers; w++ {
		wg.Add(1)
		go func() {
			defer wg.Done()
			for i := range ch {
				out[i] = outcome{idx: i, cs: cases[i], res: runCase(cases[i])}
			}
		}()
	}
	for i := range cases {
		ch <- i
	}
	close(ch)
	wg.Wait()
	return out
}

// confirmAndShrink re-runs a failing case alone and then removes steps while
// the same root-cause key keeps failing.
func confirmAndShrink(cs Case, key string, first result, workers int) (Case, result, string) {
	repro := 0
	const tries = 2
	best, bestRes := cs, first
	for i := 0; i < tries; i++ {
		r := runCase(cs)
		if r.V != nil && r.V.Key == key {
			repro++
			bestRes = r
		}
	}
	note := fmt.Sprintf("%d/%d solo re-runs reproduced the same violation", repro, tries)
	if repro == 0 {
		return best, bestRes, note + " (kept: the interval oracle does not depend on load)"
	}
	deadline := time.Now().Add(time.Duration(ev.Pick(45, 120)) * time.Second)
	for round := 0; round < 8 && time.Now().Before(deadline); round++ {
		var cands []Case
		if best.Follower {
			c2 := best
			c2.Follower = false
			cands = append(cands, c2)
		}
		for i := range best.Steps {
			c2 := Case{Follower: best.Follower}
			c2.Steps = append(append([]Step{}, best.Steps[:i]...), best.Steps[i+1:]...)
			cands = append(cands, c2)
		}
		if len(cands) == 0 {
			break
		}
		outs := runParallel(cands, workers)
		found := false
		for _, o := range outs {
			if o.res.V != nil && o.res.V.Key == key {
				best, bestRes, found = o.cs, o.res, true
				break
			}
		}
		if !found {
			break
		}
	}
	return best, bestRes, note
}

type replayData struct {
	Case    Case     `json:"case"`
	Note    string   `json:"note,omitempty"`
	History []string `json:"history,omitempty"`
}

func tail(h []string, n int) []string {
	if len(h) > n {
		return h[len(h)-n:]
	}
	return h
}

func TestC14_Timed(t *testing.T) {
	c := ev.New("C14", "timed", "exploration")
	t.Cleanup(c.Flush)
	declare(c)
	n := ev.Pick(120, 500)
	workers := ev.Pick(24, 14)
	maxSteps := ev.Pick(12, 18)
	ev.Rapid("timed", n)
	g := rapid.Custom(func(rt *rapid.T) Case { return drawCase(rt, maxSteps) })
	base := int(ev.Seed("timed") >> 16)
	cases := make([]Case, n)
	for i := range cases {
		cases[i] = g.Example(base + i)
	}
	outs := runParallel(cases, workers)
	reported := map[string]bool{}
	var walls []time.Duration
	for _, o := range outs {
		c.Case()
		walls = append(walls, o.res.Wall)
		for l, k := range o.res.Labels {
			c.LabelN(l, k)
		}
		for _, s := range o.res.Incon {
			c.Inconclusive("case %d: %s", o.idx, s)
			c.Label("inconclusive-case")
		}
		for _, s := range o.res.Notes {
			c.Note("case %d: %s", o.idx, s)
		}
		if o.res.NonTrivial && o.res.V == nil && len(o.res.Incon) == 0 {
			c.NonTrivial(o.res.Sig)
			if c.WantSample() {
				var steps []string
				for _, s := range o.cs.Steps {
					steps = append(steps, s.String())
				}
				c.Sample(map[string]any{"steps": steps, "follower": o.cs.Follower, "wall_ms": o.res.Wall.Milliseconds(), "labels": keysOf(o.res.Labels)})
			}
		}
		if o.res.V != nil && !reported[o.res.V.Key] && len(reported) < 3 {
			reported[o.res.V.Key] = true
			cs, res, note := confirmAndShrink(o.cs, o.res.V.Key, o.res, workers)
			path := c.Violation(res.V.Key, res.V.What+" ["+note+"]", replayData{Case: cs, Note: note, History: tail(res.History, 120)})
			t.Errorf("VIOLATION-CANDIDATE key=%s: %s (replay %s)", res.V.Key, res.V.What, path)
		}
	}
	sort.Slice(walls, func(i, j int) bool { return walls[i] < walls[j] })
	if len(walls) > 0 {
		c.Note("case wall time: median %v, max %v, %d cases on %d concurrent servers", walls[len(walls)/2].Round(time.Millisecond), walls[len(walls)-1].Round(time.Millisecond), len(walls), workers)
	}
}

func keysOf(m map[string]int) []string {
	var out []string
	for k := range m {
		out = append(out, k)
	}
	sort.Strings(out)
	return out
}

// TestC14_Scripted runs the shapes the property names explicitly, at several
// phases of the sweeper, so that they are exercised in every run regardless of
// what the random generator produced.
func TestC14_Scripted(t *testing.T) {
	c := ev.New("C14", "scripted", "exploration")
	t.Cleanup(c.Flush)
	c.Rule("hand-enumerated successor shapes x sweeper phases: SET EX t then, after w, one of {SET without EX, SET EX long, PERSIST, EXPIRE long, EXPIRE short, DEL + SET, FSET, RENAME + PERSIST, SETCHAN EX then SETCHAN without EX, SETHOOK EX then DELHOOK + SETHOOK} for points and strings, plus key-order shapes (a collection sorting first that holds only far-future deadlines; three collections falling due in one sweep; RENAME moving the far-future object to the first key), t in {0.2,0.45,0.8} s, w in a grid of phases; same oracle as the timed sub-check. Non-trivial as in the timed sub-check; distinct by shape, kind, t and w.")
	var cases []Case
	var names []string
	phases := ev.Pick(2, 6)
	for _, kind := range []string{"point", "string"} {
		for ti, ttl := range []int{200, 450, 800} {
			for ph := 0; ph < phases; ph++ {
				w := (ttl - 60) * ph / phases
				w += 13 * ti
				succ := [][]Step{
					{{Op: "set", Key: "ka", ID: "a", Kind: kind, N: 2}},
					{{Op: "setex", Key: "ka", ID: "a", Kind: kind, TTL: 30000, N: 2}},
					{{Op: "persist", Key: "ka", ID: "a"}},
					{{Op: "expire", Key: "ka", ID: "a", TTL: 7500}},
					{{Op: "expire", Key: "ka", ID: "a", TTL: 150}},
					{{Op: "del", Key: "ka", ID: "a"}, {Op: "set", Key: "ka", ID: "a", Kind: kind, N: 3}},
					{{Op: "fset", Key: "ka", ID: "a", N: 1}},
					{{Op: "rename", Key: "ka"}, {Op: "persist", Key: "kb", ID: "a"}},
				}
				for si, sc := range succ {
					if kind == "string" && ph%2 == 1 && si > 2 {
						continue
					}
					cs := Case{Steps: []Step{
						{Op: "set", Key: "ka", ID: "b", Kind: "point", N: 5},
						{Op: "setex", Key: "ka", ID: "a", Kind: kind, TTL: ttl, N: 1},
						{Op: "wait", Ms: w, N: ph % 2},
					}}
					cs.Steps = append(cs.Steps, sc...)
					cs.Steps = append(cs.Steps, Step{Op: "wait", Ms: 120, N: 1})
					cases = append(cases, cs)
					names = append(names, fmt.Sprintf("obj/%s/ttl%d/w%d/succ%d", kind, ttl, w, si))
				}
			}
		}
	}
	for ph := 0; ph < phases; ph++ {
		for _, ttl := range []int{250, 700} {
			w := (ttl - 60) * ph / phases
			cases = append(cases,
				Case{Steps: []Step{{Op: "setchan", Name: "c1", TTL: ttl}, {Op: "wait", Ms: w, N: 1}, {Op: "setchan", Name: "c1"}, {Op: "setchan", Name: "c2", TTL: ttl}, {Op: "pollhooks"}}},
				Case{Steps: []Step{{Op: "sethook", Name: "h1", TTL: ttl}, {Op: "wait", Ms: w}, {Op: "delhook", Name: "h1"}, {Op: "sethook", Name: "h1"}, {Op: "pollhooks"}}},
				Case{Steps: []Step{{Op: "sethook", Name: "h1", TTL: ttl}, {Op: "setchan", Name: "c1", TTL: ttl + 100}, {Op: "wait", Ms: w, N: 1}, {Op: "setchan", Name: "c1", TTL: 30000}, {Op: "pollhooks"}}, Follower: ph%2 == 0},
			)
			names = append(names, fmt.Sprintf("chan/ttl%d/w%d/noex", ttl, w), fmt.Sprintf("hook/ttl%d/w%d/delset", ttl, w), fmt.Sprintf("both/ttl%d/w%d/longer", ttl, w))
		}
	}
	// key order vs deadline order: a collection that sorts first and holds only
	// far-future deadlines (or none that is due) must not shield later ones;
	// several collections fall due in the same sweep
	for _, kind := range []string{"point", "string"} {
		for ph := 0; ph < phases; ph++ {
			ttl := 200 + 90*ph
			cases = append(cases,
				Case{Steps: []Step{{Op: "setex", Key: "ka", ID: "a", Kind: kind, TTL: 100000, N: 1}, {Op: "setex", Key: "kb", ID: "a", Kind: kind, TTL: ttl, N: 2}, {Op: "setex", Key: "kb", ID: "b", Kind: "point", TTL: ttl + 40, N: 3}, {Op: "wait", Ms: ttl / 2, N: ph % 2}}},
				Case{Steps: []Step{{Op: "setex", Key: "ka", ID: "a", Kind: kind, TTL: ttl, N: 1}, {Op: "setex", Key: "ka", ID: "b", Kind: kind, TTL: 30000, N: 1}, {Op: "setex", Key: "kb", ID: "a", Kind: kind, TTL: ttl, N: 2}, {Op: "wait", Ms: ttl - 5, N: 0}, {Op: "sweepwait"}, {Op: "poll", Poll: "scanids", Key: "kb"}}},
				Case{Steps: []Step{{Op: "setex", Key: "kb", ID: "a", Kind: kind, TTL: ttl, N: 1}, {Op: "rename", Key: "kb"}, {Op: "setex", Key: "kb", ID: "b", Kind: kind, TTL: ttl, N: 2}, {Op: "expire", Key: "ka", ID: "a", TTL: 7500}, {Op: "wait", Ms: ttl, N: 1}}, Follower: ph%2 == 1},
			)
			names = append(names, fmt.Sprintf("keyorder/%s/ttl%d/far-first", kind, ttl), fmt.Sprintf("keyorder/%s/ttl%d/same-sweep-3-collections", kind, ttl), fmt.Sprintf("keyorder/%s/ttl%d/rename-far-first", kind, ttl))
		}
	}
	if ev.Shards() > 1 {
		var cs2 []Case
		var n2 []string
		for i := range cases {
			if i%ev.Shards() == ev.Shard() {
				cs2, n2 = append(cs2, cases[i]), append(n2, names[i])
			}
		}
		cases, names = cs2, n2
	}
	outs := runParallel(cases, ev.Pick(24, 14))
	reported := map[string]bool{}
	for _, o := range outs {
		c.Case()
		for l, k := range o.res.Labels {
			c.LabelN(l, k)
		}
		for _, s := range o.res.Incon {
			c.Inconclusive("%s: %s", names[o.idx], s)
		}
		if o.res.V == nil && o.res.NonTrivial && len(o.res.Incon) == 0 {
			c.NonTrivial(names[o.idx])
			if c.WantSample() {
				c.Sample(map[string]any{"shape": names[o.idx], "labels": keysOf(o.res.Labels)})
			}
		}
		if o.res.V != nil && !reported[o.res.V.Key] && len(reported) < 3 {
			reported[o.res.V.Key] = true
			cs, res, note := confirmAndShrink(o.cs, o.res.V.Key, o.res, 16)
			path := c.Violation(res.V.Key, names[o.idx]+": "+res.V.What+" ["+note+"]", replayData{Case: cs, Note: note, History: tail(res.History, 120)})
			t.Errorf("VIOLATION-CANDIDATE key=%s: %s (replay %s)", res.V.Key, res.V.What, path)
		}
	}
}

// TestC14_Probes holds deterministic regression probes for repaired defects
// that the reads of this property depend on.
func TestC14_Probes(t *testing.T) {
	c := ev.New("C14", "probes", "exploration")
	t.Cleanup(c.Flush)
	c.Rule("deterministic probes: SEARCH key COUNT counts only string objects (regression of search-count-shortcut, used by the count reads of the timed sub-check); SET EX 9999999999999999999999, EXPIRE 1e30 and SETCHAN EX 1e22 survive a canary-proved sweep and report a TTL of at least 1e9 s (regression of expiry-overflow-huge-ex)")
	srv, err := startServer("")
	if err != nil {
		t.Fatal(err)
	}
	defer srv.Stop()
	conn := srv.MustDial()
	defer conn.Close()
	c.Case()
	conn.MustDo("SET", "k", "p", "POINT", "33", "-115")
	conn.MustDo("SET", "k", "s", "EX", "100", "STRING", "x")
	if v := conn.MustDo("SEARCH", "k", "COUNT"); v.Kind != ':' || v.Int != 1 {
		c.Violation("search-count-shortcut", "SEARCH k COUNT = "+v.String()+" with one point and one string in k", map[string]any{"cmds": []string{"SET k p POINT 33 -115", "SET k s EX 100 STRING x", "SEARCH k COUNT"}})
		t.Errorf("search-count-shortcut regressed: %s", v)
	}
	c.NonTrivial("search-count")
	c.Case()
	bad, err := hugeEXProbe()
	switch {
	case err != nil:
		c.Inconclusive("huge EX probe: %v", err)
	case bad != "":
		c.Violation("expiry-overflow-huge-ex", bad, map[string]any{"probe": "huge-ex"})
		t.Errorf("expiry-overflow-huge-ex regressed: %s", bad)
	default:
		c.NonTrivial("huge-ex")
	}
	// observation only (reported to the lead, not asserted): JSET / JDEL rebuild the
	// object with deadline 0, i.e. silently make an object with a TTL permanent
	conn.MustDo("SET", "kj", "a", "EX", "5", "STRING", `{"a":1}`)
	conn.MustDo("JSET", "kj", "a", "b", "2")
	if v := conn.MustDo("TTL", "kj", "a"); v.Kind == ':' && v.Int == -1 {
		c.Label("impl-mirrored:jset-drops-the-deadline")
	} else {
		c.Label("jset-keeps-the-deadline")
	}
}

// followerProbe reproduces findingFollower directly: an object with a short
// TTL is watched on a caught-up follower; as soon as the follower stops serving
// it the leader is asked to PERSIST it. If the leader answers 1 the leader had
// not expired the object (no del was logged), so the follower removed it on
// its own; the object is then permanent on the leader and absent on the
// follower.
func followerProbe(trials int) (reproduced bool, what string, err error) {
	lead, err := startServer("")
	if err != nil {
		return false, "", err
	}
	defer lead.Stop()
	// the sweepers tick every 200 ms from server start: start the follower half
	// a period later so that its ticks fall between the leader's
	time.Sleep(100 * time.Millisecond)
	fol, err := startServer("")
	if err != nil {
		return false, "", err
	}
	defer fol.Stop()
	lc, fc := lead.MustDial(), fol.MustDial()
	defer lc.Close()
	defer fc.Close()
	if v, err := fc.Do("FOLLOW", "127.0.0.1", fmt.Sprint(lead.Port)); err != nil || v.IsErr() {
		return false, "", fmt.Errorf("FOLLOW: %v %v", v, err)
	}
	t0 := time.Now()
	for {
		v, err := fc.Do("SERVER")
		if err == nil && serverField(v, "caught_up") == "true" {
			break
		}
		if time.Since(t0) > 10*time.Second {
			return false, "", fmt.Errorf("follower did not catch up")
		}
		time.Sleep(5 * time.Millisecond)
	}
	for i := 0; i < trials; i++ {
		id := fmt.Sprintf("x%d", i)
		// both sweepers tick every 200 ms with a fixed relative phase; move the
		// deadline through that period from trial to trial
		time.Sleep(time.Duration(i*37%200) * time.Millisecond)
		if _, err := lc.Do("SET", "kf", id, "EX", "0.2", "POINT", "33", "-115"); err != nil {
			return false, "", err
		}
		seen := false
		start := time.Now()
		for time.Since(start) < 2*time.Second {
			v, err := fc.Do("GET", "kf", id)
			if err != nil {
				return false, "", err
			}
			if !v.Null && !v.IsErr() {
				seen = true
			} else if seen {
				pv, err := lc.Do("PERSIST", "kf", id)
				if err != nil {
					return false, "", err
				}
				if pv.Kind == ':' && pv.Int == 1 {
					// let the PERSIST reach the follower: a later marker is visible there
					lc.Do("SET", "kf", "m"+id, "STRING", "x")
					for w := time.Now(); time.Since(w) < 5*time.Second; time.Sleep(2 * time.Millisecond) {
						if mv, _ := fc.Do("EXISTS", "kf", "m"+id); mv.Kind == ':' && mv.Int == 1 {
							break
						}
					}
					lg, _ := lc.Do("GET", "kf", id)
					lt, _ := lc.Do("TTL", "kf", id)
					fg, _ := fc.Do("GET", "kf", id)
					if !lg.Null && fg.Null {
						return true, fmt.Sprintf("trial %d: SET kf %s EX 0.2 on the leader; %v later the caught-up follower stopped serving it while the leader still did (PERSIST kf %s => 1, no del in the leader's log); afterwards leader GET => %s, TTL => %s, follower GET => %s: the follower expired the object on its own clock and now permanently lacks an object the leader serves",
							i, id, time.Since(start).Round(time.Millisecond), id, lg, lt, fg), nil
					}
				}
				break
			}
			time.Sleep(300 * time.Microsecond)
		}
	}
	return false, "", nil
}

// TestC14_FollowerProbe is the deterministic probe of findingFollower.
func TestC14_FollowerProbe(t *testing.T) {
	c := ev.New("C14", "followerprobe", "exploration")
	t.Cleanup(c.Flush)
	c.Rule("directed probe (regression of the repaired finding follower-expires-independently): up to 8 (thorough 16) objects with EX 0.2 on a leader with a caught-up follower; the first time the follower stops serving one, PERSIST it on the leader; reproduced when the leader answers 1 (it had not expired the object) and the follower never gets the object back. Non-trivial: the probe reached a verdict.")
	c.Case()
	ok, what, err := followerProbe(ev.Pick(8, 16))
	if err != nil {
		c.Inconclusive("follower probe: %v", err)
		return
	}
	c.NonTrivial("follower-probe")
	if !ok {
		c.Label("follower-never-expired-ahead-of-leader")
		return
	}
	c.Label("follower-expired-ahead-of-leader")
	if ev.KnownActive(findingFollower) { // inert while the finding is listed as fixed
		c.Known(findingFollower, what)
		return
	}
	c.Violation(findingFollower, what, map[string]any{"probe": "follower"})
	t.Errorf("VIOLATION-CANDIDATE key=%s: %s", findingFollower, what)
}

func TestReplay(t *testing.T) {
	doc, ok := ev.ReplayFile()
	if !ok {
		t.Skip("no replay file")
	}
	c := ev.New("C14", "replay", "exploration")
	t.Cleanup(c.Flush)
	switch doc.Check {
	case "timed", "scripted", "replay":
		var rd replayData
		if err := json.Unmarshal(doc.Data, &rd); err != nil {
			t.Fatalf("bad replay data: %v", err)
		}
		// the outcome depends on real time: give the history a few chances
		for i := 0; i < 5; i++ {
			c.Case()
			res := runCase(rd.Case)
			for _, s := range res.Incon {
				c.Inconclusive("%s", s)
			}
			if res.V != nil {
				c.Violation(res.V.Key, res.V.What, replayData{Case: rd.Case, History: tail(res.History, 120)})
				t.Errorf("VIOLATION-CANDIDATE key=%s: %s\n%s", res.V.Key, res.V.What, strings.Join(tail(res.History, 40), "\n"))
				return
			}
		}
	case "sweeprace":
		replaySweepRace(t, c, doc.Data)
	case "roles":
		replayRoles(t, c, doc.Data)
	case "readload":
		replayReadLoad(t, c, doc.Data)
	case "probes":
		c.Case()
		if bad, err := hugeEXProbe(); err == nil && bad != "" {
			c.Violation("expiry-overflow-huge-ex", bad, map[string]any{"probe": "huge-ex"})
			t.Errorf("expiry-overflow-huge-ex: %s", bad)
		}
	case "followerprobe":
		c.Case()
		ok, what, err := followerProbe(32)
		if err != nil {
			c.Inconclusive("follower probe: %v", err)
		} else if ok {
			c.Violation(findingFollower, what, map[string]any{"probe": "follower"})
			t.Errorf("VIOLATION-CANDIDATE key=%s: %s", findingFollower, what)
		}
	case "index":
		var p indexProgram
		if err := json.Unmarshal(doc.Data, &p); err != nil {
			t.Fatalf("bad replay data: %v", err)
		}
		c.Case()
		runIndexProgram(t, c, p)
	default:
		t.Fatalf("unknown check %q", doc.Check)
	}
}
